#!/bin/sh
# Builds the worker once from files on disk (fills the Go build cache). Offline.
set -e
cd "$(dirname "$0")"
python3 - <<'PY'
import sys, os
sys.path.insert(0, "driver")
import driver, argparse
a = argparse.Namespace(mutant_dir=None, mutant_name=None)
bins, missing, ov = driver.ensure_built(a, ("cgo", "nocgo", "noliblz4", "nolibzstd"))
for b in bins.values():
    os.remove(b)
print("setup ok; hooks not applied:", missing)
PY

module verifmc

go 1.25.0

require (
	github.com/els0r/goProbe/plugins/contrib/v4 v4.0.0-20250311082229-45a8753b72a7
	github.com/els0r/goProbe/v4 v4.0.0
	github.com/fako1024/gotools/concurrency v0.0.0-20260108133916-d42cb4e89f05
)

require (
	github.com/fako1024/gotools/bitpack v0.0.0-20260108133916-d42cb4e89f05 // indirect
	github.com/json-iterator/go v1.1.12 // indirect
	github.com/klauspost/compress v1.18.6 // indirect
	github.com/klauspost/cpuid/v2 v2.3.0 // indirect
	github.com/modern-go/concurrent v0.0.0-20180306012644-bacd9c7ef1dd // indirect
	github.com/modern-go/reflect2 v1.0.2 // indirect
	github.com/pierrec/lz4/v4 v4.1.26 // indirect
	github.com/zeebo/xxh3 v1.1.0 // indirect
	gopkg.in/yaml.v3 v3.0.1 // indirect
)

replace github.com/els0r/goProbe/v4 => /repo

replace github.com/els0r/goProbe/plugins/contrib/v4 => /repo/plugins/contrib

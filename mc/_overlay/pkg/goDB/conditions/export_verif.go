//go:build verif

package conditions

import "regexp"

// VerifGrammarTable exposes the compiled user-grammar rewrite table (read
// only: callers must not modify the map or the slices). Key = the condition
// grammar operator a rule group rewrites to, value = the group's expressions
// in the order SanitizeUserInput applies them.
func VerifGrammarTable() map[string][]*regexp.Regexp { return regexGrammarConversionMap }

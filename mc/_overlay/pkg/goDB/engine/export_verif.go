//go:build verif

package engine

// VerifSetNumProcessingUnits pins the number of query worker goroutines
// (normally runtime.NumCPU()) and returns the previous value.
func VerifSetNumProcessingUnits(n int) int {
	old := numProcessingUnits
	numProcessingUnits = n
	return old
}

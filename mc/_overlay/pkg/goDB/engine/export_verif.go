//go:build verif

package engine

import "github.com/els0r/goProbe/v4/pkg/types"

// VerifSetNumProcessingUnits pins the number of query worker goroutines
// (normally runtime.NumCPU()) and returns the previous value.
func VerifSetNumProcessingUnits(n int) int {
	old := numProcessingUnits
	numProcessingUnits = n
	return old
}

// VerifParseIfaceList forwards to the comma-separated interface list selection (C16).
func VerifParseIfaceList(lister types.InterfaceLister, ifaceList string) ([]string, error) {
	return parseIfaceListWithCommaSeparatedString(lister, ifaceList)
}

// VerifParseIfaceRegex forwards to the regular-expression interface selection (C16).
func VerifParseIfaceRegex(lister types.InterfaceLister, ifaceRegExp string) ([]string, error) {
	return parseIfaceListWithRegex(lister, ifaceRegExp)
}

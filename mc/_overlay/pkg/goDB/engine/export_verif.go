//go:build verif

package engine

import (
	"context"

	"github.com/els0r/goProbe/v4/pkg/types"
	"github.com/els0r/goProbe/v4/pkg/types/hashmap"
	"github.com/els0r/goProbe/v4/pkg/types/workload"
)

// VerifSetNumProcessingUnits pins the number of query worker goroutines
// (normally runtime.NumCPU()) and returns the previous value.
func VerifSetNumProcessingUnits(n int) int {
	old := numProcessingUnits
	numProcessingUnits = n
	return old
}

// VerifParseIfaceList forwards to the comma-separated interface list selection (C16).
func VerifParseIfaceList(lister types.InterfaceLister, ifaceList string) ([]string, error) {
	return parseIfaceListWithCommaSeparatedString(lister, ifaceList)
}

// VerifParseIfaceRegex forwards to the regular-expression interface selection (C16).
func VerifParseIfaceRegex(lister types.InterfaceLister, ifaceRegExp string) ([]string, error) {
	return parseIfaceListWithRegex(lister, ifaceRegExp)
}

// VerifAggregate forwards to (*QueryRunner).aggregate with a caller-owned map channel and
// unpacks the (unexported) result it delivers once the channel is closed (C11).
func VerifAggregate(ctx context.Context, qr *QueryRunner, mapChan <-chan hashmap.AggFlowMapWithMetadata, ifaces []string, isLowMem bool) (hashmap.NamedAggFlowMapWithMetadata, *workload.Stats, error) {
	res := <-qr.aggregate(ctx, mapChan, nil, ifaces, isLowMem)
	return res.aggregatedMaps, res.stats, res.err
}

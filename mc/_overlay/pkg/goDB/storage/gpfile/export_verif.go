//go:build verif

package gpfile

import "github.com/fako1024/gotools/concurrency"

// VerifResetPools replaces the package-level buffer pools by fresh ones, so that an
// execution of the explorer does not inherit recycled buffers (and their stale
// content) from the executions before it: whatever the code under test reads from a
// recycled buffer is then a deterministic function of the execution itself.
func VerifResetPools() {
	bufPool = concurrency.NewMemPoolNoLimit()
	metaDataMemPool = concurrency.NewMemPoolNoLimit()
}

//go:build verif

package capture

import (
	"context"
	"time"

	"github.com/els0r/goProbe/v4/cmd/goProbe/config"
	"github.com/els0r/goProbe/v4/pkg/capture/capturetypes"
	"github.com/els0r/goProbe/v4/pkg/types/hashmap"
	"github.com/fako1024/gotools/link"
)

// VerifNewCapture forwards to newCapture: a Capture with an empty flow log and
// no packet source (none is ever opened by the callers of this file).
func VerifNewCapture(iface string) *Capture {
	return newCapture(iface, config.CaptureConfig{}, nil)
}

// VerifAddToFlowLogV4 forwards to the unexported addToFlowLogV4.
func (c *Capture) VerifAddToFlowLogV4(epHash capturetypes.EPHashV4, pktType byte, pktSize uint32, auxInfo byte) {
	c.addToFlowLogV4(epHash, pktType, pktSize, auxInfo)
}

// VerifAddToFlowLogV6 forwards to the unexported addToFlowLogV6.
func (c *Capture) VerifAddToFlowLogV6(epHash capturetypes.EPHashV6, pktType byte, pktSize uint32, auxInfo byte) {
	c.addToFlowLogV6(epHash, pktType, pktSize, auxInfo)
}

// VerifFlowLog returns the capture's live flow log (read access through the
// exported FlowsV4/FlowsV6/Len methods).
func (c *Capture) VerifFlowLog() *FlowLog { return c.flowLog }

// VerifBufState exposes the positions of a LocalBuffer (read only; C23): bytes
// written since the last Reset, read position, current length of the data slice.
func VerifBufState(l *LocalBuffer) (writePos, readPos, dataLen int) {
	return l.writeBufPos, l.readBufPos, len(l.data)
}

// VerifBufData returns the data slice currently assigned to a LocalBuffer (what
// bufferPackets hands back to the lock / pool on release; C23).
func VerifBufData(l *LocalBuffer) []byte { return l.data }

// VerifBufElementAddSize is the per-item overhead the buffer accounts for (read only).
const VerifBufElementAddSize = bufElementAddSize

// VerifRotate forwards to the unexported Capture.rotate, the call the Manager
// makes under the capture lock (returns nil for an empty flow log; C20).
func (c *Capture) VerifRotate(ctx context.Context) *hashmap.AggFlowMap { return c.rotate(ctx) }

// VerifSetHostLinks installs fn in the package's host-link lister variable (the
// seam the repository's own manager tests assign to) and returns a function
// restoring the previous lister (C27).
func VerifSetHostLinks(fn func(...string) (link.Links, error)) (restore func()) {
	old := hostLinks
	hostLinks = fn
	return func() { hostLinks = old }
}

// VerifConfig returns the configuration the capture was created with, i.e. what
// its source init function reads (read only; C27).
func (c *Capture) VerifConfig() config.CaptureConfig { return c.config }

// ---- C21 / C29: schedule exploration of the three-point lock -------------------

// VerifPerformWriteout forwards to the manager's periodic write-out path
// (performWriteout: rotate every capture under its three-point lock and hand the
// maps to the write-out handler).
func VerifPerformWriteout(cm *Manager, ctx context.Context, ts time.Time) {
	cm.performWriteout(ctx, ts)
}

// VerifCapture returns the running capture of an interface (nil if there is none).
func VerifCapture(cm *Manager, iface string) *Capture {
	c, _ := cm.captures.Get(iface)
	return c
}

// VerifStats reads the capture's running counters (since the last status call / rotation).
func (c *Capture) VerifStats() capturetypes.CaptureStats { return c.stats }

// VerifLockChannels reads the fill state of the three-point lock: a lock request
// that was not yet taken by process(), an unlock request not yet consumed.
func (c *Capture) VerifLockChannels() (lockRequested, unlockRequested bool) {
	return c.capLock.HasLockRequest(), c.capLock.HasUnlockRequest()
}

// VerifSetInitialBufferSize sets the package's initial local buffer size (page
// size in production) so that a buffer limit of a few packets can be reached, and
// returns the previous value.
func VerifSetInitialBufferSize(n int) (old int) {
	old, initialBufferSize = initialBufferSize, n
	return old
}

// VerifSetLocalBuffers forwards to setLocalBuffers (InitManager calls it after
// applying the options: it builds the pool with the configured number of buffers).
func VerifSetLocalBuffers(cm *Manager) error { return cm.setLocalBuffers() }

//go:build verif

// Package verifhook holds the two non-file-system seams the overlay installs:
// enumeration of map iteration order at named range sites, and the DNS lookup
// of the condition resolver. With nothing installed both behave natively.
package verifhook

import (
	"fmt"
	"iter"
	"net"
	"sort"
	"sync/atomic"
)

// OrderFn returns, for a range site and the number of keys (in canonical
// sorted order), the permutation in which to visit them; nil = native order.
type OrderFn func(site string, keys []string) []int

var orderFn atomic.Pointer[OrderFn]

// SetOrder installs (nil: removes) the order controller.
func SetOrder(f OrderFn) {
	if f == nil {
		orderFn.Store(nil)
		return
	}
	orderFn.Store(&f)
}

// Ordered ranges over m; the visiting order is decided by the installed controller.
func Ordered[K comparable, V any](site string, m map[K]V) iter.Seq2[K, V] {
	return func(yield func(K, V) bool) {
		fp := orderFn.Load()
		if fp == nil {
			for k, v := range m {
				if !yield(k, v) {
					return
				}
			}
			return
		}
		keys := make([]K, 0, len(m))
		for k := range m {
			keys = append(keys, k)
		}
		names := make([]string, len(keys))
		idx := make([]int, len(keys))
		for i, k := range keys {
			names[i] = fmt.Sprint(k)
			idx[i] = i
		}
		sort.Slice(idx, func(a, b int) bool { return names[idx[a]] < names[idx[b]] })
		sorted := make([]string, len(keys))
		for i, j := range idx {
			sorted[i] = names[j]
		}
		perm := (*fp)(site, sorted)
		if perm == nil {
			perm = make([]int, len(keys))
			for i := range perm {
				perm[i] = i
			}
		}
		for _, p := range perm {
			k := keys[idx[p]]
			if !yield(k, m[k]) {
				return
			}
		}
	}
}

// LookupFn answers a host lookup; nil = real resolver.
type LookupFn func(host string) ([]string, error)

var lookupFn atomic.Pointer[LookupFn]

// SetLookup installs (nil: removes) the DNS answerer.
func SetLookup(f LookupFn) {
	if f == nil {
		lookupFn.Store(nil)
		return
	}
	lookupFn.Store(&f)
}

// LookupHost replaces net.LookupHost in the condition resolver.
func LookupHost(host string) ([]string, error) {
	if fp := lookupFn.Load(); fp != nil {
		return (*fp)(host)
	}
	return net.LookupHost(host)
}

// YieldFn is called at a named scheduling point by the goroutine that reached it
// and returns when that goroutine may continue; nil = no scheduling point.
type YieldFn func(site string)

var yieldFn atomic.Pointer[YieldFn]

// SetYield installs (nil: removes) the scheduler of the Yield points.
func SetYield(f YieldFn) {
	if f == nil {
		yieldFn.Store(nil)
		return
	}
	yieldFn.Store(&f)
}

// Yield marks a scheduling point.
func Yield(site string) {
	if fp := yieldFn.Load(); fp != nil {
		(*fp)(site)
	}
}

//go:build verif

// Package vos mirrors the part of package os that goProbe's persistence code
// uses. The verification overlay rewrites `import "os"` in those files to this
// package. With no controller installed every call forwards to package os
// unchanged. With a controller installed, every file-system step (one system
// call) is announced to the controller first, which can let it proceed, make
// it fail with an errno, make a write partial, block the calling goroutine
// (step scheduling) or "kill the process" (crash: the step is not performed
// and every later step panics without touching the file system).
package vos

import (
	"errors"
	"fmt"
	"io"
	"io/fs"
	"os"
	"path/filepath"
	"sort"
	"strings"
	"sync"
	"sync/atomic"
	"syscall"
	"time"
)

// ---- pass-through surface -------------------------------------------------

type (
	FileMode   = os.FileMode
	FileInfo   = os.FileInfo
	DirEntry   = os.DirEntry
	PathError  = os.PathError
	LinkError  = os.LinkError
	Signal     = os.Signal
	SyscallErr = os.SyscallError
	Process    = os.Process
	ProcAttr   = os.ProcAttr
	ProcState  = os.ProcessState
	Root       = os.Root
)

const (
	O_RDONLY = os.O_RDONLY
	O_WRONLY = os.O_WRONLY
	O_RDWR   = os.O_RDWR
	O_APPEND = os.O_APPEND
	O_CREATE = os.O_CREATE
	O_EXCL   = os.O_EXCL
	O_SYNC   = os.O_SYNC
	O_TRUNC  = os.O_TRUNC

	SEEK_SET = os.SEEK_SET
	SEEK_CUR = os.SEEK_CUR
	SEEK_END = os.SEEK_END

	PathSeparator     = os.PathSeparator
	PathListSeparator = os.PathListSeparator
	DevNull           = os.DevNull

	ModeDir        = os.ModeDir
	ModeAppend     = os.ModeAppend
	ModeExclusive  = os.ModeExclusive
	ModeTemporary  = os.ModeTemporary
	ModeSymlink    = os.ModeSymlink
	ModeDevice     = os.ModeDevice
	ModeNamedPipe  = os.ModeNamedPipe
	ModeSocket     = os.ModeSocket
	ModeSetuid     = os.ModeSetuid
	ModeSetgid     = os.ModeSetgid
	ModeCharDevice = os.ModeCharDevice
	ModeSticky     = os.ModeSticky
	ModeIrregular  = os.ModeIrregular
	ModeType       = os.ModeType
	ModePerm       = os.ModePerm
)

var (
	ErrInvalid          = os.ErrInvalid
	ErrPermission       = os.ErrPermission
	ErrExist            = os.ErrExist
	ErrNotExist         = os.ErrNotExist
	ErrClosed           = os.ErrClosed
	ErrNoDeadline       = os.ErrNoDeadline
	ErrDeadlineExceeded = os.ErrDeadlineExceeded
	ErrProcessDone      = os.ErrProcessDone

	Stdin  = os.Stdin
	Stdout = os.Stdout
	Stderr = os.Stderr
	Args   = os.Args

	Interrupt = os.Interrupt
	Kill      = os.Kill

	IsExist         = os.IsExist
	IsNotExist      = os.IsNotExist
	IsPermission    = os.IsPermission
	IsTimeout       = os.IsTimeout
	IsPathSeparator = os.IsPathSeparator

	Getenv          = os.Getenv
	LookupEnv       = os.LookupEnv
	Setenv          = os.Setenv
	Unsetenv        = os.Unsetenv
	Environ         = os.Environ
	Clearenv        = os.Clearenv
	Expand          = os.Expand
	ExpandEnv       = os.ExpandEnv
	Exit            = os.Exit
	Getpid          = os.Getpid
	Getppid         = os.Getppid
	Getuid          = os.Getuid
	Geteuid         = os.Geteuid
	Getgid          = os.Getgid
	Getegid         = os.Getegid
	Getgroups       = os.Getgroups
	Getpagesize     = os.Getpagesize
	Hostname        = os.Hostname
	TempDir         = os.TempDir
	UserHomeDir     = os.UserHomeDir
	UserCacheDir    = os.UserCacheDir
	UserConfigDir   = os.UserConfigDir
	Executable      = os.Executable
	Getwd           = os.Getwd
	Chdir           = os.Chdir
	SameFile        = os.SameFile
	DirFS           = os.DirFS
	NewSyscallError = os.NewSyscallError
	FindProcess     = os.FindProcess
	Readlink        = os.Readlink
	Chtimes         = os.Chtimes
	Chown           = os.Chown
	Lchown          = os.Lchown
)

// ---- controller -------------------------------------------------------------

// Op describes one file-system step about to be performed.
type Op struct {
	Kind     string // mkdir, open, write, read, close, rename, unlink, rmdir, chmod, stat, readdir, truncate, sync, symlink, link
	Path     string
	Path2    string // rename/link target
	N        int    // bytes for read/write
	Flags    int    // open flags
	Mutating bool   // changes the directory tree or file contents
	GID      uint64 // calling goroutine (filled only if the controller asks for it)
}

func (o Op) String() string {
	if o.Path2 != "" {
		return fmt.Sprintf("%s(%s -> %s)", o.Kind, o.Path, o.Path2)
	}
	if o.Kind == "write" || o.Kind == "read" {
		return fmt.Sprintf("%s(%s, %dB)", o.Kind, o.Path, o.N)
	}
	return fmt.Sprintf("%s(%s)", o.Kind, o.Path)
}

// Action is the controller's answer to a step.
type Action struct {
	Err     error // non-nil: the step is not performed (except Partial bytes of a write) and returns Err
	Partial int   // for write with Err or Crash: number of leading bytes that still reach the file
	Crash   bool  // the process dies before this step (after Partial bytes of a write)
}

// Controller decides every step.
type Controller interface {
	Step(op Op) Action
	// TempName returns the name replacing the '*' of CreateTemp/MkdirTemp patterns
	// (owns the randomness of temp names).
	TempName() string
}

// Observer is an optional extension of Controller: it is told a hash of what a
// read-type step returned (directory names, bytes read, sizes, errors), which
// is what the calling thread can base its future behaviour on.
type Observer interface {
	Observe(op Op, result uint64)
}

func observe(op Op, parts ...any) {
	b := ctl.Load()
	if b == nil {
		return
	}
	o, ok := b.c.(Observer)
	if !ok {
		return
	}
	h := uint64(14695981039346656037)
	for _, c := range fmt.Sprint(parts...) {
		h = (h ^ uint64(c)) * 1099511628211
	}
	o.Observe(op, h)
}

func hashBytes(p []byte) uint64 {
	h := uint64(14695981039346656037)
	for _, c := range p {
		h = (h ^ uint64(c)) * 1099511628211
	}
	return h
}

func names(ents []os.DirEntry) string {
	n := make([]string, len(ents))
	for i, e := range ents {
		n[i] = e.Name()
	}
	return strings.Join(n, ",")
}

// Crashed is the panic value raised at and after a crash point.
type Crashed struct{ At Op }

func (c Crashed) Error() string { return "vos: process killed before " + c.At.String() }

var (
	ctl  atomic.Pointer[ctlBox]
	dead atomic.Bool
)

type ctlBox struct{ c Controller }

// SetController installs (or, with nil, removes) the controller and clears the dead flag.
func SetController(c Controller) {
	dead.Store(false)
	if c == nil {
		ctl.Store(nil)
		return
	}
	ctl.Store(&ctlBox{c})
}

// Active reports whether a controller is installed.
func Active() bool { return ctl.Load() != nil }

// step announces op; it returns the action to apply. It panics with Crashed
// when the process is (or becomes) dead.
func step(op Op) (Action, bool) {
	b := ctl.Load()
	if b == nil {
		return Action{}, false
	}
	if dead.Load() {
		panic(Crashed{At: op})
	}
	a := b.c.Step(op)
	if a.Crash && a.Partial == 0 {
		dead.Store(true)
		panic(Crashed{At: op})
	}
	return a, true
}

func pathErr(op, path string, err error) error {
	var pe *os.PathError
	if errors.As(err, &pe) {
		return err
	}
	return &os.PathError{Op: op, Path: path, Err: err}
}

// ---- File -------------------------------------------------------------------

// File wraps *os.File. It deliberately does not implement io.ReaderFrom /
// io.WriterTo so that io.Copy decomposes into visible Read and Write steps.
type File struct {
	f    *os.File
	name string
}

// Raw returns the wrapped *os.File.
func (f *File) Raw() *os.File { return f.f }

func wrap(f *os.File, err error) (*File, error) {
	if err != nil {
		return nil, err
	}
	return &File{f: f, name: f.Name()}, nil
}

func (f *File) Name() string {
	if f == nil {
		panic("vos: Name of nil *File") // os.(*File).Name panics as well
	}
	return f.name
}
func (f *File) Fd() uintptr { return f.f.Fd() }

func (f *File) Read(p []byte) (int, error) {
	if f == nil {
		return 0, os.ErrInvalid
	}
	op := Op{Kind: "read", Path: f.name, N: len(p)}
	a, on := step(op)
	if on && a.Err != nil {
		return 0, pathErr("read", f.name, a.Err)
	}
	n, err := f.f.Read(p)
	if on {
		observe(op, n, err, hashBytes(p[:n]))
	}
	return n, err
}

func (f *File) ReadAt(p []byte, off int64) (int, error) {
	if f == nil {
		return 0, os.ErrInvalid
	}
	op := Op{Kind: "read", Path: f.name, N: len(p)}
	a, on := step(op)
	if on && a.Err != nil {
		return 0, pathErr("read", f.name, a.Err)
	}
	n, err := f.f.ReadAt(p, off)
	if on {
		observe(op, n, err, hashBytes(p[:n]))
	}
	return n, err
}

func (f *File) write(p []byte, do func([]byte) (int, error)) (int, error) {
	if f == nil {
		return 0, os.ErrInvalid
	}
	a, on := step(Op{Kind: "write", Path: f.name, N: len(p), Mutating: true})
	if on && (a.Err != nil || a.Crash) {
		n := 0
		if a.Partial > 0 {
			k := a.Partial
			if k > len(p) {
				k = len(p)
			}
			n, _ = do(p[:k])
		}
		if a.Crash {
			dead.Store(true)
			panic(Crashed{At: Op{Kind: "write", Path: f.name, N: len(p), Mutating: true}})
		}
		return n, pathErr("write", f.name, a.Err)
	}
	return do(p)
}

func (f *File) Write(p []byte) (int, error) {
	if f == nil {
		return 0, os.ErrInvalid
	}
	return f.write(p, f.f.Write)
}
func (f *File) WriteAt(p []byte, off int64) (int, error) {
	if f == nil {
		return 0, os.ErrInvalid
	}
	return f.write(p, func(b []byte) (int, error) { return f.f.WriteAt(b, off) })
}
func (f *File) WriteString(s string) (int, error) { return f.Write([]byte(s)) }

func (f *File) Seek(offset int64, whence int) (int64, error) {
	if f == nil {
		return 0, os.ErrInvalid
	}
	return f.f.Seek(offset, whence)
}

func (f *File) Close() error {
	if f == nil {
		return os.ErrInvalid
	}
	if a, on := step(Op{Kind: "close", Path: f.name}); on && a.Err != nil {
		f.f.Close() // the descriptor is released even when close reports an error
		return pathErr("close", f.name, a.Err)
	}
	return f.f.Close()
}

func (f *File) Stat() (os.FileInfo, error) {
	if f == nil {
		return nil, os.ErrInvalid
	}
	op := Op{Kind: "stat", Path: f.name}
	a, on := step(op)
	if on && a.Err != nil {
		return nil, pathErr("stat", f.name, a.Err)
	}
	fi, err := f.f.Stat()
	if on && err == nil {
		observe(op, fi.Size(), fi.IsDir())
	} else if on {
		observe(op, err)
	}
	return fi, err
}

func (f *File) Sync() error {
	if f == nil {
		return os.ErrInvalid
	}
	if a, on := step(Op{Kind: "sync", Path: f.name}); on && a.Err != nil {
		return pathErr("sync", f.name, a.Err)
	}
	return f.f.Sync()
}

func (f *File) Truncate(size int64) error {
	if f == nil {
		return os.ErrInvalid
	}
	if a, on := step(Op{Kind: "truncate", Path: f.name, Mutating: true}); on && a.Err != nil {
		return pathErr("truncate", f.name, a.Err)
	}
	return f.f.Truncate(size)
}

func (f *File) Chmod(mode os.FileMode) error {
	if f == nil {
		return os.ErrInvalid
	}
	if a, on := step(Op{Kind: "chmod", Path: f.name, Mutating: true}); on && a.Err != nil {
		return pathErr("chmod", f.name, a.Err)
	}
	return f.f.Chmod(mode)
}

func (f *File) Chown(uid, gid int) error {
	if f == nil {
		return os.ErrInvalid
	}
	return f.f.Chown(uid, gid)
}

func (f *File) ReadDir(n int) ([]os.DirEntry, error) {
	if f == nil {
		return nil, os.ErrInvalid
	}
	if a, on := step(Op{Kind: "readdir", Path: f.name}); on && a.Err != nil {
		return nil, pathErr("readdir", f.name, a.Err)
	}
	return f.f.ReadDir(n)
}

func (f *File) Readdir(n int) ([]os.FileInfo, error) {
	if f == nil {
		return nil, os.ErrInvalid
	}
	if a, on := step(Op{Kind: "readdir", Path: f.name}); on && a.Err != nil {
		return nil, pathErr("readdir", f.name, a.Err)
	}
	return f.f.Readdir(n)
}

func (f *File) Readdirnames(n int) ([]string, error) {
	if f == nil {
		return nil, os.ErrInvalid
	}
	if a, on := step(Op{Kind: "readdir", Path: f.name}); on && a.Err != nil {
		return nil, pathErr("readdir", f.name, a.Err)
	}
	return f.f.Readdirnames(n)
}

func (f *File) SetDeadline(t time.Time) error      { return f.f.SetDeadline(t) }
func (f *File) SetReadDeadline(t time.Time) error  { return f.f.SetReadDeadline(t) }
func (f *File) SetWriteDeadline(t time.Time) error { return f.f.SetWriteDeadline(t) }

var _ io.ReadWriteSeeker = (*File)(nil)

// ---- functions ----------------------------------------------------------------

func exists(p string) bool { _, err := os.Lstat(p); return err == nil }

func OpenFile(name string, flag int, perm os.FileMode) (*File, error) {
	mut := flag&os.O_TRUNC != 0 || (flag&os.O_CREATE != 0 && Active() && !exists(name))
	op := Op{Kind: "open", Path: name, Flags: flag, Mutating: mut}
	a, on := step(op)
	if on && a.Err != nil {
		return nil, pathErr("open", name, a.Err)
	}
	f, err := wrap(os.OpenFile(name, flag, perm))
	if on {
		observe(op, err)
	}
	return f, err
}

func Open(name string) (*File, error) { return OpenFile(name, os.O_RDONLY, 0) }
func Create(name string) (*File, error) {
	return OpenFile(name, os.O_RDWR|os.O_CREATE|os.O_TRUNC, 0666)
}

func NewFile(fd uintptr, name string) *File {
	f := os.NewFile(fd, name)
	if f == nil {
		return nil
	}
	return &File{f: f, name: name}
}

func Mkdir(name string, perm os.FileMode) error {
	if a, on := step(Op{Kind: "mkdir", Path: name, Mutating: true}); on && a.Err != nil {
		return pathErr("mkdir", name, a.Err)
	}
	return os.Mkdir(name, perm)
}

// MkdirAll performs one mkdir step per missing path component.
func MkdirAll(path string, perm os.FileMode) error {
	if !Active() {
		return os.MkdirAll(path, perm)
	}
	path = filepath.Clean(path)
	var missing []string
	for p := path; ; p = filepath.Dir(p) {
		fi, err := os.Stat(p)
		if err == nil {
			if !fi.IsDir() {
				return &os.PathError{Op: "mkdir", Path: p, Err: syscall.ENOTDIR}
			}
			break
		}
		missing = append(missing, p)
		if p == filepath.Dir(p) {
			break
		}
	}
	for i := len(missing) - 1; i >= 0; i-- {
		if err := Mkdir(missing[i], perm); err != nil && !os.IsExist(err) {
			return err
		}
	}
	return nil
}

func Remove(name string) error {
	kind := "unlink"
	if fi, err := os.Lstat(name); err == nil && fi.IsDir() {
		kind = "rmdir"
	}
	if a, on := step(Op{Kind: kind, Path: name, Mutating: true}); on && a.Err != nil {
		return pathErr("remove", name, a.Err)
	}
	return os.Remove(name)
}

// RemoveAll performs one unlink/rmdir step per entry, children first, in name order.
func RemoveAll(path string) error {
	if !Active() {
		return os.RemoveAll(path)
	}
	fi, err := os.Lstat(path)
	if err != nil {
		if os.IsNotExist(err) {
			return nil
		}
		return err
	}
	if fi.IsDir() {
		ents, err := os.ReadDir(path)
		if err != nil {
			return err
		}
		for _, e := range ents {
			if err := RemoveAll(filepath.Join(path, e.Name())); err != nil {
				return err
			}
		}
	}
	err = Remove(path)
	if err != nil && os.IsNotExist(err) {
		return nil
	}
	return err
}

func Rename(oldpath, newpath string) error {
	if a, on := step(Op{Kind: "rename", Path: oldpath, Path2: newpath, Mutating: true}); on && a.Err != nil {
		return &os.LinkError{Op: "rename", Old: oldpath, New: newpath, Err: a.Err}
	}
	return os.Rename(oldpath, newpath)
}

func Link(oldname, newname string) error {
	if a, on := step(Op{Kind: "link", Path: oldname, Path2: newname, Mutating: true}); on && a.Err != nil {
		return &os.LinkError{Op: "link", Old: oldname, New: newname, Err: a.Err}
	}
	return os.Link(oldname, newname)
}

func Symlink(oldname, newname string) error {
	if a, on := step(Op{Kind: "symlink", Path: oldname, Path2: newname, Mutating: true}); on && a.Err != nil {
		return &os.LinkError{Op: "symlink", Old: oldname, New: newname, Err: a.Err}
	}
	return os.Symlink(oldname, newname)
}

func Chmod(name string, mode os.FileMode) error {
	if a, on := step(Op{Kind: "chmod", Path: name, Mutating: true}); on && a.Err != nil {
		return pathErr("chmod", name, a.Err)
	}
	return os.Chmod(name, mode)
}

func Truncate(name string, size int64) error {
	if a, on := step(Op{Kind: "truncate", Path: name, Mutating: true}); on && a.Err != nil {
		return pathErr("truncate", name, a.Err)
	}
	return os.Truncate(name, size)
}

func Stat(name string) (os.FileInfo, error) {
	op := Op{Kind: "stat", Path: name}
	a, on := step(op)
	if on && a.Err != nil {
		return nil, pathErr("stat", name, a.Err)
	}
	fi, err := os.Stat(name)
	if on && err == nil {
		observe(op, fi.Size(), fi.IsDir())
	} else if on {
		observe(op, err)
	}
	return fi, err
}

func Lstat(name string) (os.FileInfo, error) {
	if a, on := step(Op{Kind: "stat", Path: name}); on && a.Err != nil {
		return nil, pathErr("lstat", name, a.Err)
	}
	return os.Lstat(name)
}

func ReadDir(name string) ([]os.DirEntry, error) {
	op := Op{Kind: "readdir", Path: name}
	a, on := step(op)
	if on && a.Err != nil {
		return nil, pathErr("open", name, a.Err)
	}
	ents, err := os.ReadDir(name)
	if on {
		observe(op, names(ents), err)
	}
	return ents, err
}

// ReadFile = open + read + close.
func ReadFile(name string) ([]byte, error) {
	if !Active() {
		return os.ReadFile(name)
	}
	f, err := Open(name)
	if err != nil {
		return nil, err
	}
	if a, on := step(Op{Kind: "read", Path: name}); on && a.Err != nil {
		f.f.Close()
		return nil, pathErr("read", name, a.Err)
	}
	data, err := io.ReadAll(f.f)
	if cerr := f.Close(); err == nil && cerr != nil {
		_ = cerr // os.ReadFile ignores close errors on a read-only descriptor
	}
	return data, err
}

// WriteFile = open(O_WRONLY|O_CREATE|O_TRUNC) + write + close.
func WriteFile(name string, data []byte, perm os.FileMode) error {
	if !Active() {
		return os.WriteFile(name, data, perm)
	}
	f, err := OpenFile(name, os.O_WRONLY|os.O_CREATE|os.O_TRUNC, perm)
	if err != nil {
		return err
	}
	_, err = f.Write(data)
	if err1 := f.Close(); err1 != nil && err == nil {
		err = err1
	}
	return err
}

func tempName(pattern string) (string, bool) {
	b := ctl.Load()
	if b == nil {
		return "", false
	}
	r := b.c.TempName()
	if i := strings.LastIndex(pattern, "*"); i >= 0 {
		return pattern[:i] + r + pattern[i+1:], true
	}
	return pattern + r, true
}

func CreateTemp(dir, pattern string) (*File, error) {
	name, on := tempName(pattern)
	if !on {
		return wrap(os.CreateTemp(dir, pattern))
	}
	if dir == "" {
		dir = os.TempDir()
	}
	return OpenFile(filepath.Join(dir, name), os.O_RDWR|os.O_CREATE|os.O_EXCL, 0600)
}

func MkdirTemp(dir, pattern string) (string, error) {
	name, on := tempName(pattern)
	if !on {
		return os.MkdirTemp(dir, pattern)
	}
	if dir == "" {
		dir = os.TempDir()
	}
	p := filepath.Join(dir, name)
	if err := Mkdir(p, 0700); err != nil {
		return "", err
	}
	return p, nil
}

// ---- small helpers for harnesses ---------------------------------------------

// Tree returns a canonical listing (path, type, size, content hash) of root.
func Tree(root string) []string {
	var out []string
	filepath.Walk(root, func(p string, fi fs.FileInfo, err error) error {
		if err != nil {
			return nil
		}
		rel, _ := filepath.Rel(root, p)
		if fi.IsDir() {
			out = append(out, rel+"/")
		} else {
			out = append(out, fmt.Sprintf("%s %d", rel, fi.Size()))
		}
		return nil
	})
	sort.Strings(out)
	return out
}

var _ = sync.Mutex{}

//go:build verif

package hashmap

// VerifSetSeed fixes the hash seed of an empty map (owns runtime.fastrand64).
func VerifSetSeed(m *Map, seed uint64) {
	if m.count != 0 {
		panic("VerifSetSeed on non-empty map")
	}
	m.seed = seed
}

// VerifShape exposes the growth stage of a map (read only).
func VerifShape(m *Map) (nBuckets int, growing, sameSize bool, nEvacuate int, nOverflow uint32) {
	if m == nil {
		return
	}
	return len(m.buckets), m.oldBuckets != nil, m.flags&sameSizeGrow != 0, m.nEvacuate, m.nOverflow
}

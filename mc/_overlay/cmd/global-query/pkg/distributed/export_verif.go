//go:build verif

package distributed

import (
	"context"

	"github.com/els0r/goProbe/v4/pkg/query"
	"github.com/els0r/goProbe/v4/pkg/results"
)

// VerifFinalizeResult forwards to finalizeResult (sort the merged rows, post-process, apply the limit).
func VerifFinalizeResult(ctx context.Context, res *results.Result, stmt *query.Statement, rowMap results.RowsMap, limitUpperBound uint64) {
	finalizeResult(ctx, res, stmt, rowMap, limitUpperBound)
}

// Package explore is a stateless, deviation-bounded depth-first explorer over
// choice sequences. A scenario is an ordinary Go function that builds a fresh
// instance of the real code under test and asks the explorer for every source
// of variation (input element, next operation, crash point, errno, which
// goroutine goes next). The explorer re-executes the scenario once per choice
// sequence; nothing is sampled.
package explore

import (
	"encoding/json"
	"fmt"
	"hash/fnv"
	"os"
	"runtime/debug"
	"sort"
	"strings"
	"time"
)

// Point is one choice point met during an execution.
type Point struct {
	N     int    // number of alternatives
	Dev   bool   // alternatives > 0 cost one deviation
	Label string // what is being chosen (checked when replaying a prefix)
}

// Violation describes one failed oracle.
type Violation struct {
	Case      int      `json:"case"`
	Signature string   `json:"signature"` // normal form used to match known findings
	Message   string   `json:"message"`
	Choices   []int    `json:"choices"`
	Labels    []string `json:"labels,omitempty"`
	Log       []string `json:"log,omitempty"`
	Count     int      `json:"count"` // executions with this signature
}

type stop struct{}

// Ctx is handed to the scenario for one execution.
type Ctx struct {
	Case int
	Tier string // "quick" | "thorough"

	r       *Runner
	prefix  []int
	choices []int
	points  []Point
	devs    []int // deviations used before point i
	ndev    int

	logging bool
	log     []string
	trans   int
	obs     uint64
	ntKeys  []uint64
	viol    *Violation
	cut     bool
	// Scratch is free for the scenario (e.g. temp dir path).
	Scratch any
}

// Thorough reports whether the thorough tier was requested.
func (x *Ctx) Thorough() bool { return x.Tier == "thorough" }

func (x *Ctx) point(n int, dev bool, label string) int {
	if n <= 0 {
		panic(fmt.Sprintf("explore: choice point %q with n=%d", label, n))
	}
	i := len(x.points)
	c := 0
	if i < len(x.prefix) {
		c = x.prefix[i]
		if c >= n {
			panic(harnessError(fmt.Sprintf("replay divergence at point %d (%s): choice %d out of range %d — uncaptured nondeterminism", i, label, c, n)))
		}
		if x.r.prefixLabels != nil && i < len(x.r.prefixLabels) && x.r.prefixLabels[i] != label {
			panic(harnessError(fmt.Sprintf("replay divergence at point %d: label %q, recorded %q — uncaptured nondeterminism", i, label, x.r.prefixLabels[i])))
		}
	}
	x.points = append(x.points, Point{N: n, Dev: dev, Label: label})
	x.devs = append(x.devs, x.ndev)
	x.choices = append(x.choices, c)
	if dev && c > 0 {
		x.ndev++
	}
	if x.logging {
		x.log = append(x.log, fmt.Sprintf("  [%d] %s = %d/%d", i, label, c, n))
	}
	return c
}

// Choose is a free branching point: all n alternatives are explored at every bound.
func (x *Ctx) Choose(n int, label string) int { return x.point(n, false, label) }

// Deviate is a point whose alternative 0 is the default environment answer;
// any other alternative costs one deviation against the bound.
func (x *Ctx) Deviate(n int, label string) int { return x.point(n, true, label) }

// Inherited reports whether everything executed so far was dictated by choices
// strictly before the last element of the replayed prefix, i.e. the parent
// execution performed exactly the same steps (and checked them). Oracles may
// skip re-checking such steps.
func (x *Ctx) Inherited() bool { return len(x.points) < len(x.prefix) }

// Budget is the number of deviations still available to this execution.
func (x *Ctx) Budget() int { return x.r.bound - x.ndev }

// Transition counts one operation applied to the real object.
func (x *Ctx) Transition() { x.trans++ }

// Transitions adds n applied operations.
func (x *Ctx) Transitions(n int) { x.trans += n }

// State registers the canonical state reached (counted as a distinct state).
func (x *Ctx) State(canon []byte) {
	h := hash64(canon)
	h ^= uint64(x.Case+1) * 0x9e3779b97f4a7c15
	x.r.states[h] = struct{}{}
}

// Seen registers the canonical state together with the remaining deviation
// budget and reports whether that pair was already expanded. A scenario may
// only return early on Seen()==true where equal canonical states provably
// have equal futures.
func (x *Ctx) Seen(canon []byte) bool {
	h := hash64(canon)
	h ^= uint64(x.Case+1) * 0x9e3779b97f4a7c15
	x.r.states[h] = struct{}{}
	k := h*31 + uint64(x.Budget())
	if len(x.points) < len(x.prefix) {
		// still replaying the prefix: these states were expanded by the ancestors of this execution
		x.r.expanded[k] = struct{}{}
		return false
	}
	if _, ok := x.r.expanded[k]; ok {
		x.cut = true
		x.r.pruned++
		return true
	}
	x.r.expanded[k] = struct{}{}
	return false
}

// Obs folds an observation into this execution's outcome hash.
func (x *Ctx) Obs(format string, a ...any) {
	s := fmt.Sprintf(format, a...)
	h := fnv.New64a()
	var b [8]byte
	for i := 0; i < 8; i++ {
		b[i] = byte(x.obs >> (8 * i))
	}
	h.Write(b[:])
	h.Write([]byte(s))
	x.obs = h.Sum64()
	if x.logging {
		x.log = append(x.log, "  obs: "+clip(s, 300))
	}
}

// Nontrivial marks that the execution reached the mechanism the property
// names; key distinguishes cases (distinct keys are counted).
func (x *Ctx) Nontrivial(format string, a ...any) {
	x.ntKeys = append(x.ntKeys, hash64([]byte(fmt.Sprintf(format, a...)))^uint64(x.Case+1)*0x9e3779b97f4a7c15)
}

// NontrivialKey is Nontrivial with a precomputed key (cheap).
func (x *Ctx) NontrivialKey(k uint64) {
	x.ntKeys = append(x.ntKeys, (k*0x100000001b3)^uint64(x.Case+1)*0x9e3779b97f4a7c15)
}

// StateKey is State with a precomputed key (cheap).
func (x *Ctx) StateKey(h uint64) {
	x.r.states[h^uint64(x.Case+1)*0x9e3779b97f4a7c15] = struct{}{}
}

// Logf records a human readable step (only kept for samples and replays).
func (x *Ctx) Logf(format string, a ...any) {
	if x.logging {
		x.log = append(x.log, clip(fmt.Sprintf(format, a...), 600))
	}
}

// Logging tells whether Logf output is kept (lets scenarios skip expensive formatting).
func (x *Ctx) Logging() bool { return x.logging }

// Fail records a violation of the property (first one per execution wins).
// signature is the normal form matched against known_findings.json.
func (x *Ctx) Fail(signature, format string, a ...any) {
	if x.viol != nil {
		return
	}
	x.viol = &Violation{Case: x.Case, Signature: signature, Message: clip(fmt.Sprintf(format, a...), 2000)}
	if x.logging {
		x.log = append(x.log, "  FAIL["+signature+"]: "+x.viol.Message)
	}
}

// Failed reports whether a violation was already recorded in this execution.
func (x *Ctx) Failed() bool { return x.viol != nil }

// Abort ends the execution immediately (only from the scenario's own goroutine).
func (x *Ctx) Abort() { panic(stop{}) }

type harnessError string

// HarnessErrorf aborts the whole run with a tooling error (exit 2): the
// harness itself is wrong, nothing is claimed about the property.
func HarnessErrorf(format string, a ...any) {
	panic(harnessError(fmt.Sprintf(format, a...)))
}

// Scenario is one driver + oracle.
type Scenario struct {
	ID    string
	Name  string
	Level string // evidence level: exploration | fault_enumeration | model_checking
	Rule  string // how cases are enumerated and what counts as distinct non-trivial
	// Cases returns the number of independent top-level cases (dealt to worker processes).
	Cases func(tier string) int
	// Bound is the deviation bound for the tier.
	Bound func(tier string) int
	// Run executes one execution.
	Run func(x *Ctx)
	// Assumptions listed in the evidence file.
	Assumptions []string
	// PanicIsViolation: an unexpected panic in Run is a violation with this signature prefix
	// ("" = harness error).
	PanicSig string
	// CrashSig: if non-empty, the death of the worker process while exploring a case of this
	// scenario (a panic in a goroutine of the code under test, a fatal runtime error) is a
	// VIOLATION with signature CrashSig+":"+<first repository frame>, not a tooling error.
	CrashSig string
	// Setup runs once per worker process before any case.
	Setup func(tier string)
	// SerialOnly: cases must not run concurrently in one process (always true: one case at a time per process).
}

// Result of exploring one case.
type Result struct {
	Case           int          `json:"case"`
	Executions     int          `json:"executions"`      // distinct choice sequences executed (each counted once)
	Reexecutions   int          `json:"reexecutions"`    // repeats caused by bound iteration / replays
	Points         int          `json:"points"`          // choice points met
	Transitions    int          `json:"transitions"`     // operations applied to the real object
	States         int          `json:"states"`          // distinct canonical states registered
	Outcomes       int          `json:"outcomes"`        // distinct outcome hashes
	Nontrivial     int          `json:"nontrivial"`      // distinct non-trivial keys
	Pruned         int          `json:"pruned"`          // executions cut at an already expanded state
	MaxDepth       int          `json:"max_depth"`       // longest choice sequence
	BoundCompleted int          `json:"bound_completed"` // highest deviation bound fully explored (-1: none)
	BoundTarget    int          `json:"bound_target"`
	Capped         bool         `json:"capped"` // deadline hit: not exhaustive
	Violations     []*Violation `json:"violations,omitempty"`
	Samples        []Sample     `json:"samples,omitempty"`
	WallS          float64      `json:"wall_s"`
	HarnessError   string       `json:"harness_error,omitempty"`
	Replayed       int          `json:"replayed"` // violating executions re-run twice and found identical
}

// Sample is one explored execution written out.
type Sample struct {
	Case    int      `json:"case"`
	Choices string   `json:"choices"`
	Steps   []string `json:"steps"`
}

// Runner explores one case of one scenario.
type Runner struct {
	sc           *Scenario
	tier         string
	caseIdx      int
	bound        int
	deadline     time.Time
	states       map[uint64]struct{}
	expanded     map[uint64]struct{}
	outcomes     map[uint64]struct{}
	nontriv      map[uint64]struct{}
	seenExec     int
	res          *Result
	viol         map[string]*Violation
	prefixLabels []string
	pruned       int
	maxSamples   int
	nextSample   int
}

const maxSetSize = 4 << 20

func hash64(b []byte) uint64 {
	h := fnv.New64a()
	h.Write(b)
	return h.Sum64()
}

func clip(s string, n int) string {
	if len(s) > n {
		return s[:n] + fmt.Sprintf("…(+%d bytes)", len(s)-n)
	}
	return s
}

// RunCase explores one top-level case completely (iterating the deviation
// bound 0..Bound) or until the deadline.
func RunCase(sc *Scenario, tier string, caseIdx int, deadline time.Time) (res *Result) {
	start := time.Now()
	r := &Runner{sc: sc, tier: tier, caseIdx: caseIdx, deadline: deadline,
		states: map[uint64]struct{}{}, outcomes: map[uint64]struct{}{}, nontriv: map[uint64]struct{}{},
		viol: map[string]*Violation{}, maxSamples: 3, nextSample: 1}
	res = &Result{Case: caseIdx, BoundCompleted: -1}
	r.res = res
	target := 0
	if sc.Bound != nil {
		target = sc.Bound(tier)
	}
	res.BoundTarget = target
	defer func() {
		if e := recover(); e != nil {
			if he, ok := e.(harnessError); ok {
				res.HarnessError = string(he)
			} else {
				res.HarnessError = fmt.Sprintf("panic in explorer: %v\n%s", e, debug.Stack())
			}
		}
		res.States = len(r.states)
		res.Outcomes = len(r.outcomes)
		res.Nontrivial = len(r.nontriv)
		res.Pruned = r.pruned
		res.WallS = time.Since(start).Seconds()
		sigs := make([]string, 0, len(r.viol))
		for s := range r.viol {
			sigs = append(sigs, s)
		}
		sort.Strings(sigs)
		for _, s := range sigs {
			res.Violations = append(res.Violations, r.viol[s])
		}
	}()
	for b := 0; b <= target; b++ {
		r.bound = b
		r.expanded = map[uint64]struct{}{}
		r.explore(nil, b)
		if res.Capped {
			break
		}
		res.BoundCompleted = b
	}
	// Confirm every violation: replay twice with logging; all three runs must agree.
	for _, v := range r.viol {
		r.confirm(v)
		res.Replayed++
	}
	return res
}

func (r *Runner) confirm(v *Violation) {
	var first *Ctx
	for k := 0; k < 2; k++ {
		r.expanded = map[uint64]struct{}{}
		x := r.exec(v.Choices, true)
		if x.viol == nil || x.viol.Signature != v.Signature {
			got := "no violation"
			if x.viol != nil {
				got = x.viol.Signature
			}
			panic(harnessError(fmt.Sprintf("violation %q (choices %v) did not reproduce on replay %d: %s — nondeterministic harness, nothing reported", v.Signature, v.Choices, k+1, got)))
		}
		if first != nil && first.obs != x.obs {
			panic(harnessError(fmt.Sprintf("violation %q replays with differing observations", v.Signature)))
		}
		first = x
	}
	v.Log = first.log
	v.Labels = labels(first.points)
}

func labels(p []Point) []string {
	out := make([]string, len(p))
	for i := range p {
		out[i] = p[i].Label
	}
	return out
}

// exec runs the scenario once with the given prefix.
func (r *Runner) exec(prefix []int, logging bool) (x *Ctx) {
	x = &Ctx{Case: r.caseIdx, Tier: r.tier, r: r, prefix: prefix, logging: logging}
	func() {
		defer func() {
			if e := recover(); e != nil {
				switch e.(type) {
				case stop:
				case harnessError:
					panic(e)
				default:
					if r.sc.PanicSig == "" {
						panic(harnessError(fmt.Sprintf("scenario panicked: %v (choices %v)\n%s", e, x.choices, debug.Stack())))
					}
					st := string(debug.Stack())
					x.Fail(r.sc.PanicSig+":"+panicSite(st), "panic: %v\n%s", e, clip(st, 1500))
				}
			}
		}()
		r.sc.Run(x)
	}()
	if len(x.choices) < len(prefix) && !x.cut && x.viol == nil {
		panic(harnessError(fmt.Sprintf("replay divergence: execution ended after %d points, prefix has %d — uncaptured nondeterminism", len(x.choices), len(prefix))))
	}
	return x
}

// panicSite extracts the first repository frame of a stack trace as a stable signature.
func panicSite(stack string) string {
	lines := strings.Split(stack, "\n")
	seenPanic := false
	for i := 0; i+1 < len(lines); i++ {
		l := lines[i]
		if strings.HasPrefix(l, "panic(") {
			seenPanic = true
			continue
		}
		if !seenPanic {
			continue
		}
		if strings.Contains(l, "els0r/goProbe") || strings.Contains(l, "fako1024") {
			fn := l
			if j := strings.LastIndex(fn, "("); j > 0 {
				fn = fn[:j]
			}
			if j := strings.LastIndex(fn, "/"); j >= 0 {
				fn = fn[j+1:]
			}
			return fn
		}
	}
	return "unknown"
}

func (r *Runner) explore(prefix []int, bound int) {
	if r.res.Capped {
		return
	}
	if !r.deadline.IsZero() && time.Now().After(r.deadline) {
		r.res.Capped = true
		return
	}
	wantSample := len(r.res.Samples) < r.maxSamples && r.res.Executions+1 >= r.nextSample
	x := r.exec(prefix, wantSample)
	isNew := x.ndev == bound || bound == 0 // executions with fewer deviations were counted at a lower bound
	if x.ndev < bound {
		r.res.Reexecutions++
	} else {
		r.res.Executions++
		r.res.Points += len(x.points)
		r.res.Transitions += x.trans
		if len(x.points) > r.res.MaxDepth {
			r.res.MaxDepth = len(x.points)
		}
		if len(r.outcomes) < maxSetSize {
			r.outcomes[x.obs^uint64(r.caseIdx+1)*0x9e3779b97f4a7c15] = struct{}{}
		}
		for _, k := range x.ntKeys {
			if len(r.nontriv) < maxSetSize {
				r.nontriv[k] = struct{}{}
			}
		}
		if wantSample {
			r.res.Samples = append(r.res.Samples, Sample{Case: r.caseIdx, Choices: fmt.Sprint(x.choices), Steps: x.log})
			r.nextSample = r.res.Executions * 7
		}
	}
	_ = isNew
	if x.viol != nil {
		if old, ok := r.viol[x.viol.Signature]; ok {
			old.Count++
		} else {
			v := x.viol
			v.Choices = append([]int(nil), x.choices...)
			v.Count = 1
			r.viol[v.Signature] = v
		}
	}
	for i := len(prefix); i < len(x.points); i++ {
		p := x.points[i]
		if p.N == 1 {
			continue
		}
		cost := x.devs[i]
		if p.Dev {
			cost++
		}
		if cost > bound {
			continue
		}
		for alt := 1; alt < p.N; alt++ {
			np := make([]int, i+1)
			copy(np, x.choices[:i])
			np[i] = alt
			r.explore(np, bound)
			if r.res.Capped {
				return
			}
		}
	}
}

// Replay runs one recorded choice sequence with logging and returns the log and violation.
func Replay(sc *Scenario, tier string, caseIdx int, choices []int, lbls []string, bound int) (log []string, v *Violation, err error) {
	r := &Runner{sc: sc, tier: tier, caseIdx: caseIdx, bound: bound,
		states: map[uint64]struct{}{}, expanded: map[uint64]struct{}{}, outcomes: map[uint64]struct{}{}, nontriv: map[uint64]struct{}{},
		viol: map[string]*Violation{}, prefixLabels: lbls}
	r.res = &Result{}
	defer func() {
		if e := recover(); e != nil {
			err = fmt.Errorf("%v", e)
		}
	}()
	x := r.exec(choices, true)
	return x.log, x.viol, nil
}

// WriteJSON writes v as one JSON line to w.
func WriteJSON(f *os.File, v any) {
	b, err := json.Marshal(v)
	if err != nil {
		panic(err)
	}
	f.Write(append(b, '\n'))
}

package scen

import (
	"context"
	"fmt"
	"sort"
	"strings"
	"sync"
	"testing"
	"testing/synctest"

	"github.com/els0r/goProbe/v4/pkg/goDB/engine"
	"github.com/els0r/goProbe/v4/pkg/query"
	"github.com/els0r/goProbe/v4/pkg/results"
	"github.com/els0r/goProbe/v4/pkg/verifshim/verifhook"

	"verifmc/explore"
	"verifmc/fixture"
)

// C11.sched: the query workers of one interface under a controlled scheduler.
//
// The overlay puts scheduling points into the workers: "start" before a worker
// takes its first workload, and three into the per-block / per-entry loop
// (DBWorkManager.readBlocksAndEvaluate): "block" after the
// columns of a block were decoded, "eval" between filling the comparison key
// and evaluating the condition, "update" before an entry is added to the
// workload's result map. A worker that reaches a point parks; the query runs
// inside a testing/synctest bubble and the explorer, at every quiescence, picks
// which parked worker continues. Continuing with the worker that ran last is
// the default, switching away from it while it could continue is a preemption
// (one deviation). Everything that workers of one query share by mistake
// (scratch keys, decode buffers, the result map of another workload) shows as a
// result that differs from the reference aggregation under some schedule.

type c11SchedCase struct {
	days    int
	workers int
	q       int
	lowMem  bool
}

// queries: with a condition on attributes that vary from entry to entry, with a condition and a time
// label, without a condition
var c11SchedQueries = []c11Query{
	{qtype: "sip,dip", attrs: c11A("sip,dip"), cond: "dport = 80 | proto = 17", pred: func(r fixture.Rec) bool { return r.Dport == 80 || r.Proto == 17 }, ifaces: "eth0"},
	{qtype: "dport,proto,time", attrs: c11A("dport,proto"), time: true, cond: "snet = 10.0.0.0/24", pred: func(r fixture.Rec) bool { return inNet(r.SIP, "10.0.0.0/24") }, ifaces: "eth0"},
	{qtype: "sip,dip,dport,proto", attrs: c11A("sip,dip,dport,proto"), ifaces: "eth0"},
	{qtype: "dip,time", attrs: c11A("dip"), time: true, cond: "dnet = 2001:db8::/32 | dip = 10.0.0.2", pred: func(r fixture.Rec) bool { return inNet(r.DIP, "2001:db8::/32") || r.DIP == a("10.0.0.2") }, ifaces: "eth0"},
}

func c11SchedCases(tier string) (out []c11SchedCase) {
	days, workers, nq := []int{33, 64}, []int{2}, 3
	if tier == "thorough" {
		days, workers, nq = []int{33, 64, 65}, []int{2, 3}, len(c11SchedQueries)
	}
	for _, d := range days {
		for _, w := range workers {
			for q := 0; q < nq; q++ {
				for _, lm := range []bool{false, true} {
					out = append(out, c11SchedCase{d, w, q, lm})
				}
			}
		}
	}
	return
}

// c11SchedShape: n days on eth0, one block per day with two flows whose attributes change from day to
// day (IPv4 and IPv6 entries, matching and non-matching ones next to each other).
func c11SchedShape(n int) fixture.DB {
	var db fixture.DB
	for i := 0; i < n; i++ {
		recs := []fixture.Rec{
			scale(c11Alpha[i%9], uint64(i%4+1)),
			scale(c11Alpha[(i*5+3)%9], uint64(i%3+1)),
		}
		if i%4 == 1 {
			recs = append(recs, rec("10.1.0.1", "10.1.0.2", uint16(1000+i), 17, cnt(uint64(i+1), 1, 1, 0)))
		}
		db.Blocks = append(db.Blocks, fixture.Block{Iface: "eth0", TS: c11DayTS(i), Recs: recs})
	}
	return db
}

type c11Parked struct {
	gid  uint64
	site string
	ch   chan struct{}
}

type c11Sched struct {
	mu     sync.Mutex
	parked map[uint64]*c11Parked
	open   bool
	points int
}

func (s *c11Sched) yield(site string) {
	s.mu.Lock()
	if s.open {
		s.mu.Unlock()
		return
	}
	p := &c11Parked{gid: goid(), site: site, ch: make(chan struct{})}
	s.parked[p.gid] = p
	s.points++
	s.mu.Unlock()
	<-p.ch
}

func c11SchedRun(x *explore.Ctx) {
	cases := c11SchedCases(x.Tier)
	c := cases[x.Case%len(cases)]
	q := c11SchedQueries[c.q]
	l := c11Build(fmt.Sprintf("sched-%d", c.days), c.days, 0, func() fixture.DB { return c11SchedShape(c.days) })
	first, last := int64(0), int64(1)<<40
	want := l.db.Aggregate(fixture.QuerySpec{Attrs: q.attrs, Time: q.time, Iface: true, Ifaces: []string{"eth0"}, First: first, Last: last, Cond: q.pred, Dir: q.dir})
	args := c11Args(q.qtype, q.ifaces, q.condText(), first, last, c.lowMem)
	what := fmt.Sprintf("%d days, %d workers, low-mem %v, %q -c %q", c.days, c.workers, c.lowMem, q.qtype, q.condText())

	engine.VerifSetNumProcessingUnits(c.workers)
	defer engine.VerifSetNumProcessingUnits(1)
	s := &c11Sched{parked: map[uint64]*c11Parked{}}
	verifhook.SetYield(s.yield)
	defer verifhook.SetYield(nil)

	var (
		res         *results.Result
		err         error
		stuck       bool
		preemptions int
		switches    int
		swSteps     []int
		explorerPan any
	)
	func() {
		defer func() {
			// a query that is stuck for good leaves goroutines behind that the runtime reports as a deadlocked bubble
			if e := recover(); e != nil && !(stuck && strings.Contains(fmt.Sprint(e), "deadlock")) {
				panic(e)
			}
		}()
		c11SchedBubble(x, s, l.path, args, &res, &err, &stuck, &preemptions, &switches, &swSteps, &explorerPan)
	}()

	if explorerPan != nil {
		panic(explorerPan)
	}
	if s.points == 0 {
		// the scheduling points are not in this build (hook rewrite did not apply): nothing was explored
		x.Obs("no scheduling points")
		return
	}
	if stuck {
		x.Fail("never-ends:schedule", "%s: after %d scheduling steps no worker can continue and the query has not returned", what, s.points)
		return
	}
	if err != nil {
		x.Fail("query-error:schedule", "%s: %v", what, err)
		return
	}
	if sig, msg := c11CheckResult(what, res, want); sig != "" {
		x.Fail("schedule:"+sig, "%s (schedule with %d preemptions, %d worker switches)", msg, preemptions, switches)
		return
	}
	if switches > 1 {
		x.Nontrivial("%d %d %v", x.Case, s.points, swSteps)
	}
	x.Obs("%d %d", x.Case, c11RowsHash(want))
}

func init() {
	register("C11.sched", &explore.Scenario{
		ID: "C11", Name: "query workers under a controlled scheduler: all schedules up to a preemption bound", Level: "model_checking",
		Rule:  "cases = days {33, 64 (thorough also 65)} on one interface (2 or 3 workloads of <= 32 day directories, 2-3 flows per day, attributes varying by day) x workers {2 (thorough also 3)} x queries {condition on dport|proto; condition on snet with time label; no condition (thorough: + condition on dnet|dip with time label)} x low-memory {off,on}. The overlay adds scheduling points to the workers (before a worker takes its first workload; in DBWorkManager.readBlocksAndEvaluate: block decoded / comparison key filled, before Evaluate / before SetOrUpdate); the real QueryRunner.Run runs inside a testing/synctest bubble, every worker parks at each point, and at every quiescence the explorer picks the worker that continues: continuing the last runner is the default, switching away from it while it is parked is a preemption. ALL schedules with <= 1 (thorough 2) preemptions, any free choice when the last runner ended or waits for work; each result (rows, totals, hits) must equal the reference aggregation. non-trivial = schedules with more than one worker switch, distinct by (case, steps at which the running worker changed)",
		Cases: func(t string) int { return len(c11SchedCases(t)) },
		Bound: func(t string) int {
			if t == "thorough" {
				return 2
			}
			return 1
		},
		Run: c11SchedRun, Setup: c28Setup, PanicSig: "panic",
		Assumptions: []string{"scheduling points only at the three seams named in the rule; between two seams a worker runs without interruption (GOMAXPROCS=1, no blocking operation in between except file reads, which complete immediately)",
			"workers are told apart by goroutine id in order of first appearance, which is their creation order"},
	})
}

func c11SchedBubble(x *explore.Ctx, s *c11Sched, dbPath string, args *query.Args, resP **results.Result, errP *error, stuckP *bool, preP, swP *int, swSteps *[]int, panP *any) {
	synctest.Test(c28T, func(*testing.T) {
		ctx, cancel := context.WithCancel(context.Background())
		defer cancel()
		done := make(chan struct{})
		defer func() {
			// let every parked worker run to the end before the bubble is left
			if e := recover(); e != nil {
				*panP = e
			}
			s.mu.Lock()
			s.open = true
			for _, p := range s.parked {
				close(p.ch)
			}
			s.parked = map[uint64]*c11Parked{}
			s.mu.Unlock()
			if *stuckP {
				cancel()
				return
			}
			<-done
		}()
		go func() {
			defer close(done)
			*resP, *errP = engine.NewQueryRunner(dbPath).Run(ctx, args)
		}()
		names := map[uint64]int{} // goroutine id -> worker number in order of first appearance
		running := uint64(0)
		for step := 0; ; step++ {
			synctest.Wait()
			select {
			case <-done:
				return
			default:
			}
			s.mu.Lock()
			var ps []*c11Parked
			for _, p := range s.parked {
				ps = append(ps, p)
			}
			s.mu.Unlock()
			if len(ps) == 0 {
				*stuckP = true // nothing parked, nothing running, query not finished
				return
			}
			sort.Slice(ps, func(i, j int) bool { return ps[i].gid < ps[j].gid })
			for _, p := range ps {
				if _, ok := names[p.gid]; !ok {
					names[p.gid] = len(names)
				}
			}
			// canonical order: the worker that ran last first (if it can continue), then by worker number
			sort.SliceStable(ps, func(i, j int) bool { return ps[i].gid == running && ps[j].gid != running })
			var lb strings.Builder
			for _, p := range ps {
				fmt.Fprintf(&lb, "w%d@%s ", names[p.gid], p.site)
			}
			pick := 0
			if len(ps) > 1 {
				label := fmt.Sprintf("sched@%d{%s}", step, strings.TrimSpace(lb.String()))
				if ps[0].gid == running {
					pick = x.Deviate(len(ps), label)
					if pick > 0 {
						*preP++
					}
				} else {
					pick = x.Choose(len(ps), label)
				}
			}
			p := ps[pick]
			if p.gid != running {
				*swP++
				*swSteps = append(*swSteps, step)
			}
			running = p.gid
			x.Transition()
			s.mu.Lock()
			delete(s.parked, p.gid)
			s.mu.Unlock()
			close(p.ch)
		}
	})
}

package scen

import (
	"bytes"
	"fmt"
	"net/netip"
	"sort"
	"strings"
	"sync"
	"time"

	"github.com/els0r/goProbe/v4/pkg/goDB"
	"github.com/els0r/goProbe/v4/pkg/goDB/conditions/node"
	"github.com/els0r/goProbe/v4/pkg/types"
	"github.com/els0r/goProbe/v4/pkg/types/hashmap"

	"verifmc/explore"
	"verifmc/fixture"
)

// C09: conditions follow Boolean logic over per-flow comparisons.
//
// Condition trees are GENERATED (fixture.Cond), rendered to text, handed to the
// real node.ParseAndInstrument and evaluated on fresh copies of real keys of
// the flow alphabet. The verdict comes from fixture.Eval (reference semantics
// written from the help text). Three observables per (tree, flow): no panic,
// the truth value, and the key bytes after evaluation.
//
// When a check fires, the failing case is attributed to a root cause by
// evaluating (with the real code, for the diagnosis only) every leaf of the
// documented expansion on its own; the signature names that root cause, so
// that one defect has one signature wherever it shows up and an unrelated
// failure gets a different one:
//
//	panic:<attr>:<rel>                evaluating the single comparison panics
//	<attr>-cross-family:<rel>         single address/network comparison true for a flow of the other family (or "!=" false)
//	leaf-truth:<attr><cmp>            single comparison wrong within one family
//	key-modified:<attr>               evaluating the single comparison rewrites the key
//	stale-key:<attr>                  every comparison is right on its own, the tree is wrong, and <attr> rewrote the key a later clause reads
//	sugar:<attr>                      documented expansion evaluates right, the sugared form does not
//	boolean:<shape>                   anything else (connective / negation handling)
//
// <rel> = v4net-on-v6flow | v6net-on-v4flow | same-family (net stands for address or network value).

type c09Flow struct {
	f     fixture.Flow
	plain []byte // pristine plain key bytes
	ext   []byte // pristine extended key bytes (timestamp appended)
}

type c09Env struct {
	once    sync.Once
	quick   []*fixture.Cond
	core    []*fixture.Cond
	full    []*fixture.Cond
	small   []*fixture.Cond
	compact [2][]c09Flow // by family: 0 = IPv4 flows, 1 = IPv6 flows
	all     [2][]c09Flow
	scratch []byte
	style   *fixture.Style // rendering style of the text under diagnosis (nil = fully braced symbols)
}

var c09 c09Env

func c09MkFlows(fl []fixture.Flow) (out [2][]c09Flow) {
	for _, f := range fl {
		i := 1
		if f.IsV4() {
			i = 0
		}
		out[i] = append(out[i], c09Flow{f: f, plain: f.Key(), ext: f.ExtendedKey(1700000000)})
	}
	return
}

func (e *c09Env) init() {
	e.once.Do(func() {
		e.quick = fixture.Leaves(fixture.LeavesQuick)
		e.core = fixture.Leaves(fixture.LeavesCore)
		e.full = fixture.Leaves(fixture.LeavesFull)
		e.small = fixture.Leaves(fixture.LeavesSmall)
		// plus IPv6 flows whose address is an IPv4-mapped one: "::ffff:a00:1" and "10.0.0.1" are different
		// addresses of different families, whatever notation a literal or a canonical string uses
		mapped, other := netip.MustParseAddr("::ffff:10.0.0.1"), netip.MustParseAddr("2001:db8::2")
		e.compact = c09MkFlows(append(fixture.CompactFlows(), fixture.Flow{SIP: mapped, DIP: other, Dport: 80, Proto: 6}, fixture.Flow{SIP: other, DIP: mapped, Dport: 80, Proto: 6}))
		e.all = c09MkFlows(fixture.AllFlows())
		e.scratch = make([]byte, 64)
	})
}

var c09FamName = [2]string{"v4flows", "v6flows"}

func c09Parse(text string) (node.Node, error) {
	n, _, err := node.ParseAndInstrument(text, time.Second)
	if err == nil && n == nil {
		err = fmt.Errorf("no condition node returned")
	}
	return n, err
}

func c09Evaluate(n node.Node, k types.Key) (res bool, pan any) {
	defer func() {
		if e := recover(); e != nil {
			pan = e
		}
	}()
	return n.Evaluate(k), nil
}

// c09Fresh evaluates n on a fresh copy of the flow's key. ext=false: a key
// exactly as types.NewKey makes it (cap == len); ext=true: the Key() view of an
// extended key carrying a timestamp, as the query workers build it.
func (e *c09Env) fresh(n node.Node, fl *c09Flow, ext bool) (res bool, changed bool, pan any) {
	src := fl.plain
	if ext {
		src = fl.ext
	}
	buf := e.scratch[:len(src):len(src)]
	copy(buf, src)
	var k types.Key
	if ext {
		k = types.ExtendedKey(buf).Key()
	} else {
		k = types.Key(buf)
	}
	res, pan = c09Evaluate(n, k)
	return res, !bytes.Equal(buf, src), pan
}

func c09Rel(l *fixture.Cond, f fixture.Flow) string {
	switch l.Attr.Kind() {
	case fixture.KindAddr, fixture.KindNet:
		switch {
		case l.IsV4Value() && !f.IsV4():
			return "v4net-on-v6flow"
		case !l.IsV4Value() && f.IsV4():
			return "v6net-on-v4flow"
		}
		return "same-family"
	}
	return "num"
}

func c09HasSugar(t *fixture.Cond) (string, bool) {
	for _, l := range t.Leaves() {
		if l.Attr.IsSugar() {
			return l.Attr.Name(), true
		}
	}
	return "", false
}

// c09Diagnose attributes a failure of tree t on flow fl to a root cause (see the table above).
// kind: "panic" | "truth" | "modified".
func (e *c09Env) diagnose(t *fixture.Cond, fl *c09Flow, ext bool, kind string) string {
	d := fixture.Expand(t)
	modAttr := ""
	for _, l := range d.Leaves() {
		n, err := c09Parse(fixture.Render(l, nil))
		if err != nil {
			return "leaf-rejected:" + l.Shape()
		}
		got, changed, pan := e.fresh(n, fl, ext)
		rel := c09Rel(l, fl.f)
		if pan != nil {
			return "panic:" + l.Attr.Name() + ":" + rel
		}
		if got != fixture.Eval(l, fl.f) {
			if rel == "v4net-on-v6flow" || rel == "v6net-on-v4flow" {
				return l.Attr.Name() + "-cross-family:" + rel
			}
			return "leaf-truth:" + l.Shape()
		}
		if changed && modAttr == "" {
			modAttr = l.Attr.Name()
		}
	}
	switch kind {
	case "modified":
		if modAttr != "" {
			return "key-modified:" + modAttr
		}
		return "key-modified:compound:" + d.Shape()
	case "panic":
		if modAttr != "" {
			return "stale-key-panic:" + modAttr
		}
		return "panic:compound:" + d.Shape()
	}
	if modAttr != "" {
		return "stale-key:" + modAttr
	}
	if name, ok := c09HasSugar(t); ok {
		if n, err := c09Parse(fixture.Render(d, nil)); err == nil {
			if got, _, pan := e.fresh(n, fl, ext); pan == nil && got == fixture.Eval(t, fl.f) {
				return "sugar:" + name
			}
		}
	}
	// smallest subtree (in the rendering style of the failing text) that the real code gets wrong on this flow
	best, bestN := d, len(d.Leaves())
	var walk func(c *fixture.Cond)
	walk = func(c *fixture.Cond) {
		if c.Op == fixture.OpLeaf {
			return
		}
		if n := len(c.Leaves()); n < bestN {
			if nn, err := c09Parse(fixture.Render(c, e.style)); err == nil {
				if got, _, pan := e.fresh(nn, fl, ext); pan != nil || got != fixture.Eval(c, fl.f) {
					best, bestN = c, n
				}
			}
		}
		walk(c.L)
		if c.R != nil {
			walk(c.R)
		}
	}
	walk(d)
	return "boolean:" + c09Skeleton(best, bestN > 2)
}

// c09Skeleton: Boolean skeleton as signature normal form. With abstract=true leaves are
// written "C" and negations directly above a leaf are dropped.
func c09Skeleton(c *fixture.Cond, abstract bool) string {
	switch c.Op {
	case fixture.OpLeaf:
		if abstract {
			return "C"
		}
		return c.Attr.Name() + c.Cmp.Symbol()
	case fixture.OpNot:
		if abstract && c.L.Op == fixture.OpLeaf {
			return "C"
		}
		return "!" + c09Skeleton(c.L, abstract)
	case fixture.OpAnd:
		return "(" + c09Skeleton(c.L, abstract) + "&" + c09Skeleton(c.R, abstract) + ")"
	}
	return "(" + c09Skeleton(c.L, abstract) + "|" + c09Skeleton(c.R, abstract) + ")"
}

// c09CheckTree parses text, evaluates it on every flow of the group in both key
// variants and compares with the reference. Reports at most one violation:
// panic before truth before key modification.
func (e *c09Env) checkTree(x *explore.Ctx, t *fixture.Cond, text string, flows []c09Flow, treeID uint64) {
	n, err := c09Parse(text)
	if err != nil {
		x.Fail("rejected:"+t.Shape(), "ParseAndInstrument(%q) rejects a condition the grammar allows: %v", text, err)
		return
	}
	type hit struct {
		fl   *c09Flow
		ext  bool
		got  bool
		pan  any
		have bool
	}
	var hPanic, hTruth, hMod hit
	nTrue, nEval := 0, 0
	h := uint64(14695981039346656037)
	for i := range flows {
		fl := &flows[i]
		want := fixture.Eval(t, fl.f)
		for v := 0; v < 2; v++ {
			ext := v == 1
			got, changed, pan := e.fresh(n, fl, ext)
			nEval++
			if pan != nil {
				if !hPanic.have {
					hPanic = hit{fl, ext, false, pan, true}
				}
				h = (h ^ 2) * 1099511628211
				continue
			}
			if got {
				nTrue++
				h = (h ^ 1) * 1099511628211
			} else {
				h = (h ^ 0) * 1099511628211
			}
			if got != want && !hTruth.have {
				hTruth = hit{fl, ext, got, nil, true}
			}
			if changed && !hMod.have {
				hMod = hit{fl, ext, got, nil, true}
			}
		}
	}
	x.Transitions(nEval)
	x.Obs("%x", h)
	if nTrue != 0 && nTrue != nEval {
		x.NontrivialKey(treeID) // the tree separates the flows of this group
	}
	variant := func(ext bool) string {
		if ext {
			return "Key() of a time-extended key"
		}
		return "plain key"
	}
	switch {
	case hPanic.have:
		sig := e.diagnose(t, hPanic.fl, hPanic.ext, "panic")
		x.Fail(sig, "Evaluate panics: condition %q on flow %s (%s): %v", text, hPanic.fl.f, variant(hPanic.ext), hPanic.pan)
	case hTruth.have:
		sig := e.diagnose(t, hTruth.fl, hTruth.ext, "truth")
		x.Fail(sig, "condition %q on flow %s (%s): Evaluate=%v, reference=%v", text, hTruth.fl.f, variant(hTruth.ext), hTruth.got, !hTruth.got)
	case hMod.have:
		sig := e.diagnose(t, hMod.fl, hMod.ext, "modified")
		fl := hMod.fl
		buf := append([]byte(nil), fl.plain...)
		if nn, err := c09Parse(text); err == nil {
			c09Evaluate(nn, types.Key(buf))
		}
		x.Fail(sig, "condition %q changes the key it evaluates: flow %s (%s), key bytes before %x after %x (plain variant)", text, fl.f, variant(hMod.ext), fl.plain, buf)
	}
}

// ---- C09 (pairs): all two-leaf trees -------------------------------------------------------

const c09PairCases = 64

func c09LeafSet(x *explore.Ctx) []*fixture.Cond {
	if x.Thorough() {
		return c09.full
	}
	return c09.core
}

func c09PairRun(x *explore.Ctx) {
	c09.init()
	leaves := c09LeafSet(x)
	// leaf A: the case owns the indices a ≡ case (mod c09PairCases)
	na := (len(leaves) - x.Case + c09PairCases - 1) / c09PairCases
	fam := x.Choose(2, "family")
	ai := x.Case + c09PairCases*x.Choose(na, "leafA")
	bi := x.Choose(len(leaves), "leafB")
	sh := x.Choose(fixture.NumTree2, "shape")
	t := fixture.Tree2(leaves[ai], leaves[bi], sh)
	text := fixture.Render(t, nil)
	if x.Logging() {
		x.Logf("tree %s on %s", text, c09FamName[fam])
	}
	c09.checkTree(x, t, text, c09.compact[fam], uint64(ai)<<24^uint64(bi)<<4^uint64(sh))
}

// ---- C09.leaf: every single comparison, every prefix length, all flows ----------------------

const c09LeafCases = 32

func c09LeafRun(x *explore.Ctx) {
	c09.init()
	leaves := c09.full
	na := (len(leaves) - x.Case + c09LeafCases - 1) / c09LeafCases
	fam := x.Choose(2, "family")
	ai := x.Case + c09LeafCases*x.Choose(na, "leaf")
	wrap := x.Choose(3, "wrap(plain,!,!(!))")
	t := leaves[ai]
	for i := 0; i < wrap; i++ {
		t = fixture.Not(t)
	}
	text := fixture.Render(t, nil)
	if x.Logging() {
		x.Logf("tree %s on %s", text, c09FamName[fam])
	}
	c09.checkTree(x, t, text, c09.all[fam], uint64(ai)<<2^uint64(wrap))
}

// ---- C09.tri: three-leaf trees whose clauses inspect the same field, precedence-based bracing ----

func c09TriRun(x *explore.Ctx) {
	c09.init()
	leaves := c09.small
	n := len(leaves)
	ai, bi := x.Case/n, x.Case%n
	fam := x.Choose(2, "family")
	ci := x.Choose(n, "leafC")
	sh := x.Choose(fixture.NumTree3, "shape")
	t := fixture.Tree3(leaves[ai], leaves[bi], leaves[ci], sh)
	// rendered relying on the documented precedence (NOT before AND before OR)
	text := fixture.Render(t, fixture.SymbolsMinimal)
	if x.Logging() {
		x.Logf("tree %s (fully braced: %s) on %s", text, t, c09FamName[fam])
	}
	c09.style = fixture.SymbolsMinimal
	defer func() { c09.style = nil }()
	c09.checkTree(x, t, text, c09.compact[fam], uint64(x.Case)<<20^uint64(ci)<<10^uint64(sh))
}

// ---- C09.filter: the live-query filter over a flow map ---------------------------------------

func c09Counters(i int) types.Counters {
	return types.Counters{BytesRcvd: uint64(i)*7 + 1, BytesSent: uint64(i) * 3, PacketsRcvd: uint64(i) + 1, PacketsSent: uint64(i) % 4}
}

func c09FilterTrees(thorough bool) []*fixture.Cond {
	c09.init()
	var out []*fixture.Cond
	single := c09.quick
	if thorough {
		single = c09.full
	}
	for _, l := range single {
		out = append(out, l, fixture.Not(l))
	}
	for _, a := range c09.small {
		for _, b := range c09.small {
			for i := 0; i < fixture.NumTree2; i++ {
				out = append(out, fixture.Tree2(a, b, i))
			}
		}
	}
	return out
}

var c09FilterCache struct {
	sync.Mutex
	m map[bool][]*fixture.Cond
}

func c09FilterSet(thorough bool) []*fixture.Cond {
	c09FilterCache.Lock()
	defer c09FilterCache.Unlock()
	if c09FilterCache.m == nil {
		c09FilterCache.m = map[bool][]*fixture.Cond{}
	}
	if s, ok := c09FilterCache.m[thorough]; ok {
		return s
	}
	s := c09FilterTrees(thorough)
	c09FilterCache.m[thorough] = s
	return s
}

const c09FilterCases = 32

func c09SnapshotMap(m *hashmap.AggFlowMap) map[string]types.Counters {
	out := map[string]types.Counters{}
	for it := m.PrimaryMap.Iter(); it.Next(); {
		out[string(it.Key())] = it.Val()
	}
	for it := m.SecondaryMap.Iter(); it.Next(); {
		out[string(it.Key())] = it.Val()
	}
	return out
}

func c09FilterRun(x *explore.Ctx) {
	trees := c09FilterSet(x.Thorough())
	nt := (len(trees) - x.Case + c09FilterCases - 1) / c09FilterCases
	ti := x.Case + c09FilterCases*x.Choose(nt, "tree")
	t := trees[ti]
	text := fixture.Render(t, nil)
	x.Logf("filter %s", text)
	n, err := c09Parse(text)
	if err != nil {
		x.Fail("rejected:"+t.Shape(), "ParseAndInstrument(%q): %v", text, err)
		return
	}
	attrs, sel, err := types.ParseQueryType("sip,dip,dport,proto")
	if err != nil {
		explore.HarnessErrorf("ParseQueryType: %v", err)
	}
	q := goDB.NewQuery(attrs, n, sel)
	in := hashmap.NewAggFlowMap()
	want := map[string]types.Counters{}
	input := map[string]types.Counters{}
	flowOf := map[string]*c09Flow{}
	idx := 0
	for fam := 0; fam < 2; fam++ {
		for i := range c09.compact[fam] {
			fl := &c09.compact[fam][i]
			c := c09Counters(idx)
			idx++
			k := fl.f.Key()
			if fam == 0 {
				in.PrimaryMap.SetOrUpdate(k, c.BytesRcvd, c.BytesSent, c.PacketsRcvd, c.PacketsSent)
			} else {
				in.SecondaryMap.SetOrUpdate(k, c.BytesRcvd, c.BytesSent, c.PacketsRcvd, c.PacketsSent)
			}
			input[string(fl.plain)] = c
			flowOf[string(fl.plain)] = fl
			if fixture.Eval(t, fl.f) {
				want[string(fl.plain)] = c
			}
		}
	}
	var out *hashmap.AggFlowMap
	pan := func() (p any) {
		defer func() { p = recover() }()
		out = goDB.QueryFilter(q)(in)
		return nil
	}()
	x.Transitions(len(input))
	if pan != nil {
		// find a flow on which the condition panics
		for fam := 0; fam < 2; fam++ {
			for i := range c09.compact[fam] {
				fl := &c09.compact[fam][i]
				if _, _, p := c09.fresh(n, fl, false); p != nil {
					x.Fail(c09.diagnose(t, fl, false, "panic"), "QueryFilter(%q) panics on a map holding flow %s: %v", text, fl.f, pan)
					return
				}
			}
		}
		x.Fail("filter:panic:unattributed", "QueryFilter(%q) panics: %v", text, pan)
		return
	}
	got := c09SnapshotMap(out)
	after := c09SnapshotMap(in)
	x.Obs("%d/%d", len(got), len(input))
	if len(want) != 0 && len(want) != len(input) {
		x.NontrivialKey(uint64(ti))
	}
	sortedKeys := func(m map[string]types.Counters) []string {
		ks := make([]string, 0, len(m))
		for k := range m {
			ks = append(ks, k)
		}
		sort.Strings(ks)
		return ks
	}
	// which flow (if any) had its key bytes rewritten inside the input map
	var rewritten *c09Flow
	for _, k := range sortedKeys(input) {
		if c, ok := after[k]; !ok || c != input[k] {
			rewritten = flowOf[k]
			break
		}
	}
	kindOf := func(fl *c09Flow) string {
		if r, _, p := c09.fresh(n, fl, false); p == nil && r == fixture.Eval(t, fl.f) {
			return "modified" // the condition is right about the flow; the row is filed under other key bytes
		}
		return "truth"
	}
	// 1. every input flow is selected exactly when the reference says so (keys and counters)
	for _, k := range sortedKeys(input) {
		fl := flowOf[k]
		c, sel := got[k]
		w, wsel := want[k]
		if sel == wsel && c == w {
			continue
		}
		x.Fail(c09.diagnose(t, fl, false, kindOf(fl)), "QueryFilter(%q): flow %s: reference selected=%v %+v, result selected=%v %+v", text, fl.f, wsel, w, sel, c)
		return
	}
	// 2. nothing else is in the result
	for _, k := range sortedKeys(got) {
		if _, ok := input[k]; ok {
			continue
		}
		if rewritten != nil {
			x.Fail(c09.diagnose(t, rewritten, false, kindOf(rewritten)), "QueryFilter(%q): result holds key %s which is no input flow; input flow %s was rewritten in place", text, fixture.FlowFromKey(types.Key(k)), rewritten.f)
		} else {
			x.Fail("filter:phantom-row", "QueryFilter(%q): result holds key %s which is no input flow", text, fixture.FlowFromKey(types.Key(k)))
		}
		return
	}
	// 3. the input map still holds exactly the input flows
	if rewritten != nil {
		x.Fail(c09.diagnose(t, rewritten, false, "modified"), "QueryFilter(%q) altered its input map: flow %s is gone or changed (map keys are evaluated in place)", text, rewritten.f)
		return
	}
	if len(after) != len(input) {
		x.Fail("filter:input-map-grew", "QueryFilter(%q): input map has %d entries after filtering, %d before", text, len(after), len(input))
	}
}

// ---- C09.odd: unusual but accepted literals must still evaluate safely -----------------------

// Literal classes: the class is part of the signature (one signature per kind of literal, not per literal).
var c09OddValues = map[string][][2]string{
	"snet": {{"10.0.0.1/-1", "negative-prefix"}, {"10.0.0.1/-7", "negative-prefix"}, {"10.0.0.1/-8", "negative-prefix"}, {"10.0.0.1/-9", "negative-prefix"},
		{"10.0.0.1/-33", "negative-prefix"}, {"2001:db8::1/-1", "negative-prefix"}, {"2001:db8::1/-129", "negative-prefix"},
		{"10.0.0.1/032", "padded-prefix"}, {"10.0.0.1/+8", "signed-prefix"}, {"10.0.0.1/8/9", "double-prefix"}, {"10.0.0.1/", "empty-prefix"},
		{"::ffff:10.0.0.1/24", "v4-mapped-net"}, {"::ffff:10.0.0.1/104", "v4-mapped-net"}, {"10.0.0.1/0x8", "hex-prefix"}, {"010.0.0.1/8", "padded-octet"},
		{"/8", "empty-address"}, {"::/0", "zero-net"}, {"0.0.0.0/0", "zero-net"}},
	"sip": {{"::ffff:10.0.0.1", "v4-mapped"}, {"010.0.0.1", "padded-octet"}, {"10.0.0.1.", "trailing-dot"}, {"::", "zero-addr"}, {"0.0.0.0", "zero-addr"},
		{"10.0.0.1/32", "cidr-as-address"}, {"2001:DB8::1", "upper-case"}, {"[2001:db8::1]", "bracketed"},
		// other notations of one address: IPv4-mapped / IPv4-compatible written in hex, uncompressed, embedded dotted quad
		{"::ffff:a00:1", "v4-mapped-hex"}, {"0:0:0:0:0:ffff:a00:1", "v4-mapped-hex"}, {"::a00:1", "v4-compatible-hex"}, {"::10.0.0.1", "v4-compatible-dotted"},
		{"2001:db8:0:0:0:0:0:1", "uncompressed"}, {"2001:db8::0:1", "partly-compressed"}, {"2001:db8::10.0.0.1", "embedded-dotted"}},
	"dport": {{"080", "padded"}, {"+80", "signed"}, {"-0", "signed"}, {"0x50", "hex"}, {"65536", "out-of-range"}, {"8 0", "split"}, {"", "empty"}},
	"proto": {{"06", "padded"}, {"+6", "signed"}, {"256", "out-of-range"}, {"tcp", "name"}, {"TCP", "upper-name"}, {"ipv6-icmp", "name"}, {"unknown", "name"}, {"-1", "signed"}},
}

var c09OddAttrs = map[string][]string{
	"snet": {"snet", "dnet", "net"}, "sip": {"sip", "dip", "host", "src", "dst"}, "dport": {"dport", "port"}, "proto": {"proto", "protocol", "ipproto"},
}

type c09OddCase struct{ attr, cmp, value, class, litClass string }

var c09OddList = func() []c09OddCase {
	var out []c09OddCase
	for _, cl := range []string{"snet", "sip", "dport", "proto"} {
		for _, at := range c09OddAttrs[cl] {
			for _, v := range c09OddValues[cl] {
				for _, cmp := range []string{"=", "!="} {
					out = append(out, c09OddCase{at, cmp, v[0], cl, v[1]})
				}
			}
		}
	}
	return out
}()

func c09OddRun(x *explore.Ctx) {
	c09.init()
	per := (len(c09OddList) + 15) / 16
	lo := x.Case * per
	hi := min(lo+per, len(c09OddList))
	if lo >= hi {
		return
	}
	li := lo + x.Choose(hi-lo, "literal")
	oc := c09OddList[li]
	wrap := x.Choose(2, "negate")
	text := oc.attr + " " + oc.cmp + " " + oc.value
	if wrap == 1 {
		text = "!(" + text + ")"
	}
	x.Logf("odd literal condition %q", text)
	var n node.Node
	var err error
	pan := func() (p any) {
		defer func() { p = recover() }()
		n, err = c09Parse(text)
		return nil
	}()
	if pan != nil {
		// a crash while PREPARING the condition is C10's subject ("rejects or accepts without crashing"), not C09's
		x.Obs("crash-in-parse")
		return
	}
	if err != nil {
		x.Obs("rejected")
		return
	}
	x.NontrivialKey(uint64(li)<<1 ^ uint64(wrap))
	// Accepted: whatever it means, evaluating it must neither crash nor write to the key.
	nTrue := 0
	for fam := 0; fam < 2; fam++ {
		// address/network literals are only evaluated on flows of their own family here:
		// the other family is the subject of C09/C09.leaf (cross-family signatures)
		if (oc.class == "snet" || oc.class == "sip") && (strings.Contains(oc.value, ":") == (fam == 0)) {
			continue
		}
		for i := range c09.compact[fam] {
			fl := &c09.compact[fam][i]
			for v := 0; v < 2; v++ {
				got, changed, p := c09.fresh(n, fl, v == 1)
				x.Transition()
				if p != nil {
					x.Fail("odd-literal:eval-panic:"+oc.class+":"+oc.litClass, "condition %q accepted, Evaluate panics on flow %s: %v", text, fl.f, p)
					return
				}
				if changed {
					// same mechanism as key-modified:<attr> (network byte masked in place); name the comparison that writes
					attr := oc.attr
					if attr == "net" {
						attr = "dnet"
						if sn, e := c09Parse("snet = " + oc.value); e == nil {
							if _, ch, _ := c09.fresh(sn, fl, v == 1); ch {
								attr = "snet"
							}
						}
					}
					x.Fail("key-modified:"+attr, "condition %q (%s literal) accepted, Evaluate rewrites the key of flow %s", text, oc.litClass, fl.f)
					return
				}
				if got {
					nTrue++
				}
			}
		}
	}
	x.Obs("accepted true=%d", nTrue)
}

func init() {
	register("C09", &explore.Scenario{
		ID: "C09", Name: "all two-leaf condition trees vs reference semantics", Level: "exploration",
		Rule:  "execution = (flow family, leaf A, leaf B, connective {&,|} x negation {none,left,right,whole}); leaves = 13 attributes (incl. sugar) x allowed comparators x alphabet values, networks on 2 base addresses per family with prefix lengths {0,1,7,8,9,31,32}/{0,1,63,64,65,127,128} and without the pure renames src/dst/port/protocol/ipproto (quick: 312 leaves) or all 13 attributes with every length 0-32/0-128 (thorough); rendered fully braced, parsed by node.ParseAndInstrument, evaluated on fresh copies of all 149 covering flows of that family in two key variants (plain, Key() of time-extended key); compared with fixture.Eval; key bytes compared before/after; panics caught. transitions = Evaluate calls. non-trivial = tree that is true for some and false for other flows of the group",
		Cases: func(string) int { return c09PairCases }, Bound: func(string) int { return 0 },
		Run:         c09PairRun,
		Assumptions: []string{"conditions enter through node.ParseAndInstrument (no sanitiser; C10 covers it)", "flow alphabet of DESIGN §3.4; compact covering subset (all 41 address pairs x (80,6); one pair per family x all ports x protocols)"},
	})
	register("C09.leaf", &explore.Scenario{
		ID: "C09", Name: "every single comparison, every prefix length, all 2214 flows", Level: "exploration",
		Rule:  "execution = (flow family, leaf of the full alphabet incl. every prefix length 0-32 and 0-128 on 4 base addresses, wrapper {t, !t, !(!t)}); evaluated on every flow of the full product alphabet (16+25 address pairs x 9 ports x 6 protocols) in both key variants; a != v is checked as the complement of a = v, !t as the complement of t, sugar against its documented expansion, all through the reference. non-trivial = leaf that separates the flows of the group",
		Cases: func(string) int { return c09LeafCases }, Bound: func(string) int { return 0 },
		Run: c09LeafRun,
	})
	register("C09.tri", &explore.Scenario{
		ID: "C09", Name: "three-leaf trees over same-field clauses, precedence-based bracing", Level: "exploration",
		Rule:  "case = ordered pair of the 12-leaf same-field alphabet, execution = (family, third leaf, 2 groupings x {&,|}^2 x negation of each leaf/inner node/whole = 256 shapes); rendered with minimal braces so that the documented precedence NOT>AND>OR decides the formula; evaluated on the 149 covering flows in both key variants",
		Cases: func(string) int { return 144 }, Bound: func(string) int { return 0 },
		Run: c09TriRun,
	})
	register("C09.filter", &explore.Scenario{
		ID: "C09", Name: "goDB.QueryFilter over a flow map (live-query path)", Level: "exploration",
		Rule:  "execution = one condition (every quick/full leaf, its negation, all two-leaf trees over the 12-leaf same-field alphabet); a fresh AggFlowMap holding all 149 covering flows with distinct counters is filtered through goDB.QueryFilter; selected rows (keys+counters) must equal the reference selection and the input map must still hold exactly the input flows. non-trivial = condition selecting a proper non-empty subset",
		Cases: func(string) int { return c09FilterCases }, Bound: func(string) int { return 0 },
		Run: c09FilterRun,
	})
	register("C09.odd", &explore.Scenario{
		ID: "C09", Name: "unusual literals: accepted implies safe to evaluate", Level: "exploration",
		Rule:  "execution = (attribute incl. sugar, {=,!=}, literal from a list of unusual spellings: negative/zero-padded/signed/empty prefix lengths, v4-mapped addresses, padded numbers, protocol names, …) x {plain, negated}; if ParseAndInstrument accepts, Evaluate on all covering flows of both families must not panic and must not write to the key (no claim about the truth value). non-trivial = accepted literal",
		Cases: func(string) int { return 16 }, Bound: func(string) int { return 0 },
		Run: c09OddRun,
	})
}

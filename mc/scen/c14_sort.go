package scen

import (
	"context"
	"fmt"
	"io"
	"net/netip"
	"sort"
	"strconv"
	"strings"
	"time"

	gqdist "github.com/els0r/goProbe/v4/cmd/global-query/pkg/distributed"
	"github.com/els0r/goProbe/v4/pkg/query"
	"github.com/els0r/goProbe/v4/pkg/results"
	"github.com/els0r/goProbe/v4/pkg/types"

	"verifmc/explore"
)

// C14: result ordering is deterministic and the row limit keeps the top rows.
//
// Scenario C14 sorts every permutation of every row multiset with the real
// results.By(...).Sort (sort key / direction / ascending taken from a statement
// prepared by the real Args.Prepare) and applies the limit through
// Statement.PostProcess. Scenario C14.dist pushes row sets through the real
// global-query finalizeResult (RowsMap -> sorted rows -> PostProcess -> limit).

func c14MustTime(s string) time.Time {
	t, err := time.Parse(time.RFC3339, s)
	if err != nil {
		panic(err)
	}
	return t
}

const c14Unix = int64(1700006700) // 2023-11-15T00:05:00Z

var (
	// the same instant in the representations a result can carry: decoded from
	// the JSON of hosts in different zones (time.Parse creates a new Location
	// for every non-hour offset it meets), or created by the local engine
	c14TUTC   = c14MustTime("2023-11-15T00:05:00Z")
	c14TP2    = c14MustTime("2023-11-15T02:05:00+02:00")
	c14TP530a = c14MustTime("2023-11-15T05:35:00+05:30")
	c14TP530b = c14MustTime("2023-11-15T05:35:00+05:30")
	c14TLocal = time.Unix(c14Unix, 0)
	c14TNext  = c14MustTime("2023-11-15T00:10:00Z")
	c14TNext2 = c14MustTime("2023-11-15T02:10:00+02:00")

	c14A0 = results.Attributes{SrcIP: netip.MustParseAddr("10.0.0.1"), DstIP: netip.MustParseAddr("10.0.0.2"), IPProto: 6, DstPort: 80}
	c14A1 = results.Attributes{SrcIP: netip.MustParseAddr("::ffff:10.0.0.1"), DstIP: netip.MustParseAddr("10.0.0.2"), IPProto: 6, DstPort: 80}
	c14A2 = results.Attributes{SrcIP: netip.MustParseAddr("2001:db8::1"), DstIP: netip.MustParseAddr("2001:db8::2"), IPProto: 6, DstPort: 80}
	c14A3 = results.Attributes{SrcIP: netip.MustParseAddr("10.0.0.1"), DstIP: netip.MustParseAddr("10.0.0.2"), IPProto: 17, DstPort: 80}
	c14A4 = results.Attributes{SrcIP: netip.MustParseAddr("10.0.0.1"), DstIP: netip.MustParseAddr("10.0.0.2"), IPProto: 6, DstPort: 443}
	c14A5 = results.Attributes{DstPort: 53} // addresses not selected
	c14A6 = results.Attributes{SrcIP: netip.MustParseAddr("2001:db8::1"), DstIP: netip.MustParseAddr("2001:db8::3"), IPProto: 6, DstPort: 80}
	c14A7 = results.Attributes{SrcIP: netip.MustParseAddr("10.0.0.1"), DstIP: netip.MustParseAddr("::ffff:10.0.0.2"), IPProto: 6, DstPort: 80}

	// cA and cB tie on both sums and differ per direction; cC ties with cA on packets only
	c14cA = types.Counters{BytesRcvd: 2, BytesSent: 1, PacketsRcvd: 1, PacketsSent: 2}
	c14cB = types.Counters{BytesRcvd: 1, BytesSent: 2, PacketsRcvd: 2, PacketsSent: 1}
	c14cC = types.Counters{BytesRcvd: 1 << 40, BytesSent: 0, PacketsRcvd: 1, PacketsSent: 2}
)

func c14Row(t time.Time, iface, host string, a results.Attributes, c types.Counters) results.Row {
	id := ""
	if host != "" {
		id = "id-" + host // HostID is a function of the hostname (documented assumption of Labels.Less)
	}
	return results.Row{Labels: results.Labels{Timestamp: t, Iface: iface, Hostname: host, HostID: id}, Attributes: a, Counters: c}
}

// the row alphabet; every row has a distinct (instant, hostname, iface, attributes)
var c14Alphabet = []results.Row{
	/* 0*/ c14Row(c14TUTC, "eth0", "hostA", c14A0, c14cA),
	/* 1*/ c14Row(c14TP2, "eth0", "hostB", c14A0, c14cA), // same instant, +02:00, other host
	/* 2*/ c14Row(c14TP530a, "eth1", "hostA", c14A0, c14cA), // same instant, +05:30, other iface
	/* 3*/ c14Row(c14TP530b, "eth1", "hostB", c14A0, c14cA), // same instant, a second +05:30 Location
	/* 4*/ c14Row(c14TLocal, "eth2", "hostA", c14A0, c14cA), // same instant, process-local zone
	/* 5*/ c14Row(c14TUTC, "eth5", "hostA", c14A0, c14cA), // same representation as 0: iface tie-break
	/* 6*/ c14Row(c14TUTC, "eth0", "hostD", c14A0, c14cA), // same representation as 0: hostname tie-break
	/* 7*/ c14Row(c14TNext, "eth0", "hostA", c14A0, c14cA), // later instant
	/* 8*/ c14Row(c14TNext2, "eth0", "hostB", c14A0, c14cB), // later instant in +02:00
	/* 9*/ c14Row(c14TUTC, "eth0", "hostA", c14A1, c14cA), // 4-in-6 source address
	/*10*/ c14Row(c14TUTC, "eth0", "hostA", c14A2, c14cB), // IPv6, direction-dependent tie
	/*11*/ c14Row(c14TUTC, "eth0", "hostA", c14A3, c14cB), // other protocol
	/*12*/ c14Row(c14TUTC, "eth0", "hostA", c14A4, c14cC), // other port, ties on packets only
	/*13*/ c14Row(time.Time{}, "eth0", "hostA", c14A5, c14cA), // no time label, no addresses
	/*14*/ c14Row(time.Time{}, "eth1", "hostA", c14A5, c14cB),
	/*15*/ c14Row(c14TP2, "eth3", "hostA", c14A1, c14cC), // 4-in-6 in +02:00, other iface than 9
	// thorough tier only
	/*16*/ c14Row(c14TUTC, "eth0", "", c14A0, c14cA), // no hostname label
	/*17*/ c14Row(c14TUTC, "", "hostA", c14A0, c14cB), // no iface label
	/*18*/ c14Row(c14TUTC, "eth0", "hostA", c14A6, c14cA), // IPv6, other destination than 10
	/*19*/ c14Row(c14TUTC, "eth0", "hostA", c14A7, c14cB), // 4-in-6 destination
	/*20*/ c14Row(time.Unix(c14Unix+300, 0), "eth4", "hostA", c14A0, c14cC), // later instant, process-local zone
	/*21*/ c14Row(c14TP530a, "eth6", "hostA", c14A3, c14cA), // protocol 17 like 11, +05:30, other iface
}

const c14QuickRows = 16

func c14AlphaSize(thorough bool) int {
	if thorough {
		return len(c14Alphabet)
	}
	return c14QuickRows
}

type c14Cfg struct {
	sortBy    string // args.SortBy
	dir       types.Direction
	ascending bool
}

var c14Cfgs = func() []c14Cfg {
	var out []c14Cfg
	for _, s := range []string{"packets", "bytes", "time"} {
		for _, d := range []types.Direction{types.DirectionSum, types.DirectionIn, types.DirectionOut, types.DirectionBoth} {
			for _, a := range []bool{false, true} {
				out = append(out, c14Cfg{s, d, a})
			}
		}
	}
	return out
}()

func (c c14Cfg) String() string {
	o := "desc"
	if c.ascending {
		o = "asc"
	}
	return fmt.Sprintf("%s/%s/%s", c.sortBy, c.dir, o)
}

// c14Stmt builds the statement through the real argument preparation.
type c14StmtKey struct {
	cfg   int
	limit uint64
}

type c14Prepared struct {
	stmt *query.Statement
	// flagFail is set when the prepared statement does not carry the requested
	// order; stmt is then a copy corrected to the requested order so that the
	// comparator of that order is still exercised.
	flagFail *c14Failure
}

var c14Stmts = map[c14StmtKey]*c14Prepared{}

func c14Stmt(cfgIdx int, limit uint64) *c14Prepared {
	k := c14StmtKey{cfgIdx, limit}
	if s, ok := c14Stmts[k]; ok {
		return s
	}
	cfg := c14Cfgs[cfgIdx]
	args := query.NewArgs("sip,dip,proto,dport", "eth0", query.WithFirst("1700000000"), query.WithLast("1700100000"),
		query.WithSortBy(cfg.sortBy), query.WithFormat(types.FormatJSON))
	switch cfg.dir {
	case types.DirectionSum:
		args.Sum = true
	case types.DirectionIn:
		args.In = true
	case types.DirectionOut:
		args.Out = true
	}
	args.SortAscending = cfg.ascending
	if limit != 0 { // 0 = not given: the documented default (1000) applies
		args.NumResults = limit
	}
	s, err := args.Prepare(io.Discard)
	if err != nil {
		explore.HarnessErrorf("C14: Args.Prepare failed for %v: %v", cfg, err)
	}
	p := &c14Prepared{stmt: s}
	switch {
	case s.SortBy.String() != cfg.sortBy:
		p.flagFail = &c14Failure{sig: "sort-key-not-applied", msg: fmt.Sprintf("Args{SortBy:%q}.Prepare() gives Statement.SortBy=%v: rows are not sorted by the selected key", cfg.sortBy, s.SortBy)}
	case s.Direction != cfg.dir:
		p.flagFail = &c14Failure{sig: "direction-not-applied", msg: fmt.Sprintf("Args{Sum:%v In:%v Out:%v}.Prepare() gives Statement.Direction=%v, requested %v", args.Sum, args.In, args.Out, s.Direction, cfg.dir)}
	case s.SortAscending != cfg.ascending:
		p.flagFail = &c14Failure{sig: "ascending-flag-not-applied", msg: fmt.Sprintf("Args{SortBy:%q SortAscending:%v}.Prepare() gives Statement.SortAscending=%v: the rows sorted for this statement come out in the opposite order of the one requested", cfg.sortBy, cfg.ascending, s.SortAscending)}
	}
	if p.flagFail != nil {
		c := *s
		c.SortBy, c.Direction, c.SortAscending = results.SortOrderFromString(cfg.sortBy), cfg.dir, cfg.ascending
		p.stmt = &c
	}
	c14Stmts[k] = p
	return p
}

// ---- reference order, written from the property statement -------------------

func c14Primary(r *results.Row, cfg c14Cfg) (uint64, int64) {
	switch cfg.sortBy {
	case "packets":
		switch cfg.dir {
		case types.DirectionIn:
			return r.Counters.PacketsRcvd, 0
		case types.DirectionOut:
			return r.Counters.PacketsSent, 0
		}
		return r.Counters.PacketsRcvd + r.Counters.PacketsSent, 0
	case "bytes":
		switch cfg.dir {
		case types.DirectionIn:
			return r.Counters.BytesRcvd, 0
		case types.DirectionOut:
			return r.Counters.BytesSent, 0
		}
		return r.Counters.BytesRcvd + r.Counters.BytesSent, 0
	}
	// time: the instant
	return 0, r.Labels.Timestamp.Unix()
}

// c14Decide returns the first field (in the fixed order: primary key, sip, dip,
// proto, dport, instant, hostname, iface) in which a and b differ, and the sign
// of a-b in that field. "" means the rows are equal in all of them.
func c14Decide(a, b *results.Row, cfg c14Cfg) (string, int) {
	pa, ta := c14Primary(a, cfg)
	pb, tb := c14Primary(b, cfg)
	cmp := func(lt, gt bool) int {
		if lt {
			return -1
		}
		if gt {
			return 1
		}
		return 0
	}
	if pa != pb {
		return "primary", cmp(pa < pb, pa > pb)
	}
	if ta != tb {
		return "primary", cmp(ta < tb, ta > tb)
	}
	if c := a.Attributes.SrcIP.Compare(b.Attributes.SrcIP); c != 0 {
		return "sip", c
	}
	if c := a.Attributes.DstIP.Compare(b.Attributes.DstIP); c != 0 {
		return "dip", c
	}
	if a.Attributes.IPProto != b.Attributes.IPProto {
		return "proto", cmp(a.Attributes.IPProto < b.Attributes.IPProto, true)
	}
	if a.Attributes.DstPort != b.Attributes.DstPort {
		return "dport", cmp(a.Attributes.DstPort < b.Attributes.DstPort, true)
	}
	if !a.Labels.Timestamp.Equal(b.Labels.Timestamp) {
		return "time", cmp(a.Labels.Timestamp.Before(b.Labels.Timestamp), true)
	}
	if a.Labels.Hostname != b.Labels.Hostname {
		return "host", strings.Compare(a.Labels.Hostname, b.Labels.Hostname)
	}
	if a.Labels.Iface != b.Labels.Iface {
		return "iface", strings.Compare(a.Labels.Iface, b.Labels.Iface)
	}
	return "", 0
}

// c14RefLess: order selected by the sort key and direction; ties by the fixed
// order over attributes and labels; descending is the exact reverse of ascending.
func c14RefLess(a, b *results.Row, cfg c14Cfg) bool {
	_, c := c14Decide(a, b, cfg)
	if cfg.ascending {
		return c < 0
	}
	return c > 0
}

// c14ZonePair: same instant, same everything that precedes the instant in the
// fixed order, but the two time.Time values are not ==.
func c14ZonePair(a, b *results.Row, cfg c14Cfg) bool {
	f, _ := c14Decide(a, b, cfg)
	return (f == "host" || f == "iface") && a.Labels.Timestamp != b.Labels.Timestamp
}

const c14ZoneSig = "tie-unbroken:equal-instant-different-zone"

type c14Failure struct {
	sig, msg string
	zone     bool
}

func c14RowString(r *results.Row) string {
	ts := "-"
	if !r.Labels.Timestamp.IsZero() {
		ts = r.Labels.Timestamp.Format(time.RFC3339)
		if r.Labels.Timestamp.Location() == time.Local {
			ts += "(Local)"
		}
	}
	return fmt.Sprintf("[%s %s/%s %s>%s/%d/%d rcvd=%d/%d sent=%d/%d]", ts, r.Labels.Hostname, r.Labels.Iface, r.Attributes.SrcIP, r.Attributes.DstIP,
		r.Attributes.IPProto, r.Attributes.DstPort, r.Counters.PacketsRcvd, r.Counters.BytesRcvd, r.Counters.PacketsSent, r.Counters.BytesSent)
}

func c14RowsString(rows []results.Row) string {
	var sb strings.Builder
	for i := range rows {
		sb.WriteString(c14RowString(&rows[i]))
		sb.WriteByte(' ')
	}
	return sb.String()
}

// c14UnbrokenZonePair looks for two rows of the multiset that are the same
// instant in different representations, agree in everything that precedes the
// instant in the fixed order, differ in hostname or iface, and which the REAL
// comparator orders in neither direction.
func c14UnbrokenZonePair(idx []int, cfg c14Cfg, stmt *query.Statement) (a, b *results.Row) {
	less := results.By(stmt.SortBy, stmt.Direction, stmt.SortAscending)
	for i := range idx {
		for j := i + 1; j < len(idx); j++ {
			ra, rb := &c14Alphabet[idx[i]], &c14Alphabet[idx[j]]
			if c14ZonePair(ra, rb, cfg) && !less(ra, rb) && !less(rb, ra) {
				return ra, rb
			}
		}
	}
	return nil, nil
}

// c14Diff classifies the first position where two arrangements of the same rows
// differ. If the multiset contains an unbroken equal-instant pair (za, zb), the
// comparator is not an order on it and every ordering failure of this multiset
// is attributed to that pair (a failure with another cause also shows in the
// sub-multisets without such a pair, all of which are enumerated).
func c14Diff(kind string, got, other []results.Row, cfg c14Cfg, what string, za, zb *results.Row, have []*c14Failure) *c14Failure {
	for i := range got {
		if got[i] == other[i] {
			continue
		}
		a, b := &got[i], &other[i]
		field, _ := c14Decide(a, b, cfg)
		sig := kind + ":" + field
		if field == "" {
			sig = kind + ":representation-only"
		}
		if za != nil {
			sig = c14ZoneSig
		}
		for _, h := range have {
			if h.sig == sig {
				return nil // already recorded for this execution
			}
		}
		if za != nil {
			zf, _ := c14Decide(za, zb, cfg)
			return &c14Failure{c14ZoneSig, fmt.Sprintf("order %v: %s: rows %s and %s are the same instant in different time zone representations and differ in %s, but neither is ordered before the other; %s vs %s", cfg, what, c14RowString(za), c14RowString(zb), zf, c14RowsString(got), c14RowsString(other)), true}
		}
		if field == "" {
			field = "representation-only"
		}
		return &c14Failure{kind + ":" + field, fmt.Sprintf("order %v: %s: position %d holds %s in one and %s in the other (deciding field: %s); %s vs %s", cfg, what, i, c14RowString(a), c14RowString(b), field, c14RowsString(got), c14RowsString(other)), false}
	}
	return nil
}

func c14Same(a, b []results.Row) bool {
	for i := range a {
		if a[i] != b[i] {
			return false
		}
	}
	return true
}

var c14Perms = map[int][][]int{}

func c14PermsOf(n int) [][]int {
	if p, ok := c14Perms[n]; ok {
		return p
	}
	var out [][]int
	cur := make([]int, 0, n)
	used := make([]bool, n)
	var rec func()
	rec = func() {
		if len(cur) == n {
			out = append(out, append([]int(nil), cur...))
			return
		}
		for i := 0; i < n; i++ {
			if !used[i] {
				used[i] = true
				cur = append(cur, i)
				rec()
				cur = cur[:len(cur)-1]
				used[i] = false
			}
		}
	}
	rec()
	c14Perms[n] = out
	return out
}

func c14MaxRows(thorough bool) int {
	if thorough {
		return 5
	}
	return 4
}

// c14Multiset reads a non-increasing index sequence (strict: a set) from the explorer.
func c14Multiset(x *explore.Ctx, first, maxRows int, strict bool) []int {
	idx := make([]int, 0, maxRows)
	idx = append(idx, first)
	for len(idx) < maxRows {
		n := idx[len(idx)-1] + 2
		if strict {
			n--
		}
		if n <= 1 {
			break
		}
		c := x.Choose(n, "row"+strconv.Itoa(len(idx))+"(0=stop)")
		if c == 0 {
			break
		}
		idx = append(idx, c-1)
	}
	return idx
}

func c14Expected(idx []int, cfg c14Cfg) []results.Row {
	exp := make([]results.Row, len(idx))
	for i, j := range idx {
		exp[i] = c14Alphabet[j]
	}
	sort.SliceStable(exp, func(i, j int) bool { return c14RefLess(&exp[i], &exp[j], cfg) })
	return exp
}

func c14HasTie(exp []results.Row, cfg c14Cfg) bool {
	for i := 1; i < len(exp); i++ {
		if exp[i] == exp[i-1] {
			continue
		}
		pa, ta := c14Primary(&exp[i-1], cfg)
		pb, tb := c14Primary(&exp[i], cfg)
		if pa == pb && ta == tb {
			return true
		}
	}
	return false
}

func c14Run(x *explore.Ctx) {
	n0 := c14AlphaSize(x.Thorough())
	// the cases with the largest first row (most multisets) are dealt first
	cfgIdx := x.Case % len(c14Cfgs)
	cfg := c14Cfgs[cfgIdx]
	idx := c14Multiset(x, n0-1-x.Case/len(c14Cfgs), c14MaxRows(x.Thorough()), false)
	n := len(idx)
	prep := c14Stmt(cfgIdx, 0)
	stmt := prep.stmt
	exp := c14Expected(idx, cfg)
	if x.Logging() {
		x.Logf("order %v rows %v", cfg, idx)
		x.Logf("expected %s", c14RowsString(exp))
	}

	var fails []*c14Failure
	note := func(f *c14Failure) {
		if f == nil {
			return
		}
		for _, g := range fails {
			if g.sig == f.sig {
				return
			}
		}
		fails = append(fails, f)
	}

	note(prep.flagFail)
	za, zb := c14UnbrokenZonePair(idx, cfg, stmt)

	in := make([]results.Row, n)
	first := make([]results.Row, n)
	buf := make([]results.Row, n)
	for pi, perm := range c14PermsOf(n) {
		for i, p := range perm {
			in[i] = c14Alphabet[idx[p]]
		}
		copy(buf, in)
		// exactly what the engine does with its rows
		results.By(stmt.SortBy, stmt.Direction, stmt.SortAscending).Sort(buf)
		x.Transition()
		if pi == 0 {
			copy(first, buf)
			// the order selected by key, direction, ascending flag and the fixed tie order
			note(c14Diff("misordered", first, exp, cfg, "sorted output differs from the specified order", za, zb, fails))
			continue
		}
		// same rows, other input order: same sequence
		if !c14Same(buf, first) {
			note(c14Diff("input-order-dependent", buf, first, cfg, fmt.Sprintf("input order %v gives another sequence than input order %v", perm, c14PermsOf(n)[0]), za, zb, fails))
			break // the remaining input orders add nothing to this execution's verdict
		}
	}

	// the row limit keeps exactly the first rows of that order
	limBuf := make(results.Rows, 0, n)
	for _, lim := range []int{1, n - 1, n, n + 1, 0} { // 0 = limit not given (default)
		if lim == n-1 && lim < 1 {
			continue
		}
		ls := c14Stmt(cfgIdx, uint64(lim)).stmt
		res := &results.Result{Rows: append(limBuf[:0], first...)}
		if err := ls.PostProcess(context.Background(), res); err != nil {
			note(&c14Failure{"postprocess-error", fmt.Sprintf("order %v limit %d: %v", cfg, lim, err), false})
			continue
		}
		x.Transition()
		want := n
		if lim != 0 && lim < n {
			want = lim
		}
		if len(res.Rows) != want {
			note(&c14Failure{"limit-wrong-length", fmt.Sprintf("order %v: limit %d on %d rows keeps %d rows, expected %d", cfg, lim, n, len(res.Rows), want), false})
			continue
		}
		for i := range res.Rows {
			if res.Rows[i] != first[i] {
				note(&c14Failure{"limit-not-prefix", fmt.Sprintf("order %v: limit %d: row %d is %s, the sorted sequence has %s there", cfg, lim, i, c14RowString(&res.Rows[i]), c14RowString(&first[i])), false})
				break
			}
		}
	}

	x.Obs("%d %x", cfgIdx, c14Indices(first, idx))
	if c14HasTie(exp, cfg) {
		x.NontrivialKey(c14Key(cfgIdx, idx))
	}
	c14Report(x, fails)
}

// c14Indices maps rows back to alphabet indices (rows are pairwise != in the alphabet).
func c14Indices(rows []results.Row, idx []int) []byte {
	out := make([]byte, len(rows))
	for i := range rows {
		out[i] = 0xff
		for _, j := range idx {
			if rows[i] == c14Alphabet[j] {
				out[i] = byte(j)
				break
			}
		}
	}
	return out
}

func c14Key(cfgIdx int, idx []int) uint64 {
	h := uint64(cfgIdx) + 1
	for _, j := range idx {
		h = h*131 + uint64(j) + 1
	}
	return h
}

// c14Report fails the execution; a failure other than the equal-instant one is
// reported first so that it cannot hide behind it.
func c14Report(x *explore.Ctx, fails []*c14Failure) {
	for _, known := range []bool{false, true} {
		for _, f := range fails {
			if (f.zone || strings.HasSuffix(f.sig, "-not-applied")) == known {
				x.Fail(f.sig, "%s", f.msg)
				return
			}
		}
	}
}

// ---- C14.dist ---------------------------------------------------------------

func c14DistRun(x *explore.Ctx) {
	n0 := c14AlphaSize(x.Thorough())
	cfgIdx := x.Case % len(c14Cfgs)
	cfg := c14Cfgs[cfgIdx]
	// a RowsMap holds every (labels, attributes) once: sets, not multisets
	idx := c14Multiset(x, n0-1-x.Case/len(c14Cfgs), c14MaxRows(x.Thorough()), true)
	n := len(idx)
	exp := c14Expected(idx, cfg)
	prep0 := c14Stmt(cfgIdx, 0)
	stmt0 := prep0.stmt
	if x.Logging() {
		x.Logf("order %v rows %v", cfg, idx)
	}

	// Guard: finalizeResult reads the rows out of a Go map, i.e. in an order the
	// harness does not control. Its output is a function of the row set only if
	// the comparator orders every two distinct rows. Where it does not, that is
	// the violation (the sequence depends on map iteration order); the map path
	// is then not executed because its outcome would not be reproducible.
	less := results.By(stmt0.SortBy, stmt0.Direction, stmt0.SortAscending)
	var fails []*c14Failure
	for i := 0; i < n && len(fails) == 0; i++ {
		for j := i + 1; j < n; j++ {
			a, b := c14Alphabet[idx[i]], c14Alphabet[idx[j]]
			two := []results.Row{a, b}
			less.Sort(two)
			owt := []results.Row{b, a}
			less.Sort(owt)
			x.Transitions(2)
			if !c14Same(two, owt) {
				var za, zb *results.Row
				if c14ZonePair(&a, &b, cfg) {
					za, zb = &a, &b
				}
				fails = append(fails, c14Diff("input-order-dependent", two, owt, cfg, "two rows come out in the order they went in (the merged result is read from a map, so the sequence is not determined)", za, zb, nil))
				break
			}
		}
	}
	if len(fails) > 0 {
		c14Report(x, fails)
		return
	}

	for _, lim := range []int{0, 1, n - 1, n + 1} {
		if lim < 0 || (lim == n-1 && lim < 1) {
			continue
		}
		stmt := c14Stmt(cfgIdx, uint64(lim)).stmt
		for _, upper := range []uint64{stmt.NumResults, 100, 2} {
			rm := results.RowsMap{}
			for _, j := range idx {
				rm.MergeRow(c14Alphabet[j])
			}
			res := results.New()
			res.Start()
			gqdist.VerifFinalizeResult(context.Background(), res, stmt, rm, upper)
			x.Transition()
			want := n
			if lim != 0 && lim < want {
				want = lim
			}
			if int(upper) < want {
				want = int(upper)
			}
			if len(res.Rows) != want {
				fails = append(fails, &c14Failure{"dist-limit-wrong-length", fmt.Sprintf("order %v: finalizeResult with limit %d (upper bound %d) on %d rows keeps %d rows, expected %d", cfg, lim, upper, n, len(res.Rows), want), false})
				break
			}
			if f := c14Diff("dist-misordered", res.Rows, exp[:want], cfg, fmt.Sprintf("finalizeResult (limit %d, upper bound %d) does not return the first rows of the specified order", lim, upper), nil, nil, nil); f != nil {
				// rows outside the expected prefix have no partner in it
				fails = append(fails, f)
				break
			}
			if lim == 0 && upper == 100 {
				x.Obs("%d %x", cfgIdx, c14Indices(res.Rows, idx))
			}
		}
		if len(fails) > 0 {
			break
		}
	}
	if c14HasTie(exp, cfg) {
		x.NontrivialKey(c14Key(cfgIdx, idx))
	}
	if len(fails) == 0 && prep0.flagFail != nil {
		fails = append(fails, prep0.flagFail)
	}
	c14Report(x, fails)
}

func init() {
	for i := range c14Alphabet {
		for j := range c14Alphabet {
			if i != j {
				if f, _ := c14Decide(&c14Alphabet[i], &c14Alphabet[j], c14Cfg{"time", types.DirectionSum, true}); f == "" {
					panic(fmt.Sprintf("C14 alphabet rows %d and %d share (instant, hostname, iface, attributes)", i, j))
				}
			}
		}
	}
	if c14TP530a == c14TP530b || !c14TP530a.Equal(c14TP530b) {
		panic("C14: the two +05:30 timestamps are expected to be equal instants with distinct Locations")
	}
	nAlpha := c14QuickRows
	assume := []string{
		"HostID is a function of the hostname (documented in Labels.Less); rows differing only in HostID are not in the alphabet",
		"every alphabet row has a distinct (instant, hostname, iface, attributes); rows that differ only in the zone representation of the timestamp or only in counters are not in the alphabet (the statement fixes no order for them)",
		"tie order follows the requested direction: descending is the exact reverse of ascending",
		"counter sums do not overflow uint64",
	}
	register("C14", &explore.Scenario{
		ID: "C14", Name: "results.By(...).Sort over all permutations + limit through PostProcess", Level: "exploration",
		Rule:        fmt.Sprintf("case = (sort key packets|bytes|time x direction sum|in|out|both x ascending: 24 orders, statement built by the real Args.Prepare) x first row; an execution = one multiset of <=4 (thorough <=5) rows from a %d-row alphabet (thorough: 22 rows, adding unset hostname / iface, further IPv6 and 4-in-6 destinations, a later process-local instant) built for ties (equal counters and direction-dependent ties; one instant as UTC, +02:00, two distinct +05:30 Locations and process-local time, all parsed from RFC3339 as a result decoder does; IPv4, 4-in-6, IPv6 and unset addresses; same attributes on other iface/host; rows without time label). Inside the execution ALL n! input permutations are sorted with the real comparator and compared with each other and with the reference order (primary key, then sip, dip, proto, dport, instant, hostname, iface; reversed when descending), then limits {1, n-1, n, n+1, default} are applied through Statement.PostProcess and compared with the prefix; non-trivial = the multiset contains two different rows that tie on the primary key", nAlpha),
		Cases:       func(t string) int { return len(c14Cfgs) * c14AlphaSize(t == "thorough") },
		Bound:       func(string) int { return 0 },
		Run:         c14Run,
		PanicSig:    "panic",
		Assumptions: assume,
	})
	register("C14.dist", &explore.Scenario{
		ID: "C14", Name: "global-query finalizeResult: RowsMap -> sorted rows -> PostProcess -> limit", Level: "exploration",
		Rule:        fmt.Sprintf("case = 24 orders x first row; an execution = one set of <=4 (thorough <=5) distinct rows of the same %d-row (thorough 22-row) alphabet, merged into a RowsMap and finalized by the real finalizeResult for statement limits {default, 1, n-1, n+1} x upper bounds {statement limit, 100 (streaming), 2}; output must be the first min(limit, upper bound) rows of the reference order. Map iteration order is not controllable, therefore the path is only executed for sets in which the real comparator orders every pair of rows in both input orders (otherwise that is reported as the violation)", nAlpha),
		Cases:       func(t string) int { return len(c14Cfgs) * c14AlphaSize(t == "thorough") },
		Bound:       func(string) int { return 0 },
		Run:         c14DistRun,
		PanicSig:    "panic",
		Assumptions: append(assume[:len(assume):len(assume)], "Go map iteration order inside RowsMap.ToRowsTo is not enumerated; determinism of the output is derived from the comparator ordering every pair"),
	})
}

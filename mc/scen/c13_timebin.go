package scen

import (
	"context"
	"fmt"
	"io"
	"net/netip"
	"sort"
	"strconv"
	"time"

	"github.com/els0r/goProbe/v4/pkg/query"
	"github.com/els0r/goProbe/v4/pkg/results"
	"github.com/els0r/goProbe/v4/pkg/types"

	"verifmc/explore"
)

// C13: time binning conserves traffic and yields one aligned row per bin.
//
// Scenario C13 drives Statement.PostProcess (statement built by the real
// Args.Prepare with an explicit time resolution) over every multiset of rows
// from a row alphabet whose timestamps sit on, just before and just after bin
// boundaries. Scenario C13.auto drives the automatic bin size (directly and
// through Args.Prepare with time_resolution=auto) over query durations.

const (
	c13T      = int64(1700006400) // 2023-11-15T00:00:00Z, multiple of 86400
	c13FiveM  = 5 * time.Minute
	c13DayBin = 288
)

// bin sizes in minutes. The first six are the quick tier.
var c13BinsQuick = []int{10, 15, 25, 60, 1440, 5}
var c13BinsThorough = func() []int {
	out := append([]int(nil), c13BinsQuick...)
	have := map[int]bool{}
	for _, b := range out {
		have[b] = true
	}
	for m := 5; m <= 120; m += 5 {
		if !have[m] {
			out = append(out, m)
			have[m] = true
		}
	}
	for _, m := range []int{360, 720, 10080} {
		out = append(out, m)
	}
	return out
}()

type c13Ts struct {
	name string
	t    time.Time
}

// c13Timestamps builds the timestamp alphabet for one bin size: fixed offsets
// around a day boundary, bin-relative boundary values, the same instants
// expressed in other zones, and the zero time.
func c13Timestamps(binMin int) []c13Ts {
	bin := int64(binMin) * 60
	B := ((c13T + bin - 1) / bin) * bin // first epoch-aligned bin end >= T
	if B == c13T {
		B += bin
	}
	var out []c13Ts
	seen := map[int64]bool{}
	add := func(name string, u int64) {
		if seen[u] {
			return
		}
		seen[u] = true
		out = append(out, c13Ts{name, time.Unix(u, 0)})
	}
	add("T", c13T)
	add("T+1", c13T+1)
	add("T+299", c13T+299)
	add("T+300", c13T+300)
	add("T+600", c13T+600)
	add("T+899", c13T+899)
	add("T+900", c13T+900)
	add("T+901", c13T+901)
	add("T+86399", c13T+86399)
	add("T+86400", c13T+86400)
	add("B-1", B-1)
	add("B", B)
	add("B+1", B+1)
	add("B+bin", B+bin)
	// same instants, other representations (as decoded from other hosts' JSON)
	out = append(out, c13Ts{"T+300@+02:00", time.Unix(c13T+300, 0).In(time.FixedZone("", 7200))})
	out = append(out, c13Ts{"B@UTC", time.Unix(B, 0).UTC()})
	out = append(out, c13Ts{"zero", time.Time{}})
	return out
}

var c13LabelSets = []results.Labels{
	{Iface: "eth0", Hostname: "hostA", HostID: "idA"},
	{Iface: "eth1", Hostname: "hostB", HostID: "idB"},
}

var c13AttrSets = []results.Attributes{
	{SrcIP: netip.MustParseAddr("10.0.0.1"), DstIP: netip.MustParseAddr("10.0.0.2"), IPProto: 6, DstPort: 80},
	{SrcIP: netip.MustParseAddr("2001:db8::1"), DstIP: netip.MustParseAddr("2001:db8::2"), IPProto: 17, DstPort: 53},
}

var c13Counters = []types.Counters{
	{BytesRcvd: 1, BytesSent: 1, PacketsRcvd: 1, PacketsSent: 1},
	{BytesRcvd: 1 << 40, BytesSent: 3, PacketsRcvd: 1 << 20, PacketsSent: 0},
	{BytesRcvd: 0, BytesSent: 1<<40 + 7, PacketsRcvd: 2, PacketsSent: 1 << 33},
}

type c13Env struct {
	binMin int
	bin    int64
	stmt   *query.Statement
	rows   []results.Row
	names  []string
}

var c13Envs = map[int]*c13Env{}

func c13GetEnv(binMin int) *c13Env {
	if e, ok := c13Envs[binMin]; ok {
		return e
	}
	e := &c13Env{binMin: binMin, bin: int64(binMin) * 60}
	args := query.NewArgs("time,sip,dip,proto,dport", "eth0,eth1",
		query.WithFirst(strconv.FormatInt(c13T-86400, 10)), query.WithLast(strconv.FormatInt(c13T+2*86400, 10)))
	args.TimeResolution = (time.Duration(binMin) * time.Minute).String()
	args.Format = types.FormatJSON
	stmt, err := args.Prepare(io.Discard)
	if err != nil {
		explore.HarnessErrorf("C13: Args.Prepare rejects time resolution %q: %v", args.TimeResolution, err)
	}
	if stmt.TimeBinSize != time.Duration(binMin)*time.Minute || !stmt.LabelSelector.Timestamp {
		explore.HarnessErrorf("C13: prepared statement has bin size %v / timestamp label %v for resolution %q", stmt.TimeBinSize, stmt.LabelSelector.Timestamp, args.TimeResolution)
	}
	e.stmt = stmt
	i := 0
	for _, ts := range c13Timestamps(binMin) {
		for li, l := range c13LabelSets {
			for ai, a := range c13AttrSets {
				l.Timestamp = ts.t
				e.rows = append(e.rows, results.Row{Labels: l, Attributes: a, Counters: c13Counters[i%len(c13Counters)]})
				e.names = append(e.names, fmt.Sprintf("%s/L%d/A%d/c%d", ts.name, li, ai, i%len(c13Counters)))
				i++
			}
		}
	}
	c13Envs[binMin] = e
	return e
}

// c13Key is the identity the statement speaks about: (bin instant, labels, attributes).
type c13Key struct {
	zero            bool
	unix            int64
	iface, host, id string
	attrs           results.Attributes
}

func c13KeyOf(r *results.Row, unix int64) c13Key {
	return c13Key{zero: r.Labels.Timestamp.IsZero(), unix: unix, iface: r.Labels.Iface, host: r.Labels.Hostname, id: r.Labels.HostID, attrs: r.Attributes}
}

func c13CeilBin(u, bin int64) int64 {
	// smallest multiple of bin that is >= u (u >= 0 in the alphabet)
	return ((u + bin - 1) / bin) * bin
}

func c13Add(a, b types.Counters) types.Counters {
	return types.Counters{BytesRcvd: a.BytesRcvd + b.BytesRcvd, BytesSent: a.BytesSent + b.BytesSent,
		PacketsRcvd: a.PacketsRcvd + b.PacketsRcvd, PacketsSent: a.PacketsSent + b.PacketsSent}
}

func c13RowsString(rows []results.Row) string {
	s := ""
	for i := range rows {
		u := "zero"
		if !rows[i].Labels.Timestamp.IsZero() {
			u = strconv.FormatInt(rows[i].Labels.Timestamp.Unix(), 10)
		}
		s += fmt.Sprintf("[ts=%s %s/%s %s->%s/%d/%d %+v] ", u, rows[i].Labels.Hostname, rows[i].Labels.Iface,
			rows[i].Attributes.SrcIP, rows[i].Attributes.DstIP, rows[i].Attributes.IPProto, rows[i].Attributes.DstPort, rows[i].Counters)
	}
	return s
}

func c13MaxRows(thorough bool, binMin int) int {
	if !thorough {
		if binMin == 25 { // the bin size to which the day boundary T is not aligned
			return 4
		}
		return 3
	}
	if binMin == 25 || binMin == 10 {
		return 5
	}
	return 4
}

type c13Case struct{ binMin, first int }

var c13CaseCache = map[bool][]c13Case{}

// c13Cases lists (bin size, first row) for a tier; the alphabet size depends on
// the bin size because coinciding timestamps are listed once.
func c13Cases(thorough bool) []c13Case {
	if cs, ok := c13CaseCache[thorough]; ok {
		return cs
	}
	bins := c13BinsQuick
	if thorough {
		bins = c13BinsThorough
	}
	var cs []c13Case
	for _, b := range bins {
		for i := range c13GetEnv(b).rows {
			cs = append(cs, c13Case{b, i})
		}
	}
	// largest cases first (a case with first row f and up to m rows has ~f^(m-1) multisets)
	size := func(c c13Case) float64 {
		v := 1.0
		for k := 1; k < c13MaxRows(thorough, c.binMin); k++ {
			v *= float64(c.first + k)
		}
		return v
	}
	sort.SliceStable(cs, func(i, j int) bool { return size(cs[i]) > size(cs[j]) })
	c13CaseCache[thorough] = cs
	return cs
}

func c13Run(x *explore.Ctx) {
	cs := c13Cases(x.Thorough())[x.Case]
	binMin := cs.binMin
	e := c13GetEnv(binMin)
	maxRows := c13MaxRows(x.Thorough(), binMin)

	// multiset as a non-increasing index sequence
	idx := make([]int, 0, maxRows)
	idx = append(idx, cs.first)
	for len(idx) < maxRows {
		c := x.Choose(idx[len(idx)-1]+2, "row"+strconv.Itoa(len(idx))+"(0=stop)")
		if c == 0 {
			break
		}
		idx = append(idx, c-1)
	}
	in := make([]results.Row, len(idx))
	for i, j := range idx {
		in[i] = e.rows[j]
	}
	if x.Logging() {
		for _, j := range idx {
			x.Logf("input row %s", e.names[j])
		}
	}

	// reference: group by (bin end, labels, attributes), sum counters
	var inSum types.Counters
	want := map[c13Key]types.Counters{}
	var wantOrder []c13Key
	merges := 0
	for i := range in {
		inSum = c13Add(inSum, in[i].Counters)
		var k c13Key
		if in[i].Labels.Timestamp.IsZero() {
			k = c13KeyOf(&in[i], 0)
		} else {
			k = c13KeyOf(&in[i], c13CeilBin(in[i].Labels.Timestamp.Unix(), e.bin))
		}
		if _, ok := want[k]; ok {
			merges++
		} else {
			wantOrder = append(wantOrder, k) // deterministic order of the reference bins
		}
		want[k] = c13Add(want[k], in[i].Counters)
	}

	res := results.New()
	res.Rows = append(results.Rows(nil), in...)
	res.Summary.First = time.Unix(c13T-86400, 0)
	res.Summary.Last = time.Unix(c13T+2*86400, 0)
	if err := e.stmt.PostProcess(context.Background(), res); err != nil {
		x.Fail("postprocess-error", "bin %dm: PostProcess returned %v", binMin, err)
		return
	}
	x.Transition()
	out := append([]results.Row(nil), res.Rows...)
	if x.Logging() {
		x.Logf("bin %dm -> %s", binMin, c13RowsString(out))
	}

	coarser := binMin > 5

	// (1) every counter is conserved
	var outSum types.Counters
	for i := range out {
		outSum = c13Add(outSum, out[i].Counters)
	}
	if outSum != inSum {
		x.Fail("sum-not-conserved", "bin %dm: counters in %+v, out %+v; input %s output %s", binMin, inSum, outSum, c13RowsString(in), c13RowsString(out))
		return
	}
	if coarser {
		// (2) at most one row per (bin, labels, attributes)
		got := map[c13Key]types.Counters{}
		for i := range out {
			var k c13Key
			if out[i].Labels.Timestamp.IsZero() {
				k = c13KeyOf(&out[i], 0)
			} else {
				k = c13KeyOf(&out[i], out[i].Labels.Timestamp.Unix())
			}
			if _, dup := got[k]; dup {
				x.Fail("duplicate-bin-row", "bin %dm: two output rows for the same (bin, labels, attributes): input %s output %s", binMin, c13RowsString(in), c13RowsString(out))
				return
			}
			got[k] = out[i].Counters
		}
		// (3) every row is labelled with the end of the bin containing its original timestamp
		for i := range out {
			if out[i].Labels.Timestamp.IsZero() {
				continue
			}
			if u := out[i].Labels.Timestamp.Unix(); u%e.bin != 0 || out[i].Labels.Timestamp.Nanosecond() != 0 {
				x.Fail("label-not-bin-end", "bin %dm: output timestamp %d is not a bin end: input %s output %s", binMin, u, c13RowsString(in), c13RowsString(out))
				return
			}
		}
		for _, k := range wantOrder {
			w := want[k]
			if k.zero {
				// rows without a time label: only conservation and uniqueness are judged
				continue
			}
			g, ok := got[k]
			if !ok {
				x.Fail("row-in-wrong-bin", "bin %dm: no output row for bin end %d %s/%s: input %s output %s", binMin, k.unix, k.host, k.iface, c13RowsString(in), c13RowsString(out))
				return
			}
			if g != w {
				x.Fail("bin-counters", "bin %dm: bin end %d %s/%s carries %+v, expected %+v: input %s output %s", binMin, k.unix, k.host, k.iface, g, w, c13RowsString(in), c13RowsString(out))
				return
			}
		}
		if len(got) != len(want) {
			x.Fail("extra-bin-row", "bin %dm: %d output rows, expected %d: input %s output %s", binMin, len(got), len(want), c13RowsString(in), c13RowsString(out))
			return
		}
	}
	// (4) binning the binned result again changes nothing
	res2 := results.New()
	res2.Rows = append(results.Rows(nil), out...)
	res2.Summary.First, res2.Summary.Last = res.Summary.First, res.Summary.Last
	if err := e.stmt.PostProcess(context.Background(), res2); err != nil {
		x.Fail("postprocess-error", "bin %dm: second PostProcess returned %v", binMin, err)
		return
	}
	x.Transition()
	same := len(res2.Rows) == len(out)
	if same {
		for i := range out {
			a, b := &out[i], &res2.Rows[i]
			if !(a.Labels.Timestamp.Equal(b.Labels.Timestamp) && a.Labels.Timestamp.IsZero() == b.Labels.Timestamp.IsZero() &&
				a.Labels.Iface == b.Labels.Iface && a.Labels.Hostname == b.Labels.Hostname && a.Labels.HostID == b.Labels.HostID &&
				a.Attributes == b.Attributes && a.Counters == b.Counters) {
				same = false
				break
			}
		}
	}
	if !same {
		sig := "rebin-changes-rows"
		if c13SameMultiset(out, res2.Rows) {
			sig = "rebin-reorders"
		}
		x.Fail(sig, "bin %dm: binning twice differs from binning once: once %s twice %s", binMin, c13RowsString(out), c13RowsString(res2.Rows))
		return
	}

	key := c13Hash(out) ^ uint64(binMin)*0x9e3779b97f4a7c15
	x.Obs("%x", key)
	x.StateKey(key)
	if coarser && merges > 0 {
		// the mechanism: at least two input rows fell into one (bin, labels, attributes)
		x.NontrivialKey(key*31 + uint64(merges)*7 + uint64(len(in)))
	}
}

// c13Hash is an order-sensitive hash of the observable content of rows.
func c13Hash(rows []results.Row) uint64 {
	h := uint64(14695981039346656037)
	mix := func(v uint64) { h = (h ^ v) * 1099511628211 }
	str := func(s string) {
		for i := 0; i < len(s); i++ {
			mix(uint64(s[i]))
		}
		mix(0xff)
	}
	for i := range rows {
		r := &rows[i]
		if r.Labels.Timestamp.IsZero() {
			mix(1)
		} else {
			mix(uint64(r.Labels.Timestamp.Unix()) << 1)
		}
		str(r.Labels.Iface)
		str(r.Labels.Hostname)
		str(r.Labels.HostID)
		b := r.Attributes.SrcIP.As16()
		for _, c := range b {
			mix(uint64(c))
		}
		b = r.Attributes.DstIP.As16()
		for _, c := range b {
			mix(uint64(c))
		}
		mix(uint64(r.Attributes.IPProto)<<16 | uint64(r.Attributes.DstPort))
		mix(r.Counters.BytesRcvd)
		mix(r.Counters.BytesSent)
		mix(r.Counters.PacketsRcvd)
		mix(r.Counters.PacketsSent)
	}
	return h
}

func c13SameMultiset(a, b []results.Row) bool {
	if len(a) != len(b) {
		return false
	}
	ka := make([]string, len(a))
	kb := make([]string, len(b))
	for i := range a {
		ka[i] = c13RowsString(a[i : i+1])
		kb[i] = c13RowsString(b[i : i+1])
	}
	sort.Strings(ka)
	sort.Strings(kb)
	for i := range ka {
		if ka[i] != kb[i] {
			return false
		}
	}
	return true
}

// ---------------------------------------------------------------------------
// C13.auto: automatic bin size

const c13AutoChunks = 64

// c13Durations lists the query durations (whole seconds) of a tier.
func c13Durations(thorough bool) []int64 {
	seen := map[int64]bool{}
	var out []int64
	add := func(d int64) {
		if d < 0 || seen[d] {
			return
		}
		seen[d] = true
		out = append(out, d)
	}
	secs, days := int64(7200), int64(40)
	if thorough {
		secs, days = 2*86400, 400
	}
	for d := int64(0); d <= secs; d++ {
		add(d)
	}
	for d := int64(300); d <= days*86400; d += 300 {
		add(d - 1)
		add(d)
		add(d + 1)
	}
	for _, y := range []int64{365 * 86400, 366 * 86400, 3650 * 86400, 3653 * 86400} {
		add(y - 1)
		add(y)
		add(y + 1)
	}
	sort.Slice(out, func(i, j int) bool { return out[i] < out[j] })
	return out
}

var c13DurCache = map[bool][]int64{}

func c13CheckAuto(x *explore.Ctx, via string, d int64, bin time.Duration) bool {
	dur := time.Duration(d) * time.Second
	if bin <= 0 {
		x.Fail("auto-bin-not-positive", "%s: duration %v gives bin size %v", via, dur, bin)
		return false
	}
	if bin%c13FiveM != 0 {
		x.Fail("auto-bin-not-multiple-of-5m", "%s: duration %v gives bin size %v", via, dur, bin)
		return false
	}
	nb := (dur + bin - 1) / bin
	if nb > c13DayBin {
		x.Fail("auto-bin-too-many-bins", "%s: duration %v gives bin size %v, i.e. %d bins > %d", via, dur, bin, nb, c13DayBin)
		return false
	}
	return true
}

func c13AutoRun(x *explore.Ctx) {
	durs, ok := c13DurCache[x.Thorough()]
	if !ok {
		durs = c13Durations(x.Thorough())
		c13DurCache[x.Thorough()] = durs
	}
	per := (len(durs) + c13AutoChunks - 1) / c13AutoChunks
	lo := x.Case * per
	hi := min(lo+per, len(durs))
	if lo >= hi {
		return
	}
	d := durs[lo+x.Choose(hi-lo, "duration-in-chunk")]

	bin := results.CalcTimeBinSize(types.DefaultTimeResolution, time.Duration(d)*time.Second)
	x.Transition()
	okDirect := c13CheckAuto(x, "CalcTimeBinSize", d, bin)

	// the same duration as a query range through the real argument preparation
	first := c13T - 7*300 + 17
	args := query.NewArgs("time,sip", "eth0", query.WithFirst(strconv.FormatInt(first, 10)), query.WithLast(strconv.FormatInt(first+d, 10)))
	args.TimeResolution = types.TimeResolutionAuto
	args.Format = types.FormatJSON
	stmt, err := args.Prepare(io.Discard)
	if err != nil {
		explore.HarnessErrorf("C13.auto: Args.Prepare failed for duration %d: %v", d, err)
	}
	x.Transition()
	if stmt.Last-stmt.First != d {
		explore.HarnessErrorf("C13.auto: prepared range %d..%d is not %d s long", stmt.First, stmt.Last, d)
	}
	okPrep := c13CheckAuto(x, "Args.Prepare(auto)", d, stmt.TimeBinSize)
	if !okDirect || !okPrep {
		return
	}
	x.Logf("duration %ds -> bin %v (prepared %v)", d, bin, stmt.TimeBinSize)
	x.Obs("%d %d %d", d, bin, stmt.TimeBinSize)
	if bin > c13FiveM {
		// the rounding mechanism was exercised (bin size above the native resolution)
		x.Nontrivial("%d", d)
	}
}

func init() {
	nRows := len(c13GetEnv(15).rows)
	register("C13", &explore.Scenario{
		ID: "C13", Name: "time binning through Statement.PostProcess vs group-by-bin-end reference", Level: "exploration",
		Rule: fmt.Sprintf("case = bin size (quick: 10,15,25,60,1440,5 min; thorough: every multiple of 5 min up to 2 h, 6 h, 12 h, 1 d, 7 d; statement built by the real Args.Prepare with that time_resolution) x first row; an execution = one multiset of <=3 rows (<=4 for the 25 min bin; thorough: <=4, and <=5 for the 10 and 25 min bins) from an alphabet of up to %d rows = up to 17 timestamps (T=day boundary, T+1, +299, +300, +600, +899, +900, +901, +86399, +86400, bin end B-1, B, B+1, B+bin, two of these instants in +02:00 / UTC representation, zero time) x 2 label sets x 2 attribute sets, counters from {1, 2^40, 2^33 mixes}; oracle: per-counter sums conserved, <=1 row per (bin instant, labels, attributes), every timestamp = smallest multiple of the bin >= input timestamp with the reference sums, PostProcess(PostProcess(x)) = PostProcess(x); for the 5 min bin (not coarser) only conservation and idempotence are judged; non-trivial = at least two input rows fell into one (bin, labels, attributes), distinct by output", nRows),
		Cases: func(t string) int {
			return len(c13Cases(t == "thorough"))
		},
		Bound:    func(string) int { return 0 },
		Run:      c13Run,
		PanicSig: "panic",
		Assumptions: []string{"timestamps are whole seconds at or after the Unix epoch (they come from goDB block timestamps)",
			"rows without a time label (zero time) are judged for conservation and uniqueness only",
			"row order of the binned result is the subject of C14; idempotence is compared as a sequence because the comparator is total on this alphabet (HostID is a function of hostname)"},
	})
	register("C13.auto", &explore.Scenario{
		ID: "C13", Name: "automatic bin size over query durations", Level: "exploration",
		Rule:        "an execution = one query duration in whole seconds (quick: every second 0 s..2 h, every multiple of 5 min up to 40 days and its neighbours +-1 s, 1 y / 10 y +-1 s; thorough: every second up to 2 days, multiples of 5 min +-1 s up to 400 days), dealt in 64 chunks; CalcTimeBinSize(5m, d) and Statement.TimeBinSize from Args.Prepare(first, first+d, time_resolution=auto) must each be > 0, a multiple of 5 min and give ceil(d/bin) <= 288; non-trivial = bin size above 5 min",
		Cases:       func(string) int { return c13AutoChunks },
		Bound:       func(string) int { return 0 },
		Run:         c13AutoRun,
		PanicSig:    "panic",
		Assumptions: []string{"query durations are whole seconds (Statement.First/Last are Unix seconds)", "'a day's worth of bins' is read as ceil(duration/bin) <= 288"},
	})
}

package scen

import (
	"fmt"

	"github.com/els0r/goProbe/v4/pkg/goDB"
	"github.com/els0r/goProbe/v4/pkg/goDB/encoder/encoders"
	"github.com/els0r/goProbe/v4/pkg/goDB/storage/gpfile"
	"github.com/els0r/goProbe/v4/pkg/types"

	"verifmc/explore"
	"verifmc/fixture"
)

// C12: interface summaries (goQuery list / ReadMetadata) equal the data stored in the range.

func c12Shapes() []c08Shape {
	v4 := []fixture.Rec{r4a, r4b, r4c, r4d, r4e}
	v6 := []fixture.Rec{r6a, r6b, r6c, r6d}
	mixed := append(append([]fixture.Rec{}, v4...), v6...)
	sc := func(rs []fixture.Rec, k uint64) []fixture.Rec {
		out := make([]fixture.Rec, len(rs))
		for i := range rs {
			out[i] = scale(rs[i], k)
		}
		return out
	}
	rich := fixture.DB{Blocks: []fixture.Block{
		{Iface: "eth0", TS: tA1, Recs: mixed, Drops: 1},
		{Iface: "eth0", TS: tA2, Recs: sc(mixed[2:7], 2), Drops: 2},
		{Iface: "eth0", TS: dayA + 900, Recs: sc(v4, 11), Drops: 16},
		{Iface: "eth0", TS: dayA + 1200, Recs: nil, Drops: 256},           // a block without flows but with drops
		{Iface: "eth0", TS: dayB - 150, Recs: sc(v6[:2], 17), Drops: 512}, // inside the last write-out interval of the day
		{Iface: "eth0", TS: tB1, Recs: sc(mixed[4:], 3), Drops: 32},
		{Iface: "eth0", TS: dayB + 600, Recs: sc(v6, 13), Drops: 64},
		{Iface: "eth0", TS: tD1, Recs: sc(mixed[:6], 5), Drops: 128},
		{Iface: "eth1", TS: tA1, Recs: sc(mixed[3:8], 7), Drops: 4},
	}}
	single := fixture.DB{Blocks: []fixture.Block{{Iface: "eth0", TS: tA2, Recs: mixed, Drops: 5}}}
	oneDay := fixture.DB{Blocks: []fixture.Block{
		{Iface: "eth0", TS: tA1, Recs: v4, Drops: 1},
		{Iface: "eth0", TS: tA2, Recs: v6, Drops: 2},
		{Iface: "eth0", TS: dayA + 900, Recs: mixed, Drops: 4},
	}}
	return []c08Shape{{"c12-rich", rich}, {"c12-single-block", single}, {"c12-one-day", oneDay}}
}

var c12Points = []int64{tA1 - 301, tA1 - 1, tA1, tA1 + 1, tA1 + 150, tA2, tA2 + 1, dayA + 899, dayA + 900, dayA + 901, dayA + 1199, dayA + 1200, dayA + 1201,
	dayB - 301, dayB - 151, dayB - 150, dayB - 149, dayB - 1, dayB, tB1, tB1 + 1,
	dayB + 600, dayB + 601, tD1 - 1, tD1, tD1 + 1, tD1 + 1000000}

func c12Run(x *explore.Ctx) {
	shapes := c12Shapes()
	sh := shapes[x.Case%len(shapes)]
	dbPath := c08DB(sh)
	iface := "eth0"
	i := x.Choose(len(c12Points), "first")
	j := i + x.Choose(len(c12Points)-i, "last-first")
	first, last := c12Points[i], c12Points[j]

	var want gpfile.Stats
	nblocks := 0
	for _, b := range sh.db.Blocks {
		if b.Iface != iface || b.TS < first || b.TS > last {
			continue
		}
		nblocks++
		want.Traffic.NumDrops += b.Drops
		for _, r := range b.Recs {
			if r.IsV4() {
				want.Traffic.NumV4Entries++
			} else {
				want.Traffic.NumV6Entries++
			}
			want.Counts.Add(r.C)
		}
	}
	wm, err := goDB.NewDBWorkManager(goDB.NewMetadataQuery(), dbPath, iface, 2)
	if err != nil {
		x.Fail("workmanager-error", "%v", err)
		return
	}
	x.Logf("db=%s iface=%s first=%d last=%d (%d reference blocks in range)", sh.name, iface, first, last, nblocks)
	im, err := wm.ReadMetadata(first, last)
	x.Transition()
	if err != nil {
		x.Fail("readmetadata-error", "ReadMetadata(%d,%d) on %s failed: %v", first, last, sh.name, err)
		return
	}
	where := fmt.Sprintf("%s [%d,%d] (%d blocks in range)", sh.name, first, last, nblocks)
	if im.Counts != want.Counts {
		sig := "counters"
		x.Fail(sig+c12Class(sh, first, last), "%s: summary counters %+v, stored blocks in range sum to %+v", where, im.Counts, want.Counts)
		return
	}
	if im.Traffic.NumV4Entries != want.Traffic.NumV4Entries || im.Traffic.NumV6Entries != want.Traffic.NumV6Entries {
		x.Fail("flow-counts"+c12Class(sh, first, last), "%s: summary flows v4=%d v6=%d, stored blocks in range have v4=%d v6=%d", where,
			im.Traffic.NumV4Entries, im.Traffic.NumV6Entries, want.Traffic.NumV4Entries, want.Traffic.NumV6Entries)
		return
	}
	if im.Traffic.NumDrops != want.Traffic.NumDrops {
		x.Fail("drops"+c12Class(sh, first, last), "%s: summary drops %d, stored blocks in range sum to %d", where, im.Traffic.NumDrops, want.Traffic.NumDrops)
		return
	}
	// second oracle: totals of a real query over the same interface and range
	res, err := fixture.RunQuery(dbPath, "proto", iface, "", first, last, false)
	if err != nil {
		x.Fail("query-error", "%s: query failed: %v", where, err)
		return
	}
	if res.Summary.Totals != im.Counts {
		x.Fail("query-disagrees", "%s: summary counters %+v but a query over the same range totals %+v", where, im.Counts, res.Summary.Totals)
		return
	}
	x.Obs("%+v", want)
	if nblocks > 0 {
		x.Nontrivial("%s %d %d", sh.name, first, last)
	}
	x.StateKey(uint64(first)*31 + uint64(last))
}

// c12Class normalises where the range bounds fall, for stable finding signatures.
func c12Class(sh c08Shape, first, last int64) string {
	cls := func(t int64, isFirst bool) string {
		var firstTs, lastTs int64 = 1 << 62, 0
		exact := false
		for _, b := range sh.db.Blocks {
			if b.Iface != "eth0" {
				continue
			}
			if b.TS < firstTs {
				firstTs = b.TS
			}
			if b.TS > lastTs {
				lastTs = b.TS
			}
			if b.TS == t {
				exact = true
			}
		}
		switch {
		case t < firstTs:
			return "before-data"
		case t > lastTs:
			return "after-data"
		case exact:
			return "on-block"
		}
		return "between-blocks"
	}
	return ":first-" + cls(first, true) + ":last-" + cls(last, false)
}

var _ = types.Counters{}
var _ = encoders.EncoderTypeLZ4

func init() {
	register("C12", &explore.Scenario{
		ID: "C12", Name: "interface summary vs stored blocks and vs query totals", Level: "exploration",
		Rule:     "cases = 3 databases (8 blocks over 3 days incl. month change with per-block drops, one block without flows but with drops, one block in the last five minutes of a day; single block; 3 blocks in one day) x ALL pairs first<=last over 27 boundary instants (before data, block-1s, on block, block+1s, between blocks, day boundaries, after data). Oracle 1: ReadMetadata flows v4/v6, drops and four counters = sum over reference blocks with first<=ts<=last; oracle 2: counters = Summary.Totals of a real query over the same interface and range. non-trivial = ranges containing >=1 block, distinct by (db, first, last)",
		Cases:    func(t string) int { return 3 },
		Bound:    func(t string) int { return 0 },
		Run:      c12Run,
		Setup:    func(string) {},
		PanicSig: "panic",
	})
}

package scen

import (
	"context"
	"fmt"
	"regexp"
	"sort"
	"strings"

	"github.com/els0r/goProbe/v4/pkg/capture/capturetypes"
	"github.com/els0r/goProbe/v4/pkg/goDB"
	"github.com/els0r/goProbe/v4/pkg/goDB/encoder/encoders"
	"github.com/els0r/goProbe/v4/pkg/goDB/engine"
	"github.com/els0r/goProbe/v4/pkg/query"
	"github.com/els0r/goProbe/v4/pkg/types"
	"github.com/els0r/goProbe/v4/pkg/types/hashmap"

	"verifmc/explore"
	"verifmc/fixture"
)

// C16: interface selection matches the requested list and never crashes.
//
// Reference model (from the statement and cmd/goQuery/cmd/help.go: "ANY" is
// case-insensitive, '!' excludes): selected SET =
//   { e in existing | (some listed name equals e, or 'any' is listed) and no "!e" is listed }
// regular expression argument /re/: { e in existing | re matches e }.
// Only the set is judged (repetitions in the returned list are not), and a
// query whose selection is empty may end with an error instead of a result.

var (
	c16UniverseQuick    = []string{"eth0", "eth1", "wlan0"}
	c16UniverseThorough = []string{"eth0", "eth1", "wlan0", "eth10"}
	c16SymsQuick        = []string{"eth0", "eth1", "eth9", "any", "ANY", "!eth0", "!eth1", "!eth9"}
	c16SymsThorough     = []string{"eth0", "eth1", "eth9", "any", "ANY", "!eth0", "!eth1", "!eth9", "wlan0", "!wlan0"}
	// names outside the documented syntax, mixed with valid ones: only "no crash, and a
	// selection returned without error is the model's" is demanded
	c16OddSyms = []string{"eth0", "!eth0", "any", "", "!", "!!eth0", "eth0 ", "a234567890123456", "/eth/", "!any", "Any"}
	c16Regexes = []string{"/eth/", "/^eth[01]$/", "/.*/", "/x/", "/eth0|wlan0/", "/[/", "/^$/", "/0$/", "/(?i)ETH1/", "/eth1/", "/!eth0/", "/eth0,eth1/", "/a/b/", "//", "/", "/(/"}
)

func c16Universe(t string) []string {
	if t == "thorough" {
		return c16UniverseThorough
	}
	return c16UniverseQuick
}

func c16Syms(t string) []string {
	if t == "thorough" {
		return c16SymsThorough
	}
	return c16SymsQuick
}

func c16Subset(u []string, mask int) []string {
	var out []string
	for i, n := range u {
		if mask&(1<<i) != 0 {
			out = append(out, n)
		}
	}
	sort.Strings(out)
	return out
}

// c16Guard adds the failing input to a panic raised by the code under test
// (the explorer still finds the original repository frame below the re-panic).
func c16Guard(arg string, existing []string) {
	if e := recover(); e != nil {
		panic(fmt.Sprintf("%v — interface argument %q, existing interfaces %v", e, arg, existing))
	}
}

func c16Select(existing []string, arg string, regex bool) ([]string, error) {
	defer c16Guard(arg, existing)
	if regex {
		return engine.VerifParseIfaceRegex(c16Lister{existing}, arg)
	}
	return engine.VerifParseIfaceList(c16Lister{existing}, arg)
}

type c16Lister struct{ ifaces []string }

// ListInterfaces returns a fresh sorted slice built by appending, as info.GetInterfaces does.
func (l c16Lister) ListInterfaces() ([]string, error) {
	var out []string
	for _, n := range l.ifaces {
		out = append(out, n)
	}
	return out, nil
}

type c16Want struct {
	set      map[string]bool
	any      bool
	pos, neg map[string]int
}

func c16Model(list, existing []string) c16Want {
	w := c16Want{set: map[string]bool{}, pos: map[string]int{}, neg: map[string]int{}}
	for _, n := range list {
		switch {
		case strings.HasPrefix(n, "!"):
			w.neg[n[1:]]++
		case strings.EqualFold(n, "any"):
			w.any = true
			w.pos["any"]++
		default:
			w.pos[n]++
		}
	}
	for _, e := range existing {
		if (w.any || w.pos[e] > 0) && w.neg[e] == 0 {
			w.set[e] = true
		}
	}
	return w
}

func c16SetString(m map[string]bool) string {
	var l []string
	for k := range m {
		l = append(l, k)
	}
	sort.Strings(l)
	return "{" + strings.Join(l, ",") + "}"
}

// c16Compare checks a returned selection against the model; returns false after x.Fail.
func c16Compare(x *explore.Ctx, how, arg string, existing, got []string, w c16Want) bool {
	gotSet := map[string]bool{}
	for _, g := range got {
		gotSet[g] = true
	}
	exists := map[string]bool{}
	for _, e := range existing {
		exists[e] = true
	}
	cls := func(name string) string {
		c := "single"
		if w.pos[name] > 1 {
			c = "listed-twice"
		}
		if w.any {
			c += "+any"
		}
		return c
	}
	var names []string
	for g := range gotSet {
		names = append(names, g)
	}
	sort.Strings(names)
	for _, g := range names {
		if w.set[g] {
			continue
		}
		sig := "unlisted-selected"
		switch {
		case !exists[g]:
			sig = "nonexistent-selected"
		case w.neg[g] > 0:
			sig = "negated-still-selected:" + cls(g)
		}
		x.Fail(sig, "%s: interfaces %q with existing %v: selected %v, expected set %s — %q must not be selected", how, arg, existing, got, c16SetString(w.set), g)
		return false
	}
	for _, e := range existing {
		if w.set[e] && !gotSet[e] {
			x.Fail("listed-missing:"+cls(e), "%s: interfaces %q with existing %v: selected %v, expected set %s — %q is missing", how, arg, existing, got, c16SetString(w.set), e)
			return false
		}
	}
	return true
}

// c16List enumerates a list whose first symbol is fixed by the case: at every
// further position one more symbol or stop.
func c16List(x *explore.Ctx, syms []string, first, maxLen int) []string {
	list := []string{syms[first]}
	for len(list) < maxLen {
		c := x.Choose(len(syms)+1, "next-symbol(0=end)")
		if c == 0 {
			break
		}
		list = append(list, syms[c-1])
	}
	return list
}

func c16Nontrivial(x *explore.Ctx, list, existing []string, w c16Want) {
	effective := false // a negation that removes something otherwise selected
	for _, e := range existing {
		if (w.any || w.pos[e] > 0) && w.neg[e] > 0 {
			effective = true
		}
	}
	repeated := false
	for _, c := range w.pos {
		if c > 1 {
			repeated = true
		}
	}
	for _, c := range w.neg {
		if c > 1 {
			repeated = true
		}
	}
	if effective || repeated || (w.any && len(list) > 1) {
		x.Nontrivial("%v|%v", existing, list)
	}
}

// ---- direct calls of the selection function --------------------------------

func c16DirectRun(x *explore.Ctx) {
	syms, u := c16Syms(x.Tier), c16Universe(x.Tier)
	mask, first := x.Case/len(syms), x.Case%len(syms)
	existing := c16Subset(u, mask)
	maxLen := 4
	if x.Thorough() {
		maxLen = 6
	}
	list := c16List(x, syms, first, maxLen)
	arg := strings.Join(list, ",")
	w := c16Model(list, existing)
	c16Nontrivial(x, list, existing, w)
	x.Logf("existing=%v argument=%q expected set=%s", existing, arg, c16SetString(w.set))
	got, err := c16Select(existing, arg, false)
	x.Transition()
	x.Logf("selected=%v err=%v", got, err)
	if err != nil {
		x.Fail("unexpected-error", "selection: interfaces %q with existing %v fails: %v (expected set %s)", arg, existing, err, c16SetString(w.set))
		return
	}
	if !c16Compare(x, "selection", arg, existing, got, w) {
		return
	}
	x.Obs("%v", got)
}

// ---- names outside the syntax ----------------------------------------------

// c16ValidName: optional '!' followed by 1..15 characters of [A-Za-z0-9.:_-]
// (Linux IFNAMSIZ-1), written independently of types.ValidateIfaceName.
func c16ValidName(n string) bool {
	n = strings.TrimPrefix(n, "!")
	if len(n) < 1 || len(n) > 15 {
		return false
	}
	for _, r := range n {
		switch {
		case r >= 'a' && r <= 'z', r >= 'A' && r <= 'Z', r >= '0' && r <= '9', r == '.', r == ':', r == '_', r == '-':
		default:
			return false
		}
	}
	return true
}

func c16OddRun(x *explore.Ctx) {
	u := c16UniverseQuick
	mask, first := x.Case/len(c16OddSyms), x.Case%len(c16OddSyms)
	existing := c16Subset(u, mask)
	list := c16List(x, c16OddSyms, first, 3)
	arg := strings.Join(list, ",")
	odd := false
	for _, n := range list {
		if !c16ValidName(n) || n == "!any" {
			odd = true
		}
	}
	if odd {
		x.Nontrivial("%v|%q", existing, arg)
	}
	x.Logf("existing=%v argument=%q", existing, arg)
	got, err := c16Select(existing, arg, types.IsIfaceArgumentRegExp(arg))
	x.Transition()
	x.Logf("selected=%v err=%v", got, err)
	x.Obs("%v %v", got, err != nil)
	if err != nil || odd {
		return // rejected, or outside the documented syntax: only "no crash" is demanded
	}
	c16Compare(x, "selection", arg, existing, got, c16Model(list, existing))
}

// ---- end to end through QueryRunner.Run on tiny databases -------------------

const c16BlockTS = 1700000400

var c16DBs = map[string]string{} // subset -> database directory (per worker process, below fixture.ScratchRoot)

func c16DB(existing []string) string {
	k := strings.Join(existing, ",")
	if d, ok := c16DBs[k]; ok {
		return d
	}
	dir := fixture.NewDir()
	for i, iface := range existing {
		m := hashmap.NewAggFlowMap()
		key := types.NewV4KeyStatic([4]byte{10, 0, 0, byte(i + 1)}, [4]byte{10, 0, 0, 99}, []byte{0, 80}, 6)
		m.SetOrUpdate(key, true, 100, 200, 1, 2)
		if err := goDB.NewDBWriter(dir, iface, encoders.EncoderTypeLZ4).Write(m, capturetypes.CaptureStats{}, c16BlockTS); err != nil {
			explore.HarnessErrorf("C16: cannot write tiny database: %v", err)
		}
	}
	c16DBs[k] = dir
	return dir
}

// c16Query runs one query; a panic propagates to the explorer (PanicSig).
func c16Query(dir, arg string, existing []string) ([]string, bool, error) {
	defer c16Guard(arg, existing)
	args := query.NewArgs("sip,dip", arg,
		query.WithFirst(fmt.Sprint(c16BlockTS-600)), query.WithLast(fmt.Sprint(c16BlockTS+600)),
		query.WithFormat(types.FormatJSON), query.WithNumResults(10))
	res, err := engine.NewQueryRunner(dir).Run(context.Background(), args)
	if err != nil {
		return nil, false, err
	}
	if res == nil {
		return nil, false, nil
	}
	return res.Summary.Interfaces, true, nil
}

func c16CheckE2E(x *explore.Ctx, arg string, existing []string, w c16Want) {
	got, haveRes, err := c16Query(c16DB(existing), arg, existing)
	x.Transition()
	x.Logf("Summary.Interfaces=%v result=%v err=%v", got, haveRes, err)
	if len(w.set) == 0 {
		// nothing to query: an error ("no interfaces provided") or an empty selection
		if err == nil && len(got) != 0 {
			c16Compare(x, "query", arg, existing, got, w)
			return
		}
		x.Obs("empty err=%v", err != nil)
		return
	}
	if err != nil {
		x.Fail("query-failed", "query: interfaces %q with existing %v fails: %v (expected set %s)", arg, existing, err, c16SetString(w.set))
		return
	}
	if !haveRes {
		x.Fail("query-no-result", "query: interfaces %q with existing %v returns neither result nor error", arg, existing)
		return
	}
	if !c16Compare(x, "query", arg, existing, got, w) {
		return
	}
	x.Obs("%v", got)
}

func c16E2ERun(x *explore.Ctx) {
	syms, u := c16Syms(x.Tier), c16Universe(x.Tier)
	mask, first := x.Case/len(syms), x.Case%len(syms)
	existing := c16Subset(u, mask)
	list := c16List(x, syms, first, 3)
	arg := strings.Join(list, ",")
	w := c16Model(list, existing)
	c16Nontrivial(x, list, existing, w)
	x.Logf("existing=%v argument=%q expected set=%s", existing, arg, c16SetString(w.set))
	c16CheckE2E(x, arg, existing, w)
}

// ---- regular expression arguments -------------------------------------------

func c16RegexRun(x *explore.Ctx) {
	u := c16Universe(x.Tier)
	existing := c16Subset(u, x.Case)
	arg := c16Regexes[x.Choose(len(c16Regexes), "regex")]
	e2e := x.Choose(2, "0=selection-function,1=query") == 1
	x.Logf("existing=%v argument=%q", existing, arg)
	isRe := strings.HasPrefix(arg, "/") && strings.HasSuffix(arg, "/") && len(arg) > 2
	var re *regexp.Regexp
	if isRe {
		re, _ = regexp.Compile(arg[1 : len(arg)-1])
	}
	if re == nil {
		// not a valid regular expression argument: only "no crash" is demanded
		if e2e {
			got, _, err := c16Query(c16DB(existing), arg, existing)
			x.Obs("%v %v", got, err != nil)
		} else {
			got, err := c16Select(existing, arg, types.IsIfaceArgumentRegExp(arg))
			x.Obs("%v %v", got, err != nil)
		}
		x.Transition()
		return
	}
	w := c16Want{set: map[string]bool{}, pos: map[string]int{}, neg: map[string]int{}}
	for _, e := range existing {
		if re.MatchString(e) {
			w.set[e] = true
		}
	}
	if len(w.set) > 0 && len(w.set) < len(existing) {
		x.Nontrivial("%v|%s|%v", existing, arg, e2e)
	}
	x.Logf("expected set=%s", c16SetString(w.set))
	if e2e {
		c16CheckE2E(x, arg, existing, w)
		return
	}
	if !types.IsIfaceArgumentRegExp(arg) {
		x.Fail("regex-not-recognised", "argument %q is not treated as a regular expression", arg)
		return
	}
	got, err := c16Select(existing, arg, true)
	x.Transition()
	x.Logf("selected=%v err=%v", got, err)
	if err != nil {
		x.Fail("unexpected-error", "selection: regular expression %q with existing %v fails: %v", arg, existing, err)
		return
	}
	if c16Compare(x, "selection", arg, existing, got, w) {
		x.Obs("%v", got)
	}
}

func init() {
	assume := []string{"existing interfaces = sub-directories of the database path (info.GetInterfaces); the direct scenarios use a lister returning the same sorted fresh slice",
		"only the selected set is judged (repetitions in the returned list are not); an empty selection may surface as a query error"}
	register("C16", &explore.Scenario{
		ID: "C16", Name: "comma list selection function vs set model", Level: "exploration",
		Rule:        "cases = every subset of the existing-interface universe ({eth0,eth1,wlan0} quick, +eth10 thorough) x first list symbol; inside: every list of length <= 4 (quick) / <= 6 (thorough) over {eth0,eth1,eth9(absent),any,ANY,!eth0,!eth1,!eth9} (+wlan0,!wlan0 thorough) with repetitions, passed to the real parseIfaceListWithCommaSeparatedString; selected set compared with (listed and existing, or all if any) minus negated; non-trivial = lists with an effective negation, a repeated name, or any combined with other names, distinct by (existing set, list)",
		Cases:       func(t string) int { return (1 << len(c16Universe(t))) * len(c16Syms(t)) },
		Bound:       func(string) int { return 0 },
		Run:         c16DirectRun,
		PanicSig:    "panic",
		Assumptions: assume,
	})
	register("C16.e2e", &explore.Scenario{
		ID: "C16", Name: "comma lists end to end through QueryRunner.Run on tiny databases", Level: "exploration",
		Rule:        "cases = subset of existing interfaces x first symbol (same alphabets as C16); every list of length <= 3 is run as a real query (sip,dip over one stored block per interface) against a database written with DBWriter.Write that contains exactly the subset; Result.Summary.Interfaces compared as a set with the model; an empty expected selection may end in an error",
		Cases:       func(t string) int { return (1 << len(c16Universe(t))) * len(c16Syms(t)) },
		Bound:       func(string) int { return 0 },
		Run:         c16E2ERun,
		PanicSig:    "panic",
		Assumptions: assume,
	})
	register("C16.odd", &explore.Scenario{
		ID: "C16", Name: "names outside the documented syntax never crash the selection", Level: "exploration",
		Rule:        "cases = subset of {eth0,eth1,wlan0} x first symbol; every list of length <= 3 over {eth0,!eth0,any,Any,!any,'','!','!!eth0','eth0 ',16-char name,/eth/}; no crash; a list of only valid names accepted without error must select the model set; non-trivial = lists containing a name outside the syntax",
		Cases:       func(string) int { return 8 * len(c16OddSyms) },
		Bound:       func(string) int { return 0 },
		Run:         c16OddRun,
		PanicSig:    "panic",
		Assumptions: assume,
	})
	register("C16.regex", &explore.Scenario{
		ID: "C16", Name: "regular expression arguments, selection function and end to end", Level: "exploration",
		Rule:        "cases = subset of the universe; inside: 16 arguments (matching some/all/none, anchored, alternation, case-insensitive flag, prefix of another name, invalid syntax, degenerate // and /) x {selection function, real query}; expected set = existing names matched by Go regexp on the text between the slashes; invalid/degenerate arguments: no crash; non-trivial = proper non-empty subsets selected",
		Cases:       func(t string) int { return 1 << len(c16Universe(t)) },
		Bound:       func(string) int { return 0 },
		Run:         c16RegexRun,
		PanicSig:    "panic",
		Assumptions: assume,
	})
}

package scen

import (
	"encoding/binary"
	"fmt"
	"os"
	"path/filepath"

	"github.com/els0r/goProbe/v4/pkg/capture/capturetypes"
	"github.com/els0r/goProbe/v4/pkg/goDB"
	"github.com/els0r/goProbe/v4/pkg/goDB/encoder/encoders"
	"github.com/els0r/goProbe/v4/pkg/goDB/storage/gpfile"
	"github.com/els0r/goProbe/v4/pkg/types"

	"verifmc/explore"
	"verifmc/fixture"
)

// C03: day metadata survives reopening for every ACCEPTED write history; what the
// format cannot represent must be rejected; malformed metadata never crashes.

const c03T = dayA + 3000 // inside day A

// timestamp alphabet relative to the previous accepted write ("prev"); index 0 = default (+300)
var c03TsNames = []string{"prev+300", "prev-300 (regression)", "prev (duplicate)", "prev+2^32+5 (delta overflow)", "prev+1", "prev+2^32-1 (max delta)", "first block's timestamp again"}

func c03Ts(alt int, prev, first int64) int64 {
	switch alt {
	case 1:
		return prev - 300
	case 2:
		return prev
	case 3:
		return prev + 1<<32 + 5
	case 4:
		return prev + 1
	case 5:
		return prev + 1<<32 - 1
	case 6:
		return first
	}
	return prev + 300
}

var c03Traffic = []gpfile.TrafficMetadata{
	{NumV4Entries: 2, NumV6Entries: 1, NumDrops: 0},
	{},
	{NumV4Entries: 1<<32 - 1, NumV6Entries: 1<<32 - 1, NumDrops: 1<<32 - 1},
	{NumV4Entries: 1 << 32},
	{NumV6Entries: 1 << 32},
	{NumDrops: 1 << 32},
	{NumDrops: 1 << 63},
}
var c03Counts = []types.Counters{
	{BytesRcvd: 100, BytesSent: 200, PacketsRcvd: 1, PacketsSent: 2},
	{},
	{BytesRcvd: 1 << 61, BytesSent: 1 << 61, PacketsRcvd: 1 << 61, PacketsSent: 1 << 61}, // four of them still fit uint64
}

type c03Block struct {
	ts      int64
	traffic gpfile.TrafficMetadata
	counts  types.Counters
}

// c03Data: alt 0 = every column holds data; 1 = every column empty (a block without flows written
// through GPDir: nothing is appended to any column file); 2 = every second column empty.
func c03Data(i, alt int) (d [types.ColIdxCount][]byte) {
	for c := range d {
		if alt == 1 || (alt == 2 && c%2 == 1) {
			continue
		}
		d[c] = fixture.Compressible(uint64(c+i), 40+c)
	}
	return
}

var c03DataNames = []string{"all columns", "no data at all", "every second column empty"}

// c03Run drives GPDir directly: sessions of WriteBlocks calls, a session is abandoned
// (no Close) when a write fails — exactly what DBWriter.Write/WriteBulk do.
func c03Run(x *explore.Ctx) {
	gpfile.VerifResetPools()
	n := 2 + x.Case%3 // 2..4 writes
	if !x.Thorough() && n == 4 {
		n = 3
	}
	split := (x.Case / 3) % (1 << 3)
	split &= 1<<(n-1) - 1
	base := fixture.NewDir()
	defer os.RemoveAll(base)

	var committed []c03Block // model: blocks of sessions that were accepted completely
	var session []c03Block
	var dir *gpfile.GPDir
	prev, first := int64(c03T), int64(c03T+300)
	plain := true // history stays inside the plainly valid alphabet (must be accepted)
	endSession := func(when string) bool {
		if dir == nil {
			return true
		}
		err := dir.Close()
		dir = nil
		x.Transition()
		if err == nil {
			committed = append(committed, session...)
		} else {
			x.Logf("%s: Close rejected the session: %v", when, err)
			if plain {
				x.Fail("valid-session-rejected", "%s: Close of a plainly valid session failed: %v", when, err)
				return false
			}
		}
		session = nil
		return c03Check(x, base, committed, when)
	}
	for i := 0; i < n; i++ {
		if i > 0 && split&(1<<(i-1)) != 0 {
			if !endSession(fmt.Sprintf("before write %d", i)) {
				return
			}
		}
		tsAlt := 0
		if i > 0 {
			tsAlt = x.Deviate(len(c03TsNames), fmt.Sprintf("timestamp@%d", i))
		}
		b := c03Block{ts: c03Ts(tsAlt, prev, first)}
		trAlt := x.Deviate(len(c03Traffic), fmt.Sprintf("traffic@%d", i))
		b.traffic = c03Traffic[trAlt]
		b.counts = c03Counts[x.Deviate(len(c03Counts), fmt.Sprintf("counters@%d", i))]
		if tsAlt != 0 && tsAlt != 4 || trAlt >= 3 {
			plain = false
			x.Nontrivial("%d %d %d %d %d", n, split, i, tsAlt, trAlt)
		}
		if dir == nil {
			dir = gpfile.NewDirWriter(base, c03T, gpfile.WithEncoderTypeLevel(encoders.EncoderTypeLZ4, 0))
			if err := dir.Open(); err != nil {
				x.Fail("open-error", "Open for write failed: %v", err)
				return
			}
		}
		dataAlt := x.Deviate(len(c03DataNames), fmt.Sprintf("data@%d", i))
		err := dir.WriteBlocks(b.ts, b.traffic, b.counts, c03Data(i, dataAlt))
		x.Transition()
		x.Logf("write %d ts=%s(%d) traffic=%+v data=%s -> %v", i, c03TsNames[tsAlt], b.ts, b.traffic, c03DataNames[dataAlt], err)
		if err != nil {
			if plain {
				x.Fail("valid-write-rejected", "write %d of a plainly valid history failed: %v", i, err)
				return
			}
			// abandoned session: nothing of it may become visible
			dir, session = nil, nil
			if !c03Check(x, base, committed, fmt.Sprintf("after rejected write %d", i)) {
				return
			}
			continue
		}
		session = append(session, b)
		prev = b.ts
		if i == 0 {
			first = b.ts
		}
	}
	if !endSession("final close") {
		return
	}
	x.Obs("%d blocks committed", len(committed))
}

func c03Check(x *explore.Ctx, base string, want []c03Block, when string) bool {
	x.State([]byte(fmt.Sprintf("%v", want)))
	d := gpfile.NewDirReader(base, c03T, "")
	err := d.Open()
	if len(want) == 0 {
		if err == nil {
			n := d.NBlocks()
			d.Close()
			if n != 0 {
				x.Fail("uncommitted-visible", "%s: nothing was accepted, but the day shows %d blocks", when, n)
				return false
			}
		}
		return true
	}
	if err != nil {
		x.Fail("reopen-error", "%s: reopening the day failed: %v", when, err)
		return false
	}
	defer d.Close()
	if d.NBlocks() != len(want) {
		x.Fail("block-count", "%s: day shows %d blocks, %d were accepted", when, d.NBlocks(), len(want))
		return false
	}
	var tot gpfile.Stats
	for i, b := range want {
		got := d.BlockMetadata[0].BlockList[i].Timestamp
		if got != b.ts {
			sig := "timestamp-altered"
			if i > 0 && b.ts < want[i-1].ts {
				sig = "timestamp-regression-stored-altered"
			}
			x.Fail(sig, "%s: block %d was accepted with timestamp %d but reads back as %d (accepted sequence %v)", when, i, b.ts, got, c03Tss(want))
			return false
		}
		if d.BlockTraffic[i] != b.traffic {
			x.Fail("traffic-altered", "%s: block %d was accepted with %+v but reads back as %+v", when, i, b.traffic, d.BlockTraffic[i])
			return false
		}
		tot.Traffic = tot.Traffic.Add(b.traffic)
		tot.Counts.Add(b.counts)
	}
	if d.Metadata.Stats != tot {
		x.Fail("day-totals", "%s: day totals %+v, accepted blocks sum to %+v", when, d.Metadata.Stats, tot)
		return false
	}
	return true
}

func c03Tss(bs []c03Block) []int64 {
	out := make([]int64, len(bs))
	for i, b := range bs {
		out[i] = b.ts
	}
	return out
}

// ---- through DBWriter.Write / WriteBulk ---------------------------------------

// c03WriterRun: the same oracle through the public writer: Write per block
// (one session each) or WriteBulk (one session for all), with drop counts and
// timestamps from the alphabets.
func c03WriterRun(x *explore.Ctx) {
	bulk := x.Case%2 == 1
	n := 2 + (x.Case/2)%2
	base := fixture.NewDir()
	defer os.RemoveAll(base)
	w := goDB.NewDBWriter(base, "eth0", encoders.EncoderTypeLZ4)
	dropsAlpha := []uint64{3, 0, 1<<32 - 1, 1 << 32, 1 << 63}
	prev, first := int64(c03T), int64(c03T+300)
	var want []c03Block
	var wl []goDB.BulkWorkload
	var pend []c03Block
	for i := 0; i < n; i++ {
		tsAlt := 0
		if i > 0 {
			alts := []int{0, 1, 2, 4, 6}
			if bulk {
				alts = []int{0, 1, 2, 3, 4, 5, 6}
			}
			tsAlt = alts[x.Deviate(len(alts), fmt.Sprintf("timestamp@%d", i))]
		}
		ts := c03Ts(tsAlt, prev, first)
		if !bulk && gpfile.DirTimestamp(ts) != gpfile.DirTimestamp(c03T) {
			ts = prev + 300
		}
		drops := dropsAlpha[x.Deviate(len(dropsAlpha), fmt.Sprintf("drops@%d", i))]
		recs := []fixture.Rec{r4a, r6a, scale(r4b, uint64(i+1))}
		b := c03Block{ts: ts, traffic: gpfile.TrafficMetadata{NumV4Entries: 2, NumV6Entries: 1, NumDrops: drops}}
		for _, r := range recs {
			b.counts.Add(r.C)
		}
		if tsAlt != 0 || drops >= 1<<32 {
			x.Nontrivial("%v %d %d %d %d", bulk, n, i, tsAlt, drops)
		}
		if bulk {
			wl = append(wl, goDB.BulkWorkload{FlowMap: fixture.FlowMap(recs), CaptureStats: capturetypes.CaptureStats{Dropped: drops}, Timestamp: ts})
			pend = append(pend, b)
			prev = ts
			if i == 0 {
				first = ts
			}
			continue
		}
		err := w.Write(fixture.FlowMap(recs), capturetypes.CaptureStats{Dropped: drops}, ts)
		x.Transition()
		x.Logf("Write %d ts=%s(%d) drops=%d -> %v", i, c03TsNames[tsAlt], ts, drops, err)
		if err == nil {
			want = append(want, b)
			prev = ts
			if i == 0 {
				first = ts
			}
		}
		if !c03CheckIface(x, base, want, fmt.Sprintf("after Write %d", i)) {
			return
		}
	}
	if bulk {
		err := w.WriteBulk(wl, c03T)
		x.Transition()
		x.Logf("WriteBulk(%v) -> %v", c03Tss(pend), err)
		if err == nil {
			want = pend
		}
		if !c03CheckIface(x, base, want, "after WriteBulk") {
			return
		}
	}
	x.Obs("%d", len(want))
}

func c03CheckIface(x *explore.Ctx, base string, want []c03Block, when string) bool {
	return c03Check(x, filepath.Join(base, "eth0"), want, when)
}

// ---- decoder robustness ---------------------------------------------------------

var c03MetaFiles [][]byte

// c03BuildMeta returns valid .blockmeta files of 0..3 blocks written by the real code.
func c03BuildMeta() [][]byte {
	if c03MetaFiles != nil {
		return c03MetaFiles
	}
	for n := 0; n <= 3; n++ {
		base := fixture.NewDir()
		d := gpfile.NewDirWriter(base, c03T)
		if err := d.Open(); err != nil {
			explore.HarnessErrorf("open: %v", err)
		}
		for i := 0; i < n; i++ {
			if err := d.WriteBlocks(c03T+int64(i+1)*300, c03Traffic[0], c03Counts[0], c03Data(i, 0)); err != nil {
				explore.HarnessErrorf("write: %v", err)
			}
		}
		if err := d.Close(); err != nil {
			explore.HarnessErrorf("close: %v", err)
		}
		r := gpfile.NewDirReader(base, c03T, "")
		if err := r.Open(); err != nil {
			explore.HarnessErrorf("reopen: %v", err)
		}
		b, err := os.ReadFile(r.MetadataPath())
		if err != nil {
			explore.HarnessErrorf("read meta: %v", err)
		}
		r.Close()
		os.RemoveAll(base)
		c03MetaFiles = append(c03MetaFiles, b)
	}
	return c03MetaFiles
}

var c03FieldVals = func(n uint64) []uint64 {
	return []uint64{0, 1, n - 1, n + 1, 1 << 32, 1 << 63, 1<<64 - 1, 1<<61 + 1}
}

// c03DecodeRun: one mutated metadata file per execution; Open must return an
// error or a value, never panic; a successful Open must allow the basic accessors.
func c03DecodeRun(x *explore.Ctx) {
	files := c03BuildMeta()
	orig := files[x.Case%len(files)]
	class := (x.Case / len(files)) % 4
	data := append([]byte(nil), orig...)
	desc := ""
	switch class {
	case 0: // every truncation length
		l := x.Choose(len(orig)+1, "truncate-to")
		data = data[:l]
		desc = fmt.Sprintf("truncated to %d of %d bytes", l, len(orig))
	case 1: // every byte position x value
		pos := x.Choose(len(orig), "byte-pos")
		v := []byte{0x00, 0x01, 0x7f, 0x80, 0xff}[x.Choose(5, "byte-value")]
		data[pos] = v
		desc = fmt.Sprintf("byte %d = %#x", pos, v)
	case 2: // every 8-byte header field x boundary values
		field := x.Choose(9+8, "header-field") // 9 header fields + 8 CurrentOffset-like slots at their positions if present
		off := field * 8
		if off+8 > len(orig) {
			off = len(orig) - 8
		}
		cur := binary.BigEndian.Uint64(orig[off:])
		vals := c03FieldVals(cur)
		v := vals[x.Choose(len(vals), "field-value")]
		binary.BigEndian.PutUint64(data[off:], v)
		desc = fmt.Sprintf("u64 field at %d: %d -> %d", off, cur, v)
	case 3: // appended garbage / extension
		k := []int{1, 7, 8, 88, 4096}[x.Choose(5, "append-bytes")]
		data = append(data, fixture.LCG(uint64(k), k)...)
		desc = fmt.Sprintf("%d garbage bytes appended", k)
	}
	base := fixture.NewDir()
	defer os.RemoveAll(base)
	probe := gpfile.NewDirReader(base, c03T, "")
	if err := os.MkdirAll(probe.Path(), 0o755); err != nil {
		explore.HarnessErrorf("mkdir: %v", err)
	}
	if err := os.WriteFile(probe.MetadataPath(), data, 0o644); err != nil {
		explore.HarnessErrorf("write: %v", err)
	}
	x.Logf("metadata of %d blocks, %s", x.Case%len(files), desc)
	x.State(data)
	d := gpfile.NewDirReader(base, c03T, "")
	err := d.Open() // a panic here is reported by the explorer as a violation (PanicSig)
	x.Transition()
	if err != nil {
		x.Obs("error")
		x.Nontrivial("err %d %d %s", x.Case%len(files), class, desc)
		return
	}
	nb := d.NBlocks()
	for c := 0; c < int(types.ColIdxCount); c++ {
		if d.BlockMetadata[c] == nil || len(d.BlockMetadata[c].BlockList) != nb {
			x.Fail("inconsistent-decode", "%s: Open succeeded but column %d lists %d blocks, column 0 lists %d", desc, c, len(d.BlockMetadata[c].BlockList), nb)
			return
		}
	}
	if len(d.BlockTraffic) != nb {
		x.Fail("inconsistent-decode", "%s: Open succeeded with %d blocks but %d traffic entries", desc, nb, len(d.BlockTraffic))
		return
	}
	d.Close()
	x.Obs("ok %d", nb)
	x.Nontrivial("ok %d %d %s", x.Case%len(files), class, desc)
}

func init() {
	register("C03", &explore.Scenario{
		ID: "C03", Name: "GPDir write histories: accepted => reads back identically", Level: "model_checking",
		Rule:  "cases = number of writes (2..4; quick 2..3) x every split into sessions; per write deviations: timestamp relative to the previous accepted one (regression, duplicate, +1, max delta 2^32-1, delta overflow 2^32+5, first timestamp again), traffic summary (zero, 2^32-1, 2^32 in each of v4/v6/drops, 2^63), counters, column data (all columns / no data at all / every second column empty); <= bound deviations. A session is abandoned when a write fails (as DBWriter does). state = committed block list; oracle: reopen shows exactly the blocks of completely accepted sessions, unaltered; plainly valid histories must be accepted. non-trivial = histories containing a non-monotone/extreme timestamp or an over-wide count",
		Cases: func(t string) int { return 3 * 8 },
		Bound: func(t string) int {
			if t == "thorough" {
				return 3
			}
			return 2
		},
		Run: c03Run, PanicSig: "panic",
		Assumptions: []string{"counter values up to 2^61 (sums of four stay below 2^64; uint64 wrap-around of day totals is outside the alphabet)"},
	})
	register("C03.writer", &explore.Scenario{
		ID: "C03", Name: "DBWriter.Write / WriteBulk histories", Level: "model_checking",
		Rule:     "cases = {Write per block, one WriteBulk} x 2..3 blocks; deviations: timestamp alphabet as C03 (WriteBulk also with cross-day deltas), dropped-packet counts {0, 2^32-1, 2^32, 2^63}; oracle as C03 on the interface's day directory",
		Cases:    func(t string) int { return 4 },
		Bound:    func(t string) int { return 3 },
		Run:      c03WriterRun,
		PanicSig: "panic",
	})
	register("C03.decode", &explore.Scenario{
		ID: "C03", Name: "malformed .blockmeta never crashes Open", Level: "model_checking",
		Rule:     "cases = valid metadata files of 0..3 blocks (written by the real code) x mutation class; every truncation length; every byte position x {00,01,7f,80,ff}; every 8-byte header field x {0,1,n-1,n+1,2^32,2^63,2^64-1,2^61+1}; appended garbage. Oracle: Open returns an error or a self-consistent value; a panic is a violation",
		Cases:    func(t string) int { return 4 * 4 },
		Bound:    func(t string) int { return 0 },
		Run:      c03DecodeRun,
		PanicSig: "panic",
	})
}

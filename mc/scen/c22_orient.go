package scen

import (
	"encoding/binary"
	"fmt"

	"github.com/els0r/goProbe/v4/pkg/capture"
	"github.com/els0r/goProbe/v4/pkg/capture/capturetypes"

	"verifmc/explore"
)

// C22: flow orientation does not depend on which side is seen first.
//
// A conversation is (client A:cp, server B:sp, protocol). Its two kinds of
// packets are built from the RFC offsets (c19_parse.go), parsed by the real
// ParsePacketV4/V6 and added to an EMPTY flow log through the real
// addToFlowLogV4/V6 (export file). Observed: the one key stored in the FlowLog
// after that first packet. Run once with the client->server packet first and
// once with the server->client packet first; the two stored keys must be the
// same whenever the documented heuristics are decisive, and requester ->
// responder for TCP handshakes and ICMP echo / timestamp exchanges.
//
// "Decisive" is written down here from the documentation of classify.go, not
// taken from the code:
//   - TCP segment with SYN: SYN without ACK is the request, SYN+ACK the response;
//   - otherwise (TCP without SYN, UDP) the ports decide: a port in 1..32767
//     against an ephemeral one (>= 32768, or 0 = "disregarded") is the server;
//     two ports of the same class: the lower number is the server; equal
//     numbers: NOT decisive;
//   - ICMP echo request/reply (8/0), timestamp request/reply (13/14), ICMPv6 echo
//     request/reply (128/129).
// Like is compared with like (handshake-stage first packets with each other,
// mid-stream first packets with each other); the two stages are compared with
// each other only for the canonical conversation (client port ephemeral, server
// port in 1..32767), where every documented heuristic points the same way.

const (
	c22In  = 0 // slimcap capture.PacketHost
	c22Out = 4 // slimcap capture.PacketOutgoing
)

var c22AddrV4 = [][2][4]byte{
	{{10, 0, 0, 1}, {192, 168, 1, 1}},
	{{192, 168, 1, 1}, {10, 0, 0, 1}},
	{{10, 128, 0, 1}, {10, 0, 0, 2}},
	{{10, 0, 0, 2}, {10, 128, 0, 1}},
}

var c22AddrV6 = [][2][16]byte{
	{pk6(0x2001, 0x0db8, 1), pk6(0x2001, 0x0db8, 2)},
	{pk6(0x2001, 0x0db8, 2), pk6(0x2001, 0x0db8, 1)},
	{pk6(0xfe80, 0, 1), {0x0a, 0, 0, 1, 0, 0, 0, 0, 0, 0, 0, 0, 0, 0, 0, 5}},
	{{0x0a, 0, 0, 1, 0, 0, 0, 0, 0, 0, 0, 0, 0, 0, 0, 5}, pk6(0xfe80, 0, 1)},
}

// c22Conv builds the packets of one conversation.
type c22Conv struct {
	v6     bool
	ai     int
	proto  byte
	cp, sp uint16
	buf    [pkMaxLen]byte
}

func (cv *c22Conv) addrs() (a, b []byte) {
	if cv.v6 {
		return c22AddrV6[cv.ai][0][:], c22AddrV6[cv.ai][1][:]
	}
	return c22AddrV4[cv.ai][0][:], c22AddrV4[cv.ai][1][:]
}

// packet returns the 54-byte IP layer of a client->server (c2s) or
// server->client packet with the given TCP flags / ICMP type.
func (cv *c22Conv) packet(c2s bool, aux byte) []byte {
	sport, dport := cv.cp, cv.sp
	i, j := 0, 1
	if !c2s {
		sport, dport = cv.sp, cv.cp
		i, j = 1, 0
	}
	if cv.v6 {
		pkBuildV6(cv.buf[:], c22AddrV6[cv.ai][i], c22AddrV6[cv.ai][j], cv.proto, sport, dport, aux)
	} else {
		pkBuildV4(cv.buf[:], c22AddrV4[cv.ai][i], c22AddrV4[cv.ai][j], cv.proto, [2]byte{0x40, 0}, sport, dport, aux)
	}
	return cv.buf[:54:54]
}

type c22Key struct {
	n int
	b [capturetypes.EPHashSizeV6]byte
}

func (k *c22Key) bytes() []byte { return k.b[:k.n] }

func (k *c22Key) str(v6 bool) string {
	if k.n == 0 {
		return "<none>"
	}
	return pkKeyStr(v6, k.bytes())
}

const (
	c22StoreOK = iota
	c22StoreNotParsed
	c22StoreNotOne
)

// c22First parses pkt with the real parser and adds it to the (empty) flow log
// of c with the real addToFlowLog; returns the single stored key.
func c22First(c *capture.Capture, v6 bool, pkt []byte, pktType byte, k *c22Key) int {
	fl := c.VerifFlowLog()
	if v6 {
		h, aux, errno := capture.ParsePacketV6(pkt)
		if errno != capturetypes.ErrnoOK {
			return c22StoreNotParsed
		}
		c.VerifAddToFlowLogV6(h, pktType, 100, aux)
		if fl.Len() != 1 || len(fl.FlowsV6()) != 1 {
			return c22StoreNotOne
		}
		for s := range fl.FlowsV6() {
			k.n = copy(k.b[:], s)
		}
		return c22StoreOK
	}
	h, aux, errno := capture.ParsePacketV4(pkt)
	if errno != capturetypes.ErrnoOK {
		return c22StoreNotParsed
	}
	c.VerifAddToFlowLogV4(h, pktType, 100, aux)
	if fl.Len() != 1 || len(fl.FlowsV4()) != 1 {
		return c22StoreNotOne
	}
	for s := range fl.FlowsV4() {
		k.n = copy(k.b[:], s)
	}
	return c22StoreOK
}

func c22StoreFail(x *explore.Ctx, st int, what string) {
	if st == c22StoreNotParsed {
		x.Fail("first-packet-not-parsed", "%s: a complete 54-byte packet was not parsed", what)
	} else {
		x.Fail("first-packet-not-one-flow", "%s: the flow log does not hold exactly one flow after the first packet", what)
	}
}

// oriented reports whether the stored key runs from address a to address b.
func c22Oriented(v6 bool, k *c22Key, a, b []byte) bool {
	sip, _, dip, _, _ := pkKeyFields(v6, k.bytes())
	return string(sip) == string(a) && string(dip) == string(b)
}

// reference port heuristic ------------------------------------------------

func c22ServiceClass(p uint16) bool { return p >= 1 && p <= 32767 }

// c22PortsDecisive: documented port heuristic; serverIsB tells which side it
// names as the server when decisive.
func c22PortsDecisive(cp, sp uint16) (decisive, serverIsB bool) {
	cc, sc := c22ServiceClass(cp), c22ServiceClass(sp)
	switch {
	case sc && !cc:
		return true, true
	case cc && !sc:
		return true, false
	case cp != sp:
		return true, sp < cp
	}
	return false, false
}

func c22Canonical(cp, sp uint16) bool { return cp >= 32768 && c22ServiceClass(sp) }

func c22Fam(v6 bool) string {
	if v6 {
		return "IPv6"
	}
	return "IPv4"
}

// ---------------------------------------------------------------- C22: TCP / UDP on the port alphabet

func c22Run(x *explore.Ctx) {
	v6 := x.Case&1 == 1
	proto := byte(pkTCP)
	if x.Case&2 != 0 {
		proto = pkUDP
	}
	cv := &c22Conv{v6: v6, ai: x.Case >> 2, proto: proto}
	cv.cp = pkPorts[x.Choose(len(pkPorts), "client-port")]
	cv.sp = pkPorts[x.Choose(len(pkPorts), "server-port")]
	a, b := cv.addrs()
	conv := fmt.Sprintf("%s proto=%d client %x:%d server %x:%d", c22Fam(v6), proto, a, cv.cp, b, cv.sp)
	decisive, serverIsB := c22PortsDecisive(cv.cp, cv.sp)
	bothCommon := pkCommon(cv.cp, proto) && pkCommon(cv.sp, proto)
	x.Logf("%s: port heuristic decisive=%v serverIsB=%v bothCommon=%v", conv, decisive, serverIsB, bothCommon)

	// stored[dir][aux]: key stored when the first packet is c2s (dir 0) / s2c (dir 1)
	naux := 1
	if proto == pkTCP {
		naux = 256
	}
	var stored [2][256]c22Key
	for dir := 0; dir < 2; dir++ {
		for aux := 0; aux < naux; aux++ {
			for _, pt := range []byte{c22In, c22Out} {
				c := capture.VerifNewCapture("verif0") // fresh, empty flow log
				var k c22Key
				what := func() string {
					return fmt.Sprintf("%s, first packet %s flags=%#02x pktType=%d", conv, []string{"client->server", "server->client"}[dir], aux, pt)
				}
				if st := c22First(c, v6, cv.packet(dir == 0, byte(aux)), pt, &k); st != c22StoreOK {
					c22StoreFail(x, st, what())
					return
				}
				x.Transition()
				if pt == c22In {
					stored[dir][aux] = k
				} else if stored[dir][aux] != k {
					x.Fail("key-depends-on-packet-type", "%s: stored key %s, with an inbound packet %s", what(), k.str(v6), stored[dir][aux].str(v6))
					return
				}
			}
		}
	}
	h := uint64(14695981039346656037)
	for dir := 0; dir < 2; dir++ {
		for aux := 0; aux < naux; aux++ {
			for _, by := range stored[dir][aux].bytes() {
				h = (h ^ uint64(by)) * 1099511628211
			}
		}
	}
	x.Obs("%x", h)

	var deferred [2]string
	midSig := "midstream-orientation-depends-on-first-packet"
	if proto == pkUDP {
		midSig = "udp-orientation-depends-on-first-packet"
	}
	failMid := func(f1, f2 int) {
		msg := fmt.Sprintf("%s: ports differ, the documented port heuristic is decisive (server is %s); first packet client->server (flags %#02x) is stored as %s, first packet server->client (flags %#02x) as %s",
			conv, map[bool]string{true: "B", false: "A"}[serverIsB], f1, stored[0][f1].str(v6), f2, stored[1][f2].str(v6))
		if bothCommon {
			if deferred[0] == "" {
				deferred = [2]string{midSig + "-both-ports-common", msg}
			}
			return
		}
		x.Fail(midSig, "%s", msg)
	}

	if proto == pkUDP {
		if decisive {
			x.Nontrivial("udp/%v/%v/%v", serverIsB, bothCommon, pkCommon(cv.cp, proto) || pkCommon(cv.sp, proto))
			if stored[0][0] != stored[1][0] {
				failMid(0, 0)
			}
		}
	} else {
		isSyn := func(f int) bool { return f&0x02 != 0 && f&0x10 == 0 }
		isSynAck := func(f int) bool { return f&0x02 != 0 && f&0x10 != 0 }
		// (a) handshake stage: SYN seen first vs SYN+ACK seen first
		ref := stored[0][0x02]
		for f := 0; f < 256 && !x.Failed(); f++ {
			if isSyn(f) {
				x.Nontrivial("syn")
				if !c22Oriented(v6, &stored[0][f], a, b) {
					x.Fail("syn-not-requester-to-responder", "%s: first packet is the client's SYN (flags %#02x), stored as %s", conv, f, stored[0][f].str(v6))
				} else if stored[0][f] != ref {
					x.Fail("handshake-key-differs", "%s: SYN flags %#02x stored as %s, flags 0x02 as %s", conv, f, stored[0][f].str(v6), ref.str(v6))
				}
			}
			if isSynAck(f) {
				x.Nontrivial("synack")
				if !c22Oriented(v6, &stored[1][f], a, b) {
					x.Fail("synack-not-requester-to-responder", "%s: first packet is the server's SYN+ACK (flags %#02x), stored as %s", conv, f, stored[1][f].str(v6))
				} else if stored[1][f] != ref {
					x.Fail("handshake-key-differs", "%s: first packet SYN+ACK (flags %#02x) stored as %s, first packet SYN as %s", conv, f, stored[1][f].str(v6), ref.str(v6))
				}
			}
		}
		// (b) mid-stream: no SYN in either first packet
		if decisive && !x.Failed() {
			x.Nontrivial("mid/%v/%v/%v", serverIsB, bothCommon, pkCommon(cv.cp, proto) || pkCommon(cv.sp, proto))
			mref := stored[0][0x10]
		mid:
			for f := 0; f < 256; f++ {
				if f&0x02 != 0 {
					continue
				}
				if stored[0][f] != mref {
					x.Fail("midstream-key-depends-on-flags", "%s: first packet client->server stored as %s with flags %#02x and as %s with flags 0x10", conv, stored[0][f].str(v6), f, mref.str(v6))
					break mid
				}
				if stored[1][f] != mref {
					failMid(0x10, f)
					break mid
				}
			}
			// (c) canonical client/server: handshake and mid-stream agree
			if c22Canonical(cv.cp, cv.sp) && !x.Failed() && deferred[0] == "" {
				x.Nontrivial("canonical")
				if mref != ref {
					x.Fail("handshake-vs-midstream", "%s: handshake first packets are stored as %s, mid-stream first packets as %s", conv, ref.str(v6), mref.str(v6))
				}
			}
		}
	}
	if deferred[0] != "" && !x.Failed() {
		x.Fail(deferred[0], "%s", deferred[1])
	}
}

// ---------------------------------------------------------------- C22.icmp

func c22ICMPRun(x *explore.Ctx) {
	v6 := x.Case&1 == 1
	proto := byte(pkICMP)
	// request type -> reply type (RFC 792 echo, timestamp; RFC 4443 echo)
	pairs := map[int]int{8: 0, 13: 14}
	if v6 {
		proto = pkICMPv6
		pairs = map[int]int{128: 129}
	}
	cv := &c22Conv{v6: v6, ai: x.Case >> 1, proto: proto, cp: 0x1234, sp: 0x5678} // "ports" = id/seq bytes, never part of the key
	t1 := x.Choose(256, "type-of-requester-packet")
	a, b := cv.addrs()
	conv := fmt.Sprintf("%s proto=%d requester %x responder %x", c22Fam(v6), proto, a, b)

	var k1 c22Key
	what := fmt.Sprintf("%s, first packet requester->responder type %d", conv, t1)
	if st := c22First(capture.VerifNewCapture("verif0"), v6, cv.packet(true, byte(t1)), c22In, &k1); st != c22StoreOK {
		c22StoreFail(x, st, what)
		return
	}
	x.Transition()
	fwd := c22Oriented(v6, &k1, a, b)
	if !fwd && !c22Oriented(v6, &k1, b, a) {
		x.Fail("stored-key-foreign", "%s: stored as %s", what, k1.str(v6))
		return
	}
	if _, _, _, dp, _ := pkKeyFields(v6, k1.bytes()); dp != 0 {
		x.Fail("icmp-key-has-port", "%s: stored as %s", what, k1.str(v6))
		return
	}
	x.Obs("t1=%d fwd=%v", t1, fwd)
	reply, isRequest := pairs[t1]
	if isRequest {
		x.Nontrivial("request/%d", t1)
		if !fwd {
			x.Fail(fmt.Sprintf("icmp-request-%d-not-requester-to-responder", t1), "%s: stored as %s", what, k1.str(v6))
			return
		}
	}
	// the responder's packet seen first, every type
	for t2 := 0; t2 < 256; t2++ {
		var k2 c22Key
		what2 := fmt.Sprintf("%s, first packet responder->requester type %d", conv, t2)
		if st := c22First(capture.VerifNewCapture("verif0"), v6, cv.packet(false, byte(t2)), c22Out, &k2); st != c22StoreOK {
			c22StoreFail(x, st, what2)
			return
		}
		x.Transition()
		back := c22Oriented(v6, &k2, a, b)
		if !back && !c22Oriented(v6, &k2, b, a) {
			x.Fail("stored-key-foreign", "%s: stored as %s", what2, k2.str(v6))
			return
		}
		if t1 == 0 {
			x.Obs("t2=%d back=%v", t2, back)
		}
		if isRequest && t2 == reply {
			x.Nontrivial("exchange/%d/%d", t1, t2)
			if !back {
				x.Fail(fmt.Sprintf("icmp-reply-%d-not-requester-to-responder", t2), "%s: stored as %s", what2, k2.str(v6))
				return
			}
			if k1 != k2 {
				x.Fail("icmp-orientation-depends-on-first-packet", "%s: request (type %d) first is stored as %s, reply (type %d) first as %s", conv, t1, k1.str(v6), t2, k2.str(v6))
				return
			}
		}
	}
}

// ---------------------------------------------------------------- C22.sweep: all port pairs

// Case = 64 client-port blocks x (family x {TCP mid-stream (ACK), UDP});
// 16 executions per case; inside an execution a loop over its client ports x
// all 65536 server ports, two first packets each. To make 2^33 additions per
// (family, protocol) affordable the Capture is created once per execution and
// its flow log emptied with clear() after every first packet (the flow log is
// nothing but the two maps; addToFlowLog reads nothing else).

func c22SweepRun(x *explore.Ctx) {
	combo := x.Case % 4
	block := x.Case / 4
	v6 := combo&1 == 1
	proto, aux := byte(pkTCP), byte(0x10)
	if combo&2 != 0 {
		proto, aux = pkUDP, 0
	}
	sub := x.Choose(c19SweepSub, "client-port-sub-block")
	per := 65536 / c19SweepBlocks / c19SweepSub
	lo := block*(65536/c19SweepBlocks) + sub*per
	off := 20
	if v6 {
		off = 40
	}
	cv := &c22Conv{v6: v6, ai: 0, proto: proto}
	a, b := cv.addrs()
	var bufC, bufS [pkMaxLen]byte // client->server, server->client
	copy(bufC[:], cv.packet(true, aux))
	copy(bufS[:], cv.packet(false, aux))
	pc, ps := bufC[:54:54], bufS[:54:54]

	var inAlphabet [65536]bool
	for _, q := range pkPorts {
		inAlphabet[q] = true
	}
	allPorts := make([]uint16, 65536)
	for i := range allPorts {
		allPorts[i] = uint16(i)
	}
	c := capture.VerifNewCapture("verif0")
	fl := c.VerifFlowLog()
	empty := func() {
		if v6 {
			clear(fl.FlowsV6())
		} else {
			clear(fl.FlowsV4())
		}
		if fl.Len() != 0 {
			explore.HarnessErrorf("flow log not empty after clear()")
		}
	}
	var deferred [2]string
	var k1, k2 c22Key
	h := uint64(14695981039346656037)
	pairs, adds := 0, 0
	sigBase := "midstream-orientation-depends-on-first-packet"
	if proto == pkUDP {
		sigBase = "udp-orientation-depends-on-first-packet"
	}
	for cpi := lo; cpi < lo+per; cpi++ {
		cp := uint16(cpi)
		sports := pkPorts
		if x.Thorough() || inAlphabet[cp] {
			sports = allPorts
		}
		binary.BigEndian.PutUint16(pc[off:], cp)
		binary.BigEndian.PutUint16(ps[off+2:], cp)
		var classes [4]bool
		for _, sp := range sports {
			binary.BigEndian.PutUint16(pc[off+2:], sp)
			binary.BigEndian.PutUint16(ps[off:], sp)
			st1 := c22First(c, v6, pc, c22In, &k1)
			empty()
			st2 := c22First(c, v6, ps, c22In, &k2)
			empty()
			adds += 2
			pairs++
			if st1 != c22StoreOK || st2 != c22StoreOK {
				c22StoreFail(x, max(st1, st2), fmt.Sprintf("%s proto=%d client port %d server port %d", c22Fam(v6), proto, cp, sp))
				x.Transitions(adds)
				return
			}
			h = (h ^ uint64(k1.b[k1.n-2])<<8 ^ uint64(k1.b[0])) * 1099511628211
			decisive, serverIsB := c22PortsDecisive(cp, sp)
			if !decisive {
				continue
			}
			cc, sc := pkCommon(cp, proto), pkCommon(sp, proto)
			switch {
			case cc && sc:
				classes[3] = true
			case cc || sc:
				classes[2] = true
			case serverIsB:
				classes[1] = true
			default:
				classes[0] = true
			}
			if k1 == k2 {
				continue
			}
			msg := fmt.Sprintf("%s proto=%d client %x:%d server %x:%d: ports differ, the documented port heuristic is decisive; first packet client->server is stored as %s, first packet server->client as %s",
				c22Fam(v6), proto, a, cp, b, sp, k1.str(v6), k2.str(v6))
			if cc && sc {
				if deferred[0] == "" {
					deferred = [2]string{sigBase + "-both-ports-common", msg}
				}
				continue
			}
			x.Fail(sigBase, "%s", msg)
			x.Transitions(adds)
			return
		}
		for i, seen := range classes {
			if seen {
				x.NontrivialKey(uint64(cpi)<<8 | uint64(i))
			}
		}
	}
	x.Transitions(adds)
	x.Obs("%d %x", pairs, h)
	x.Logf("client ports %d..%d: %d conversations, %d first packets", lo, lo+per-1, pairs, adds)
	if deferred[0] != "" {
		x.Fail(deferred[0], "%s", deferred[1])
	}
}

func init() {
	register("C22", &explore.Scenario{
		ID: "C22", Name: "stored flow key after the first packet, client->server first vs server->client first (TCP/UDP)", Level: "exploration",
		Rule:     "case = family x {TCP,UDP} x 4 ordered unicast address pairs; execution = (client port, server port) from the 40x40 boundary alphabet; inside: first packet in either direction x all 256 TCP flag bytes x inbound/outbound packet type, each parsed by the real parser and added to a fresh empty flow log by the real addToFlowLog (transitions); compared: SYN-first vs SYN+ACK-first (equal, requester->responder), mid-stream first packets of both directions when the documented port rule is decisive (ports differ), both stages with each other for the canonical ephemeral-client/service-port conversation. non-trivial = oracle classes exercised (syn, synack, mid-stream by server side / common-port involvement, canonical), distinct per case",
		Cases:    func(string) int { return 16 },
		Bound:    func(string) int { return 0 },
		Run:      c22Run,
		PanicSig: "panic",
		Assumptions: []string{"two unicast address pairs per family in both orders; broadcast/multicast destinations have no reverse direction and are not part of a conversation",
			"conflicting heuristics (client on a service port: handshake and port rule name different servers) are not 'decisive' and not compared across stages"},
	})
	register("C22.icmp", &explore.Scenario{
		ID: "C22", Name: "stored flow key after the first packet, ICMP / ICMPv6 types", Level: "exploration",
		Rule:     "case = {ICMP over IPv4, ICMPv6 over IPv6} x 4 ordered unicast address pairs; execution = type of the requester's packet (all 256); inside: the responder's packet with every type (256) as the first packet of a fresh flow log; echo (8/0), timestamp (13/14) and ICMPv6 echo (128/129) exchanges must be stored requester->responder whichever packet comes first; every stored key must be the packet's key or its reverse, without ports. non-trivial = request types and request/reply exchanges checked",
		Cases:    func(string) int { return 8 },
		Bound:    func(string) int { return 0 },
		Run:      c22ICMPRun,
		PanicSig: "panic",
	})
	register("C22.sweep", &explore.Scenario{
		ID: "C22", Name: "orientation, all client/server port pairs (TCP mid-stream, UDP)", Level: "exploration",
		Rule:        "case = 64 client-port blocks x family x {TCP ACK-only segment, UDP}, 16 executions per case; inside one execution its client ports x all 65536 server ports (thorough: all 2^32 ordered pairs; quick: pairs with at least one port from the 40-port alphabet), each conversation run twice on an emptied flow log (client->server first, server->client first) through the real parser and addToFlowLog (transitions = first packets added); stored keys must be equal whenever the ports differ. non-trivial = distinct (client port, class: server side by port rule / one common port / both common)",
		Cases:       func(string) int { return 4 * c19SweepBlocks },
		Bound:       func(string) int { return 0 },
		Run:         c22SweepRun,
		PanicSig:    "panic",
		Assumptions: []string{"in the all-pairs sweep one Capture per execution is reused and its flow log emptied with clear() between first packets (the flow log consists of two maps only); scenario C22 uses a fresh Capture for every first packet"},
	})
}

package scen

import (
	"bytes"
	"fmt"
	"os"
	"path/filepath"
	"sort"
	"strings"

	"github.com/els0r/goProbe/v4/pkg/goDB/encoder/encoders"
	"github.com/els0r/goProbe/v4/pkg/goDB/storage/gpfile"
	"github.com/els0r/goProbe/v4/pkg/types"
	"github.com/fako1024/gotools/concurrency"

	"verifmc/explore"
	"verifmc/fixture"
)

// C01: stored blocks read back byte-for-byte, for every payload class, encoder,
// level and split of the history into open/write/close sessions.

type c01Enc struct {
	t     encoders.Type
	level int
}

// c01Encoders lists the top-level (encoder, level) cases. Quick: one case per
// encoder type, the level is then a deviation {default, 1, max}; thorough:
// every level is its own case.
func c01Encoders(tier string) []c01Enc {
	out := []c01Enc{{encoders.EncoderTypeNull, 0}}
	if tier == "thorough" {
		for l := 0; l <= 12; l++ {
			out = append(out, c01Enc{encoders.EncoderTypeLZ4, l})
		}
		for l := 0; l <= 19; l++ {
			out = append(out, c01Enc{encoders.EncoderTypeZSTD, l})
		}
		return out
	}
	return append(out, c01Enc{encoders.EncoderTypeLZ4, -1}, c01Enc{encoders.EncoderTypeZSTD, -1})
}

type payloadClass struct {
	name string
	gen  func(col int) []byte
}

// Payload classes; index 0 is the default. Fixed byte strings (constant LCG).
var c01Classes = []payloadClass{
	{"100B-compressible", func(c int) []byte { return fixture.Compressible(uint64(c), 100+c) }},
	{"empty", func(c int) []byte { return nil }},
	{"1B", func(c int) []byte { return []byte{byte(c + 1)} }},
	{"5000B-compressible", func(c int) []byte { return fixture.Compressible(uint64(c+3), 5000+c) }},
	{"100B-incompressible", func(c int) []byte { return fixture.LCG(uint64(c+1), 100) }},
	{"4000B-incompressible", func(c int) []byte { return fixture.LCG(uint64(c+2), 4000) }},
	{"4096B-incompressible", func(c int) []byte { return fixture.LCG(uint64(c+3), 4096) }},
	{"4097B-incompressible", func(c int) []byte { return fixture.LCG(uint64(c+4), 4097) }},
	{"6000B-incompressible", func(c int) []byte { return fixture.LCG(uint64(c+5), 6000) }},
	{"70000B-incompressible", func(c int) []byte { return fixture.LCG(uint64(c+6), 70000) }},
	{"70000B-compressible", func(c int) []byte { return fixture.Compressible(uint64(c+9), 70000) }},
	{"9000B-half-half", func(c int) []byte {
		return append(fixture.Compressible(uint64(c), 4500), fixture.LCG(uint64(c+7), 4500)...)
	}},
	// XL classes: beyond the block / window sizes of the compression libraries (zstd block 128 KiB,
	// windows of 1 MiB and more). Only used where compression implementations meet (C02, C07).
	{"XL-16380B-incompressible", func(c int) []byte { return fixture.LCG(uint64(c+10), 16380) }}, // just below the 16 KiB scratch buffers of the block writer
	{"XL-131073B-compressible", func(c int) []byte { return fixture.Compressible(uint64(c+11), 131073) }},
	{"XL-1200000B-half-half", func(c int) []byte {
		return append(fixture.Compressible(uint64(c+12), 600000), fixture.LCG(uint64(c+13), 600000)...)
	}},
	{"XL-2100000B-compressible", func(c int) []byte { return fixture.Compressible(uint64(c+14), 2100000) }},
}

func c01ClassIndex(name string) int {
	for i, c := range c01Classes {
		if c.name == name {
			return i
		}
	}
	explore.HarnessErrorf("unknown payload class %q", name)
	return -1
}

type c01Alt struct {
	class  int
	single bool // only column 3 gets the class, the others the default
}

var c01AltCache = map[string][]c01Alt{}

// c01Alts lists the payload alternatives of one block (index 0 = default).
func c01Alts(tier string) []c01Alt {
	if a, ok := c01AltCache[tier]; ok {
		return a
	}
	a := []c01Alt{{0, false}}
	for ci := 1; ci < len(c01Classes); ci++ {
		if strings.HasPrefix(c01Classes[ci].name, "XL-") {
			continue
		}
		big := len(c01Classes[ci].gen(0)) >= 70000
		if tier == "thorough" {
			a = append(a, c01Alt{ci, false}, c01Alt{ci, true})
			continue
		}
		switch c01Classes[ci].name {
		case "4000B-incompressible", "4097B-incompressible", "70000B-compressible":
			continue // thorough only
		}
		if !big {
			a = append(a, c01Alt{ci, false})
		}
		if big || c01Classes[ci].name == "6000B-incompressible" || c01Classes[ci].name == "empty" {
			a = append(a, c01Alt{ci, true})
		}
	}
	c01AltCache[tier] = a
	return a
}

var c01PayloadCache = map[[2]int][]byte{}

func c01Payload(class, col int) []byte {
	k := [2]int{class, col}
	if p, ok := c01PayloadCache[k]; ok {
		return p
	}
	p := c01Classes[class].gen(col)
	c01PayloadCache[k] = p
	return p
}

type c01Block struct {
	ts      int64
	data    [types.ColIdxCount][]byte
	traffic gpfile.TrafficMetadata
	counts  types.Counters
}

var c01Traffic = []gpfile.TrafficMetadata{{NumV4Entries: 1, NumV6Entries: 2, NumDrops: 3}, {}, {NumV4Entries: 1<<32 - 1, NumV6Entries: 1<<32 - 1, NumDrops: 1<<32 - 1}}
var c01Counts = []types.Counters{{BytesRcvd: 10, BytesSent: 20, PacketsRcvd: 3, PacketsSent: 4}, {}, {BytesRcvd: 1 << 40, BytesSent: 1<<64 - 1, PacketsRcvd: 1 << 33, PacketsSent: 1}}

const c01Day0 = int64(1700006400) // 2023-11-15 00:00:00 UTC, a day boundary

func c01Run(x *explore.Ctx) {
	gpfile.VerifResetPools()
	encs := c01Encoders(x.Tier)
	enc := encs[x.Case%len(encs)]
	maxBlocks := 3
	if x.Thorough() {
		maxBlocks = 4
	}
	n := 1 + (x.Case/len(encs))%maxBlocks
	days := (x.Case / len(encs) / maxBlocks) % 2
	if enc.level < 0 {
		max := 12
		if enc.t == encoders.EncoderTypeZSTD {
			max = 19
		}
		enc.level = []int{0, 1, max}[x.Deviate(3, "level(default,1,max)")]
	}
	// every composition of n writes into sessions: bit i set = close+reopen before write i+1
	split := 0
	if n > 1 {
		split = x.Choose(1<<(n-1), "session-split")
	}
	blocks := make([]c01Block, n)
	for i := range blocks {
		b := &blocks[i]
		b.ts = c01Day0 + int64(i+1)*300
		if days == 1 && i == n-1 && n > 1 {
			b.ts += gpfile.EpochDay
		}
		alts := c01Alts(x.Tier)
		alt := alts[x.Deviate(len(alts), fmt.Sprintf("payload@%d", i))]
		ci, single := alt.class, alt.single
		for c := 0; c < int(types.ColIdxCount); c++ {
			if single && c != 3 {
				b.data[c] = c01Payload(0, c+i)
			} else {
				b.data[c] = c01Payload(ci, c+i)
			}
		}
		if x.Thorough() {
			b.traffic = c01Traffic[x.Deviate(len(c01Traffic), fmt.Sprintf("traffic@%d", i))]
			b.counts = c01Counts[x.Deviate(len(c01Counts), fmt.Sprintf("counts@%d", i))]
		} else {
			sm := x.Deviate(3, fmt.Sprintf("summary@%d", i))
			b.traffic, b.counts = c01Traffic[sm], c01Counts[sm]
		}
		if x.Logging() {
			x.Logf("block %d ts=%d class=%s single-col=%v traffic=%+v counts=%+v", i, b.ts, c01Classes[ci].name, single, b.traffic, b.counts)
		}
		if ci >= 4 {
			x.Nontrivial("%d/%d %d %d %v %d %d", enc.t, enc.level, n, split, single, ci, i)
		}
	}
	base := fixture.NewDir()
	defer os.RemoveAll(base)
	opts := []gpfile.Option{gpfile.WithEncoderTypeLevel(enc.t, enc.level)}

	written := map[int64][]c01Block{} // day -> accepted blocks
	var open *gpfile.GPDir
	var openDay int64
	closeDir := func(i int) bool {
		if open == nil {
			return true
		}
		err := open.Close()
		open = nil
		x.Transition()
		if err != nil {
			x.Fail("close-error", "Close of day %d after block %d failed: %v", openDay, i, err)
			return false
		}
		return c01Verify(x, base, written, fmt.Sprintf("close after block %d", i))
	}
	for i := range blocks {
		b := &blocks[i]
		day := gpfile.DirTimestamp(b.ts)
		if open != nil && (day != openDay || (i > 0 && split&(1<<(i-1)) != 0)) {
			if !closeDir(i - 1) {
				return
			}
		}
		if open == nil {
			// a session may be written by a process configured with another encoder (restart with a changed
			// configuration): the column files then hold blocks of several encoder types
			sopts := opts
			if alt := x.Deviate(3, fmt.Sprintf("session-encoder@%d", i)); alt > 0 {
				others := []encoders.Type{encoders.EncoderTypeLZ4, encoders.EncoderTypeZSTD, encoders.EncoderTypeNull}
				var o []encoders.Type
				for _, t := range others {
					if t != enc.t {
						o = append(o, t)
					}
				}
				sopts = []gpfile.Option{gpfile.WithEncoderTypeLevel(o[alt-1], 0)}
				x.Nontrivial("mixed %d/%d %d %d %d->%d", enc.t, enc.level, n, split, i, o[alt-1])
			}
			open = gpfile.NewDirWriter(base, b.ts, sopts...)
			openDay = day
			if err := open.Open(); err != nil {
				x.Fail("open-error", "Open for write failed: %v", err)
				return
			}
		}
		// hand the writer private copies: the caller may reuse its buffers afterwards
		var data [types.ColIdxCount][]byte
		for c := range data {
			data[c] = append([]byte(nil), b.data[c]...)
		}
		if err := open.WriteBlocks(b.ts, b.traffic, b.counts, data); err != nil {
			x.Fail("write-rejected", "WriteBlocks(ts=%d) of a valid block failed: %v", b.ts, err)
			return
		}
		x.Transition()
		written[day] = append(written[day], *b)
	}
	if !closeDir(n - 1) {
		return
	}
	x.Obs("%d/%d n=%d split=%d days=%d", enc.t, enc.level, n, split, days)
}

// c01Verify reopens every day with fresh readers and compares everything the property names.
func c01Verify(x *explore.Ctx, base string, written map[int64][]c01Block, when string) bool {
	days := make([]int64, 0, len(written))
	for d := range written {
		days = append(days, d)
	}
	sort.Slice(days, func(i, j int) bool { return days[i] < days[j] })
	for _, day := range days {
		want := written[day]
		// locate the directory suffix as a reader of the DB would (from the directory listing)
		suffix, err := c01Suffix(base, day)
		if err != nil {
			x.Fail("dir-missing", "%s: %v", when, err)
			return false
		}
		pool := concurrency.NewMemPool(int(types.ColIdxCount))
		for mode := 0; mode < 3; mode++ {
			var d *gpfile.GPDir
			label := ""
			switch mode {
			case 0:
				d, label = gpfile.NewDirReader(base, day, ""), "plain name"
			case 1:
				d, label = gpfile.NewDirReader(base, day, suffix), "name+suffix"
			case 2:
				d, label = gpfile.NewDirReader(base, day, suffix, gpfile.WithReadAll(pool)), "name+suffix, read-all pool"
			}
			var wantStats gpfile.Stats
			for _, b := range want {
				wantStats.Traffic = wantStats.Traffic.Add(b.traffic)
				wantStats.Counts.Add(b.counts)
			}
			if mode >= 1 && suffix != "" {
				// stats decoded from the directory suffix alone, before Open
				if d.Metadata == nil {
					x.Fail("suffix-undecodable", "%s: day %d: directory suffix %q could not be decoded", when, day, suffix)
					return false
				}
				if d.Metadata.Stats != wantStats {
					x.Fail("suffix-stats", "%s: day %d: stats from directory suffix %q = %+v, written %+v", when, day, suffix, d.Metadata.Stats, wantStats)
					return false
				}
			}
			if err := d.Open(); err != nil {
				x.Fail("reopen-error", "%s: day %d (%s): Open failed: %v", when, day, label, err)
				return false
			}
			ok := func() bool {
				if d.NBlocks() != len(want) {
					x.Fail("block-count", "%s: day %d (%s): %d blocks, written %d", when, day, label, d.NBlocks(), len(want))
					return false
				}
				if d.Metadata.Stats != wantStats {
					x.Fail("day-stats", "%s: day %d (%s): day stats %+v, written %+v", when, day, label, d.Metadata.Stats, wantStats)
					return false
				}
				for i, b := range want {
					if d.BlockTraffic[i] != b.traffic {
						x.Fail("block-traffic", "%s: day %d block %d: traffic %+v, written %+v", when, day, i, d.BlockTraffic[i], b.traffic)
						return false
					}
					for c := types.ColumnIndex(0); c < types.ColIdxCount; c++ {
						if ts := d.BlockMetadata[c].BlockList[i].Timestamp; ts != b.ts {
							x.Fail("block-timestamp", "%s: day %d block %d col %d: timestamp %d, written %d", when, day, i, c, ts, b.ts)
							return false
						}
						got, err := d.ReadBlockAtIndex(c, i)
						if err != nil {
							x.Fail("read-error", "%s: day %d block %d col %d (%s; %d bytes written, stored len %d enc %v): %v", when, day, i, c, label, len(b.data[c]),
								d.BlockMetadata[c].BlockList[i].Len, d.BlockMetadata[c].BlockList[i].EncoderType, err)
							return false
						}
						if !bytes.Equal(got, b.data[c]) {
							x.Fail("read-mismatch", "%s: day %d block %d col %d (%s): %d bytes read back differ from the %d bytes written (stored len %d enc %v)", when, day, i, c, label, len(got), len(b.data[c]),
								d.BlockMetadata[c].BlockList[i].Len, d.BlockMetadata[c].BlockList[i].EncoderType)
							return false
						}
					}
				}
				// blocks are also addressed out of order (a query restricted to the end of the day, then another one)
				for i := len(want) - 1; i >= 0 && len(want) > 1; i-- {
					for c := types.ColumnIndex(0); c < types.ColIdxCount; c++ {
						got, err := d.ReadBlockAtIndex(c, i)
						if err != nil {
							x.Fail("read-error:reverse-order", "%s: day %d block %d col %d (%s, blocks read in reverse order; stored enc %v): %v", when, day, i, c, label, d.BlockMetadata[c].BlockList[i].EncoderType, err)
							return false
						}
						if !bytes.Equal(got, want[i].data[c]) {
							x.Fail("read-mismatch:reverse-order", "%s: day %d block %d col %d (%s, blocks read in reverse order): %d bytes read back differ from the %d bytes written", when, day, i, c, label, len(got), len(want[i].data[c]))
							return false
						}
					}
				}
				return true
			}()
			d.Close()
			if !ok {
				return false
			}
		}
	}
	return true
}

func c01Suffix(base string, day int64) (string, error) {
	probe := gpfile.NewDirReader(base, day, "")
	month := filepath.Dir(probe.Path())
	ents, err := os.ReadDir(month)
	if err != nil {
		return "", err
	}
	prefix := fmt.Sprint(day)
	found := ""
	n := 0
	for _, e := range ents {
		ts, suffix, err := gpfile.ExtractTimestampMetadataSuffix(e.Name())
		if err == nil && fmt.Sprint(ts) == prefix {
			found = suffix
			n++
		}
	}
	if n != 1 {
		return "", fmt.Errorf("day %d: %d directories in %s", day, n, month)
	}
	return found, nil
}

func init() {
	register("C01", &explore.Scenario{
		ID: "C01", Name: "GPDir block round trip over sessions, payload classes, encoders", Level: "exploration",
		Rule: "cases = encoder (x level in thorough: every lz4 level 0-12 and zstd level 0-19; in quick the level is a deviation {default,1,max}) x number of block writes 1..3 (thorough 4) x {one day, last block on the next day}; per case every split into open/write/close sessions, per session an encoder deviation (the session is written with one of the two other encoder types, as after a restart with a changed configuration); per block a payload class deviation (thorough: 12 classes incl. incompressible 4000/4096/4097/6000/70000 B, each applied to all 8 columns or to one column; quick: 9 classes, 11 alternatives), traffic and counter deviations; <= bound deviations. After every Close three fresh readers (plain name, name+suffix, suffix+read-all pool) compare block count, timestamps, all 8 columns byte-for-byte (blocks read in order and then in reverse order), per-block traffic, day stats and suffix-decoded stats. non-trivial = histories containing an incompressible or >4KiB payload, distinct by (encoder, level, n, split, class, position)",
		Cases: func(t string) int {
			if t == "thorough" {
				return len(c01Encoders(t)) * 4 * 2
			}
			return len(c01Encoders(t)) * 3 * 2
		},
		Bound:    func(t string) int { return 2 },
		Run:      c01Run,
		PanicSig: "panic",
		Assumptions: []string{"payloads are 12 fixed byte-string classes (constant LCG / repeating pattern), not all byte strings",
			"files live on tmpfs"},
	})
}

package scen

import (
	"context"
	"errors"
	"fmt"
	"io"
	"log/slog"
	"runtime/debug"
	"strings"
	"sync"
	"testing"
	"testing/synctest"
	"time"

	gqd "github.com/els0r/goProbe/v4/cmd/global-query/pkg/distributed"
	"github.com/els0r/goProbe/v4/pkg/distributed/hosts"
	"github.com/els0r/goProbe/v4/pkg/goDB/encoder/encoders"
	"github.com/els0r/goProbe/v4/pkg/goDB/engine"
	"github.com/els0r/goProbe/v4/pkg/query"
	"github.com/els0r/goProbe/v4/pkg/results"
	"github.com/els0r/goProbe/v4/pkg/types"
	"github.com/els0r/goProbe/v4/pkg/verifshim/vos"
	"github.com/els0r/telemetry/logging"

	"verifmc/explore"
	"verifmc/fixture"
)

// C31: the query concurrency limit is never exceeded and never leaks.
//
// N calls of the real QueryRunner.Run (C31: engine.QueryRunner over a small
// database; C31.dist: the distributed runner with a fake resolver / querier)
// share one semaphore of capacity K inside a testing/synctest bubble. A query
// that has acquired its slot parks at the first seam it reaches (engine: the
// first file-system call below its database path, through the vos shim;
// distributed: inside the fake resolver / querier) until the scenario lets it
// finish. The explorer picks the next event: start a query, let a parked query
// finish, cancel a query's context, or advance virtual time by 600 ms. After
// every event the bubble runs to quiescence (synctest.Wait) and the observed
// state is compared with the sequential specification of a counting semaphore
// with acquisition timeout.

const (
	c31OK         = iota // runs to completion
	c31Unknown           // fails after acquiring the slot (engine: unknown interface; distributed: hosts cannot be resolved)
	c31Invalid           // fails before acquiring the slot (arguments do not prepare)
	c31Cancel            // its context is cancelled while it waits or runs
	c31FailNoSeam        // fails right after acquiring the slot, before any I/O (engine: interface regexp that does not compile; distributed: as c31Unknown, the runner has no such path)
	c31FailList          // fails while resolving its interfaces, after its first I/O (engine: database directory missing; distributed: as c31Unknown)
	c31OKLong            // as c31OK with a keepalive of 2 s: waits up to 2 s for a slot (thorough)
	c31NBehav
)

var c31BehavNames = []string{"ok", "fails-after-acquire", "invalid-args", "cancelled", "fails-before-io", "fails-listing", "ok-keepalive-2s"}

const (
	c31Tick = 600 * time.Millisecond
	c31TS   = int64(1700000100)
)

var (
	c31Once sync.Once
	c31DBs  []string // one database per query index (identifies the caller at the vos seam)
)

const c31MaxN = 4

func c31Setup(tier string) {
	c28Setup(tier) // parks the *testing.T that testing/synctest needs (c28T)
	c31Once.Do(func() {
		if _, err := logging.Init(slog.LevelError+4, logging.EncodingLogfmt, logging.WithOutput(io.Discard), logging.WithErrorOutput(io.Discard)); err != nil {
			explore.HarnessErrorf("logging.Init: %v", err)
		}
		engine.VerifSetNumProcessingUnits(1)
		for i := 0; i < c31MaxN; i++ {
			d := fixture.NewDir()
			b := fixture.Block{Iface: "eth0", TS: c31TS, Recs: []fixture.Rec{{SIP: fixture.MustAddr("10.0.0.1"), DIP: fixture.MustAddr("10.0.0.2"), Dport: 80, Proto: 6,
				C: types.Counters{BytesRcvd: 100, BytesSent: 50, PacketsRcvd: 2, PacketsSent: 1}}}}
			if err := fixture.WriteBlock(d, b, encoders.EncoderTypeLZ4); err != nil {
				explore.HarnessErrorf("C31: cannot write fixture database: %v", err)
			}
			c31DBs = append(c31DBs, d)
		}
	})
}

// c31Multisets lists the non-decreasing behaviour vectors of length n over nb behaviours.
func c31Multisets(n, nb int) [][]int {
	var out [][]int
	var rec func(prefix []int, from int)
	rec = func(prefix []int, from int) {
		if len(prefix) == n {
			out = append(out, append([]int(nil), prefix...))
			return
		}
		for b := from; b < nb; b++ {
			rec(append(prefix, b), b)
		}
	}
	rec(nil, 0)
	return out
}

func c31Shape(tier string) (n, nb int) {
	if tier == "thorough" {
		return 4, c31NBehav
	}
	return 3, c31OKLong
}

func c31MaxK(tier string) int {
	if tier == "thorough" {
		return 3
	}
	return 2
}

func c31Cases(tier string) int {
	n, nb := c31Shape(tier)
	return c31MaxK(tier) * len(c31Multisets(n, nb))
}

// ---------------------------------------------------------------- per-execution state

type c31Query struct {
	i       int
	behav   int
	timeout time.Duration
	ctx     context.Context
	cancel  context.CancelFunc
	gate    chan struct{} // closed by "finish"

	// written by the seam / the Run goroutine under env.mu
	parked   bool // currently parked at the seam (holds a slot)
	passed   bool // has been through the seam
	done     bool
	res      *results.Result
	err      error
	panicVal any
	stack    string
	doneCh   chan struct{}

	// scenario side
	started   bool
	startedAt time.Time
	cancelled bool
	released  bool
	everHeld  bool
	arrival   int
}

type c31Env struct {
	mu   sync.Mutex
	qs   []*c31Query
	open bool // seams let everybody through (clean-up)
}

// park is called at the seam by the goroutine of query i.
func (e *c31Env) park(i int) {
	e.mu.Lock()
	q := e.qs[i]
	if q.passed || e.open {
		q.passed = true
		e.mu.Unlock()
		return
	}
	q.passed, q.parked = true, true
	e.mu.Unlock()
	<-q.gate
	e.mu.Lock()
	q.parked = false
	e.mu.Unlock()
}

// vos controller: the first file-system call below database i parks query i.
type c31Ctl struct{ e *c31Env }

func (c *c31Ctl) Step(op vos.Op) vos.Action {
	for i, d := range c31DBs {
		if i < len(c.e.qs) && strings.HasPrefix(op.Path, d) {
			c.e.park(i)
			break
		}
	}
	return vos.Action{}
}
func (c *c31Ctl) TempName() string { return "c31" }

// fake resolver and querier of the distributed runner: queries are identified by their host string "q<i>".
type c31Dist struct{ e *c31Env }

func c31Index(s string) int {
	var i int
	if _, err := fmt.Sscanf(s, "q%d", &i); err != nil {
		explore.HarnessErrorf("C31: unexpected host string %q", s)
	}
	return i
}

var errC31Resolve = errors.New("c31: hosts cannot be resolved")

func (d *c31Dist) Resolve(_ context.Context, qh string) (hosts.Hosts, error) {
	i := c31Index(qh)
	if b := d.e.qs[i].behav; b == c31Unknown || b == c31FailList || b == c31FailNoSeam {
		d.e.park(i)
		return nil, errC31Resolve
	}
	return hosts.Hosts{qh}, nil
}

func (d *c31Dist) Query(_ context.Context, hl hosts.Hosts, _ *query.Args) (<-chan *results.Result, <-chan struct{}) {
	d.e.park(c31Index(hl[0]))
	rc, kc := make(chan *results.Result), make(chan struct{})
	close(rc)
	close(kc)
	return rc, kc
}

// ---------------------------------------------------------------- the scenario

func c31Bubble(body, cleanup func()) (panicVal any, stack string) {
	var explorerPanic any
	synctest.Test(c28T, func(*testing.T) {
		defer func() {
			if e := recover(); e != nil {
				if strings.HasPrefix(fmt.Sprintf("%T", e), "explore.") {
					explorerPanic = e
				} else {
					panicVal, stack = e, string(debug.Stack())
				}
			}
			cleanup()
		}()
		body()
	})
	if explorerPanic != nil {
		panic(explorerPanic)
	}
	return
}

func c31RunWith(dist bool) func(x *explore.Ctx) {
	return func(x *explore.Ctx) {
		n, nb := c31Shape(x.Tier)
		ms := c31Multisets(n, nb)
		k := 1 + x.Case/len(ms)
		behav := ms[x.Case%len(ms)]
		e := &c31Env{}
		if !dist {
			vos.SetController(&c31Ctl{e})
			defer vos.SetController(nil)
		}
		pv, stack := c31Bubble(func() { c31Body(x, e, dist, k, behav) }, func() {
			// let everything end: open the seams, release every parked query, wait for every Run to return
			e.mu.Lock()
			e.open = true
			qs := append([]*c31Query(nil), e.qs...)
			e.mu.Unlock()
			for _, q := range qs {
				if !q.released {
					q.released = true
					close(q.gate)
				}
			}
			for _, q := range qs {
				if q.started {
					<-q.doneCh
				}
				q.cancel()
			}
		})
		if pv != nil {
			x.Fail("panic:"+c27PanicSite(stack), "panic: %v\n%s", pv, stack)
		}
	}
}

func (q *c31Query) phase() byte {
	switch {
	case !q.started:
		return 'U'
	case q.done:
		return 'D'
	case q.parked:
		return 'H'
	}
	return 'W'
}

func c31Body(x *explore.Ctx, e *c31Env, dist bool, k int, behav []int) {
	sem := make(chan struct{}, k)
	var distRunner *gqd.QueryRunner
	if dist {
		d := &c31Dist{e}
		rm := hosts.NewResolverMap()
		rm.Set("c31", d)
		distRunner = gqd.NewQueryRunner(rm, d, gqd.WithMaxConcurrent(sem))
	}
	for i, b := range behav {
		ctx, cancel := context.WithCancel(context.Background())
		q := &c31Query{i: i, behav: b, ctx: ctx, cancel: cancel, gate: make(chan struct{}), doneCh: make(chan struct{}), timeout: time.Second}
		if b == c31OKLong {
			q.timeout = 2 * time.Second
		}
		e.qs = append(e.qs, q)
	}
	x.Logf("K=%d behaviours %v", k, func() (s []string) {
		for _, b := range behav {
			s = append(s, c31BehavNames[b])
		}
		return
	}())

	start := func(q *c31Query) {
		var a *query.Args
		if dist {
			a = query.NewArgs("sip,dip", "eth0")
			a.QueryHosts = fmt.Sprintf("q%d", q.i)
			a.QueryHostsResolverType = "c31"
		} else {
			iface := "eth0"
			switch q.behav {
			case c31Unknown:
				iface = "nosuch0"
			case c31FailNoSeam:
				iface = "/*eth/"
			}
			a = query.NewArgs("sip,dip", iface)
		}
		a.First, a.Last = fmt.Sprint(c31TS-600), fmt.Sprint(c31TS+600)
		a.Format = "json"
		a.NumResults = 1000
		a.MaxMemPct = 100
		if q.behav == c31Invalid {
			a.Query = "sip,nonsense"
		}
		if q.behav == c31OKLong {
			a.KeepAlive = 2 * time.Second
		}
		q.started, q.startedAt = true, time.Now()
		go func() {
			defer close(q.doneCh)
			var res *results.Result
			var err error
			defer func() {
				e.mu.Lock()
				if p := recover(); p != nil {
					q.panicVal, q.stack = p, string(debug.Stack())
				}
				q.res, q.err, q.done, q.parked = res, err, true, false
				e.mu.Unlock()
			}()
			if dist {
				res, err = distRunner.Run(q.ctx, a)
			} else {
				db := c31DBs[q.i]
				if q.behav == c31FailList {
					db += "/nodb"
				}
				res, err = engine.NewQueryRunner(db, engine.WithMaxConcurrent(sem)).Run(q.ctx, a)
			}
		}()
	}

	arrivals := 0
	var trace []string
	for step := 0; ; step++ {
		// ---- enabled events
		type ev struct {
			kind string
			q    *c31Query
		}
		var evs []ev
		seenUnstarted := map[int]bool{}
		waiting := false
		e.mu.Lock()
		for _, q := range e.qs {
			switch q.phase() {
			case 'U':
				if !seenUnstarted[q.behav] { // unstarted queries of equal behaviour are interchangeable
					seenUnstarted[q.behav] = true
					evs = append(evs, ev{"start", q})
				}
			case 'H':
				if !q.released && (q.behav != c31Cancel || q.cancelled) {
					evs = append(evs, ev{"finish", q})
				}
				if q.behav == c31Cancel && !q.cancelled {
					evs = append(evs, ev{"cancel", q})
				}
			case 'W':
				waiting = true
				if q.behav == c31Cancel && !q.cancelled {
					evs = append(evs, ev{"cancel", q})
				}
			}
		}
		e.mu.Unlock()
		if waiting {
			evs = append(evs, ev{"tick", nil})
		}
		if len(evs) == 0 {
			break
		}
		var lb strings.Builder
		for _, v := range evs {
			if v.q != nil {
				fmt.Fprintf(&lb, "%s%d ", v.kind, v.q.i)
			} else {
				lb.WriteString(v.kind)
			}
		}
		c := evs[x.Choose(len(evs), fmt.Sprintf("event@%d{%s}", step, strings.TrimSpace(lb.String())))]
		x.Transition()
		switch c.kind {
		case "start":
			start(c.q)
		case "finish":
			c.q.released = true
			close(c.q.gate)
		case "cancel":
			c.q.cancelled = true
			c.q.cancel()
		case "tick":
			time.Sleep(c31Tick)
		}
		synctest.Wait()
		name := c.kind
		if c.q != nil {
			name = fmt.Sprintf("%s q%d(%s)", c.kind, c.q.i, c31BehavNames[c.q.behav])
		}
		trace = append(trace, name)

		// ---- observation at quiescence vs. the sequential specification
		now := time.Now()
		e.mu.Lock()
		holding, waiters := 0, 0
		var ph strings.Builder
		for _, q := range e.qs {
			p := q.phase()
			ph.WriteByte(p)
			if p == 'H' {
				holding++
				q.everHeld = true
			}
			if q.passed {
				q.everHeld = true
			}
			if p == 'W' {
				waiters++
				if q.arrival == 0 {
					arrivals++
					q.arrival = arrivals
				}
			}
		}
		inSem := len(sem)
		x.Logf("t=+%v %-28s -> phases %s, %d holding, len(sem)=%d", now.Sub(time.Date(2000, 1, 1, 0, 0, 0, 0, time.UTC)), name, ph.String(), holding, inSem)
		fail := func(sig, format string, a ...any) {
			e.mu.Unlock()
			x.Fail(sig, "K=%d, events %v: %s", k, trace, fmt.Sprintf(format, a...))
		}
		for _, q := range e.qs {
			if q.panicVal != nil {
				fail("panic:"+c27PanicSite(q.stack), "query %d (%s) panicked: %v\n%s", q.i, c31BehavNames[q.behav], q.panicVal, q.stack)
				return
			}
		}
		if holding > k {
			fail("limit-exceeded", "%d queries execute at once (phases %s), the limit is %d", holding, ph.String(), k)
			return
		}
		if inSem > holding {
			fail("slot-leak", "no query is between acquisition and release except the %d executing ones (phases %s), but %d slots are taken", holding, ph.String(), inSem)
			return
		}
		if inSem < holding {
			fail("slot-released-early", "%d queries are executing (phases %s) but only %d slots are taken", holding, ph.String(), inSem)
			return
		}
		if waiters > 0 && inSem < k {
			fail("waits-although-slot-free", "%d queries wait for a slot (phases %s) although only %d of %d slots are taken", waiters, ph.String(), inSem, k)
			return
		}
		for _, q := range e.qs {
			deadline := q.startedAt.Add(q.timeout)
			tooMany := q.done && q.res != nil && q.res.Status.Code == types.StatusTooManyRequests
			desc := fmt.Sprintf("query %d (%s, started at +%v, waits up to %v)", q.i, c31BehavNames[q.behav], q.startedAt.Sub(time.Date(2000, 1, 1, 0, 0, 0, 0, time.UTC)), q.timeout)
			switch {
			case q.phase() == 'W' && q.behav == c31Invalid:
				fail("invalid-args-wait", "%s has arguments that do not prepare but has not returned", desc)
				return
			case q.phase() == 'W' && !now.Before(deadline):
				fail("no-answer-after-timeout", "%s still waits for a slot at +%v", desc, now.Sub(q.startedAt))
				return
			case tooMany && q.everHeld:
				fail("too-many-requests-after-acquiring", "%s executed and is answered 'too many requests'", desc)
				return
			case tooMany && q.behav == c31Invalid:
				fail("too-many-requests-for-invalid-args", "%s is answered 'too many requests'", desc)
				return
			case tooMany && now.Before(deadline):
				fail("too-many-requests-early", "%s is answered 'too many requests' after %v", desc, now.Sub(q.startedAt))
				return
			case q.done && !tooMany && !q.everHeld && q.behav != c31Invalid && (dist || q.behav != c31FailNoSeam):
				fail("finished-without-slot", "%s returned (err %v) without ever executing and without 'too many requests'", desc, q.err)
				return
			case q.done && q.behav == c31Invalid && (q.err == nil || q.everHeld):
				fail("invalid-args-accepted", "%s: err %v, executed %v", desc, q.err, q.everHeld)
				return
			case q.done && !tooMany && (q.behav == c31OK || q.behav == c31OKLong) && q.err != nil:
				fail("valid-query-fails", "%s executed and fails: %v", desc, q.err)
				return
			case q.done && !tooMany && (q.behav == c31Unknown || q.behav == c31FailNoSeam || q.behav == c31FailList) && q.err == nil:
				fail("failing-query-succeeds", "%s was expected to fail after acquiring its slot", desc)
				return
			}
			if tooMany {
				x.Nontrivial("too-many %d %v %s", k, q.behav, ph.String())
			}
		}
		// canonical state: per query (behaviour, phase, cancelled, released; waiters: time left and arrival order)
		var st strings.Builder
		fmt.Fprintf(&st, "K%d;", k)
		for _, q := range e.qs {
			p := q.phase()
			fmt.Fprintf(&st, "%d%c", q.behav, p)
			if q.cancelled && p != 'D' {
				st.WriteByte('c')
			}
			if p == 'W' {
				rank := 0
				for _, o := range e.qs {
					if o.phase() == 'W' && o.arrival < q.arrival {
						rank++
					}
				}
				fmt.Fprintf(&st, "%d@%d", q.startedAt.Add(q.timeout).Sub(now)/time.Millisecond, rank)
			}
			st.WriteByte(';')
		}
		e.mu.Unlock()
		if holding == k && waiters > 0 {
			x.Nontrivial("contended %s", st.String())
		}
		if x.Seen([]byte(st.String())) {
			return // the same canonical state was expanded before: same phases, deadlines and waiter order
		}
	}

	// ---- everything has finished: no slot may be left taken
	if n := len(sem); n != 0 {
		x.Fail("slot-leak", "K=%d, events %v: every query has returned but %d slots are still taken", k, trace, n)
		return
	}
	var ob strings.Builder
	for _, q := range e.qs {
		code := "-"
		if q.res != nil {
			code = string(q.res.Status.Code)
		}
		fmt.Fprintf(&ob, "%s:%s/%v ", c31BehavNames[q.behav], code, q.err != nil)
	}
	x.Obs("K=%d %s", k, ob.String())
}

func init() {
	rule := func(what string) string {
		return "cases = K in {1,2} (thorough {1,2,3}) x multiset of per-query behaviours over {ok, fails after acquiring (engine: unknown interface, fails in the statement; distributed: resolver fails), invalid arguments (fails before acquiring), cancelled, fails right after acquiring before any I/O (engine: interface regexp that does not compile; distributed: as c31Unknown, the runner has no such path), fails while listing the interfaces (engine: database directory missing)} for N=3 queries (thorough: N=4, plus ok with keepalive 2 s = 2 s acquisition timeout) of " + what + " sharing one semaphore; every order of the enabled events {start q (one representative per behaviour), let a parked q finish, cancel q's context (while waiting or executing), advance virtual time by 600 ms (while somebody waits)} until every query has returned; after every event synctest.Wait and comparison with the sequential specification: #executing <= K, len(sem) = #executing, nobody waits while a slot is free, a waiter is answered 'too many requests' exactly when its window (1 s / keepalive) has passed without a slot and never earlier, a query that executed is never answered 'too many requests', len(sem) = 0 at the end. state = (K; per query: behaviour, phase, cancelled, remaining window, arrival order among waiters), executions are cut at states already expanded; non-trivial = distinct states with all K slots taken and a waiter, and distinct 'too many requests' answers"
	}
	assume := []string{
		"virtual time (testing/synctest); the query holding a slot is parked at its first environment seam (engine: first file-system call below its database path through the vos shim, i.e. listing the interfaces; distributed: fake resolver / fake querier) and continues only on the 'finish' event",
		"engine: one QueryRunner per query (one database directory per query identifies the caller), all sharing the semaphore channel; distributed: one shared runner",
		"which waiter obtains a freed slot is not prescribed (observed, then checked for work conservation)",
		"cancellation of a waiting query does not have to shorten its wait (TryAddFor does not look at the context); it only must not leak",
	}
	register("C31", &explore.Scenario{
		ID: "C31", Name: "engine.QueryRunner.Run x N sharing a semaphore: all event orders", Level: "model_checking",
		Rule:  rule("the real engine.QueryRunner.Run"),
		Cases: c31Cases, Bound: func(string) int { return 0 },
		Run: c31RunWith(false), Setup: c31Setup, PanicSig: "panic", Assumptions: assume,
	})
	register("C31.dist", &explore.Scenario{
		ID: "C31", Name: "distributed QueryRunner.Run x N sharing a semaphore: all event orders", Level: "model_checking",
		Rule:  rule("the real distributed (global-query) QueryRunner.Run with a fake resolver and querier"),
		Cases: c31Cases, Bound: func(string) int { return 0 },
		Run: c31RunWith(true), Setup: c31Setup, PanicSig: "panic", Assumptions: assume,
	})
}

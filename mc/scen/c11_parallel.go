package scen

import (
	"context"
	"fmt"
	"runtime"
	"sort"
	"strings"
	"testing"
	"testing/synctest"
	"time"

	"github.com/els0r/goProbe/v4/pkg/goDB"
	"github.com/els0r/goProbe/v4/pkg/goDB/conditions/node"
	"github.com/els0r/goProbe/v4/pkg/goDB/encoder/encoders"
	"github.com/els0r/goProbe/v4/pkg/goDB/engine"
	"github.com/els0r/goProbe/v4/pkg/query"
	"github.com/els0r/goProbe/v4/pkg/results"
	"github.com/els0r/goProbe/v4/pkg/types"
	"github.com/els0r/goProbe/v4/pkg/types/hashmap"

	"verifmc/explore"
	"verifmc/fixture"
)

// C11: query results do not depend on parallelism or memory mode, and queries end.
//
//   C11        configurations: numProcessingUnits 1..16 x low-memory {off,on} x databases (the four
//              C08 shapes + two multi-workload databases) x 12 queries, through QueryRunner.Run,
//              under the real Go scheduler; rows / totals / hits against the reference aggregation
//   C11.order  schedules: what a goroutine schedule can change for the result is the ORDER in which
//              the per-workload maps reach the aggregator. The real workers produce the real
//              per-workload maps, which are fed to the real (*QueryRunner).aggregate in EVERY order
//              RunStatement can produce (interfaces one after the other, any permutation within)
//   C11.end    termination: QueryRunner.Run over 1..4097 (thorough 6145) day directories with 1..2 (3)
//              workers inside a testing/synctest bubble; virtual time passing without the query
//              returning (it only moves when every goroutine is durably blocked) + the runtime's
//              deadlock verdict for the bubble = the query never ends
//
// A database day holds one or two blocks; a workload is 32 day directories (goDB.WorkBulkSize).

const c11Day0 = int64(1262304000) // 2010-01-01 00:00:00 UTC

var c11Alpha = []fixture.Rec{r4a, r4b, r4c, r4d, r4e, r6a, r6b, r6c, r6d}

// c11Marker only exists in a few days, so that whole workloads yield an empty map for it.
var (
	c11Marker0 = rec("10.9.9.9", "10.0.0.2", 8080, 6, cnt(9, 9, 1, 1))      // eth0, days 32..63 (second workload)
	c11Marker1 = rec("10.9.9.9", "10.0.0.3", 8081, 17, cnt(5, 0, 2, 0))     // eth1, days 0..31 (first workload)
	c11Marker6 = rec("2001:db8::99", "2001:db8::2", 80, 6, cnt(1, 2, 3, 4)) // eth0, last day only
)

type c11Long struct {
	name   string
	n0, n1 int // days of eth0, eth1
	db     fixture.DB
	path   string
}

func c11DayTS(i int) int64 { return c11Day0 + int64(i)*86400 + 300 }

// c11LongShape: n0 days on eth0 (every 7th day two blocks), n1 days on eth1. Counters and
// record choice vary with the day so that workloads overlap in some groups and not in others.
func c11LongShape(n0, n1 int) fixture.DB {
	var db fixture.DB
	for i := 0; i < n0; i++ {
		recs := []fixture.Rec{
			scale(c11Alpha[i%9], uint64(i%5+1)),
			scale(c11Alpha[(i+4)%9], uint64(i%3+1)),
			rec("10.1.0.1", "10.1.0.2", uint16(1000+i%300), 17, cnt(uint64(i+1), 1, 1, 0)),
		}
		if i >= 32 && i < 64 {
			recs = append(recs, scale(c11Marker0, uint64(i)))
		}
		if i == n0-1 {
			recs = append(recs, c11Marker6)
		}
		db.Blocks = append(db.Blocks, fixture.Block{Iface: "eth0", TS: c11DayTS(i), Recs: recs, Drops: uint64(i % 3)})
		if i%7 == 3 {
			db.Blocks = append(db.Blocks, fixture.Block{Iface: "eth0", TS: c11DayTS(i) + 300, Recs: []fixture.Rec{scale(c11Alpha[(i+1)%9], 2), r4c}})
		}
	}
	for i := 0; i < n1; i++ {
		recs := []fixture.Rec{scale(c11Alpha[(i*2)%9], 3), scale(c11Alpha[(i*2+1)%9], uint64(i%4+1))}
		if i < 32 {
			recs = append(recs, scale(c11Marker1, uint64(i+1)))
		}
		db.Blocks = append(db.Blocks, fixture.Block{Iface: "eth1", TS: c11DayTS(i), Recs: recs})
	}
	return db
}

// c11TinyShape: n days on eth0, one block with one or two flows per day (the termination databases).
func c11TinyShape(n int) fixture.DB {
	var db fixture.DB
	db.Blocks = make([]fixture.Block, 0, n)
	for i := 0; i < n; i++ {
		db.Blocks = append(db.Blocks, fixture.Block{Iface: "eth0", TS: c11DayTS(i), Recs: []fixture.Rec{scale(c11Alpha[i%9], uint64(i%4+1))}})
	}
	return db
}

var c11Longs = map[string]*c11Long{}

func c11Build(name string, n0, n1 int, shape func() fixture.DB) *c11Long {
	if l, ok := c11Longs[name]; ok {
		return l
	}
	l := &c11Long{name: name, n0: n0, n1: n1, db: shape(), path: fixture.NewDir()}
	if err := l.db.WriteTo(l.path, encoders.EncoderTypeLZ4); err != nil {
		explore.HarnessErrorf("cannot build database %s: %v", name, err)
	}
	c11Longs[name] = l
	return l
}

func c11LongDB(n0, n1 int) *c11Long {
	return c11Build(fmt.Sprintf("long-%d+%d", n0, n1), n0, n1, func() fixture.DB { return c11LongShape(n0, n1) })
}

func c11TinyDB(n int) *c11Long {
	return c11Build(fmt.Sprintf("tiny-%d", n), n, 0, func() fixture.DB { return c11TinyShape(n) })
}

// ---- queries ----------------------------------------------------------------------------------

type c11Query struct {
	qtype  string
	attrs  []string
	time   bool
	cond   string
	pred   func(fixture.Rec) bool
	dir    string
	ifaces string // interface argument
	rng    int    // 0 full, 1 restricted (partial first and last day), 2 before all data
}

func c11A(s string) []string { return strings.Split(s, ",") }

var c11Queries = []c11Query{
	{qtype: "sip,dip,dport,proto", attrs: c11A("sip,dip,dport,proto"), ifaces: "eth0,eth1"},
	{qtype: "sip", attrs: c11A("sip"), ifaces: "any"},
	{qtype: "talk_conv,time", attrs: c11A("sip,dip"), time: true, cond: "dport = 80", pred: func(r fixture.Rec) bool { return r.Dport == 80 }, ifaces: "eth0,eth1"},
	{qtype: "dport,proto", attrs: c11A("dport,proto"), cond: "sip = 10.0.0.1 | dport = 80", pred: func(r fixture.Rec) bool { return r.SIP == a("10.0.0.1") || r.Dport == 80 }, ifaces: "eth0"},
	{qtype: "dip", attrs: c11A("dip"), cond: "dnet = 2001:db8::/32", pred: func(r fixture.Rec) bool { return inNet(r.DIP, "2001:db8::/32") }, ifaces: "any"},
	{qtype: "sip,dip", attrs: c11A("sip,dip"), dir: "in", ifaces: "eth0,eth1"},
	{qtype: "proto,time", attrs: c11A("proto"), time: true, ifaces: "eth0,eth1", rng: 1},
	{qtype: "agg_talk_port", attrs: c11A("sip,dip,dport,proto"), cond: "!(sip = 10.0.0.1)", pred: func(r fixture.Rec) bool { return r.SIP != a("10.0.0.1") }, ifaces: "eth1"},
	{qtype: "dport", attrs: c11A("dport"), cond: "snet = 10.0.0.0/8 & dip = 10.0.0.2", pred: func(r fixture.Rec) bool { return inNet(r.SIP, "10.0.0.0/8") && r.DIP == a("10.0.0.2") }, ifaces: "eth0,eth1"},
	{qtype: "sip,time", attrs: c11A("sip"), time: true, dir: "bi", ifaces: "any", rng: 1},
	{qtype: "dip,proto", attrs: c11A("dip,proto"), cond: "proto = 6", pred: func(r fixture.Rec) bool { return r.Proto == 6 }, ifaces: "eth0"},
	{qtype: "talk_src", attrs: c11A("sip"), ifaces: "eth0,eth1", rng: 2},
	// thorough only from here
	{qtype: "sip,dip,dport,proto,time", attrs: c11A("sip,dip,dport,proto"), time: true, ifaces: "any"},
	{qtype: "talk_dst", attrs: c11A("dip"), cond: "sip = 10.9.9.9", pred: func(r fixture.Rec) bool { return r.SIP == a("10.9.9.9") }, ifaces: "any"},
	{qtype: "apps_port", attrs: c11A("dport,proto"), dir: "uni", ifaces: "eth0,eth1"},
	{qtype: "dport,time", attrs: c11A("dport"), time: true, cond: "dport >= 443", pred: func(r fixture.Rec) bool { return r.Dport >= 443 }, ifaces: "eth0,eth1", rng: 1},
	{qtype: "proto", attrs: c11A("proto"), cond: "dnet = 10.0.0.0/30 | dnet = ff02::/16", pred: func(r fixture.Rec) bool { return inNet(r.DIP, "10.0.0.0/30") || inNet(r.DIP, "ff02::/16") }, ifaces: "any"},
	{qtype: "sip,dip", attrs: c11A("sip,dip"), dir: "out", ifaces: "eth1", rng: 1},
}

const c11QuickQueries = 12

func c11NumQueries(tier string) int {
	if tier == "thorough" {
		return len(c11Queries)
	}
	return c11QuickQueries
}

func (q c11Query) condText() string {
	switch {
	case q.dir == "":
		return q.cond
	case q.cond == "":
		return "dir = " + q.dir
	}
	return "(" + q.cond + ") & dir = " + q.dir
}

func c11IfacesOf(arg string, db *fixture.DB) []string {
	all := db.Ifaces()
	if arg == "any" {
		return all
	}
	var out []string
	for _, i := range strings.Split(arg, ",") {
		for _, e := range all {
			if e == i {
				out = append(out, i)
			}
		}
	}
	sort.Strings(out)
	return out
}

// c11DB is one database a configuration / order scenario runs on.
type c11DB struct {
	name string
	db   *fixture.DB
	path func() string
	// ranges: full, restricted, before all data
	ranges [3][2]int64
}

var c11DBsCache = map[string][]c11DB{}

func c11DBs(tier string, long [][2]int, withC08 bool) (out []c11DB) {
	ck := fmt.Sprint(tier, long, withC08)
	if c, ok := c11DBsCache[ck]; ok {
		return c
	}
	defer func() { c11DBsCache[ck] = out }()
	if withC08 {
		for _, sh := range c08Shapes() {
			sh := sh
			out = append(out, c11DB{name: sh.name, db: &sh.db, path: func() string { return c08DB(sh) },
				ranges: [3][2]int64{{c08Points[0], c08Points[len(c08Points)-1]}, {tA2, tB1}, {tA1 - 100000, tA1 - 301}}})
		}
	}
	for _, n := range long {
		n := n
		shape := c11LongShape(n[0], n[1])
		out = append(out, c11DB{name: fmt.Sprintf("long-%d+%d", n[0], n[1]), db: &shape, path: func() string { return c11LongDB(n[0], n[1]).path },
			// restricted: from the second block of day 3 to the first block of the day before the last one
			ranges: [3][2]int64{{c11Day0, c11DayTS(n[0]) + 86400}, {c11DayTS(3) + 300, c11DayTS(n[0] - 2)}, {c11Day0 - 100000, c11Day0 - 1000}}})
	}
	return out
}

// c11Diff is fixture.DiffRows behind a cheap equality test (DiffRows sorts by rendered key).
func c11Diff(got, want map[fixture.RowKey]types.Counters) string {
	if len(got) == len(want) {
		same := true
		for k, w := range want {
			if g, ok := got[k]; !ok || g != w {
				same = false
				break
			}
		}
		if same {
			return ""
		}
	}
	return fixture.DiffRows(got, want)
}

func c11Totals(rows map[fixture.RowKey]types.Counters) (tot types.Counters) {
	for _, c := range rows {
		tot.Add(c)
	}
	return
}

func c11RowsHash(rows map[fixture.RowKey]types.Counters) uint64 {
	var h uint64
	for k, c := range rows {
		h += hashStr(fmt.Sprintf("%s %+v", k, c))
	}
	return h
}

func hashStr(s string) uint64 {
	h := uint64(14695981039346656037)
	for i := 0; i < len(s); i++ {
		h = (h ^ uint64(s[i])) * 1099511628211
	}
	return h
}

// c11CheckResult compares an engine result with the reference (rows as multiset, totals, hits);
// sig == "" means equal.
func c11CheckResult(what string, res *results.Result, want map[fixture.RowKey]types.Counters) (sig, msg string) {
	got, dup := fixture.RowsOf(res)
	if dup != nil {
		return "duplicate-group", fmt.Sprintf("%s: group %s returned twice", what, dup)
	}
	if d := c11Diff(got, want); d != "" {
		return "rows", fmt.Sprintf("%s: rows differ from the reference aggregation: %s", what, d)
	}
	if tot := c11Totals(want); res.Summary.Totals != tot {
		return "totals", fmt.Sprintf("%s: Summary.Totals %+v, reference %+v", what, res.Summary.Totals, tot)
	}
	if res.Summary.Hits.Total != len(want) {
		return "hits", fmt.Sprintf("%s: Hits.Total %d, reference %d rows", what, res.Summary.Hits.Total, len(want))
	}
	return "", ""
}

func c11Args(qtype, ifaces, cond string, first, last int64, lowMem bool) *query.Args {
	a := query.NewArgs(qtype, ifaces)
	a.Condition, a.First, a.Last, a.Format, a.NumResults, a.LowMem, a.MaxMemPct = cond, fmt.Sprint(first), fmt.Sprint(last), "json", 1<<40, lowMem, 100
	return a
}

// c11RunChecked runs one real query (inside a bubble, so that a query that never ends is a
// verdict instead of a stuck worker process) and judges it. workloads = per-workload maps merged.
func c11RunChecked(what, dbPath string, a *query.Args, want map[fixture.RowKey]types.Counters) (sig, msg string, workloads uint64) {
	res, err, hung, deadlock, stacks := c11RunInBubble(dbPath, a)
	if hung {
		sig, where := c11HangVerdict(stacks, deadlock)
		return sig, fmt.Sprintf("%s: QueryRunner.Run did not return: %v of virtual time passed with every goroutine blocked (runtime deadlock verdict after cancelling: %v): %s", what, c11Watchdog, deadlock, where), 0
	}
	if err != nil {
		return "query-error", fmt.Sprintf("%s: %v", what, err), 0
	}
	sig, msg = c11CheckResult(what, res, want)
	return sig, msg, res.Summary.Stats.Workloads
}

// A failing query of C11 is re-run c11Reruns times at once; if it does not fail every time, the
// failure depends on the goroutine schedule, which this scenario does not control (signature
// prefix "schedule-dependent:"). What was observed is remembered per (case, configuration) so
// that the explorer's confirmation replays (same process) report the observation instead of
// re-rolling the schedule; a replay in a new process re-runs the real query.
type c11Memo struct{ sig, msg string }

var c11Flaky = map[string]c11Memo{}

const c11Reruns = 4

// ---- C11: configurations ------------------------------------------------------------------------

func c11ConfigLong(tier string) [][2]int {
	if tier == "thorough" {
		return [][2]int{{70, 40}, {130, 70}, {200, 40}}
	}
	return [][2]int{{40, 33}}
}

func c11ConfigRun(x *explore.Ctx) {
	dbs := c11DBs(x.Tier, c11ConfigLong(x.Tier), true)
	nq := c11NumQueries(x.Tier)
	d := dbs[x.Case%len(dbs)]
	q := c11Queries[(x.Case/len(dbs))%nq]
	lowMem := (x.Case/len(dbs)/nq)%2 == 1
	npu := 1 + x.Choose(16, "numProcessingUnits-1")
	rg := d.ranges[q.rng]

	old := engine.VerifSetNumProcessingUnits(npu)
	defer engine.VerifSetNumProcessingUnits(old)
	what := fmt.Sprintf("db %s query %q ifaces %q cond %q range [%d,%d] workers=%d lowmem=%v", d.name, q.qtype, q.ifaces, q.condText(), rg[0], rg[1], npu, lowMem)
	x.Logf("%s", what)
	memoKey := fmt.Sprintf("%s|%d|%d|%v", x.Tier, x.Case, npu, lowMem)
	if m, ok := c11Flaky[memoKey]; ok {
		x.Obs("failure")
		x.Fail(m.sig, "%s", m.msg)
		return
	}
	if c11ConfigWant.caseIdx != x.Case || c11ConfigWant.tier != x.Tier {
		w := d.db.Aggregate(fixture.QuerySpec{Attrs: q.attrs, Time: q.time, Iface: true, Ifaces: c11IfacesOf(q.ifaces, d.db),
			First: rg[0], Last: rg[1], Cond: q.pred, Dir: q.dir})
		c11ConfigWant = c11Pristine{caseIdx: x.Case, tier: x.Tier, want: w, wantHash: c11RowsHash(w)}
	}
	want := c11ConfigWant.want
	dbPath := d.path()
	once := func() (string, string, uint64) {
		x.Transition()
		return c11RunChecked(what, dbPath, c11Args(q.qtype, q.ifaces, q.condText(), rg[0], rg[1], lowMem), want)
	}
	sig, msg, nw := once()
	if sig != "" {
		fails := 1
		if !strings.HasPrefix(sig, "never-ends") {
			for i := 0; i < c11Reruns; i++ {
				if s2, _, _ := once(); s2 != "" {
					fails++
				}
			}
			if fails < 1+c11Reruns {
				sig = "schedule-dependent:" + sig
				msg = fmt.Sprintf("%s [the identical query failed in %d of %d consecutive runs: the outcome depends on the goroutine schedule; C11.order enumerates the arrival orders deterministically]", msg, fails, 1+c11Reruns)
			}
		}
		c11Flaky[memoKey] = c11Memo{sig, msg}
		x.Obs("failure")
		x.Fail(sig, "%s", msg)
		return
	}
	// every configuration of a case must produce this one outcome
	x.Obs("%d rows %x", len(want), c11ConfigWant.wantHash)
	lm := uint64(0)
	if lowMem {
		lm = 1
	}
	x.StateKey(uint64(npu)<<1 | lm)
	if nw >= 2 && len(want) > 0 {
		// at least two per-workload maps went through the fan-in
		x.Nontrivial("%s|%d|%d|%v|%d", d.name, (x.Case/len(dbs))%nq, npu, lowMem, nw)
	}
}

// ---- C11.order: every arrival order of the per-workload maps ------------------------------------------

type c11OrderCase struct {
	long   [2]int
	q      c11Query
	lowMem bool
}

var c11OrderQueries = []c11Query{
	{qtype: "sip,dip,dport,proto", attrs: c11A("sip,dip,dport,proto"), ifaces: "eth0"},
	// only the second workload of eth0 contains the marker: the other maps arrive empty
	{qtype: "sip,time", attrs: c11A("sip"), time: true, cond: "sip = 10.9.9.9", pred: func(r fixture.Rec) bool { return r.SIP == a("10.9.9.9") }, ifaces: "eth0"},
	{qtype: "dport,proto", attrs: c11A("dport,proto"), cond: "dport < 100 | proto = 17", pred: func(r fixture.Rec) bool { return r.Dport < 100 || r.Proto == 17 }, ifaces: "eth0", rng: 1},
	// direction filter: judged on the sums over all workloads
	{qtype: "talk_conv", attrs: c11A("sip,dip"), dir: "in", ifaces: "eth0"},
	// only the last workload contains the marker (IPv6 only: secondary map)
	{qtype: "sip,dip,time", attrs: c11A("sip,dip"), time: true, cond: "sip = 2001:db8::99", pred: func(r fixture.Rec) bool { return r.SIP == a("2001:db8::99") }, ifaces: "eth0"},
	{qtype: "sip,dip", attrs: c11A("sip,dip"), ifaces: "eth0,eth1"},
	{qtype: "proto,time", attrs: c11A("proto"), time: true, cond: "sip = 10.9.9.9 | dport = 80", pred: func(r fixture.Rec) bool { return r.SIP == a("10.9.9.9") || r.Dport == 80 }, ifaces: "eth0,eth1"},
}

var c11OrderCasesCache = map[string][]c11OrderCase{}

func c11OrderCases(tier string) (out []c11OrderCase) {
	if c, ok := c11OrderCasesCache[tier]; ok {
		return c
	}
	defer func() { c11OrderCasesCache[tier] = out }()
	add := func(long [2]int, qs ...int) {
		for _, qi := range qs {
			for _, lm := range []bool{false, true} {
				out = append(out, c11OrderCase{long, c11OrderQueries[qi], lm})
			}
		}
	}
	// eth0: 70 days = 3 workloads, 130 days = 5; eth1: 40 days = 2, 70 days = 3
	add([2]int{70, 40}, 0, 1, 2, 3, 4, 5, 6)
	add([2]int{130, 70}, 0, 1, 2, 3, 4, 5, 6)
	if tier == "thorough" {
		add([2]int{170, 70}, 0, 1, 2, 3, 4, 5, 6) // 6 + 3 workloads
		add([2]int{200, 40}, 0, 1, 2, 3, 4, 5, 6) // 7 + 2 workloads
		add([2]int{230, 10}, 0, 1, 2, 3, 4)       // 8 workloads: 40320 orders each
	}
	return out
}

// c11WorkloadMaps runs the real workers of one interface (one worker goroutine, so the maps
// arrive in workload order) and returns the maps they put on the channel. It runs in a bubble
// so that workers that never finish are a verdict, not a stuck process.
func c11WorkloadMaps(dbPath, iface string, q *goDB.Query, first, last int64) (maps []hashmap.AggFlowMapWithMetadata, err error, hangSig, hangMsg string) {
	hung, deadlock, stacks := c11Bubble(func(ctx context.Context) {
		wm, e := goDB.NewDBWorkManager(q, dbPath, iface, 1)
		if e != nil {
			err = e
			return
		}
		nonempty, e := wm.CreateWorkerJobs(first, last)
		if e != nil || !nonempty {
			err = e
			return
		}
		mapChan := make(chan hashmap.AggFlowMapWithMetadata, 1024)
		wm.ExecuteWorkerReadJobs(ctx, mapChan)
		close(mapChan)
		for m := range mapChan {
			maps = append(maps, m)
		}
		if uint64(len(maps)) != wm.GetNumWorkers() {
			err = fmt.Errorf("%d maps for %d workloads", len(maps), wm.GetNumWorkers())
		}
	})
	if hung {
		sig, where := c11HangVerdict(stacks, deadlock)
		return nil, nil, sig, fmt.Sprintf("CreateWorkerJobs + ExecuteWorkerReadJobs with one worker on %s did not return: %s", iface, where)
	}
	return maps, err, "", ""
}

type c11Pristine struct {
	caseIdx  int
	tier     string
	maps     [][]hashmap.AggFlowMapWithMetadata // per interface, in workload order
	errSig   string
	err      string
	want     map[fixture.RowKey]types.Counters
	wantHash uint64
}

var c11OrderCache, c11ConfigWant = c11Pristine{caseIdx: -1}, c11Pristine{caseIdx: -1}

// c11CopyMap builds an independent copy of a per-workload map with the map's own operations.
func c11CopyMap(m hashmap.AggFlowMapWithMetadata) hashmap.AggFlowMapWithMetadata {
	c := hashmap.NewAggFlowMapWithMetadata()
	c.Merge(m)
	c.Interface = m.Interface
	c.Stats.Add(m.Stats)
	if c.Len() != m.Len() {
		explore.HarnessErrorf("C11.order: copy of a %d-entry map has %d entries", m.Len(), c.Len())
	}
	return c
}

var c11PermLabels = func() (l [2][16]string) {
	for i := range l {
		for k := range l[i] {
			l[i][k] = fmt.Sprintf("next map of interface #%d, position %d", i, k)
		}
	}
	return
}()

func c11OrderRun(x *explore.Ctx) {
	cs := c11OrderCases(x.Tier)[x.Case]
	q := cs.q
	l := c11LongDB(cs.long[0], cs.long[1])
	d := c11DBs(x.Tier, [][2]int{cs.long}, false)[0]
	rg := d.ranges[q.rng]
	ifaces := c11IfacesOf(q.ifaces, &l.db)

	// the statement as the query front end prepares it
	args := query.NewArgs(q.qtype, q.ifaces)
	args.Condition, args.First, args.Last, args.Format, args.NumResults, args.LowMem, args.MaxMemPct = q.condText(), fmt.Sprint(rg[0]), fmt.Sprint(rg[1]), "json", 1<<40, cs.lowMem, 100
	stmt, err := args.Prepare()
	if err != nil {
		explore.HarnessErrorf("C11.order: Prepare: %v", err)
	}
	stmt.Ifaces = ifaces
	// ... and the query object as RunStatement derives it from the statement
	attrs, _, err := types.ParseQueryType(stmt.QueryType)
	if err != nil {
		explore.HarnessErrorf("C11.order: ParseQueryType: %v", err)
	}
	cond, valFilter, err := node.ParseAndInstrument(stmt.Condition, stmt.DNSResolution.Timeout)
	if err != nil {
		explore.HarnessErrorf("C11.order: condition: %v", err)
	}
	gq := goDB.NewQuery(attrs, cond, stmt.LabelSelector).LowMem(stmt.LowMem)

	// real per-workload maps: produced once per case by the real workers and kept pristine; every
	// execution hands the aggregator copies made with the map's own Merge (the aggregator clears
	// what it has merged)
	if c11OrderCache.caseIdx != x.Case || c11OrderCache.tier != x.Tier {
		pc := c11Pristine{caseIdx: x.Case, tier: x.Tier, maps: make([][]hashmap.AggFlowMapWithMetadata, len(ifaces))}
		for i, iface := range ifaces {
			maps, err, hsig, hmsg := c11WorkloadMaps(l.path, iface, gq, stmt.First, stmt.Last)
			if hsig != "" {
				pc.errSig, pc.err = hsig, fmt.Sprintf("db %s query %q: %s", l.name, q.qtype, hmsg)
				break
			}
			if err != nil {
				pc.errSig, pc.err = "worker-error", fmt.Sprintf("db %s iface %s query %q: %v", l.name, iface, q.qtype, err)
				break
			}
			pc.maps[i] = maps
		}
		c11OrderCache = pc
	}
	if c11OrderCache.err != "" {
		x.Fail(c11OrderCache.errSig, "%s", c11OrderCache.err)
		return
	}
	perIface := make([][]hashmap.AggFlowMapWithMetadata, len(ifaces))
	nonEmpty, total := 0, 0
	for i := range ifaces {
		for _, m := range c11OrderCache.maps[i] {
			perIface[i] = append(perIface[i], c11CopyMap(m))
			total++
			if m.Len() > 0 {
				nonEmpty++
			}
		}
	}

	// arrival order: RunStatement handles the interfaces one after the other (in map iteration
	// order), the maps of one interface arrive in any order
	ifOrder := []int{0, 1}[:len(ifaces)]
	if len(ifaces) == 2 && x.Choose(2, "interface processed first") == 1 {
		ifOrder = []int{1, 0}
	}
	var order []hashmap.AggFlowMapWithMetadata
	var names []string
	var fed uint64
	base := 0
	offs := make([]int, len(ifaces))
	for i := range ifaces {
		offs[i] = base
		base += len(perIface[i])
	}
	for _, ii := range ifOrder {
		rest := make([]int, len(perIface[ii]))
		for k := range rest {
			rest[k] = k
		}
		for pos := 0; len(rest) > 0; pos++ {
			c := x.Choose(len(rest), c11PermLabels[ii][pos])
			k := rest[c]
			rest = append(rest[:c], rest[c+1:]...)
			order = append(order, perIface[ii][k])
			names = append(names, fmt.Sprintf("%s#%d(%d)", ifaces[ii], k, perIface[ii][k].Len()))
			fed |= 1 << uint(offs[ii]+k)
			x.StateKey(fed)
		}
	}
	what := fmt.Sprintf("db %s query %q ifaces %v cond %q range [%d,%d] lowmem=%v arrival order %v", l.name, q.qtype, ifaces, q.condText(), rg[0], rg[1], cs.lowMem, names)
	x.Logf("%s", what)

	ch := make(chan hashmap.AggFlowMapWithMetadata, len(order))
	for _, m := range order {
		ch <- m
		x.Transition()
	}
	close(ch)
	qr := engine.NewQueryRunner(l.path)
	agg, _, err := engine.VerifAggregate(context.Background(), qr, ch, stmt.Ifaces, stmt.LowMem)
	if err != nil {
		x.Fail("aggregate-error", "%s: %v", what, err)
		return
	}

	// rows out of the aggregated maps, field by field as RunStatement fills results.Row
	var opts []hashmap.MetaIterOption
	if valFilter != nil && valFilter.ValFilter != nil {
		opts = append(opts, hashmap.WithFilter(valFilter.ValFilter))
	}
	got := map[fixture.RowKey]types.Counters{}
	var totals types.Counters
	for iface, m := range agg {
		for it := m.Iter(opts...); it.Next(); {
			key := types.ExtendedKey(it.Key())
			k := fixture.RowKey{Iface: iface}
			if ts, ok := key.AttrTime(); ok {
				k.TS = ts
			}
			for _, at := range gq.Attributes {
				switch at.Name() {
				case types.SIPName:
					k.SIP = types.RawIPToAddr(key.Key().GetSIP())
				case types.DIPName:
					k.DIP = types.RawIPToAddr(key.Key().GetDIP())
				case types.ProtoName:
					k.Proto = key.Key().GetProto()
				case types.DportName:
					k.Dport = types.PortToUint16(key.Key().GetDport())
				}
			}
			if _, dup := got[k]; dup {
				x.Fail("duplicate-group", "%s: group %s delivered twice", what, k)
				return
			}
			got[k] = it.Val()
			totals.Add(it.Val())
		}
	}
	if c11OrderCache.want == nil {
		c11OrderCache.want = l.db.Aggregate(fixture.QuerySpec{Attrs: q.attrs, Time: q.time, Iface: true, Ifaces: ifaces, First: rg[0], Last: rg[1], Cond: q.pred, Dir: q.dir})
		c11OrderCache.wantHash = c11RowsHash(c11OrderCache.want)
	}
	want := c11OrderCache.want
	if d := c11Diff(got, want); d != "" {
		x.Fail("order:rows", "%s: aggregated rows differ from the reference: %s", what, d)
		return
	}
	if tot := c11Totals(want); totals != tot {
		x.Fail("order:totals", "%s: totals %+v, reference %+v", what, totals, tot)
		return
	}
	x.Obs("%d rows %x", len(want), c11OrderCache.wantHash)
	if total >= 2 && len(want) > 0 {
		x.Nontrivial("%v|%d of %d maps non-empty", names, nonEmpty, total)
	}
}

// ---- C11.end: termination -----------------------------------------------------------------------

var (
	c11EndDaysQuick    = []int{1, 32, 33, 2048, 2049, 4097}
	c11EndDaysThorough = []int{1, 32, 33, 64, 65, 2047, 2048, 2049, 4096, 4097, 6144, 6145}
)

func c11EndDims(tier string) (days []int, workers int) {
	if tier == "thorough" {
		return c11EndDaysThorough, 3
	}
	return c11EndDaysQuick, 2
}

// c11Watchdog is VIRTUAL time: the bubble's clock only advances while every goroutine in it is
// durably blocked (the only timer of a query is the 1 s memory-check ticker).
const c11Watchdog = 2 * time.Minute

// c11Bubble runs f inside a synctest bubble. hung = the virtual watchdog fired before f returned;
// stacks = goroutine dump taken at that moment; deadlock = after cancelling f's context the
// runtime found the goroutines left in the bubble blocked forever.
func c11Bubble(f func(ctx context.Context)) (hung, deadlock bool, stacks string) {
	defer func() {
		// after a hang the context is cancelled and the bubble's main function returns; if the
		// goroutines left behind can never proceed, the runtime reports the bubble as deadlocked
		if e := recover(); e != nil {
			if !hung || !strings.Contains(fmt.Sprint(e), "deadlock") {
				panic(e)
			}
			deadlock = true
		}
	}()
	synctest.Test(c28T, func(*testing.T) {
		ctx, cancel := context.WithCancel(context.Background())
		defer cancel()
		done := make(chan struct{})
		go func() {
			defer close(done)
			f(ctx)
		}()
		select {
		case <-done:
		case <-time.After(c11Watchdog):
			hung = true
			buf := make([]byte, 4<<20)
			stacks = string(buf[:runtime.Stack(buf, true)])
		}
	})
	return
}

// c11RunInBubble runs one real query inside a bubble.
func c11RunInBubble(dbPath string, a *query.Args) (res *results.Result, err error, hung, deadlock bool, stacks string) {
	hung, deadlock, stacks = c11Bubble(func(ctx context.Context) {
		res, err = engine.NewQueryRunner(dbPath).Run(ctx, a)
	})
	return
}

// c11HangVerdict names where a query that never ends is stuck.
func c11HangVerdict(stacks string, deadlock bool) (sig, where string) {
	sig, where = "never-ends:other", "no goroutine of the query can make progress"
	switch {
	case c11BlockedIn(stacks, "chan send", "CreateWorkerJobs"):
		sig = "never-ends:work-queue-filled-before-workers-start"
		where = "the query goroutine is blocked sending to the workload channel inside DBWorkManager.CreateWorkerJobs, no worker goroutine exists yet"
	case c11BlockedIn(stacks, "sync.WaitGroup.Wait", "ExecuteWorkerReadJobs"):
		sig = "never-ends:waiting-for-workers"
		where = "the query goroutine waits for its workers in DBWorkManager.ExecuteWorkerReadJobs, none of them can proceed"
	}
	if !deadlock {
		sig, where = "never-ends:returns-only-when-cancelled", "the goroutines of the query ended only after its context was cancelled"
	}
	return
}

// c11BlockedIn finds, in a goroutine dump, a goroutine blocked in `state` whose stack contains fn.
func c11BlockedIn(stacks, state, fn string) bool {
	for _, g := range strings.Split(stacks, "\n\n") {
		head, _, _ := strings.Cut(g, "\n")
		if strings.Contains(head, state) && strings.Contains(g, fn) {
			return true
		}
	}
	return false
}

func c11EndRun(x *explore.Ctx) {
	days, maxW := c11EndDims(x.Tier)
	n := days[x.Case%len(days)]
	workers := 1 + (x.Case/len(days))%maxW
	lowMem := x.Choose(2, "low-mem") == 1

	// one database per process serves every day count above the small ones: the query's time
	// range selects the first n day directories
	var l *c11Long
	switch {
	case n <= 70:
		l = c11LongDB(70, 40)
	default:
		l = c11TinyDB(days[len(days)-1])
	}
	first, last := c11Day0, c11DayTS(n-1)+299
	old := engine.VerifSetNumProcessingUnits(workers)
	defer engine.VerifSetNumProcessingUnits(old)

	a := c11Args("sip,dip,time", "eth0", "", first, last, lowMem)
	nWorkloads := (n + goDB.WorkBulkSize - 1) / goDB.WorkBulkSize
	what := fmt.Sprintf("query over %d day directories (%d workloads) with %d worker(s), lowmem=%v", n, nWorkloads, workers, lowMem)
	x.Logf("%s", what)
	res, err, hung, deadlock, stacks := c11RunInBubble(l.path, a)
	x.Transition()
	x.StateKey(uint64(nWorkloads)<<8 | uint64(workers))
	if hung {
		sig, where := c11HangVerdict(stacks, deadlock)
		if x.Logging() {
			for _, g := range strings.Split(stacks, "\n\n") {
				if strings.Contains(g, "goDB") || strings.Contains(g, "engine.") {
					x.Logf("%s", g)
				}
			}
		}
		x.Obs("hang %s", sig)
		x.Fail(sig, "%s: QueryRunner.Run did not return: %v of virtual time passed with every goroutine blocked, and after cancelling the context the runtime reports the query's goroutines as deadlocked=%v (the work queue holds %d workloads = workers x 64): %s", what, c11Watchdog, deadlock, workers*64, where)
		return
	}
	if err != nil {
		x.Fail("end:query-error", "%s: %v", what, err)
		return
	}
	want := l.db.Aggregate(fixture.QuerySpec{Attrs: c11A("sip,dip"), Time: true, Iface: true, Ifaces: []string{"eth0"}, First: first, Last: last})
	if sig, msg := c11CheckResult(what, res, want); sig != "" {
		x.Fail(sig, "%s", msg)
		return
	}
	if got := res.Summary.Stats.DirectoriesProcessed; got != uint64(n) {
		explore.HarnessErrorf("C11.end: query was meant to cover %d day directories, covered %d", n, got)
	}
	x.Obs("returned, %d rows", len(want))
	x.Nontrivial("%d workloads, %d workers, queue %d, lowmem %v", nWorkloads, workers, workers*64, lowMem)
}

func init() {
	register("C11", &explore.Scenario{
		ID: "C11", Name: "query result vs worker count and low-memory mode", Level: "model_checking",
		Rule:  "cases = 5 (thorough 7) databases (4 C08 shapes; 40+33 days on eth0+eth1 = 2+2 workloads of 32 day directories (thorough: 70+40 = 3+2, 130+70 = 5+3 and 200+40 = 7+2), records and counters varying by day) x 12 (thorough 18) queries (attribute sets, time label, conditions, direction filters, interface arguments, full / restricted / empty time range) x low-memory {off,on}; per case every numProcessingUnits 1..16, each run through QueryRunner.Run under the real Go scheduler; rows (multiset per interface), Summary.Totals and Hits.Total must equal the reference aggregation, so all 32 configurations of a (database, query) agree (outcomes per case must be 1). non-trivial = runs in which >= 2 per-workload maps passed the fan-in and the result is non-empty",
		Cases: func(t string) int { return len(c11DBs(t, c11ConfigLong(t), true)) * c11NumQueries(t) * 2 },
		Bound: func(string) int { return 0 },
		Run:   c11ConfigRun, Setup: c28Setup, PanicSig: "panic",
		Assumptions: []string{"goroutine interleavings of this scenario are whatever the Go scheduler produces (GOMAXPROCS from the driver); the arrival orders they can cause are enumerated exhaustively by C11.order",
			"hash seeds of the flow maps are the runtime's (C18 explores the map itself per seed)"},
	})
	register("C11.order", &explore.Scenario{
		ID: "C11", Name: "every arrival order of the per-workload maps at the aggregator", Level: "model_checking",
		Rule:  "cases = database (eth0+eth1 days 70+40 = 3+2 workloads, 130+70 = 5+3; thorough also 170+70 = 6+3, 200+40 = 7+2, and 230 days = 8 workloads on eth0 only) x 7 queries (all maps non-empty; only one workload non-empty (IPv4 / IPv6 marker); restricted range; direction filter on sums; time label; two interfaces) x low-memory {off,on}. The real workers (CreateWorkerJobs + ExecuteWorkerReadJobs, one worker) produce the per-workload maps once per case; per execution copies of them (made with the map's own Merge) are put on the channel of the real (*QueryRunner).aggregate in one arrival order; ALL orders RunStatement can produce are enumerated: interface processed first (2) x every permutation of each interface's maps (W! each). Rows built from the aggregated maps must equal the reference aggregation. state = set of maps merged so far; non-trivial = distinct arrival orders of >= 2 maps with non-empty result",
		Cases: func(t string) int { return len(c11OrderCases(t)) },
		Bound: func(string) int { return 0 },
		Run:   c11OrderRun, Setup: c28Setup, PanicSig: "panic",
		Assumptions: []string{"the aggregator reads one channel sequentially, so the arrival order is the only effect a schedule has on the merged result; interfaces are processed strictly one after the other by RunStatement",
			"rows are read from the aggregated maps with the same accessors RunStatement uses (result preparation is inline there); sorting/limits are C14's subject"},
	})
	register("C11.end", &explore.Scenario{
		ID: "C11", Name: "queries end: day directories x workers, deadlock decided in a synctest bubble", Level: "model_checking",
		Rule:  "cases = day directories covered by the query {1,32,33,2048,2049,4097} (thorough {1,32,33,64,65,2047,2048,2049,4096,4097,6144,6145}) x workers {1,2} (thorough {1,2,3}) x low-memory; one database of 4097 (6145) one-block days per process, the time range selects the first n days. QueryRunner.Run runs inside a testing/synctest bubble with a virtual 2-minute watchdog: virtual time only advances while every goroutine of the bubble is durably blocked, so the watchdog firing is a deterministic no-progress verdict (no wall clock), confirmed by the runtime's deadlock report for the bubble after the context is cancelled. If it returns, the result must equal the reference. state = (workloads, workers); non-trivial = returned queries",
		Cases: func(t string) int { d, w := c11EndDims(t); return len(d) * w },
		Bound: func(string) int { return 0 },
		Run:   c11EndRun, Setup: c28Setup, PanicSig: "panic",
		Assumptions: []string{"goroutines blocked in file-system calls count as running for the bubble (the files are on tmpfs and every call returns)",
			"after a hang the blocked goroutines of that query stay parked in their dead bubble until the worker process exits"},
	})
}

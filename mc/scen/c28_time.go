package scen

import (
	"fmt"
	"runtime/debug"
	"strings"
	"sync"
	"testing"
	"testing/synctest"
	"time"
	_ "time/tzdata" // fallback when the host has no zoneinfo database

	"github.com/els0r/goProbe/v4/pkg/query"

	"verifmc/explore"
)

// C28: time arguments parse to the instant they denote.
//
//   C28        absolute times: instant grid 1970..2068 x every supported layout x UTC offsets x process
//              time zone, plus every DST transition of the zone +-1h
//   C28.rel    relative times -XdYhZm / -Xd:Yh:Zm against a virtual "now" (testing/synctest bubble)
//   C28.range  ParseTimeRange / ParseTimeRangeCollectErrors: start after end is rejected, everything
//              else is accepted with the two instants
//
// The process time zone is time.Local, which ParseTimeArgument obtains through
// time.LoadLocation("Local"); every execution sets it and restores UTC.
// Nothing here reads the wall clock: "now" only exists inside a bubble whose
// clock starts at 2000-01-01T00:00:00Z and is advanced by time.Sleep.

var c28ZoneNames = []string{"UTC", "Europe/Zurich", "America/Los_Angeles", "Asia/Tehran", "Australia/Lord_Howe"}

var (
	c28Once    sync.Once
	c28Zones   []*time.Location
	c28Trans   [][]int64 // per zone: unix seconds of every zone transition 1970..2068
	c28Layouts []string  // the repository's lists, in its order: default then custom
	c28HasOff  []bool
	c28HasSec  []bool
	c28T       *testing.T
)

const c28YearFirst, c28YearLast = 1970, 2068

// c28Setup loads zones and layouts and parks a *testing.T so that
// testing/synctest can be used from this non-test binary: testing.Main runs one
// "test" that publishes its T and never returns.
func c28Setup(string) {
	c28Once.Do(func() {
		for _, n := range c28ZoneNames {
			loc, err := time.LoadLocation(n)
			if err != nil {
				explore.HarnessErrorf("cannot load time zone %s: %v", n, err)
			}
			c28Zones = append(c28Zones, loc)
			// Offset transitions by scanning day by day and bisecting (Time.ZoneBounds stops
			// making progress at the end of 2040 in go1.25, so it is not used).
			var tr []int64
			off := func(u int64) int { _, o := time.Unix(u, 0).In(loc).Zone(); return o }
			end := time.Date(c28YearLast+1, 1, 1, 0, 0, 0, 0, time.UTC).Unix()
			for d := int64(0); d < end; d += 86400 {
				o := off(d)
				if off(d+86400) == o {
					continue
				}
				lo, hi := d, d+86400 // off(lo) == o, off(hi) != o
				for hi-lo > 1 {
					mid := (lo + hi) / 2
					if off(mid) == o {
						lo = mid
					} else {
						hi = mid
					}
				}
				tr = append(tr, hi)
			}
			c28Trans = append(c28Trans, tr)
		}
		for _, f := range query.TimeFormatsDefault() {
			c28Layouts = append(c28Layouts, f.Format)
		}
		for _, f := range query.TimeFormatsCustom() {
			c28Layouts = append(c28Layouts, f.Format)
		}
		for _, l := range c28Layouts {
			c28HasOff = append(c28HasOff, strings.Contains(l, "07"))
			c28HasSec = append(c28HasSec, strings.Contains(l, "05"))
		}
		ready := make(chan struct{})
		go testing.Main(func(string, string) (bool, error) { return true, nil },
			[]testing.InternalTest{{Name: "c28bubble", F: func(t *testing.T) {
				c28T = t
				close(ready)
				select {}
			}}}, nil, nil)
		<-ready
	})
}

// c28InBubble runs f inside a fresh synctest bubble after advancing the
// bubble's clock by sleep, and returns the (virtual) time at which f ran. A
// panic inside f is caught in the bubble and returned.
func c28InBubble(sleep time.Duration, f func()) (now time.Time, panicVal any, stack string) {
	moved := false
	defer func() {
		if moved {
			explore.HarnessErrorf("virtual time moved during the call")
		}
	}()
	synctest.Test(c28T, func(*testing.T) {
		defer func() {
			if e := recover(); e != nil {
				panicVal, stack = e, string(debug.Stack())
			}
		}()
		if sleep > 0 {
			time.Sleep(sleep)
		}
		now = time.Now()
		f()
		moved = !time.Now().Equal(now)
	})
	return
}

func c28SetLocal(loc *time.Location) func() {
	time.Local = loc
	return func() { time.Local = time.UTC }
}

// ---------------------------------------------------------------- absolute times

type c28Variant struct {
	name   string
	offset int  // seconds east, for fixed variants
	local  bool // render in the process zone (its own offset at that instant)
	craft  bool // RFC3339 only: UTC written as +00:00 instead of Z
}

var (
	c28VarLocal = c28Variant{name: "local", local: true}
	c28VarsT    = []c28Variant{c28VarLocal, {name: "+0000"}, {name: "-0700", offset: -7 * 3600}, {name: "+0430", offset: 4*3600 + 1800}, {name: "+1000", offset: 10 * 3600}}
	c28VarsQ    = []c28Variant{c28VarLocal, {name: "+0000"}, {name: "+0430", offset: 4*3600 + 1800}}
	c28VarCraft = c28Variant{name: "+00:00", craft: true}
	c28Days     = []int{1, 2, 9, 10, 12, 13, 28, 29, 30, 31}
	c28HoursT   = []int{0, 1, 2, 3, 9, 10, 12, 13, 23}
	c28TimesQ   = [][3]int{{0, 0, 0}, {12, 5, 59}, {23, 59, 59}}
	c28MinsT    = []int{0, 5, 59}
	c28Secs     = []int{0, 59}
	c28Deltas   = []int64{-3600, -1800, -1, 0, 1, 1800, 3599, 3600}
)

func c28YearsOf(tier string) []int {
	var ys []int
	step := 7
	if tier == "thorough" {
		step = 1
	}
	for y := c28YearFirst; y <= c28YearLast; y += step {
		ys = append(ys, y)
	}
	return ys
}

func c28NZones(tier string) int {
	if tier == "thorough" {
		return 5
	}
	return 4
}

// variants available for a layout
func c28Variants(li int, thorough bool) []c28Variant {
	if !c28HasOff[li] {
		return []c28Variant{c28VarLocal}
	}
	v := c28VarsQ
	if thorough {
		v = c28VarsT
	}
	if c28Layouts[li] == time.RFC3339 {
		return append(append([]c28Variant(nil), v...), c28VarCraft)
	}
	return v
}

func c28AbsRun(x *explore.Ctx) {
	nz := c28NZones(x.Tier)
	years := c28YearsOf(x.Tier)
	zi := x.Case % nz
	yi := x.Case / nz
	loc := c28Zones[zi]
	defer c28SetLocal(loc)()

	li := x.Choose(len(c28Layouts), "layout")
	layout := c28Layouts[li]
	vars := c28Variants(li, x.Thorough())
	vi := x.Choose(len(vars), "offset variant")
	va := vars[vi]

	var t time.Time // the instant, at the layout's precision
	var desc string
	if yi < len(years) {
		year := years[yi]
		month := time.Month(1 + x.Choose(12, "month"))
		dim := time.Date(year, month+1, 0, 0, 0, 0, 0, time.UTC).Day()
		var days []int
		if x.Thorough() {
			for _, d := range c28Days {
				if d <= dim {
					days = append(days, d)
				}
			}
		} else {
			days = []int{1, 10, 13, dim}
		}
		day := days[x.Choose(len(days), "day")]
		var hour, min, sec int
		if x.Thorough() {
			hour = c28HoursT[x.Choose(len(c28HoursT), "hour")]
			min = c28MinsT[x.Choose(len(c28MinsT), "minute")]
			if c28HasSec[li] {
				sec = c28Secs[x.Choose(len(c28Secs), "second")]
			}
		} else {
			tod := c28TimesQ[x.Choose(len(c28TimesQ), "time of day")]
			hour, min = tod[0], tod[1]
			if c28HasSec[li] {
				sec = tod[2]
			}
		}
		// the grid is laid out in UTC; the text shows it in the variant's zone
		t = time.Date(year, month, day, hour, min, sec, 0, time.UTC)
		desc = "grid"
	} else {
		// DST case of this zone: every transition, +- up to one hour
		tr := c28Trans[zi]
		if len(tr) == 0 {
			x.Obs("zone without transitions")
			return
		}
		ti := x.Choose(len(tr), "transition")
		d := c28Deltas[x.Choose(len(c28Deltas), "delta")]
		u := tr[ti] + d
		if !c28HasSec[li] {
			u -= ((u % 60) + 60) % 60
		}
		t = time.Unix(u, 0)
		desc = fmt.Sprintf("transition %s %+ds", time.Unix(tr[ti], 0).UTC().Format(time.RFC3339), d)
	}
	if y := t.In(loc).Year(); va.local && (y < c28YearFirst || y > c28YearLast) {
		// the local rendering of a grid point at the very edge falls outside 1970..2068
		x.Obs("outside the year range in local time")
		return
	}
	var text string
	switch {
	case va.local:
		text = t.In(loc).Format(layout)
	case va.craft:
		text = strings.TrimSuffix(t.UTC().Format(layout), "Z") + "+00:00"
	default:
		text = t.In(time.FixedZone("", va.offset)).Format(layout)
	}
	if y := t.In(time.FixedZone("", va.offset)).Year(); !va.local && (y < c28YearFirst || y > c28YearLast) {
		x.Obs("outside the year range in the offset's zone")
		return
	}
	want := t.Unix()
	x.Transition()
	got, err := query.ParseTimeArgument(text)
	x.Logf("zone %s layout %q variant %s %s: instant %s text %q -> %d, %v", loc, layout, va.name, desc, t.UTC().Format(time.RFC3339), text, got, err)
	x.Obs("%d %v", got, err != nil)
	key := uint64(li)<<56 ^ uint64(vi)<<48 ^ uint64(want+1<<40)<<1
	if err == nil && got == want {
		x.NontrivialKey(key)
		return
	}
	if err == nil && !c28HasOff[li] {
		// A wall-clock text inside a DST fold denotes two instants; either is the instant it denotes.
		d := got - want
		if d%1800 == 0 && d >= -7200 && d <= 7200 && time.Unix(got, 0).In(loc).Format(layout) == text {
			x.Obs("fold")
			x.NontrivialKey(key ^ 1)
			return
		}
	}
	// The property's exception: the text is also valid under another supported layout
	// (and means something else there).
	for lj, other := range c28Layouts {
		if lj == li {
			continue
		}
		if o, e := time.ParseInLocation(other, text, loc); e == nil && o.Unix() != want {
			x.Obs("ambiguous")
			x.Logf("ambiguous: also valid under %q as %s", other, o.UTC().Format(time.RFC3339))
			return
		}
	}
	class := "offset:" + va.name
	if !c28HasOff[li] {
		class = "wallclock"
	}
	if err != nil {
		x.Fail(fmt.Sprintf("abs-rejected:%q:%s", layout, class), "zone %s: %q (layout %q, instant %s) is rejected: %v", loc, text, layout, t.UTC().Format(time.RFC3339), err)
		return
	}
	x.Fail(fmt.Sprintf("abs-wrong-instant:%q:%s", layout, class), "zone %s: %q (layout %q) denotes %s (%d) but parses to %s (%d), off by %ds",
		loc, text, layout, t.UTC().Format(time.RFC3339), want, time.Unix(got, 0).UTC().Format(time.RFC3339), got, got-want)
}

// ---------------------------------------------------------------- relative times

var (
	c28RelQ  = []int{-1, 0, 1, 9, 10, 59, 400}
	c28RelT  = []int{-1, 0, 1, 2, 9, 10, 23, 24, 59, 60, 99, 100, 400, 1000, 100000}
	c28Sleep = []time.Duration{0, 999 * time.Millisecond, 86399*time.Second + 500*time.Millisecond, 20*365*24*time.Hour + 1250*time.Millisecond}
)

// c28RelText renders -XdYhZm (colon=false) or -Xd:Yh:Zm; a negative number omits the part.
func c28RelText(d, h, m int, colon, pad bool) string {
	var parts []string
	for i, n := range []int{d, h, m} {
		if n < 0 {
			continue
		}
		f := "%d%c"
		if pad {
			f = "%02d%c"
		}
		parts = append(parts, fmt.Sprintf(f, n, "dhm"[i]))
	}
	sep := ""
	if colon {
		sep = ":"
	}
	return "-" + strings.Join(parts, sep)
}

// c28RelNows: (process zone, virtual now as offset from 2000-01-01T00:00:00Z). The last four lie a day
// or two after an offset change of the process zone, so that "-Xd" reaches back across it: a day of a
// relative time is 86400 seconds, not a calendar day.
var c28RelNows = []struct {
	zone  int
	sleep time.Duration
}{
	{0, 0}, {1, 999 * time.Millisecond}, {2, 86399*time.Second + 500*time.Millisecond}, {3, 20*365*24*time.Hour + 1250*time.Millisecond},
	{1, (87*24 + 12) * time.Hour},  // 2000-03-28T12:00Z, Europe/Zurich: summer time since 03-26
	{2, (94*24 + 12) * time.Hour},  // 2000-04-04T12:00Z, America/Los_Angeles: since 04-02
	{1, (303*24 + 12) * time.Hour}, // 2000-10-30T12:00Z, Europe/Zurich: winter time since 10-29
	{3, (81*24 + 12) * time.Hour},  // 2000-03-22T12:00Z, Asia/Tehran: since 03-20/21
}

func c28RelRun(x *explore.Ctx) {
	colon := x.Case&1 == 1
	pad := x.Case&2 == 2
	rn := c28RelNows[(x.Case>>2)%len(c28RelNows)]
	defer c28SetLocal(c28Zones[rn.zone])()
	alpha := c28RelQ
	if x.Thorough() {
		alpha = c28RelT
	}
	d := alpha[x.Choose(len(alpha), "days")]
	h := alpha[x.Choose(len(alpha), "hours")]
	m := alpha[x.Choose(len(alpha), "minutes")]
	if d < 0 && h < 0 && m < 0 {
		x.Obs("no part at all: not a relative time")
		return
	}
	text := c28RelText(d, h, m, colon, pad)
	var back int64
	for i, n := range []int{d, h, m} {
		if n > 0 {
			back += int64(n) * []int64{86400, 3600, 60}[i]
		}
	}
	var got int64
	var err error
	x.Transition()
	now, pv, stack := c28InBubble(rn.sleep, func() { got, err = query.ParseTimeArgument(text) })
	if pv != nil {
		x.Fail("rel-panic", "ParseTimeArgument(%q) panicked: %v\n%s", text, pv, stack)
		return
	}
	want := now.Unix() - back
	x.Logf("now %s: %q -> %d, %v (expected %d)", now.UTC().Format(time.RFC3339Nano), text, got, err, want)
	x.Obs("%d %v", now.Unix()-got, err != nil)
	form := "compact"
	if colon {
		form = "colon"
	}
	shape := ""
	for i, n := range []int{d, h, m} {
		if n >= 0 {
			shape += string("dhm"[i])
		}
	}
	if err != nil {
		x.Fail("rel-rejected:"+form+":"+shape, "relative time %q is rejected: %v", text, err)
		return
	}
	x.Nontrivial("%s", text)
	if got != want {
		x.Fail("rel-wrong-instant:"+form+":"+shape, "now = %s (%d): %q denotes now-%ds = %d but parses to %d (now-%ds)", now.UTC().Format(time.RFC3339Nano), now.Unix(), text, back, want, got, now.Unix()-got)
	}
}

// ---------------------------------------------------------------- ranges

type c28Bound struct {
	text  string
	value func(now time.Time, loc *time.Location) int64
}

func c28Const(text string, v int64) c28Bound {
	return c28Bound{text, func(time.Time, *time.Location) int64 { return v }}
}

func c28Rel(text string, back int64) c28Bound {
	return c28Bound{text, func(now time.Time, _ *time.Location) int64 { return now.Unix() - back }}
}

func c28Wall(layout string, y int, mo time.Month, d, h, mi, s int) c28Bound {
	return c28Bound{time.Date(y, mo, d, h, mi, s, 0, time.UTC).Format(layout), func(_ time.Time, loc *time.Location) int64 {
		return time.Date(y, mo, d, h, mi, s, 0, loc).Unix()
	}}
}

// 946684800 = 2000-01-01T00:00:00Z, the start of every bubble's clock.
var c28Bounds = []c28Bound{
	{"", nil}, // first: 0, last: now
	c28Const("1", 1),
	c28Const("946684800", 946684800),
	c28Const("946684801", 946684801),
	c28Const("4102444800", 4102444800),
	c28Const("2000-01-01T00:00:00Z", 946684800),
	c28Const("2000-01-01 00:00:01 +0000", 946684801),
	c28Const("31.12.1999 23:59 +0000", 946684740),
	c28Const("1999-12-31 16:59:59 -0700", 946684799),
	c28Const("Sat Jan 01 10:00:00 +1000 2000", 946684800),
	c28Wall("2006-01-02 15:04:05", 2000, 1, 1, 0, 0, 0),
	c28Wall("02.01.2006 15:04", 1999, 12, 31, 23, 59, 0),
	c28Wall(time.ANSIC, 2000, 1, 2, 0, 0, 1),
	c28Wall("2.1.06 15:04:05", 2020, 7, 1, 12, 0, 0),
	c28Rel("-0m", 0),
	c28Rel("-1m", 60),
	c28Rel("-1h", 3600),
	c28Rel("-1d", 86400),
	c28Rel("-1d:1h:1m", 90060),
	c28Rel("-1d1h1m", 90060),
	c28Rel("-400d", 400*86400),
}

func c28RangeRun(x *explore.Ctx) {
	zi := x.Case & 3
	ni := (x.Case >> 2) & 3
	loc := c28Zones[zi]
	defer c28SetLocal(loc)()
	fn := x.Choose(2, "function")
	fb := c28Bounds[x.Choose(len(c28Bounds), "first")]
	lb := c28Bounds[x.Choose(len(c28Bounds), "last")]
	var gf, gl int64
	var err error
	nerr := 0
	x.Transition()
	now, pv, stack := c28InBubble(c28Sleep[ni], func() {
		if fn == 0 {
			gf, gl, err = query.ParseTimeRange(fb.text, lb.text)
			if err != nil {
				nerr = 1
			}
		} else {
			var det []any
			f, l, d := query.ParseTimeRangeCollectErrors(fb.text, lb.text)
			gf, gl = f, l
			for _, e := range d {
				det = append(det, e.Message)
			}
			nerr = len(d)
			if nerr > 0 {
				err = fmt.Errorf("%v", det)
			}
		}
	})
	name := []string{"ParseTimeRange", "ParseTimeRangeCollectErrors"}[fn]
	if pv != nil {
		x.Fail("range-panic:"+name, "%s(%q, %q) panicked: %v\n%s", name, fb.text, lb.text, pv, stack)
		return
	}
	var wf, wl int64
	if fb.value != nil {
		wf = fb.value(now, loc)
	}
	wl = now.Unix()
	if lb.value != nil {
		wl = lb.value(now, loc)
	}
	x.Logf("zone %s now %s: %s(%q, %q) -> %d, %d, %v; expected %d, %d", loc, now.UTC().Format(time.RFC3339Nano), name, fb.text, lb.text, gf, gl, err, wf, wl)
	x.Obs("%d %d %d", now.Unix()-gf, now.Unix()-gl, nerr)
	if wf > wl {
		x.Nontrivial("inverted %d", wf-wl)
		if nerr == 0 {
			x.Fail("range-inverted-accepted:"+name, "zone %s, now %d: %s(%q, %q): start %d lies after end %d, but the range is accepted (returned %d, %d)", loc, now.Unix(), name, fb.text, lb.text, wf, wl, gf, gl)
		}
		return
	}
	x.Nontrivial("ordered %d", wl-wf)
	if nerr != 0 {
		x.Fail("range-valid-rejected:"+name, "zone %s, now %d: %s(%q, %q): start %d <= end %d, but the range is rejected: %v", loc, now.Unix(), name, fb.text, lb.text, wf, wl, err)
		return
	}
	if gf != wf || gl != wl {
		x.Fail("range-wrong-instants:"+name, "zone %s, now %d: %s(%q, %q) returns %d, %d; the bounds denote %d, %d", loc, now.Unix(), name, fb.text, lb.text, gf, gl, wf, wl)
	}
}

func init() {
	abs := []string{"the supported layouts are the repository's own lists (TimeFormatsDefault + TimeFormatsCustom, 50 layouts), read at run time",
		"process time zone = time.Local, set per execution (ParseTimeArgument obtains it through time.LoadLocation(\"Local\")); zone rules from the host's zoneinfo or Go's embedded copy",
		"a text valid under another supported layout with a different meaning is the property's stated exception and is skipped (counted as outcome 'ambiguous'); a wall-clock text inside a DST fold may parse to either of its two instants"}
	register("C28", &explore.Scenario{
		ID: "C28", Name: "absolute times: instant grid x layouts x offsets x process time zone", Level: "exploration",
		Rule:  "cases = process zone {UTC, Europe/Zurich, America/Los_Angeles, Asia/Tehran (+Australia/Lord_Howe thorough)} x (year: every 7th 1970..2068 quick, every year thorough | the zone's DST case); per year case: all 50 layouts x offset variant (layouts with offset: zone's own offset, +0000, +0430 (+ -0700, +1000 thorough), RFC3339 additionally Z written as +00:00; layouts without: wall clock of the process zone) x 12 months x (quick: days {1,10,13,last of month} x times {00:00:00, 12:05:59, 23:59:59}; thorough: days {1,2,9,10,12,13,28..31} x hours {0,1,2,3,9,10,12,13,23} x minutes {0,5,59} x seconds {0,59} for layouts with seconds); DST case: every offset transition of the zone 1970..2068 x {-3600,-1800,-1,0,+1,+1800,+3599,+3600}s x layouts x variants. text = Format(instant); one ParseTimeArgument per execution; non-trivial = distinct (layout, variant, instant) whose result was compared with the instant",
		Cases: func(t string) int { return c28NZones(t) * (len(c28YearsOf(t)) + 1) },
		Bound: func(string) int { return 0 },
		Run:   c28AbsRun, Setup: c28Setup, PanicSig: "panic", Assumptions: abs,
	})
	rel := []string{"\"now\" is the virtual clock of a testing/synctest bubble (starts 2000-01-01T00:00:00Z, advanced by time.Sleep); a day is 86400 s",
		"parts appear in the order d, h, m as in the documented forms; at least one part"}
	register("C28.rel", &explore.Scenario{
		ID: "C28", Name: "relative times against a virtual now", Level: "exploration",
		Rule:  "cases = {-XdYhZm, -Xd:Yh:Zm} x {plain, zero-padded to 2 digits} x (process zone, now) {UTC 2000-01-01T00:00:00Z, Zurich +0.999s, Los Angeles +86399.5s, Tehran +20y+1.25s, and one or two days after an offset change of the zone: Zurich 2000-03-28 and 2000-10-30, Los Angeles 2000-04-04, Tehran 2000-03-22}; X,Y,Z each from {absent,0,1,9,10,59,400} (thorough {absent,0,1,2,9,10,23,24,59,60,99,100,400,1000,100000}), all combinations with at least one part; result must equal floor(now) - (86400X+3600Y+60Z); non-trivial = distinct accepted texts per case",
		Cases: func(string) int { return 4 * len(c28RelNows) },
		Bound: func(string) int { return 0 },
		Run:   c28RelRun, Setup: c28Setup, PanicSig: "panic", Assumptions: rel,
	})
	register("C28.range", &explore.Scenario{
		ID: "C28", Name: "time ranges: start after end is rejected", Level: "exploration",
		Rule:  "cases = process zone (4) x virtual now (4); {ParseTimeRange, ParseTimeRangeCollectErrors} x first x last over 21 bound texts (empty, unix seconds, offset layouts, wall-clock layouts, relative forms around the bubble's start instant); model value of each bound from the instant that generated the text; start > end must be rejected, start <= end must be accepted and return both instants; non-trivial = distinct (ordered|inverted, distance)",
		Cases: func(string) int { return 16 },
		Bound: func(string) int { return 0 },
		Run:   c28RangeRun, Setup: c28Setup, PanicSig: "panic", Assumptions: rel[:1],
	})
}

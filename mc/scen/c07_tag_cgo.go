//go:build cgo

package scen

// Build-config self-knowledge of the worker binary (C07): set by build-tag guarded files.
func init() { c07TagCgo = true }

package scen

import (
	"fmt"
	"path/filepath"
	"regexp"
	"strings"
	"syscall"

	"github.com/els0r/goProbe/v4/pkg/verifshim/vos"

	"verifmc/explore"
)

// E2: file-system trace engine. fsCtl is the vos.Controller shared by the crash
// (C04, C25) and fault (C05) scenarios. While `armed`, every step becomes a
// choice point of the explorer.

type fsMode int

const (
	fsCrash fsMode = iota // die before a mutating step (or inside a write)
	fsFault               // make a step fail with an errno
)

type fsCtl struct {
	x      *explore.Ctx
	mode   fsMode
	root   string // paths are logged relative to this directory
	armed  bool
	phase  string // label prefix (e.g. "w2" = third write-out)
	nstep  int    // steps seen while armed in this phase
	tmp    int
	steps  []string // log of all steps (relative paths)
	hit    string   // description of the injected event ("" = none)
	hitOp  vos.Op
	hitErr error
	// partial enables torn writes (thorough): for a crash inside write(n bytes).
	partial bool
}

var backupSuffixRe = regexp.MustCompile(`gpdb-merge-backup-\d+`)

func (c *fsCtl) rel(p string) string {
	p = backupSuffixRe.ReplaceAllString(p, "gpdb-merge-backup-N") // the real suffix is a wall-clock nanosecond value
	if r, err := filepath.Rel(c.root, p); err == nil && !strings.HasPrefix(r, "..") {
		return r
	}
	return p
}

func (c *fsCtl) describe(op vos.Op) string {
	s := op.Kind + "(" + c.rel(op.Path)
	if op.Path2 != "" {
		s += " -> " + c.rel(op.Path2)
	}
	if op.Kind == "write" || op.Kind == "read" {
		s += fmt.Sprintf(", %dB", op.N)
	}
	return s + ")"
}

// normalise temp names etc. so that labels are stable across executions
func (c *fsCtl) label(op vos.Op) string {
	return fmt.Sprintf("%s#%d:%s", c.phase, c.nstep, c.describe(op))
}

func (c *fsCtl) TempName() string {
	c.tmp++
	return fmt.Sprintf("v%04d", c.tmp)
}

var fsErrnos = map[string][]syscall.Errno{
	"open":     {syscall.ENOSPC, syscall.EACCES, syscall.EIO},
	"write":    {syscall.ENOSPC, syscall.EIO},
	"read":     {syscall.EIO},
	"close":    {syscall.EIO},
	"mkdir":    {syscall.ENOSPC, syscall.EACCES},
	"rename":   {syscall.EACCES, syscall.EIO, syscall.ENOSPC},
	"unlink":   {syscall.EACCES, syscall.EIO},
	"rmdir":    {syscall.EACCES, syscall.EIO},
	"chmod":    {syscall.EPERM, syscall.EIO},
	"stat":     {syscall.EACCES, syscall.EIO},
	"readdir":  {syscall.EACCES, syscall.EIO},
	"truncate": {syscall.EIO},
	"sync":     {syscall.EIO},
	"link":     {syscall.EACCES},
	"symlink":  {syscall.EACCES},
}

func (c *fsCtl) Step(op vos.Op) vos.Action {
	d := c.describe(op)
	c.steps = append(c.steps, d)
	if !c.armed {
		return vos.Action{}
	}
	c.nstep++
	switch c.mode {
	case fsCrash:
		if !op.Mutating {
			return vos.Action{}
		}
		n := 2
		var cuts []int
		if c.partial && op.Kind == "write" && op.N > 1 {
			if op.N <= 64 {
				for k := 1; k < op.N; k++ {
					cuts = append(cuts, k)
				}
			} else {
				cuts = []int{1, op.N / 2, op.N - 1}
			}
			n += len(cuts)
		}
		ch := c.x.Deviate(n, "crash@"+c.label(op))
		if ch == 0 {
			return vos.Action{}
		}
		c.armed = false
		c.hitOp = op
		if ch == 1 {
			c.hit = "killed before " + d
			return vos.Action{Crash: true}
		}
		k := cuts[ch-2]
		c.hit = fmt.Sprintf("killed inside %s after %d bytes", d, k)
		return vos.Action{Crash: true, Partial: k}
	case fsFault:
		errs := fsErrnos[op.Kind]
		n := 1 + len(errs)
		short := op.Kind == "write" && op.N > 1
		if short {
			n++
		}
		ch := c.x.Deviate(n, "fault@"+c.label(op))
		if ch == 0 {
			return vos.Action{}
		}
		c.armed = false // one fault per armed phase
		c.hitOp = op
		if short && ch == n-1 {
			c.hit = fmt.Sprintf("short write %s: %d of %d bytes then ENOSPC", d, op.N/2, op.N)
			c.hitErr = syscall.ENOSPC
			return vos.Action{Err: syscall.ENOSPC, Partial: op.N / 2}
		}
		e := errs[ch-1]
		c.hit = fmt.Sprintf("%s fails with %s", d, errnoName(e))
		c.hitErr = e
		return vos.Action{Err: e}
	}
	return vos.Action{}
}

func errnoName(e syscall.Errno) string {
	switch e {
	case syscall.ENOSPC:
		return "ENOSPC"
	case syscall.EIO:
		return "EIO"
	case syscall.EACCES:
		return "EACCES"
	case syscall.EPERM:
		return "EPERM"
	}
	return e.Error()
}

// fsRun executes f under the controller; it reports whether f was killed.
func fsRun(c *fsCtl, f func() error) (err error, crashed bool) {
	vos.SetController(c)
	defer vos.SetController(nil)
	defer func() {
		if r := recover(); r != nil {
			if _, ok := r.(vos.Crashed); ok {
				crashed = true
				return
			}
			panic(r)
		}
	}()
	return f(), false
}

// stepClass reduces a step description to a stable class for finding signatures
// (drops directory prefixes, day numbers and temp names).
func stepClass(op vos.Op) string {
	base := filepath.Base(op.Path)
	kind := op.Kind
	switch {
	case strings.HasPrefix(base, ".tmp-metadata"):
		base = "tmp-metadata"
	case base == ".blockmeta":
		base = "blockmeta"
	case strings.HasSuffix(base, ".gpf"):
		base = "column"
	case len(base) >= 10 && base[0] >= '0' && base[0] <= '9':
		base = "daydir"
	case len(base) == 4 && base[0] == '2':
		base = "yeardir"
	case len(base) == 2:
		base = "monthdir"
	case len(base) >= 2 && base[0] == 'd' && strings.Trim(base[1:], "0123456789") == "":
		base = "dbroot" // scratch directories are numbered per process: not part of a label that must replay in another process
	}
	if op.Path2 != "" {
		b2 := filepath.Base(op.Path2)
		switch {
		case b2 == ".blockmeta":
			b2 = "blockmeta"
		case len(b2) >= 10 && b2[0] >= '0' && b2[0] <= '9':
			b2 = "daydir"
		}
		return kind + ":" + base + "->" + b2
	}
	return kind + ":" + base
}

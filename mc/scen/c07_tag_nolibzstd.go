//go:build goprobe_nolibzstd

package scen

func init() { c07TagNoLibZSTD = true }

package scen

import (
	"bytes"
	"context"
	"fmt"
	"hash/fnv"
	"io/fs"
	"os"
	"path/filepath"
	"sort"
	"strconv"
	"strings"
	"time"

	"github.com/els0r/goProbe/v4/pkg/goDB"
	"github.com/els0r/goProbe/v4/pkg/goDB/encoder/encoders"
	"github.com/els0r/goProbe/v4/pkg/goDB/engine"
	"github.com/els0r/goProbe/v4/pkg/goDB/storage/gpfile"
	"github.com/els0r/goProbe/v4/pkg/types"

	"verifmc/explore"
	"verifmc/fixture"
)

// C24: merging databases follows the documented per-day plan.
//
// Documentation used as the specification of the plan (property statement,
// cmd/gpdb/cmd/merge.go help text, cmd/gpdb/README.md):
//   - "Complete day folders are copied directly when safe."
//   - "Partial day folders are rebuilt block-by-block".
//   - "If both sides contain the same block timestamp, destination data wins by default."
//   - "--overwrite: prefer source on conflicts (for complete-day collisions, replace destination day)".
//   - "--dry-run: show planned actions without mutating destination".
//   - "--complete-tolerance: tolerance for classifying full-day coverage".
//   - "--iface: interface(s) to merge (default: all interfaces found in source)".
//
// Reference reading of "complete": the blocks of the day cover the whole day
// up to the tolerance at either end, i.e. the first block lies within the
// tolerance of the day start and the interval of the last block (one write-out
// interval, goDB.DBWriteInterval) ends within the tolerance of the day end.
//
// The helpers c24Cfg / c24BuildPair / c24ExpectedDest / c24ReadDB /
// c24CheckDest / c24TreeHash are reused by C25 (interrupted merges).

const (
	c24Src = 0 // block written by the source database
	c24Dst = 1 // block written by the destination database

	c24Day1 = int64(1675123200) // 2023-01-31 00:00:00 UTC
	c24Day2 = c24Day1 + 86400   // 2023-02-01: other month directory, adjacent day
)

// c24Shape is one state of an (interface, day) cell: the block timestamps
// relative to the start of the day. Offs == nil: the day does not exist.
type c24Shape struct {
	Name  string
	Class string // used in finding signatures
	Offs  []int64
}

// c24Cell names one (interface, day).
type c24Cell struct {
	Iface string
	Day   int64
}

// c24Cfg is one parameterisation of the merge scenario.
type c24Cfg struct {
	Name   string
	Cells  []c24Cell
	Shapes []c24Shape // alphabet of cell states, index 0 = missing
	NShape []int      // optional: cell i only ranges over Shapes[:NShape[i]]
}

func (c *c24Cfg) nShapes(i int) int {
	if i < len(c.NShape) && c.NShape[i] > 0 {
		return c.NShape[i]
	}
	return len(c.Shapes)
}

func (c *c24Cfg) ifaces() []string {
	m := map[string]bool{}
	var out []string
	for _, cl := range c.Cells {
		if !m[cl.Iface] {
			m[cl.Iface] = true
			out = append(out, cl.Iface)
		}
	}
	sort.Strings(out)
	return out
}

func c24Range(from, to int64) []int64 {
	var out []int64
	for o := from; o <= to; o += 300 {
		out = append(out, o)
	}
	return out
}

// c24Block is the content of the block of `side` for (iface, ts). Source and
// destination always differ at the same timestamp (counters, number of flows,
// drop count), so the origin of every block of a merged day is observable.
// Some blocks hold no flow at all.
func c24Block(side int, iface string, ts int64) fixture.Block {
	k := uint64(ts / 300 % 997)
	ifk := uint64(iface[len(iface)-1] - '0')
	s := uint64(side)
	recs := []fixture.Rec{rec("10.0.0.1", "10.0.0.2", 80, 6, cnt(1000*(s+1)+k, 10*(ifk+1)+k, s+1, k%5))}
	if side == c24Src && k%2 == 0 {
		recs = append(recs, rec("2001:db8::1", "2001:db8::2", 443, 6, cnt(7+k, 0, 1, 0)))
	}
	if side == c24Dst && k%3 == 0 {
		recs = append(recs, rec("10.0.0.3", "10.0.0.2", 53, 17, cnt(k+1, 5, 1, 1)))
	}
	if (side == c24Dst && k%7 == 3) || (side == c24Src && k%11 == 5) {
		recs = nil // a write-out without any flow (idle interface)
	}
	return fixture.Block{Iface: iface, TS: ts, Recs: recs, Drops: s*10 + k%3}
}

// ---- reference planner ---------------------------------------------------------

// c24Complete is the documented classification: full-day coverage up to the tolerance.
func c24Complete(offs []int64, tol time.Duration) bool {
	if len(offs) == 0 {
		return false
	}
	t := int64(tol / time.Second)
	if tol <= 0 {
		t = 300 // MergeOptions: unset tolerance means the library default of 300 s
	}
	first, last := offs[0], offs[len(offs)-1]
	dayEnd := gpfile.EpochDay - 1
	return first <= t && last+goDB.DBWriteInterval >= dayEnd-t
}

// c24Blk is one expected block: timestamp and the side that wrote it.
type c24Blk struct {
	TS   int64
	Side int
}

// c24Expect is the outcome the documented rule prescribes.
type c24Expect struct {
	Before  map[c24Cell][]c24Blk // destination before the merge
	Days    map[c24Cell][]c24Blk // destination after a real (non dry-run) merge
	Actions map[c24Cell]string   // copy | rebuild | skip per planned source day
	Sum     goDB.MergeSummary    // counters of a real merge (dry run: same Days* counters)
	Reject  bool                 // a requested interface is not in the source: nothing may change
}

func c24Blocks(day int64, offs []int64, side int) []c24Blk {
	out := make([]c24Blk, len(offs))
	for i, o := range offs {
		out[i] = c24Blk{TS: day + o, Side: side}
	}
	return out
}

// c24ExpectedDest is the reference planner, written from the property statement.
func c24ExpectedDest(cfg *c24Cfg, srcSt, dstSt []int, overwrite bool, tol time.Duration, sel []string) *c24Expect {
	return c24Plan(cfg, srcSt, dstSt, overwrite, sel, func(side int, offs []int64) bool { return c24Complete(offs, tol) })
}

// c24Plan is the planner with the day classification as a parameter.
func c24Plan(cfg *c24Cfg, srcSt, dstSt []int, overwrite bool, sel []string, complete func(side int, offs []int64) bool) *c24Expect {
	e := &c24Expect{Before: map[c24Cell][]c24Blk{}, Days: map[c24Cell][]c24Blk{}, Actions: map[c24Cell]string{}}
	srcIfaces := map[string]bool{}
	for i, cl := range cfg.Cells {
		if srcSt[i] != 0 {
			srcIfaces[cl.Iface] = true
		}
		if dstSt[i] != 0 {
			b := c24Blocks(cl.Day, cfg.Shapes[dstSt[i]].Offs, c24Dst)
			e.Before[cl] = b
			e.Days[cl] = b
		}
	}
	selected := map[string]bool{}
	if sel == nil {
		selected = srcIfaces
	} else {
		for _, s := range sel {
			if !srcIfaces[s] {
				e.Reject = true
				return e
			}
			selected[s] = true
		}
	}
	e.Sum.InterfacesProcessed = len(selected)
	for i, cl := range cfg.Cells {
		if !selected[cl.Iface] || srcSt[i] == 0 {
			continue
		}
		so, do := cfg.Shapes[srcSt[i]].Offs, cfg.Shapes[dstSt[i]].Offs
		srcC, dstC := complete(c24Src, so), complete(c24Dst, do)
		src := c24Blocks(cl.Day, so, c24Src)
		switch {
		case srcC && (dstSt[i] == 0 || overwrite):
			e.Actions[cl] = "copy"
			e.Days[cl] = src
			e.Sum.DaysCopied++
		case srcC && dstC:
			e.Actions[cl] = "skip"
			e.Sum.DaysSkipped++
		default:
			e.Actions[cl] = "rebuild"
			e.Sum.DaysRebuilt++
			byTS := map[int64]c24Blk{}
			for _, b := range e.Before[cl] {
				byTS[b.TS] = b
			}
			for _, b := range src {
				if _, conflict := byTS[b.TS]; conflict {
					if overwrite {
						e.Sum.ConflictsResolvedBySource++
						byTS[b.TS] = b
					} else {
						e.Sum.ConflictsResolvedByDestination++
					}
					continue
				}
				byTS[b.TS] = b
			}
			var merged []c24Blk
			for _, b := range byTS {
				merged = append(merged, b)
			}
			sort.Slice(merged, func(a, b int) bool { return merged[a].TS < merged[b].TS })
			e.Days[cl] = merged
		}
	}
	return e
}

func c24Digest(days map[c24Cell][]c24Blk) string {
	var keys []c24Cell
	for k := range days {
		keys = append(keys, k)
	}
	sort.Slice(keys, func(a, b int) bool {
		if keys[a].Iface != keys[b].Iface {
			return keys[a].Iface < keys[b].Iface
		}
		return keys[a].Day < keys[b].Day
	})
	var sb strings.Builder
	for _, k := range keys {
		fmt.Fprintf(&sb, "%s/%d:", k.Iface, k.Day)
		for _, b := range days[k] {
			fmt.Fprintf(&sb, "%d%c", b.TS-k.Day, "sd"[b.Side])
		}
		sb.WriteByte(';')
	}
	return sb.String()
}

// ---- database builders ------------------------------------------------------------

type c24BlkData struct {
	Traffic gpfile.TrafficMetadata
	Cols    [types.ColIdxCount][]byte
}

// c24Tmpl is one day written once per worker process through the real DBWriter
// and kept in memory: its files (to be materialised per execution) and its
// blocks as the real gpfile reader returns them.
type c24Tmpl struct {
	files  map[string][]byte // path relative to the database root
	names  []string
	blocks map[int64]c24BlkData
}

var c24Tmpls = map[string]*c24Tmpl{}

var c24Encoders = [2]encoders.Type{c24Src: encoders.EncoderTypeZSTD, c24Dst: encoders.EncoderTypeLZ4}

func c24Template(side int, cl c24Cell, sh c24Shape) *c24Tmpl {
	h := fnv.New64a()
	for _, o := range sh.Offs {
		fmt.Fprintf(h, "%d,", o)
	}
	key := fmt.Sprintf("%d|%s|%d|%d|%x", side, cl.Iface, cl.Day, len(sh.Offs), h.Sum64())
	if t, ok := c24Tmpls[key]; ok {
		return t
	}
	dir := fixture.NewDir()
	defer os.RemoveAll(dir)
	for _, o := range sh.Offs {
		if err := fixture.WriteBlock(dir, c24Block(side, cl.Iface, cl.Day+o), c24Encoders[side]); err != nil {
			explore.HarnessErrorf("c24: cannot write template block %s@%d: %v", cl.Iface, cl.Day+o, err)
		}
	}
	t := &c24Tmpl{files: map[string][]byte{}, blocks: map[int64]c24BlkData{}}
	err := filepath.WalkDir(dir, func(p string, d fs.DirEntry, err error) error {
		if err != nil || d.IsDir() {
			return err
		}
		b, err := os.ReadFile(p)
		if err != nil {
			return err
		}
		rel, _ := filepath.Rel(dir, p)
		t.files[rel] = b
		t.names = append(t.names, rel)
		return nil
	})
	if err != nil {
		explore.HarnessErrorf("c24: cannot read template: %v", err)
	}
	db, stray, err := c24ReadDB(dir)
	if err != nil || len(stray) > 0 || len(db) != 1 {
		explore.HarnessErrorf("c24: template %s does not read back as one day: %v stray=%v days=%d", key, err, stray, len(db))
	}
	day := db[cl]
	if day == nil || len(day.TS) != len(sh.Offs) {
		explore.HarnessErrorf("c24: template %s reads back with wrong blocks", key)
	}
	for i, ts := range day.TS {
		if ts != cl.Day+sh.Offs[i] {
			explore.HarnessErrorf("c24: template %s block %d has timestamp %d", key, i, ts)
		}
		t.blocks[ts] = c24BlkData{Traffic: day.Traffic[i], Cols: day.Cols[i]}
	}
	c24Tmpls[key] = t
	return t
}

// c24Pair is one materialised (source, destination) pair of databases.
type c24Pair struct {
	Cfg          *c24Cfg
	SrcSt, DstSt []int
	Root         string // scratch directory holding both
	Src, Dst     string
}

func (p *c24Pair) Cleanup() { os.RemoveAll(p.Root) }

func c24Materialise(root string, t *c24Tmpl) {
	made := map[string]bool{}
	for _, rel := range t.names {
		p := filepath.Join(root, rel)
		if d := filepath.Dir(p); !made[d] {
			if err := os.MkdirAll(d, 0o755); err != nil {
				explore.HarnessErrorf("c24: %v", err)
			}
			made[d] = true
		}
		if err := os.WriteFile(p, t.files[rel], 0o644); err != nil {
			explore.HarnessErrorf("c24: %v", err)
		}
	}
}

// c24BuildPair writes fresh copies of the source and destination databases
// described by the per-cell shape indices. dstRootExists=false leaves the
// destination path absent when the destination has no day at all.
func c24BuildPair(cfg *c24Cfg, srcSt, dstSt []int, dstRootExists bool) *c24Pair {
	root := fixture.NewDir()
	p := &c24Pair{Cfg: cfg, SrcSt: srcSt, DstSt: dstSt, Root: root, Src: filepath.Join(root, "src"), Dst: filepath.Join(root, "dst")}
	if err := os.MkdirAll(p.Src, 0o755); err != nil {
		explore.HarnessErrorf("c24: %v", err)
	}
	dstEmpty := true
	for i, cl := range cfg.Cells {
		if srcSt[i] != 0 {
			c24Materialise(p.Src, c24Template(c24Src, cl, cfg.Shapes[srcSt[i]]))
		}
		if dstSt[i] != 0 {
			dstEmpty = false
			c24Materialise(p.Dst, c24Template(c24Dst, cl, cfg.Shapes[dstSt[i]]))
		}
	}
	if dstEmpty && dstRootExists {
		if err := os.MkdirAll(p.Dst, 0o755); err != nil {
			explore.HarnessErrorf("c24: %v", err)
		}
	}
	return p
}

// blockData returns what the real reader returned for the block of `side` at ts
// in the database that side contributed before the merge.
func (p *c24Pair) blockData(side int, cl c24Cell, ts int64) (c24BlkData, bool) {
	for i, c := range p.Cfg.Cells {
		if c != cl {
			continue
		}
		st := p.SrcSt[i]
		if side == c24Dst {
			st = p.DstSt[i]
		}
		if st == 0 {
			return c24BlkData{}, false
		}
		d, ok := c24Template(side, cl, p.Cfg.Shapes[st]).blocks[ts]
		return d, ok
	}
	return c24BlkData{}, false
}

// c24TreeHash hashes names, types, permission bits and file contents below root.
// An absent root hashes like an empty one (its existence is checked separately).
func c24TreeHash(root string) uint64 {
	h := fnv.New64a()
	err := filepath.WalkDir(root, func(p string, d fs.DirEntry, err error) error {
		if err != nil {
			if p == root && os.IsNotExist(err) {
				return filepath.SkipAll
			}
			return err
		}
		if p == root {
			return nil
		}
		rel, _ := filepath.Rel(root, p)
		info, err := d.Info()
		if err != nil {
			return err
		}
		fmt.Fprintf(h, "%s|%v|", rel, info.Mode())
		if d.Type().IsRegular() {
			b, err := os.ReadFile(p)
			if err != nil {
				return err
			}
			fmt.Fprintf(h, "%d|", len(b))
			h.Write(b)
		}
		return nil
	})
	if err != nil {
		explore.HarnessErrorf("c24: cannot hash %s: %v", root, err)
	}
	return h.Sum64()
}

func c24TreeList(root string) string {
	var out []string
	filepath.WalkDir(root, func(p string, d fs.DirEntry, err error) error {
		if err == nil && p != root {
			rel, _ := filepath.Rel(root, p)
			out = append(out, rel)
		}
		return nil
	})
	return strings.Join(out, " ")
}

// ---- reading a database back through the real gpfile reader -----------------------

type c24DayRead struct {
	Dir     string
	TS      []int64
	Traffic []gpfile.TrafficMetadata
	Cols    [][types.ColIdxCount][]byte
	Stats   gpfile.Stats // day totals of the metadata file
	Suffix  gpfile.Stats // day totals encoded in the directory name
	HasSfx  bool
}

func c24NumDir(name string) bool {
	_, err := strconv.Atoi(name)
	return err == nil
}

// c24ReadDB reads every day of every interface directory below root with the
// real GPDir reader. stray lists every entry that is not part of the documented
// layout <iface>/<year>/<month>/<day>[_<suffix>]/.
func c24ReadDB(root string) (days map[c24Cell]*c24DayRead, stray []string, err error) {
	days = map[c24Cell]*c24DayRead{}
	ifaces, err := os.ReadDir(root)
	if err != nil {
		if os.IsNotExist(err) {
			return days, nil, nil
		}
		return nil, nil, err
	}
	for _, ie := range ifaces {
		if !ie.IsDir() || strings.HasPrefix(ie.Name(), ".") {
			stray = append(stray, ie.Name())
			continue
		}
		ifPath := filepath.Join(root, ie.Name())
		years, err := os.ReadDir(ifPath)
		if err != nil {
			return nil, nil, err
		}
		for _, ye := range years {
			if !ye.IsDir() || !c24NumDir(ye.Name()) {
				stray = append(stray, filepath.Join(ie.Name(), ye.Name()))
				continue
			}
			months, err := os.ReadDir(filepath.Join(ifPath, ye.Name()))
			if err != nil {
				return nil, nil, err
			}
			for _, me := range months {
				if !me.IsDir() || !c24NumDir(me.Name()) {
					stray = append(stray, filepath.Join(ie.Name(), ye.Name(), me.Name()))
					continue
				}
				des, err := os.ReadDir(filepath.Join(ifPath, ye.Name(), me.Name()))
				if err != nil {
					return nil, nil, err
				}
				for _, de := range des {
					rel := filepath.Join(ie.Name(), ye.Name(), me.Name(), de.Name())
					ts, sfx, perr := gpfile.ExtractTimestampMetadataSuffix(de.Name())
					cl := c24Cell{Iface: ie.Name(), Day: ts}
					if !de.IsDir() || perr != nil || strings.Count(de.Name(), "_") > 1 || strings.Contains(de.Name(), ".") || days[cl] != nil {
						stray = append(stray, rel)
						continue
					}
					rd, err := c24ReadDay(ifPath, ts, sfx)
					if err != nil {
						return nil, nil, fmt.Errorf("%s: %w", rel, err)
					}
					rd.Dir = rel
					days[cl] = rd
				}
			}
		}
	}
	return days, stray, nil
}

func c24ReadDay(ifPath string, ts int64, sfx string) (*c24DayRead, error) {
	rd := &c24DayRead{}
	if sfx != "" {
		var m gpfile.Metadata
		if err := m.UnmarshalString(sfx); err == nil {
			rd.Suffix, rd.HasSfx = m.Stats, true
		}
	}
	r := gpfile.NewDirReader(ifPath, ts, sfx)
	if err := r.Open(); err != nil {
		return nil, err
	}
	defer r.Close()
	rd.Stats = r.Metadata.Stats
	for i, b := range r.BlockMetadata[0].Blocks() {
		rd.TS = append(rd.TS, b.Timestamp)
		if i >= len(r.BlockTraffic) {
			return nil, fmt.Errorf("block %d has no traffic metadata", i)
		}
		rd.Traffic = append(rd.Traffic, r.BlockTraffic[i])
		var cols [types.ColIdxCount][]byte
		for c := types.ColumnIndex(0); c < types.ColIdxCount; c++ {
			d, err := r.ReadBlockAtIndex(c, i)
			if err != nil {
				return nil, fmt.Errorf("block %d column %d: %w", i, c, err)
			}
			cols[c] = append([]byte(nil), d...)
		}
		rd.Cols = append(rd.Cols, cols)
	}
	return rd, nil
}

func c24FmtBlks(day int64, bs []c24Blk) string {
	if len(bs) > 12 {
		return fmt.Sprintf("%d blocks %s … %s", len(bs), c24FmtBlks(day, bs[:4]), c24FmtBlks(day, bs[len(bs)-4:]))
	}
	var sb strings.Builder
	for _, b := range bs {
		fmt.Fprintf(&sb, "+%d%s ", b.TS-day, []string{"(src)", "(dst)"}[b.Side])
	}
	return strings.TrimSpace(sb.String())
}

func c24FmtTS(day int64, ts []int64) string {
	if len(ts) > 12 {
		return fmt.Sprintf("%d blocks %s … %s", len(ts), c24FmtTS(day, ts[:4]), c24FmtTS(day, ts[len(ts)-4:]))
	}
	var sb strings.Builder
	for _, t := range ts {
		fmt.Fprintf(&sb, "+%d ", t-day)
	}
	return strings.TrimSpace(sb.String())
}

// c24Finding is one failed check: signature and message.
type c24Finding struct{ Sig, Msg string }

func c24F(sig, format string, a ...any) *c24Finding {
	return &c24Finding{Sig: sig, Msg: fmt.Sprintf(format, a...)}
}

// c24CheckDest compares the destination tree with the expected days: through the
// real gpfile reader (layout, block timestamps, per-block traffic metadata and
// column bytes equal to what the contributing side held, day totals) and, when
// query is set, through a raw query of the real engine against the reference
// aggregation. sig(cell) gives the signature context. Returns the first finding or nil.
func c24CheckDest(p *c24Pair, want map[c24Cell][]c24Blk, stage string, sig func(c24Cell) string, query bool) *c24Finding {
	got, stray, err := c24ReadDB(p.Dst)
	if err != nil {
		return c24F(stage+"dest-unreadable", "destination cannot be read back: %v", err)
	}
	if len(stray) > 0 {
		return c24F(stage+"dest-stray-entry", "destination contains entries outside the database layout: %v", stray)
	}
	for _, cl := range p.Cfg.Cells {
		w, g := want[cl], got[cl]
		switch {
		case w == nil && g == nil:
			continue
		case g == nil:
			return c24F(stage+"dest-day-missing:"+sig(cl), "%s day %d: expected %s, day is absent (tree: %s)", cl.Iface, cl.Day, c24FmtBlks(cl.Day, w), c24TreeList(p.Dst))
		case w == nil:
			return c24F(stage+"dest-day-unexpected:"+sig(cl), "%s day %d: no day expected, found %s", cl.Iface, cl.Day, c24FmtTS(cl.Day, g.TS))
		}
		same := len(w) == len(g.TS)
		for i := 0; same && i < len(w); i++ {
			same = w[i].TS == g.TS[i]
		}
		if !same {
			return c24F(stage+"dest-blocks:"+sig(cl), "%s day %d: expected blocks %s, destination has %s", cl.Iface, cl.Day, c24FmtBlks(cl.Day, w), c24FmtTS(cl.Day, g.TS))
		}
		var tot gpfile.Stats
		for i, b := range w {
			ref := c24Block(b.Side, cl.Iface, b.TS)
			var tr gpfile.TrafficMetadata
			for _, r := range ref.Recs {
				if r.IsV4() {
					tr.NumV4Entries++
				} else {
					tr.NumV6Entries++
				}
				tot.Counts.Add(r.C)
			}
			tr.NumDrops = ref.Drops
			tot.Traffic = tot.Traffic.Add(tr)
			if g.Traffic[i] != tr {
				return c24F(stage+"dest-block-origin:"+sig(cl), "%s day %d block +%d: expected the %s block (traffic %+v), destination has %+v", cl.Iface, cl.Day, b.TS-cl.Day, []string{"source", "destination"}[b.Side], tr, g.Traffic[i])
			}
			orig, ok := p.blockData(b.Side, cl, b.TS)
			if !ok {
				explore.HarnessErrorf("c24: expected block %s@%d of side %d has no template", cl.Iface, b.TS, b.Side)
			}
			for c := range orig.Cols {
				if !bytes.Equal(orig.Cols[c], g.Cols[i][c]) {
					return c24F(stage+"dest-block-content:"+sig(cl), "%s day %d block +%d column %s: expected the bytes of the %s block (%x), destination has %x", cl.Iface, cl.Day, b.TS-cl.Day, types.ColumnFileNames[c], []string{"source", "destination"}[b.Side], orig.Cols[c], g.Cols[i][c])
				}
			}
		}
		if g.Stats != tot {
			return c24F(stage+"dest-day-totals:"+sig(cl), "%s day %d: metadata totals %+v, sum over the expected blocks %+v", cl.Iface, cl.Day, g.Stats, tot)
		}
		if g.HasSfx && g.Suffix != tot {
			return c24F(stage+"dest-day-suffix:"+sig(cl), "%s day %d: totals in directory name %s are %+v, sum over the expected blocks %+v", cl.Iface, cl.Day, g.Dir, g.Suffix, tot)
		}
	}
	for cl := range got {
		if _, ok := want[cl]; !ok {
			return c24F(stage+"dest-day-unexpected", "%s day %d exists in the destination but is no cell of the scenario", cl.Iface, cl.Day)
		}
	}
	if !query || len(want) == 0 {
		return nil
	}
	// raw query through the real engine
	var ref fixture.DB
	ifset := map[string]bool{}
	first, last := int64(1<<62), int64(0)
	for cl, bs := range want {
		ifset[cl.Iface] = true
		for _, b := range bs {
			ref.Blocks = append(ref.Blocks, c24Block(b.Side, cl.Iface, b.TS))
		}
		if cl.Day < first {
			first = cl.Day
		}
		if cl.Day+86400 > last {
			last = cl.Day + 86400
		}
	}
	var ifs []string
	for i := range ifset {
		ifs = append(ifs, i)
	}
	sort.Strings(ifs)
	res, err := fixture.RunQuery(p.Dst, "sip,dip,dport,proto,time", strings.Join(ifs, ","), "", first-300, last, false)
	if err != nil {
		return c24F(stage+"query-error", "raw query on the merged destination failed: %v", err)
	}
	rows, dup := fixture.RowsOf(res)
	if dup != nil {
		return c24F(stage+"query-duplicate-row", "raw query on the merged destination returns %s twice", dup)
	}
	wantRows := ref.Aggregate(fixture.QuerySpec{Attrs: []string{"sip", "dip", "dport", "proto"}, Time: true, Iface: true, Ifaces: ifs, First: first - 300, Last: last})
	if d := fixture.DiffRows(rows, wantRows); d != "" {
		return c24F(stage+"query-rows", "raw query on the merged destination differs from the expected days: %s", d)
	}
	return nil
}

// ---- one execution -------------------------------------------------------------------

type c24Params struct {
	Cfg          *c24Cfg
	SrcSt, DstSt []int
	Overwrite    bool
	DryRun       bool
	Tol          time.Duration
	Sel          []string
	RootExists   bool
	SigCtx       string // extra signature context (classification scenario)
	Query        bool
	// Alt is the plan under an alternative (undocumented) reading; an outcome that
	// violates the documented plan but equals Alt is reported under AltSig.
	Alt     *c24Expect
	AltSig  string
	AltWhat string
}

func c24SummaryDiff(got, want goDB.MergeSummary, conflicts bool) (field string, g, w int) {
	type f struct {
		n    string
		g, w int
	}
	fs := []f{{"InterfacesProcessed", got.InterfacesProcessed, want.InterfacesProcessed},
		{"DaysCopied", got.DaysCopied, want.DaysCopied}, {"DaysRebuilt", got.DaysRebuilt, want.DaysRebuilt}, {"DaysSkipped", got.DaysSkipped, want.DaysSkipped}}
	if conflicts {
		fs = append(fs, f{"ConflictsResolvedByDestination", got.ConflictsResolvedByDestination, want.ConflictsResolvedByDestination},
			f{"ConflictsResolvedBySource", got.ConflictsResolvedBySource, want.ConflictsResolvedBySource})
	}
	for _, e := range fs {
		if e.g != e.w {
			return e.n, e.g, e.w
		}
	}
	return "", 0, 0
}

func c24Exec(x *explore.Ctx, pr c24Params) {
	cfg := pr.Cfg
	p := c24BuildPair(cfg, pr.SrcSt, pr.DstSt, pr.RootExists)
	defer p.Cleanup()
	exp := c24ExpectedDest(cfg, pr.SrcSt, pr.DstSt, pr.Overwrite, pr.Tol, pr.Sel)
	if x.Logging() {
		for i, cl := range cfg.Cells {
			x.Logf("cell %s/%d: source=%s destination=%s plan=%s", cl.Iface, cl.Day, cfg.Shapes[pr.SrcSt[i]].Name, cfg.Shapes[pr.DstSt[i]].Name, exp.Actions[cl])
		}
		x.Logf("overwrite=%v dry-run=%v tolerance=%v interfaces=%q destination-root-exists=%v reject=%v", pr.Overwrite, pr.DryRun, pr.Tol, pr.Sel, pr.RootExists, exp.Reject)
		x.Logf("expected destination: %s", c24Digest(exp.Days))
		x.Logf("expected summary: %+v", exp.Sum)
	}
	flags := fmt.Sprintf("ow=%v", pr.Overwrite)
	if pr.SigCtx != "" {
		flags = pr.SigCtx + "," + flags
	}
	sig := func(cl c24Cell) string {
		for i, c := range cfg.Cells {
			if c == cl {
				if pr.SigCtx != "" {
					return fmt.Sprintf("%s,dst=%s,ow=%v", pr.SigCtx, cfg.Shapes[pr.DstSt[i]].Class, pr.Overwrite)
				}
				return fmt.Sprintf("src=%s,dst=%s,%s", cfg.Shapes[pr.SrcSt[i]].Class, cfg.Shapes[pr.DstSt[i]].Class, flags)
			}
		}
		return flags
	}
	srcHash, dstHash := c24TreeHash(p.Src), c24TreeHash(p.Dst)
	_, statErr := os.Stat(p.Dst)
	rootBefore := statErr == nil
	opts := goDB.MergeOptions{SourcePath: p.Src, DestinationPath: p.Dst, Interfaces: pr.Sel, Overwrite: pr.Overwrite, DryRun: pr.DryRun, CompleteTolerance: pr.Tol}

	// verify compares what merge number `round` left behind with the expectation e.
	verify := func(e *c24Expect, round int, sum goDB.MergeSummary, err error) *c24Finding {
		stage := ""
		if round == 2 {
			stage = "second-merge:"
		}
		wantAfter := e.Days
		unchanged := pr.DryRun || e.Reject
		if unchanged {
			wantAfter = e.Before
		}
		if e.Reject {
			if err == nil && (sum.DaysCopied != 0 || sum.DaysRebuilt != 0 || sum.DaysSkipped != 0) {
				return c24F(stage+"unknown-iface-merged", "interface selection %q is not in the source, yet the merge reports %+v", pr.Sel, sum)
			}
		} else if err != nil {
			return c24F(stage+"merge-error:"+flags, "merge %d failed: %v", round, err)
		}
		if unchanged {
			if h := c24TreeHash(p.Dst); h != dstHash {
				what := "dryrun-modifies-destination"
				if e.Reject {
					what = "rejected-merge-modifies-destination"
				}
				return c24F(stage+what, "destination tree changed (dry-run=%v, rejected=%v): %s", pr.DryRun, e.Reject, c24TreeList(p.Dst))
			}
		}
		if f := c24CheckDest(p, wantAfter, stage, sig, pr.Query && round == 1); f != nil {
			return f
		}
		if round == 1 && !e.Reject {
			if f, g, w := c24SummaryDiff(sum, e.Sum, !pr.DryRun); f != "" {
				return c24F("summary:"+f+":"+flags+fmt.Sprintf(",dry=%v", pr.DryRun), "MergeSummary.%s = %d, the documented plan gives %d (got %+v, expected %+v; plan %v)", f, g, w, sum, e.Sum, e.Actions)
			}
			if sum.DryRun != pr.DryRun {
				return c24F("summary:DryRun", "MergeSummary.DryRun = %v for a merge with DryRun = %v", sum.DryRun, pr.DryRun)
			}
		}
		return nil
	}

	for round := 1; round <= 2; round++ {
		sum, err := goDB.MergeDatabases(context.Background(), opts)
		x.Transition()
		x.Logf("merge %d: summary %+v err=%v", round, sum, err)
		if h := c24TreeHash(p.Src); h != srcHash {
			x.Fail(fmt.Sprintf("source-modified:merge%d", round), "the source tree changed during merge %d: %s", round, c24TreeList(p.Src))
			return
		}
		if f := verify(exp, round, sum, err); f != nil {
			// A known way to fail gets its own stable signature only if the outcome
			// equals, in every compared observable, the plan of the alternative reading.
			if pr.Alt != nil && verify(pr.Alt, round, sum, err) == nil {
				x.Fail(pr.AltSig, "%s [the outcome equals the plan %v: %s]", f.Msg, pr.Alt.Actions, pr.AltWhat)
				return
			}
			x.Fail(f.Sig, "%s", f.Msg)
			return
		}
		x.Obs("%d %+v err=%v", round, sum, err != nil)
	}
	if pr.DryRun && !rootBefore {
		if _, err := os.Stat(p.Dst); err == nil {
			x.Fail("dryrun-creates-destination-root", "the destination path did not exist before the dry run and exists afterwards")
			return
		}
	}
	final := exp.Days
	if pr.DryRun || exp.Reject {
		final = exp.Before
	}
	x.Obs("%s", c24Digest(final))
	x.State([]byte(c24Digest(final)))
	for i, cl := range cfg.Cells {
		if a := exp.Actions[cl]; a != "" {
			x.Nontrivial("%s|%d|%d|%d|%v|%v|%v|%s", cfg.Name, i, pr.SrcSt[i], pr.DstSt[i], pr.Overwrite, pr.DryRun, pr.Tol, a)
		}
	}
}

// ---- scenario C24: all cell-state pairs, small days under a wide tolerance --------------

const c24WideTol = 39600 * time.Second // 11 h: a day is complete iff it starts by 11:00 and ends after 13:00

// Under the 11 h tolerance: complete = {first <= 39600, last+300 >= 46799}.
var c24SmallShapes = []c24Shape{
	{"missing", "missing", nil},
	{"complete{300,600,46800,47100}", "complete", []int64{300, 600, 46800, 47100}},
	{"partialP{600,900,1200}", "partialP", []int64{600, 900, 1200}},
	{"partialQ{1200,1500,1800}", "partialQ", []int64{1200, 1500, 1800}},
	{"partialR{39900,46800,47100}", "partialR", []int64{39900, 46800, 47100}}, // P+R is complete, R alone starts too late
}

var c24CfgSmall1 = &c24Cfg{Name: "small-1if", Cells: []c24Cell{{"eth0", c24Day1}, {"eth0", c24Day2}}, Shapes: c24SmallShapes[:4]}
var c24CfgSmall2 = &c24Cfg{Name: "small-2if", Cells: []c24Cell{{"eth0", c24Day1}, {"eth0", c24Day2}, {"eth1", c24Day1}}, Shapes: c24SmallShapes, NShape: []int{5, 4, 4}}

func c24Selections(cfg *c24Cfg) [][]string {
	out := [][]string{nil}
	for _, i := range cfg.ifaces() {
		out = append(out, []string{i})
	}
	return append(out, []string{"nope0"})
}

// c24ChooseRest enumerates the states of cells 1.., dry run, interface selection
// and (for an empty destination) whether the destination path exists.
func c24ChooseRest(x *explore.Ctx, cfg *c24Cfg, srcSt, dstSt []int, sels [][]string) (dry bool, sel []string, rootExists bool) {
	for i := 1; i < len(cfg.Cells); i++ {
		n := cfg.nShapes(i)
		c := x.Choose(n*n, fmt.Sprintf("cell%d(src,dst)", i))
		srcSt[i], dstSt[i] = c/n, c%n
	}
	dry = x.Choose(2, "dry-run") == 1
	sel = sels[x.Choose(len(sels), "interfaces")]
	rootExists = true
	empty := true
	for _, s := range dstSt {
		empty = empty && s == 0
	}
	if empty {
		rootExists = x.Choose(2, "destination-root(exists,absent)") == 0
	}
	return
}

func c24RunSmall(x *explore.Ctx) {
	cfg := c24CfgSmall1
	if x.Thorough() {
		cfg = c24CfgSmall2
	}
	n := len(cfg.Shapes)
	srcSt, dstSt := make([]int, len(cfg.Cells)), make([]int, len(cfg.Cells))
	pair := x.Case / 2
	srcSt[0], dstSt[0] = pair/n, pair%n
	ow := x.Case%2 == 1
	dry, sel, rootExists := c24ChooseRest(x, cfg, srcSt, dstSt, c24Selections(cfg))
	c24Exec(x, c24Params{Cfg: cfg, SrcSt: srcSt, DstSt: dstSt, Overwrite: ow, DryRun: dry, Tol: c24WideTol, Sel: sel, RootExists: rootExists, Query: true})
}

// ---- scenario C24.full: real days of 288 blocks under the documented tolerances ---------

var c24FullShapes = []c24Shape{
	{"missing", "missing", nil},
	{"complete[0..86100]", "complete", c24Range(0, 86100)},
	{"partialP[0..21600]", "partialP", c24Range(0, 21600)},
	{"partialQ[18000..43200]", "partialQ", c24Range(18000, 43200)},
	{"partialR[21900..86100]", "partialR", c24Range(21900, 86100)}, // P+R is a complete day
}

var c24FullTols = []time.Duration{0, 150 * time.Second} // library default (300 s) and the gpdb flag default

var c24CfgFull1 = &c24Cfg{Name: "full-1day", Cells: []c24Cell{{"eth0", c24Day1}}, Shapes: c24FullShapes[:4]}
var c24CfgFull2 = &c24Cfg{Name: "full-2day", Cells: []c24Cell{{"eth0", c24Day1}, {"eth0", c24Day2}}, Shapes: c24FullShapes}

func c24RunFull(x *explore.Ctx) {
	cfg := c24CfgFull1
	if x.Thorough() {
		cfg = c24CfgFull2
	}
	n := len(cfg.Shapes)
	srcSt, dstSt := make([]int, len(cfg.Cells)), make([]int, len(cfg.Cells))
	pair := x.Case / 2
	srcSt[0], dstSt[0] = pair/n, pair%n
	ow := x.Case%2 == 1
	tol := c24FullTols[x.Choose(len(c24FullTols), "tolerance(default,150s)")]
	sels := [][]string{nil} // interface selection is the subject of scenario C24
	if x.Thorough() {
		sels = c24Selections(cfg)
	}
	dry, sel, rootExists := c24ChooseRest(x, cfg, srcSt, dstSt, sels)
	c24Exec(x, c24Params{Cfg: cfg, SrcSt: srcSt, DstSt: dstSt, Overwrite: ow, DryRun: dry, Tol: tol, Sel: sel, RootExists: rootExists, Query: true})
}

// ---- scenario C24.cls: completeness classification at its boundaries ------------------------

// Sparse days: only first block, last block and the block before the last matter
// to full-day coverage. Source shapes: first in {0,300,600} x last in
// {86100,85800,85500} x tail {contiguous end, one hour gap before the last block,
// only two blocks}, days ending at noon, single-block days.
var c24ClsSrcShapes, c24ClsDstShapes = func() (src, dst []c24Shape) {
	src = []c24Shape{{"missing", "missing", nil}}
	for _, first := range []int64{0, 300, 600} {
		for _, last := range []int64{86100, 85800, 85500} {
			src = append(src,
				c24Shape{fmt.Sprintf("{%d,43200,%d,%d}", first, last-300, last), "contiguous-end", []int64{first, 43200, last - 300, last}},
				c24Shape{fmt.Sprintf("{%d,43200,%d,%d}", first, last-3600, last), "gap-1h-before-last-block", []int64{first, 43200, last - 3600, last}},
				c24Shape{fmt.Sprintf("{%d,%d}", first, last), "two-blocks", []int64{first, last}},
			)
		}
	}
	src = append(src,
		c24Shape{"{0,42900,43200}", "ends-at-noon", []int64{0, 42900, 43200}},
		c24Shape{"{0,300,43200}", "ends-at-noon-after-gap", []int64{0, 300, 43200}},
		c24Shape{"{0,300,600,3600,46800}", "ends-at-13h-after-gap", []int64{0, 300, 600, 3600, 46800}},
		c24Shape{"{0}", "single-block", []int64{0}},
		c24Shape{"{43200}", "single-block", []int64{43200}},
		c24Shape{"{86100}", "single-block", []int64{86100}},
	)
	dst = []c24Shape{
		{"missing", "missing", nil},
		{"partial{600,900,1200}", "partial", []int64{600, 900, 1200}},
		{"complete{0,85800,86100}", "complete", []int64{0, 85800, 86100}},
	}
	return
}()

var c24ClsTols = []time.Duration{0, 150 * time.Second, time.Second, 600 * time.Second, -5 * time.Second}

// One shape alphabet for both sides: source shapes first, then the destination shapes.
var c24CfgCls = func() *c24Cfg {
	sh := append([]c24Shape{}, c24ClsSrcShapes...)
	sh = append(sh, c24ClsDstShapes[1:]...)
	return &c24Cfg{Name: "cls", Cells: []c24Cell{{"eth0", c24Day1}}, Shapes: sh}
}()

func c24RunCls(x *explore.Ctx) {
	cfg := c24CfgCls
	srcIdx := 1 + x.Case
	sh := cfg.Shapes[srcIdx]
	tol := c24ClsTols[x.Choose(len(c24ClsTols), "tolerance(0,150s,1s,600s,-5s)")]
	d := []int{1, 0, 2}[x.Choose(len(c24ClsDstShapes), "destination(partial,missing,complete)")]
	dstIdx := 0
	if d > 0 {
		dstIdx = len(c24ClsSrcShapes) + d - 1
	}
	ow := x.Choose(2, "overwrite(yes,no)") == 0
	dry := x.Choose(2, "dry-run") == 1
	want := "partial"
	if c24Complete(sh.Offs, tol) {
		want = "complete"
	}
	pr := c24Params{Cfg: cfg, SrcSt: []int{srcIdx}, DstSt: []int{dstIdx}, Overwrite: ow, DryRun: dry, Tol: tol, RootExists: true,
		SigCtx: "cls=" + sh.Class + "/documented-" + want, Query: x.Thorough()}
	if n := len(sh.Offs); n >= 2 && sh.Offs[n-1]-sh.Offs[n-2] > goDB.DBWriteInterval && want == "partial" {
		pr.Alt = c24Plan(cfg, pr.SrcSt, pr.DstSt, ow, nil, func(side int, offs []int64) bool { return side == c24Src || c24Complete(offs, tol) })
		pr.AltSig = "partial-day-with-gap-before-last-block-treated-as-complete"
		pr.AltWhat = "the source day, whose coverage ends more than the tolerance before the end of the day but whose last block follows a gap, was treated as complete"
	}
	c24Exec(x, pr)
}

func init() {
	setup := func(string) { engine.VerifSetNumProcessingUnits(2) }
	assumptions := []string{
		"databases are written through the real DBWriter (source zstd, destination lz4), once per worker process, and materialised per execution from the cached files",
		"source and destination blocks at equal timestamps always differ (counters, flow count, drops), so the origin of every merged block is observable",
		"'complete' = first block within the tolerance of the day start and last block + one write-out interval (300 s) within the tolerance of the last second of the day; gaps inside the day are not considered (the documentation speaks of coverage and a tolerance only); tolerances are chosen off the boundary between 86399 and 86400",
		"conflict counters of a dry run are not compared (nothing is resolved in a dry run); a second merge is required to leave the destination content unchanged, its summary is only recorded",
		"file-system calls pass through the vos shim without a controller (plain os); interrupted merges are C25",
		"query worker count pinned to 2",
	}
	register("C24", &explore.Scenario{
		ID: "C24", Name: "merge plan over all source x destination day states (small days, 11 h tolerance)", Level: "exploration",
		Rule: "cases = (source state, destination state) of cell eth0/day1 x overwrite; per case every combination of the states of the remaining cells (quick: eth0/day2; thorough: eth0/day2 and eth1/day1), dry run, interface selection {all, each interface, unknown} and, for an empty destination, destination path present/absent. States per side: missing, complete, partial-P, partial-Q overlapping P (thorough also partial-R with P+R complete, for the case cell); days of 3-4 blocks, completeness under CompleteTolerance = 11 h. MergeDatabases is run twice. Oracle: reference planner from the property text; destination read back by the real GPDir reader (layout without stray entries, block timestamps, per-block traffic metadata, all column bytes equal to the contributing side's block, day totals in metadata and directory name) and by a raw query of the real engine against the reference aggregation; source tree hash unchanged; dry run / rejected selection leave the destination tree hash unchanged; second merge leaves the content unchanged; MergeSummary = actions of the reference plan. non-trivial = (cell, source state, destination state, overwrite, dry run, action) with an action planned",
		Cases: func(t string) int {
			if t == "thorough" {
				return 2 * len(c24CfgSmall2.Shapes) * len(c24CfgSmall2.Shapes)
			}
			return 2 * len(c24CfgSmall1.Shapes) * len(c24CfgSmall1.Shapes)
		},
		Bound: func(string) int { return 0 }, Run: c24RunSmall, Setup: setup, PanicSig: "panic", Assumptions: assumptions,
	})
	register("C24.full", &explore.Scenario{
		ID: "C24", Name: "merge plan on real days of 288 blocks under the default tolerances", Level: "exploration",
		Rule: "cases = (source state, destination state) of eth0/day1 x overwrite; per case tolerance {library default 300 s, gpdb default 150 s} x dry run x destination path present/absent (quick: one day; thorough: two adjacent days across a month boundary, all state pairs of the second day, and interface selection {all, eth0, unknown}). States: missing, complete (288 blocks), partial-P 00:00-06:00, partial-Q 05:00-12:00 (thorough also partial-R 06:05-23:55, P+R complete). Same oracle as C24",
		Cases: func(t string) int {
			if t == "thorough" {
				return 2 * len(c24CfgFull2.Shapes) * len(c24CfgFull2.Shapes)
			}
			return 2 * len(c24CfgFull1.Shapes) * len(c24CfgFull1.Shapes)
		},
		Bound: func(string) int { return 0 }, Run: c24RunFull, Setup: setup, PanicSig: "panic", Assumptions: assumptions,
	})
	register("C24.cls", &explore.Scenario{
		ID: "C24", Name: "completeness classification at the tolerance boundaries", Level: "exploration",
		Rule:  "cases = 33 sparse source days (first block in {00:00,00:05,00:10} x last block in {23:55,23:50,23:45} x tail {contiguous end, 1 h gap before the last block, two blocks only}; days ending at noon / 13:00 with and without a gap before the last block; single-block days); per case tolerance {0 (default 300 s), 150 s, 1 s, 600 s, -5 s} x destination {missing, partial, complete} x overwrite x dry run. The classification is observed through the plan: summary counters and destination content. Same oracle as C24 (raw query in thorough only); signatures carry the tail class and the documented classification",
		Cases: func(string) int { return len(c24ClsSrcShapes) - 1 },
		Bound: func(string) int { return 0 }, Run: c24RunCls, Setup: setup, PanicSig: "panic", Assumptions: assumptions,
	})
}

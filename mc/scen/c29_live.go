package scen

import (
	"context"
	"fmt"
	"net/netip"
	"os"
	"runtime/debug"
	"strings"
	"sync"
	"testing/synctest"
	"time"

	"github.com/els0r/goProbe/v4/cmd/goProbe/config"
	"github.com/els0r/goProbe/v4/pkg/capture"
	"github.com/els0r/goProbe/v4/pkg/capture/capturetypes"
	"github.com/els0r/goProbe/v4/pkg/goDB/encoder/encoders"
	"github.com/els0r/goProbe/v4/pkg/goDB/engine"
	"github.com/els0r/goProbe/v4/pkg/goprobe/writeout"
	"github.com/els0r/goProbe/v4/pkg/query"
	"github.com/els0r/goProbe/v4/pkg/results"
	"github.com/els0r/goProbe/v4/pkg/types"

	slimcap "github.com/fako1024/slimcap/capture"

	"verifmc/explore"
	"verifmc/fixture"
)

// C29: live queries see current flows with the same semantics and change nothing.
//
// One execution = one schedule of packet arrivals and write-outs on the real
// capture Manager (fake source of fake_source.go in self-running mode, real
// GoDBHandler on a scratch database), with a live query through the real
// engine.QueryRunner (WithLiveData) at a chosen subset of the schedule's
// positions. Everything runs inside a synctest bubble; each step runs to
// quiescence before the next.
//
//   oracle A  rows of every live query = reference aggregation (filter, group in
//             a Go map, sum) over the blocks written so far plus the flows that
//             arrived since the last write-out
//   oracle B  after a closing write-out the database (raw query with time over
//             everything) equals the database of the same schedule without any
//             live query, and the reference blocks

const c29Iface = "eth0"

type c29Spec struct {
	qtype string
	attrs []string
	cond  c08Cond
	// later: the query's time range lies two days after everything stored (capture resumed after a long
	// downtime, or just after midnight before the day's first write-out): the database contributes no day,
	// the flows in memory are still part of the answer
	later bool
}

// conditions: a handful of c08's (text, predicate) pairs incl. snet/dnet forms
var c29CondIdx = []int{0, 1, 2, 8, 9, 18, 20, 21, 4, 13, 16, 12}

var c29QTypes = []struct {
	name  string
	attrs []string
}{
	{"sip,dip,dport,proto", []string{"sip", "dip", "dport", "proto"}},
	{"sip,dip", []string{"sip", "dip"}},
	{"dport,proto", []string{"dport", "proto"}},
	{"sip", []string{"sip"}},
}

func c29Specs(tier string) (out []c29Spec) {
	nc := 8
	if tier == "thorough" {
		nc = len(c29CondIdx)
	}
	for qi := 0; qi < 2; qi++ {
		for _, ci := range c29CondIdx[:nc] {
			out = append(out, c29Spec{qtype: c29QTypes[qi].name, attrs: c29QTypes[qi].attrs, cond: c08Conds[ci]})
		}
	}
	out = append(out, c29Spec{c29QTypes[0].name, c29QTypes[0].attrs, c08Conds[0], true}, c29Spec{c29QTypes[1].name, c29QTypes[1].attrs, c08Conds[8], true})
	if tier == "thorough" { // the other attribute sets with "no condition" and one network condition
		for qi := 2; qi < len(c29QTypes); qi++ {
			for _, ci := range []int{0, 8} {
				out = append(out, c29Spec{qtype: c29QTypes[qi].name, attrs: c29QTypes[qi].attrs, cond: c08Conds[ci]})
			}
		}
	}
	return
}

// schedules: packet names and R (= write-out of all interfaces). <= 4 packets, <= 2 write-outs.
func c29Schedules(tier string) []string {
	seqs := [][]string{{"a4", "b6", "c4", "d6"}, {"d6", "e4", "a4", "g6"}}
	var out []string
	seen := map[string]bool{}
	add := func(s []string) {
		k := strings.Join(s, " ")
		if !seen[k] {
			seen[k] = true
			out = append(out, k)
		}
	}
	if tier != "thorough" {
		for _, s := range []string{"a4 b6 R c4 d6", "R a4 b6 c4", "a4 b6 c4 d6", "a4 R R b6", "d6 e4 R a4 g6 R", "b6 R a4", "a4 c4 R c4 b6 R", "R R a4",
			"R b6 d6 a4 c4"} { // after a write-out: two IPv6 flows (b6, d6) and two IPv4 packets of one flow in memory that share sip,dip
			add(strings.Fields(s))
		}
		return out
	}
	for si, seq := range seqs {
		for n := 1; n <= len(seq); n++ {
			if si > 0 && n < len(seq) {
				continue // prefixes only of the first sequence
			}
			p := seq[:n]
			// 0, 1 or 2 write-outs in any of the n+1 gaps (both may share a gap)
			add(p)
			for i := 0; i <= n; i++ {
				add(c29Insert(p, i, -1))
				for j := i; j <= n; j++ {
					add(c29Insert(p, i, j))
				}
			}
		}
	}
	return out
}

func c29Insert(p []string, i, j int) []string {
	var out []string
	for k := 0; k <= len(p); k++ {
		if k == i {
			out = append(out, "R")
		}
		if k == j {
			out = append(out, "R")
		}
		if k < len(p) {
			out = append(out, p[k])
		}
	}
	return out
}

func c29Rec(p mcPkt) fixture.Rec {
	sip, _ := netip.AddrFromSlice(p.key.GetSIP())
	dip, _ := netip.AddrFromSlice(p.key.GetDIP())
	r := fixture.Rec{SIP: sip, DIP: dip, Dport: types.PortToUint16(p.key.GetDport()), Proto: p.key.GetProto()}
	if p.out {
		r.C = types.Counters{BytesSent: uint64(p.size), PacketsSent: 1}
	} else {
		r.C = types.Counters{BytesRcvd: uint64(p.size), PacketsRcvd: 1}
	}
	return r
}

const c29T0 = int64(1700000100) // first write-out; +300 s each

type c29World struct {
	x      *explore.Ctx
	first  bool // scenario C29.first: judge live queries on an interface the database does not know yet
	diff   bool // scenario C29.idle: conversations whose stored orientation depends on the history; only the differential oracle B applies
	dbPath string
	src    *fakeSource
	mgr    *capture.Manager
	stored []fixture.Block
	mem    []fixture.Rec
	nWrite int
	// queryIface overrides the interface argument of run()
	queryIface string
}

func c29NewWorld(x *explore.Ctx, first bool) *c29World {
	w := &c29World{x: x, first: first, diff: c29DiffOnly, dbPath: fixture.NewDir(), src: &fakeSource{auto: true}}
	w.mgr = capture.NewManager(writeout.NewGoDBHandler(w.dbPath, encoders.EncoderTypeLZ4),
		capture.WithSourceInitFn(func(*capture.Capture) (capture.Source, error) { return w.src, nil }))
	if _, _, _, err := w.mgr.Update(context.Background(), &config.Config{Interfaces: config.Ifaces{c29Iface: config.DefaultCaptureConfig()}}); err != nil {
		explore.HarnessErrorf("Manager.Update: %v", err)
	}
	synctest.Wait()
	return w
}

// state registers the canonical state reached: the real flow log's content, the
// write-outs done and the position in the schedule.
func (w *c29World) state(pos int) {
	c := capture.VerifCapture(w.mgr, c29Iface)
	if c == nil {
		w.x.State([]byte(fmt.Sprintf("%d|no capture", pos)))
		return
	}
	var h uint64
	for fam, m := range []map[string]*capture.Flow{c.VerifFlowLog().FlowsV4(), c.VerifFlowLog().FlowsV6()} {
		for k, v := range m {
			e := uint64(14695981039346656037) + uint64(fam)
			for i := 0; i < len(k); i++ {
				e = (e ^ uint64(k[i])) * 1099511628211
			}
			e ^= v.BytesRcvd*3 + v.BytesSent*5 + v.PacketsRcvd*7 + v.PacketsSent*11
			h += e * 0x9e3779b97f4a7c15
		}
	}
	w.x.State([]byte(fmt.Sprintf("%d|%d|%x", pos, w.nWrite, h)))
}

func (w *c29World) packet(p mcPkt) {
	w.src.Arrive(p)
	synctest.Wait()
	if p.flow {
		w.mem = append(w.mem, c29Rec(p))
	}
}

func (w *c29World) rotate() {
	ts := c29T0 + 300*int64(w.nWrite)
	w.nWrite++
	capture.VerifPerformWriteout(w.mgr, context.Background(), time.Unix(ts, 0))
	synctest.Wait()
	if len(w.mem) > 0 { // an interval without traffic writes nothing the reference cares about
		w.stored = append(w.stored, fixture.Block{Iface: c29Iface, TS: ts, Recs: w.mem})
	}
	w.mem = nil
}

func (w *c29World) close() {
	done := false
	go func() { w.mgr.Close(context.Background()); done = true }()
	synctest.Wait()
	if !done {
		time.Sleep(100 * time.Second)
		synctest.Wait()
	}
	if !done {
		w.x.Fail("close-hangs", "Manager.Close does not return")
	}
	os.RemoveAll(w.dbPath)
}

// run executes the real engine; live adds the in-memory flows of the manager.
func (w *c29World) run(qtype, cond string, live bool, later ...bool) (*results.Result, error) {
	iface := c29Iface
	if w.queryIface != "" {
		iface = w.queryIface
	}
	a := query.NewArgs(qtype, iface)
	a.Condition = cond
	a.First = "1"
	if len(later) > 0 && later[0] {
		a.First = fmt.Sprint(c29T0 + 2*86400) // a live query has an open end
	}
	a.Format = "json"
	a.NumResults = 1 << 40
	a.MaxMemPct = 100
	a.Live = live
	var opts []engine.RunnerOption
	if live {
		opts = append(opts, engine.WithLiveData(w.mgr))
	}
	return engine.NewQueryRunner(w.dbPath, opts...).Run(context.Background(), a)
}

// dump reads the whole database back: (timestamp, flow) -> counters.
func (w *c29World) dump() (map[fixture.RowKey]types.Counters, string) {
	if _, err := os.Stat(w.dbPath + "/" + c29Iface); err != nil {
		return map[fixture.RowKey]types.Counters{}, "" // nothing was ever written
	}
	res, err := w.run("sip,dip,dport,proto,time", "", false)
	if err != nil {
		return nil, err.Error()
	}
	rows, dup := fixture.RowsOf(res)
	if dup != nil {
		return nil, "group returned twice: " + dup.String()
	}
	return rows, ""
}

var (
	c29BaseMu sync.Mutex
	c29Base   = map[string]map[fixture.RowKey]types.Counters{}
)

func c29Play(x *explore.Ctx, first bool, ops []string, spec *c29Spec, ask func(pos int) bool) (final map[fixture.RowKey]types.Counters, w *c29World) {
	w = c29NewWorld(x, first)
	for pos := 0; pos <= len(ops); pos++ {
		w.state(pos)
		if spec != nil && ask(pos) {
			c29Live(x, w, spec, pos, ops)
			if x.Failed() {
				break
			}
		}
		if pos == len(ops) {
			break
		}
		x.Transition()
		if ops[pos] == "R" {
			w.rotate()
		} else {
			w.packet(c29Pkt(ops[pos]))
		}
	}
	if !x.Failed() {
		w.rotate() // the next write-out
		var e string
		if final, e = w.dump(); e != "" {
			x.Fail("dump-error", "reading the database back failed: %s", e)
		}
	}
	w.close()
	return final, w
}

// c29Extra: conversations whose orientation cannot be derived from every packet alone (equal ports;
// two unprivileged ports with the handshake seen only at the start). What is stored for them depends
// on whether the flow is still known when a later packet arrives.
var c29Extra = func() map[string]mcPkt {
	const in, out = slimcap.PacketThisHost, slimcap.PacketOutgoing
	m := map[string]mcPkt{}
	add := func(p mcPkt) { m[p.name] = p }
	add(mcBuild("n1", "10.0.0.5", "10.0.0.6", 123, 123, capturetypes.UDP, 0, in, 76, "10.0.0.5", "10.0.0.6", 123))
	add(mcBuild("n2", "10.0.0.6", "10.0.0.5", 123, 123, capturetypes.UDP, 0, out, 76, "10.0.0.5", "10.0.0.6", 123))
	add(mcBuild("t1", "10.0.0.7", "10.0.0.8", 40000, 50000, capturetypes.TCP, 0x02, in, 60, "10.0.0.7", "10.0.0.8", 50000))
	add(mcBuild("t2", "10.0.0.8", "10.0.0.7", 50000, 40000, capturetypes.TCP, 0x10, out, 1400, "10.0.0.7", "10.0.0.8", 50000))
	add(mcBuild("t3", "10.0.0.7", "10.0.0.8", 40000, 50000, capturetypes.TCP, 0x10, in, 52, "10.0.0.7", "10.0.0.8", 50000))
	return m
}()

func c29Pkt(name string) mcPkt {
	if p, ok := c29Extra[name]; ok {
		return p
	}
	p, ok := mcAlphabet[name]
	if !ok {
		explore.HarnessErrorf("unknown packet %q", name)
	}
	return p
}

func c29Live(x *explore.Ctx, w *c29World, spec *c29Spec, pos int, ops []string) {
	res, err := w.run(spec.qtype, spec.cond.text, true, spec.later)
	x.Transition()
	if w.diff {
		if len(w.mem) > 0 || len(w.stored) > 0 {
			x.Nontrivial("%d %v %q", pos, ops, spec.cond.text)
		}
		if err != nil {
			if _, serr := os.Stat(w.dbPath + "/" + c29Iface); serr == nil {
				x.Fail("live-query-failed:idle", "live query %q cond %q at position %d of %v fails: %v", spec.qtype, spec.cond.text, pos, ops, err)
			}
			return
		}
		x.Obs("%d rows", len(res.Rows))
		return
	}
	where := fmt.Sprintf("live query %q cond %q at position %d of [%s] (%d block(s) stored, %d packet(s) in memory)", spec.qtype, spec.cond.text, pos, strings.Join(ops, " "), len(w.stored), len(w.mem))
	if spec.later {
		where += ", time range two days after everything stored"
	}
	// reference: stored blocks plus one pseudo block holding the in-memory flows
	stored := w.stored
	if spec.later {
		stored = nil // nothing stored lies in the queried range
	}
	db := fixture.DB{Blocks: append(append([]fixture.Block(nil), stored...), fixture.Block{Iface: c29Iface, TS: c29T0 + 300*int64(w.nWrite), Recs: w.mem})}
	want := db.Aggregate(fixture.QuerySpec{Attrs: spec.attrs, Iface: true, Ifaces: []string{c29Iface}, First: 1, Last: 1 << 60, Cond: spec.cond.pred})
	class := "stored+memory"
	switch {
	case len(w.stored) == 0 && len(w.mem) == 0:
		class = "nothing"
	case len(w.stored) == 0:
		class = "memory-only"
	case len(w.mem) == 0:
		class = "stored-only"
	}
	grouping := "full-key"
	if len(spec.attrs) < 4 {
		grouping = "reduced-key"
	}
	if len(w.mem) > 0 {
		x.Nontrivial("%s %s %d/%d %q", class, spec.qtype, len(w.stored), len(w.mem), spec.cond.text)
	}
	if err != nil {
		x.Obs("err")
		if len(want) == 0 {
			// nothing to show: an error instead of an empty result is not judged here
			x.Logf("%s: error %v (reference is empty)", where, err)
			return
		}
		if _, serr := os.Stat(w.dbPath + "/" + c29Iface); serr != nil {
			// The interface is captured but has no directory in the database yet (no write-out
			// so far). That case has its own scenario, C29.first; here the schedule goes on so
			// that everything after it is still checked.
			x.Logf("%s: error %v (interface not in the database yet)", where, err)
			if w.first {
				x.Fail("live-query-error:memory-only", "%s fails: %v; reference rows: %d", where, err, len(want))
			}
			return
		}
		x.Fail("live-query-failed:"+class, "%s fails: %v; reference rows: %d", where, err, len(want))
		return
	}
	got, dup := fixture.RowsOf(res)
	x.Obs("%d rows", len(got))
	x.Logf("%s: %d rows", where, len(res.Rows))
	if dup != nil {
		x.Fail("live-rows-not-grouped:"+grouping+":"+class, "%s: group %s is returned more than once (rows %d); reference: %s", where, dup, len(res.Rows), c29Rows(want))
		return
	}
	if d := fixture.DiffRows(got, want); d != "" {
		x.Fail("live-rows:"+grouping+":"+spec.cond.sig+":"+class, "%s: %s", where, d)
	}
}

func c29Rows(m map[fixture.RowKey]types.Counters) string {
	var sb strings.Builder
	for k, c := range m {
		fmt.Fprintf(&sb, "%s %+v; ", k, c)
	}
	return sb.String()
}

// C29.first: live queries before the interface's first write-out.
func c29FirstSchedules(string) []string { return []string{"a4", "a4 b6", "b6 d6 e4"} }

func c29Run(x *explore.Ctx) { c29RunWith(x, c29Schedules(x.Tier), false) }

// c29DiffOnly is set for the duration of a C29.idle execution.
var c29DiffOnly bool

func c29IdleSchedules(tier string) []string {
	s := []string{"n1 R n2", "n1 R R n2", "n1 n2 R n2 R n1", "t1 R t2 t3", "t1 t2 R t3 R t2", "n1 t1 R n2 t2"}
	if tier == "thorough" {
		s = append(s, "n1 t1 R n2 t2 R n1", "t1 R R t2 R t3", "n2 R n1 R n2", "t1 t3 R t2 R t2 R", "a4 n1 R c4 n2 R")
	}
	return s
}

func c29IdleSpecs(string) []c29Spec {
	return []c29Spec{{qtype: c29QTypes[0].name, attrs: c29QTypes[0].attrs, cond: c08Conds[0]}, {qtype: c29QTypes[1].name, attrs: c29QTypes[1].attrs, cond: c08Conds[8]}}
}

func c29IdleRun(x *explore.Ctx) {
	c29DiffOnly = true
	defer func() { c29DiffOnly = false }()
	c29RunWithSpecs(x, c29IdleSchedules(x.Tier), c29IdleSpecs(x.Tier), false)
}
func c29FirstRun(x *explore.Ctx) { c29RunWith(x, c29FirstSchedules(x.Tier), true) }

func c29RunWith(x *explore.Ctx, scheds []string, first bool) {
	c29RunWithSpecs(x, scheds, c29Specs(x.Tier), first)
}

func c29RunWithSpecs(x *explore.Ctx, scheds []string, specs []c29Spec, first bool) {
	// the case index also fixes whether positions 0 and 1 carry a live query (keeps cases small)
	pre := x.Case % 4
	ci := x.Case / 4
	sched := scheds[ci/len(specs)]
	ops := strings.Fields(sched)
	spec := specs[ci%len(specs)]
	var final map[fixture.RowKey]types.Counters
	var w *c29World
	asked := 0
	leak := mcBubble(func() {
		final, w = c29Play(x, first, ops, &spec, func(pos int) bool {
			var q bool
			if pos < 2 {
				q = pre&(1<<pos) != 0
			} else {
				q = x.Choose(2, fmt.Sprintf("live query at %d", pos)) == 1
			}
			if q {
				asked++
			}
			return q
		})
	})
	if x.Failed() {
		return
	}
	if leak != "" {
		x.Fail("goroutines-left-blocked", "goroutines remain blocked after Manager.Close: %s", leak)
		return
	}
	// oracle B: same database as the run without live queries, and as the reference
	key := x.Tier + "/" + sched
	c29BaseMu.Lock()
	base, ok := c29Base[key]
	c29BaseMu.Unlock()
	if !ok {
		if asked == 0 {
			base = final
		} else {
			mcBubble(func() { base, _ = c29Play(x, first, ops, nil, nil) })
			if x.Failed() {
				return
			}
		}
		c29BaseMu.Lock()
		c29Base[key] = base
		c29BaseMu.Unlock()
	}
	ref := (&fixture.DB{Blocks: w.stored}).Aggregate(fixture.QuerySpec{Attrs: []string{"sip", "dip", "dport", "proto"}, Time: true, Iface: true, Ifaces: []string{c29Iface}, First: 1, Last: 1 << 60})
	x.Obs("db %d rows, %d queries", len(final), asked)
	if d := fixture.DiffRows(final, base); d != "" {
		x.Fail("db-differs-after-live-queries", "schedule [%s] with %d live queries (%q cond %q): database differs from the run without live queries: %s", strings.Join(ops, " "), asked, spec.qtype, spec.cond.text, d)
		return
	}
	if c29DiffOnly {
		return
	}
	if d := fixture.DiffRows(final, ref); d != "" {
		x.Fail("db-differs-from-reference", "schedule [%s] with %d live queries: database differs from the delivered packets per interval: %s", strings.Join(ops, " "), asked, d)
	}
}

// C29.other: a live query that names an interface which is in the database but NOT captured at the
// moment, while another interface is captured and holds flows in memory.
const c29OtherIface = "eth1"

var c29OtherBlock = fixture.Block{Iface: c29OtherIface, TS: c29T0 - 300, Recs: []fixture.Rec{
	rec("10.3.0.1", "10.3.0.2", 8443, 6, cnt(11, 12, 1, 2)), rec("2001:db8:3::1", "2001:db8:3::2", 53, 17, cnt(5, 0, 1, 0))}}

func c29OtherRun(x *explore.Ctx) {
	scheds := []string{"a4 b6", "a4 R b6", "R a4 b6 c4"}
	args := []string{c29OtherIface, c29OtherIface + "," + c29Iface, c29Iface}
	sched := strings.Fields(scheds[x.Case%len(scheds)])
	arg := args[(x.Case/len(scheds))%len(args)]
	leak := mcBubble(func() {
		w := c29NewWorld(x, false)
		defer w.close()
		if err := fixture.WriteBlock(w.dbPath, c29OtherBlock, encoders.EncoderTypeLZ4); err != nil {
			explore.HarnessErrorf("C29.other: %v", err)
		}
		for pos := 0; pos <= len(sched); pos++ {
			if x.Choose(2, fmt.Sprintf("live query at %d", pos)) == 1 {
				w.queryIface = arg
				res, err := w.run("sip,dip,dport,proto", "", true)
				w.queryIface = ""
				x.Transition()
				where := fmt.Sprintf("live query on %q at position %d of %v (captured: %s with %d packet(s) in memory; stored: %d block(s) of %s, 1 of %s)", arg, pos, sched, c29Iface, len(w.mem), len(w.stored), c29Iface, c29OtherIface)
				// reference: stored blocks of the named interfaces plus the in-memory flows of the named CAPTURED interface
				var blocks []fixture.Block
				var ifs []string
				if strings.Contains(arg, c29OtherIface) {
					blocks = append(blocks, c29OtherBlock)
					ifs = append(ifs, c29OtherIface)
				}
				if strings.Contains(arg, c29Iface) {
					blocks = append(blocks, w.stored...)
					blocks = append(blocks, fixture.Block{Iface: c29Iface, TS: c29T0 + 300*int64(w.nWrite), Recs: w.mem})
					ifs = append(ifs, c29Iface)
				}
				want := (&fixture.DB{Blocks: blocks}).Aggregate(fixture.QuerySpec{Attrs: []string{"sip", "dip", "dport", "proto"}, Iface: true, Ifaces: ifs, First: 1, Last: 1 << 60})
				if len(w.mem) > 0 {
					x.Nontrivial("%s %d %d", arg, len(w.mem), len(w.stored))
				}
				// the captured interface has no directory in the database before its first write-out: the recorded
				// finding 'memory-only' (the interface argument is resolved against the database only) - as an error
				// when it is the only interface named, as silently missing live rows next to another interface
				_, serr := os.Stat(w.dbPath + "/" + c29Iface)
				notInDB := serr != nil && strings.Contains(arg, c29Iface) && len(w.mem) > 0
				if err != nil {
					if len(want) == 0 {
						continue // nothing to show: an error instead of an empty result is not judged (as in C29)
					}
					if notInDB {
						x.Fail("live-query-error:memory-only", "%s fails: %v", where, err)
						return
					}
					x.Fail("live-query-failed:other-interface", "%s fails: %v", where, err)
					return
				}
				got, dup := fixture.RowsOf(res)
				if dup != nil {
					x.Fail("live-rows-not-grouped:other-interface", "%s: group %s returned twice", where, dup)
					return
				}
				if d := fixture.DiffRows(got, want); d != "" {
					if notInDB {
						x.Fail("live-query-error:memory-only", "%s: the in-memory flows of %s are missing: %s", where, c29Iface, d)
						return
					}
					x.Fail("live-rows:other-interface", "%s: %s", where, d)
					return
				}
				x.Obs("%d rows", len(got))
			}
			if pos == len(sched) {
				break
			}
			x.Transition()
			if sched[pos] == "R" {
				w.rotate()
			} else {
				w.packet(c29Pkt(sched[pos]))
			}
		}
	})
	if leak != "" && !x.Failed() {
		x.Fail("goroutines-left-blocked", "goroutines remain blocked after Manager.Close: %s", leak)
	}
}

func c29Setup(t string) {
	mcSetup(t)
	debug.SetGCPercent(-1) // the engine calls runtime.GC() itself several times per query
	engine.VerifSetNumProcessingUnits(2)
}

func init() {
	register("C29.other", &explore.Scenario{
		ID: "C29", Name: "live queries naming an interface that is stored but not captured", Level: "model_checking",
		Rule:  "cases = schedule {a4 b6 | a4 R b6 | R a4 b6 c4} on the captured interface eth0 x interface argument {eth1 | eth1,eth0 | eth0}, where eth1 has one stored block and no capture; EVERY subset of positions carries a live query (sip,dip,dport,proto); rows must equal the stored blocks of the named interfaces plus the in-memory flows of the named captured interface - never flows of an interface that was not named. non-trivial = live queries answered while eth0 held flows in memory",
		Cases: func(string) int { return 9 },
		Bound: func(string) int { return 0 },
		Run:   c29OtherRun, Setup: c29Setup, PanicSig: "panic",
		Assumptions: []string{"as C29"},
	})
	register("C29.idle", &explore.Scenario{
		ID: "C29", Name: "live queries while flows are idle: conversations whose stored orientation depends on the flow still being known", Level: "model_checking",
		Rule:  "cases = schedules over the conversations NTP 123<->123 (n1 request / n2 reply) and TCP 40000->50000 (t1 SYN / t2, t3 later segments) with write-outs (R) between their packets {n1 R n2 | n1 R R n2 | n1 n2 R n2 R n1 | t1 R t2 t3 | t1 t2 R t3 R t2 | n1 t1 R n2 t2 (thorough 5 more)} x 2 query specs; EVERY subset of the schedule's positions carries a live query through the real QueryRunner with WithLiveData; after a closing write-out the database (raw query with time) must equal the database of the same schedule without any live query (differential oracle only: what is stored for these conversations depends on the history). non-trivial = live queries answered while flows were stored or in memory",
		Cases: func(t string) int { return len(c29IdleSchedules(t)) * len(c29IdleSpecs(t)) * 4 },
		Bound: func(string) int { return 0 },
		Run:   c29IdleRun, Setup: c29Setup, PanicSig: "panic",
		Assumptions: []string{"as C29"},
	})
	register("C29.first", &explore.Scenario{
		ID: "C29", Name: "live queries before the interface's first write-out", Level: "model_checking",
		Rule:  "cases = schedules {a4 | a4 b6 | b6 d6 e4} without a write-out x the query specs of C29; every subset of positions carries a live query; a query over flows that exist in memory must not fail and must return the reference rows; non-trivial = live queries with flows in memory",
		Cases: func(t string) int { return len(c29FirstSchedules(t)) * len(c29Specs(t)) * 4 },
		Bound: func(string) int { return 0 },
		Run:   c29FirstRun, Setup: c29Setup, PanicSig: "panic",
		Assumptions: []string{"as C29; the database directory is empty until the closing write-out"},
	})
	register("C29", &explore.Scenario{
		ID: "C29", Name: "live queries at every subset of positions of a packet / write-out schedule", Level: "model_checking",
		Rule:  "cases = schedule x query spec. Schedules: <=4 packets (mixed IPv4/IPv6 alphabet of C21; a4/c4 are the two directions of one conversation) and <=2 write-outs (quick: 9 hand-picked; thorough: every placement of 0-2 write-outs into every prefix of one packet sequence and into a second full sequence, 73 schedules). Query specs: attribute set {sip,dip,dport,proto | sip,dip} x conditions {none, sip=, dip=, snet=, dnet=, snet|sip, snet&dip, dnet|dnet (thorough also proto=, sip|sip v4/v6, !dnet, dport|dip)}, thorough also {dport,proto | sip} x {none, snet=}; plus two specs whose time range lies two days after everything stored (the database contributes no day, the flows in memory must still be returned). Per case EVERY subset of the schedule's positions (before each step and at the end) carries a live query through the real QueryRunner with WithLiveData; rows are compared with a Go-map aggregation of stored blocks + in-memory flows under the condition's reference predicate; after a closing write-out a raw+time query over the database must equal the run without live queries and the reference blocks; non-trivial = live queries answered while flows were in memory, distinct by (stored/memory class, query, counts, condition)",
		Cases: func(t string) int { return len(c29Schedules(t)) * len(c29Specs(t)) * 4 },
		Bound: func(string) int { return 0 },
		Run:   c29Run, Setup: c29Setup, PanicSig: "panic",
		Assumptions: []string{
			"a live query that fails because the interface has no directory in the database yet is judged by scenario C29.first only; C29 continues the schedule after it",
			"one interface; live queries run between arrivals (arrival during a query's pause is C21's subject)",
			"time attribute is not part of live query specs (in-memory flows have no block time yet)",
			"database written by the real GoDBHandler with LZ4 on tmpfs",
		},
	})
}

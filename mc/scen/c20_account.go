package scen

import (
	"bytes"
	"context"
	"encoding/binary"
	"fmt"
	"net/netip"
	"os"
	"sort"
	"time"

	"github.com/els0r/goProbe/v4/pkg/capture"
	"github.com/els0r/goProbe/v4/pkg/capture/capturetypes"
	"github.com/els0r/goProbe/v4/pkg/goDB"
	"github.com/els0r/goProbe/v4/pkg/goDB/encoder/encoders"
	"github.com/els0r/goProbe/v4/pkg/goDB/engine"
	"github.com/els0r/goProbe/v4/pkg/goprobe/writeout"
	"github.com/els0r/goProbe/v4/pkg/types"
	"github.com/els0r/goProbe/v4/pkg/types/hashmap"

	"verifmc/explore"
	"verifmc/fixture"
)

// C20: captured traffic is fully accounted for across write-outs.
//
// History = sequence of packets from a small alphabet; after every packet 0, 1
// or 2 rotations. Packets go through the real ParsePacketV4/V6 and the real
// addToFlowLogV4/V6 of a fresh Capture; a rotation is the real FlowLog.Rotate /
// Capture.rotate. Scenario C20 checks, after every single step, the live flow
// log and every rotated flow map; scenario C20.db additionally hands the
// rotated maps to the real DBWriter.Write / writeout.GoDBHandler and reads the
// database back through the real query engine.
//
// Reference (written from the property statement): packets the parser accepts
// are attributed to their conversation (unordered endpoint pair + protocol)
// and, per interval, to the stored row of that conversation: addresses,
// protocol and the destination port of the documented key (source port
// aggregated away), in either orientation (orientation is C22's subject).
// Conversations that differ only in the client's source port share one row.

// ---------------------------------------------------------------- alphabet

type c20Key struct {
	v6       bool
	sip, dip [16]byte
	dport    uint16
	proto    byte
}

func (k c20Key) String() string {
	if k.v6 {
		return fmt.Sprintf("%s>%s:%d/%d", netip.AddrFrom16(k.sip), netip.AddrFrom16(k.dip), k.dport, k.proto)
	}
	return fmt.Sprintf("%s>%s:%d/%d", netip.AddrFrom4([4]byte(k.sip[:4])), netip.AddrFrom4([4]byte(k.dip[:4])), k.dport, k.proto)
}

func (k c20Key) reversedAddrs(o c20Key) bool {
	return k.v6 == o.v6 && k.proto == o.proto && k.sip == o.dip && k.dip == o.sip
}

type c20Pkt struct {
	name    string
	v6      bool
	ip      []byte // IP layer as handed over by the capture source
	pktType byte
	size    uint32
	parsed  bool // the reference expects the parser to accept it
	group   int  // stored row it belongs to (-1: ignored packet)
}

const (
	c20In        = 0 // slimcap capture.PacketThisHost
	c20Broadcast = 1 // slimcap capture.PacketBroadcast (inbound)
	c20Out       = 4 // slimcap capture.PacketOutgoing
)

var (
	c20A4, c20B4 = pkAddrV4[0][0], pkAddrV4[0][1]
	c20A6, c20B6 = pkAddrV6[0][0], pkAddrV6[0][1]
)

type c20Alphabet struct {
	pkts    []c20Pkt
	groups  []string       // group names
	allowed map[c20Key]int // stored key -> group
}

func c20K4(s, d [4]byte, dport uint16, proto byte) (k c20Key) {
	copy(k.sip[:], s[:])
	copy(k.dip[:], d[:])
	k.dport, k.proto = dport, proto
	return
}

func c20K6(s, d [16]byte, dport uint16, proto byte) c20Key {
	return c20Key{v6: true, sip: s, dip: d, dport: dport, proto: proto}
}

// add registers a packet src:sport -> dst:dport and the stored keys the
// documented key rule allows for it (pkRefPorts: reference from C19), in both
// orientations, under the named group.
func (a *c20Alphabet) add(name, group string, v6 bool, fromA bool, proto byte, sport, dport uint16, aux byte, pktType byte, size uint32) {
	gi := -1
	for i, g := range a.groups {
		if g == group {
			gi = i
		}
	}
	if gi < 0 {
		gi = len(a.groups)
		a.groups = append(a.groups, group)
	}
	buf := make([]byte, pkMaxLen)
	ks, constrained, kd, _ := pkRefPorts(proto, sport, dport)
	if !constrained {
		ks = sport // both ports are common service ports: both are kept
	}
	var fwd, rev c20Key
	if v6 {
		s, d := c20A6, c20B6
		if !fromA {
			s, d = d, s
		}
		pkBuildV6(buf, s, d, proto, sport, dport, aux)
		fwd, rev = c20K6(s, d, kd, proto), c20K6(d, s, ks, proto)
	} else {
		s, d := c20A4, c20B4
		if !fromA {
			s, d = d, s
		}
		pkBuildV4(buf, s, d, proto, [2]byte{0x40, 0}, sport, dport, aux)
		fwd, rev = c20K4(s, d, kd, proto), c20K4(d, s, ks, proto)
	}
	for _, k := range []c20Key{fwd, rev} {
		if g, ok := a.allowed[k]; ok && g != gi {
			panic(fmt.Sprintf("c20 alphabet: stored key %s is claimed by groups %s and %s", k, a.groups[g], group))
		}
		a.allowed[k] = gi
	}
	a.pkts = append(a.pkts, c20Pkt{name: name, v6: v6, ip: buf[:54:54], pktType: pktType, size: size, parsed: true, group: gi})
}

func (a *c20Alphabet) addIgnored(name string, v6 bool, ip []byte, pktType byte, size uint32) {
	a.pkts = append(a.pkts, c20Pkt{name: name, v6: v6, ip: ip, pktType: pktType, size: size, group: -1})
}

const (
	c20SYN    = 0x02
	c20ACK    = 0x10
	c20SYNACK = 0x12
)

func c20Build(thorough bool) *c20Alphabet {
	a := &c20Alphabet{allowed: map[c20Key]int{}}
	// v4 TCP, client A:40000 -> server B:8000 (no common port: the flow log keeps both ports)
	a.add("t4.syn>", "t4:8000", false, true, pkTCP, 40000, 8000, c20SYN, c20In, 60)
	a.add("t4.synack<", "t4:8000", false, false, pkTCP, 8000, 40000, c20SYNACK, c20Out, 52)
	a.add("t4.ack<", "t4:8000", false, false, pkTCP, 8000, 40000, c20ACK, c20Out, 1500)
	// same conversation from another client port: differs only in the source port
	a.add("t4'.ack>", "t4:8000", false, true, pkTCP, 40001, 8000, c20ACK, c20In, 41)
	// same hosts, other destination port: a different row
	// (reported length 0: a flow whose packets carry no bytes still has traffic - packets - in its interval)
	a.add("t4.8001.ack>", "t4:8001", false, true, pkTCP, 40002, 8001, c20ACK, c20In, 0)
	// v4 DNS: common service port, the parser drops the client port already
	a.add("u4.dns>", "u4:53", false, true, pkUDP, 50000, 53, 0, c20In, 70)
	a.add("u4.dns<", "u4:53", false, false, pkUDP, 53, 50000, 0, c20Out, 130)
	// v6 TCP towards 443, this host is the client
	a.add("t6.syn>", "t6:443", true, true, pkTCP, 45000, 443, c20SYN, c20Out, 80)
	a.add("t6.synack<", "t6:443", true, false, pkTCP, 443, 45000, c20SYNACK, c20In, 1<<32-1)
	// v6 TCP from a LOWER (non-common) source port to a higher port: the first packet is classified
	// "direction remains" although the port heuristic alone would reverse it; a repeated SYN and a later
	// packet from the same side must still hit the same record
	a.add("t6lo.syn>", "t6lo:40000", true, true, pkTCP, 1000, 40000, c20SYN, c20In, 66)
	a.add("t6lo.ack>", "t6lo:40000", true, true, pkTCP, 1000, 40000, c20ACK, c20In, 67)
	// ESP: no ports, no direction hint
	a.add("esp4>", "esp4", false, true, pkESP, 0x1234, 0x5678, 0, c20In, 120)
	a.add("esp4<", "esp4", false, false, pkESP, 0x9abc, 0xdef0, 0, c20Out, 136)
	// non-first fragment: ignored by the parser, contributes nothing
	frag := make([]byte, pkMaxLen)
	pkBuildV4(frag, c20A4, c20B4, pkUDP, [2]byte{0x20, 0xb9}, 50000, 53, 0)
	a.addIgnored("frag4", false, frag[:54:54], c20In, 1400)
	if !thorough {
		return a
	}
	a.add("t4.ack>", "t4:8000", false, true, pkTCP, 40000, 8000, c20ACK, c20In, 40)
	a.add("u4'.dns>", "u4:53", false, true, pkUDP, 50001, 53, 0, c20In, 71)
	a.add("i6.echo>", "i6", true, true, pkICMPv6, 0, 0, 0x80, c20In, 104)
	a.add("i6.reply<", "i6", true, false, pkICMPv6, 0, 0, 0x81, c20Out, 105)
	a.add("i4.echo>", "i4", false, true, pkICMP, 0, 0, 8, c20Broadcast, 84)
	a.add("i4.reply<", "i4", false, false, pkICMP, 0, 0, 0, c20Out, 85)
	a.add("u6.eph>", "u6:40000", true, true, pkUDP, 50000, 40000, 0, c20In, 300)
	a.add("u6.eph<", "u6:40000", true, false, pkUDP, 40000, 50000, 0, c20Out, 301)
	trunc := make([]byte, pkMaxLen)
	pkBuildV6(trunc, c20A6, c20B6, pkTCP, 45000, 443, c20ACK)
	a.addIgnored("trunc6", true, trunc[:45:45], c20Out, 900)
	return a
}

var c20Alphabets = map[bool]*c20Alphabet{}

func c20Alpha(thorough bool) *c20Alphabet {
	if a, ok := c20Alphabets[thorough]; ok {
		return a
	}
	a := c20Build(thorough)
	c20Alphabets[thorough] = a
	return a
}

// ---------------------------------------------------------------- observation

type c20Row struct {
	k c20Key
	c types.Counters
}

func c20KeyOf(k types.Key) (out c20Key) {
	out.v6 = !k.IsIPv4()
	copy(out.sip[:], k.GetSIP())
	copy(out.dip[:], k.GetDIP())
	out.dport = binary.BigEndian.Uint16(k.GetDport())
	out.proto = k.GetProto()
	return
}

// c20RowsOfAgg lists the rows of a rotated flow map through its real iterators.
func c20RowsOfAgg(agg *hashmap.AggFlowMap) (rows []c20Row) {
	if agg == nil {
		return nil
	}
	for _, m := range []*hashmap.Map{agg.PrimaryMap, agg.SecondaryMap} {
		if m == nil {
			continue
		}
		for it := m.Iter(); it.Next(); {
			rows = append(rows, c20Row{c20KeyOf(types.Key(it.Key())), it.Val()})
		}
	}
	return
}

// c20LiveRow is one flow-log entry: its key without the source-port bytes
// (EPHash layout documented in capturetypes/packet.go: sip|sport|dip|dport|proto).
type c20LiveRow struct {
	raw string
	k   c20Key
	c   types.Counters
}

func c20Live(fl *capture.FlowLog, rows []c20LiveRow, sorted bool) []c20LiveRow {
	rows = rows[:0]
	for k, f := range fl.FlowsV4() {
		var s, d [4]byte
		copy(s[:], k[0:4])
		copy(d[:], k[6:10])
		rows = append(rows, c20LiveRow{k, c20K4(s, d, uint16(k[10])<<8|uint16(k[11]), k[12]), types.Counters(*f)})
	}
	for k, f := range fl.FlowsV6() {
		var s, d [16]byte
		copy(s[:], k[0:16])
		copy(d[:], k[18:34])
		rows = append(rows, c20LiveRow{k, c20K6(s, d, uint16(k[34])<<8|uint16(k[35]), k[36]), types.Counters(*f)})
	}
	if sorted {
		sort.Slice(rows, func(i, j int) bool { return rows[i].raw < rows[j].raw })
	}
	return rows
}

func c20PutCounters(b *bytes.Buffer, c types.Counters) {
	var t [32]byte
	binary.BigEndian.PutUint64(t[0:], c.BytesRcvd)
	binary.BigEndian.PutUint64(t[8:], c.BytesSent)
	binary.BigEndian.PutUint64(t[16:], c.PacketsRcvd)
	binary.BigEndian.PutUint64(t[24:], c.PacketsSent)
	b.Write(t[:])
}

func (k c20Key) put(b *bytes.Buffer) {
	if k.v6 {
		b.WriteByte(6)
	} else {
		b.WriteByte(4)
	}
	b.Write(k.sip[:])
	b.Write(k.dip[:])
	b.WriteByte(byte(k.dport >> 8))
	b.WriteByte(byte(k.dport))
	b.WriteByte(k.proto)
}

func (k c20Key) less(o c20Key) bool {
	if k.v6 != o.v6 {
		return !k.v6
	}
	if c := bytes.Compare(k.sip[:], o.sip[:]); c != 0 {
		return c < 0
	}
	if c := bytes.Compare(k.dip[:], o.dip[:]); c != 0 {
		return c < 0
	}
	if k.dport != o.dport {
		return k.dport < o.dport
	}
	return k.proto < o.proto
}

// c20CanonRows appends the canonical form of one block (rows sorted by key).
func c20CanonRows(b *bytes.Buffer, rows []c20Row) {
	sort.Slice(rows, func(i, j int) bool { return rows[i].k.less(rows[j].k) })
	for _, r := range rows {
		r.k.put(b)
		c20PutCounters(b, r.c)
	}
	b.WriteByte(0xfe)
}

func c20Zero(c types.Counters) bool { return c == types.Counters{} }

func c20Geq(a, b types.Counters) bool {
	return a.BytesRcvd >= b.BytesRcvd && a.BytesSent >= b.BytesSent && a.PacketsRcvd >= b.PacketsRcvd && a.PacketsSent >= b.PacketsSent
}

// ---------------------------------------------------------------- oracle

// c20CheckBlock compares the rows written for one interval with the traffic
// the reference attributes to that interval (per stored row).
func c20CheckBlock(x *explore.Ctx, a *c20Alphabet, where, what string, hist []byte, rows []c20Row, ref []types.Counters) (bothDirs bool, ok bool) {
	var seenBuf [16]*c20Row
	seen := seenBuf[:len(a.groups)]
	for i := range rows {
		r := &rows[i]
		g, known := a.allowed[r.k]
		if !known {
			x.Fail(where+":unexpected-row", "history%s, %s: row %s %+v is not the stored key (addresses, destination port, protocol) of any conversation of the history", hist, what, r.k, r.c)
			return
		}
		if c20Zero(r.c) || r.c.PacketsRcvd+r.c.PacketsSent == 0 {
			x.Fail(where+":idle-flow-written", "history%s, %s: row %s is written with no packets %+v", hist, what, r.k, r.c)
			return
		}
		if c20Zero(ref[g]) {
			x.Fail(where+":idle-flow-written", "history%s, %s: row %s %+v is written although conversation %s had no traffic in this interval", hist, what, r.k, r.c, a.groups[g])
			return
		}
		if o := seen[g]; o != nil {
			if o.k.reversedAddrs(r.k) {
				x.Fail(where+":directions-in-two-records", "history%s, %s: conversation %s is stored in two records, %s %+v and %s %+v", hist, what, a.groups[g], o.k, o.c, r.k, r.c)
			} else {
				x.Fail(where+":source-port-not-aggregated", "history%s, %s: conversation %s (flows differing only in the source port) is stored in two records, %s %+v and %s %+v", hist, what, a.groups[g], o.k, o.c, r.k, r.c)
			}
			return
		}
		seen[g] = r
	}
	for g, want := range ref {
		r := seen[g]
		switch {
		case c20Zero(want):
			continue
		case r == nil:
			x.Fail(where+":traffic-lost", "history%s, %s: conversation %s had traffic %+v in this interval, no row was written for it", hist, what, a.groups[g], want)
			return
		case r.c == want:
		case c20Geq(want, r.c):
			x.Fail(where+":traffic-lost", "history%s, %s: row %s holds %+v, the packets of conversation %s in this interval add up to %+v", hist, what, r.k, r.c, a.groups[g], want)
			return
		case c20Geq(r.c, want):
			x.Fail(where+":traffic-double-counted", "history%s, %s: row %s holds %+v, the packets of conversation %s in this interval add up to %+v", hist, what, r.k, r.c, a.groups[g], want)
			return
		default:
			x.Fail(where+":counters", "history%s, %s: row %s holds %+v, the packets of conversation %s in this interval add up to %+v", hist, what, r.k, r.c, a.groups[g], want)
			return
		}
		if want.PacketsRcvd > 0 && want.PacketsSent > 0 {
			bothDirs = true
		}
	}
	return bothDirs, true
}

// ---------------------------------------------------------------- driver

const (
	c20Base   = dayB - 900 // third rotation crosses midnight
	c20Iface  = "eth0"
	c20MaxRot = 2
)

const (
	c20ClsBoth    = 1 << iota // a written row holds both directions of a conversation
	c20ClsMerge               // a written row aggregates flow-log entries that differ in the source port
	c20ClsIdle                // a rotation met a flow without traffic (kept, not written)
	c20ClsPrune               // a rotation dropped a flow that had been idle for a whole interval
	c20ClsReuse               // a packet hit a flow-log entry that was reset by a rotation
	c20ClsIgnored             // an ignored packet (fragment / truncated) was offered
	c20ClsEmpty               // an empty block was written
)

type c20Cfg struct {
	withDB bool
	length func(thorough bool) int
}

type c20Block struct {
	ts   int64
	agg  *hashmap.AggFlowMap
	rows []c20Row
}

func c20Run(cfg c20Cfg) func(x *explore.Ctx) {
	return func(x *explore.Ctx) {
		a := c20Alpha(x.Thorough())
		np := len(a.pkts)
		L := cfg.length(x.Thorough())
		viaHandler := cfg.withDB && x.Case%2 == 1 // odd cases: Capture.rotate + writeout.GoDBHandler
		caseIdx := x.Case
		if cfg.withDB {
			caseIdx /= 2
		}
		firstPkt, firstRot := caseIdx/(c20MaxRot+1), caseIdx%(c20MaxRot+1)

		c := capture.VerifNewCapture(c20Iface)
		fl := c.VerifFlowLog()
		ctx := context.Background()

		refCur := make([]types.Counters, len(a.groups)) // traffic since the last rotation, per stored row
		var refIntervals [][]types.Counters             // per rotation
		var parsedTotal, writtenTotal types.Counters
		var blocks []c20Block
		var cls uint64
		var canon, blocksCanon bytes.Buffer
		var liveBuf []c20LiveRow
		hist := make([]byte, 0, 96)

		prevPi := byte(0xff)
		for step := 0; step < L; step++ {
			pi, nrot := firstPkt, firstRot
			if step > 0 {
				pi = x.Choose(np, c20PktLabels[step])
				nrot = x.Choose(c20MaxRot+1, c20RotLabels[step])
			}
			checked := !x.Inherited() // otherwise the parent execution made and checked this very step
			lastPi := prevPi
			prevPi = byte(pi)
			p := &a.pkts[pi]
			hist = append(append(hist, ' '), p.name...)

			// ---- the packet, through the real parser and the real flow-log update
			var errno capturetypes.ParsingErrno
			hitReset := false
			if p.v6 {
				h, aux, e := capture.ParsePacketV6(p.ip)
				if errno = e; e == capturetypes.ErrnoOK {
					hitReset = c20HitsReset(fl.FlowsV6(), string(h[:]), func() string { r := h.Reverse(); return string(r[:]) })
					c.VerifAddToFlowLogV6(h, p.pktType, p.size, aux)
				}
			} else {
				h, aux, e := capture.ParsePacketV4(p.ip)
				if errno = e; e == capturetypes.ErrnoOK {
					hitReset = c20HitsReset(fl.FlowsV4(), string(h[:]), func() string { r := h.Reverse(); return string(r[:]) })
					c.VerifAddToFlowLogV4(h, p.pktType, p.size, aux)
				}
			}
			x.Transition()
			if (errno == capturetypes.ErrnoOK) != p.parsed {
				x.Fail("alphabet-packet-classification", "packet %s: parser returned errno %d, the alphabet expects parsed=%v", p.name, errno, p.parsed)
				return
			}
			if p.parsed {
				add := types.Counters{BytesRcvd: uint64(p.size), PacketsRcvd: 1}
				if p.pktType == c20Out {
					add = types.Counters{BytesSent: uint64(p.size), PacketsSent: 1}
				}
				refCur[p.group].Add(add)
				parsedTotal.Add(add)
				if hitReset {
					cls |= c20ClsReuse
				}
			} else {
				cls |= c20ClsIgnored
			}
			if x.Logging() {
				x.Logf("step %d: packet %s (type %d, %d bytes, errno %d) -> %d flows", step, p.name, p.pktType, p.size, errno, fl.Len())
			}
			if checked {
				liveBuf = c20Live(fl, liveBuf, false)
				if !c20CheckLive(x, a, hist, liveBuf, refCur, parsedTotal, writtenTotal) {
					return
				}
			}

			// ---- rotations
			for r := 0; r < nrot; r++ {
				idle, lenBefore := 0, fl.Len()
				for _, f := range fl.FlowsV4() {
					if c20Zero(types.Counters(*f)) {
						idle++
					}
				}
				for _, f := range fl.FlowsV6() {
					if c20Zero(types.Counters(*f)) {
						idle++
					}
				}
				var agg *hashmap.AggFlowMap
				if viaHandler {
					agg = c.VerifRotate(ctx)
				} else {
					agg, _ = fl.Rotate()
				}
				x.Transition()
				rows := c20RowsOfAgg(agg)
				ts := c20Base + 300*int64(len(blocks)+1)
				hist = append(hist, " |"...)
				if x.Logging() {
					x.Logf("step %d: rotation %d -> block @%d with %d rows %v, %d flows kept", step, len(blocks)+1, ts, len(rows), rows, fl.Len())
				}
				if idle > 0 {
					cls |= c20ClsIdle
					if fl.Len() < lenBefore {
						cls |= c20ClsPrune
					}
				}
				if len(rows) == 0 {
					cls |= c20ClsEmpty
				}
				if len(rows) < lenBefore-idle {
					cls |= c20ClsMerge
				}
				if checked {
					both, ok := c20CheckBlock(x, a, "block", "rotated flow map", hist, rows, refCur)
					if !ok {
						return
					}
					if both {
						cls |= c20ClsBoth
					}
				}
				for _, rw := range rows {
					writtenTotal.Add(rw.c)
				}
				blk := c20Block{ts: ts, rows: rows}
				if cfg.withDB {
					blk.agg = agg
					refIntervals = append(refIntervals, refCur)
					refCur = make([]types.Counters, len(a.groups))
				} else {
					clear(refCur)
				}
				blocks = append(blocks, blk)
				c20CanonRows(&blocksCanon, rows)
				if checked {
					liveBuf = c20Live(fl, liveBuf, false)
					if !c20CheckLive(x, a, hist, liveBuf, refCur, parsedTotal, writtenTotal) {
						return
					}
				}
			}
			if !checked {
				continue
			}

			// ---- canonical state: position, flow-log content, written blocks
			liveBuf = c20Live(fl, liveBuf, true)
			canon.Reset()
			canon.WriteByte(byte(step))
			// the flow log alone is not the whole state of every plausible implementation: anything that
			// remembers the most recent packet or flow (a lookup cache) survives rotations. The identities of the
			// last two packets are part of the key, so that histories are merged only if they also end alike.
			canon.WriteByte(byte(pi))
			canon.WriteByte(lastPi)
			for _, lr := range liveBuf {
				canon.WriteString(lr.raw)
				c20PutCounters(&canon, lr.c)
			}
			canon.WriteByte(0xff)
			if cfg.withDB {
				// the database depends on the whole block list: it is part of the expansion key
				canon.Write(blocksCanon.Bytes())
				if step < L-1 && x.Seen(canon.Bytes()) {
					return
				}
				if step == L-1 {
					x.State(canon.Bytes())
				}
				continue
			}
			// Written blocks are immutable and were verified when they were rotated out;
			// what the code and the oracle do from here on depends on the flow log and
			// the position only, so that pair is the state and is expanded once.
			if step < L-1 && x.Seen(canon.Bytes()) {
				return
			}
			if step == L-1 {
				x.State(canon.Bytes())
				canon.Write(blocksCanon.Bytes()) // outcome = final flow log + everything written
			}
		}

		// ---- the database
		if cfg.withDB && len(blocks) > 0 {
			if !c20CheckDB(x, a, string(hist), viaHandler, blocks, refIntervals, writtenTotal) {
				return
			}
		}
		h := hash64c20(canon.Bytes())
		x.Obs("%x", h)
		if cls&^c20ClsIgnored != 0 {
			x.NontrivialKey(h ^ cls<<56)
		}
	}
}

func hash64c20(b []byte) uint64 {
	h := uint64(14695981039346656037)
	for _, c := range b {
		h = (h ^ uint64(c)) * 1099511628211
	}
	return h
}

// c20HitsReset reports whether the packet's flow-log entry (either direction)
// exists with all counters zero, i.e. was kept by a rotation.
func c20HitsReset(m map[string]*capture.Flow, fwd string, rev func() string) bool {
	if f, ok := m[fwd]; ok {
		return c20Zero(types.Counters(*f))
	}
	if f, ok := m[rev()]; ok {
		return c20Zero(types.Counters(*f))
	}
	return false
}

func c20MergedRows(activeFlows, rows int) bool { return rows < activeFlows }

// c20CheckLive: the flows in memory hold exactly the traffic since the last
// rotation, and written + in-memory = parsed.
func c20CheckLive(x *explore.Ctx, a *c20Alphabet, hist []byte, liveRows []c20LiveRow, refCur []types.Counters, parsed, written types.Counters) bool {
	var gotBuf [16]types.Counters
	got := gotBuf[:len(a.groups)]
	var live types.Counters
	for _, lr := range liveRows {
		g, ok := a.allowed[lr.k]
		if !ok {
			x.Fail("live:unexpected-flow", "after%s: flow-log entry %x (stored key %s) %+v belongs to no conversation of the history", hist, lr.raw, lr.k, lr.c)
			return false
		}
		got[g].Add(lr.c)
		live.Add(lr.c)
	}
	for g := range got {
		if got[g] != refCur[g] {
			x.Fail("live:counters", "after%s: flow log holds %+v for conversation %s, packets since the last rotation add up to %+v", hist, got[g], a.groups[g], refCur[g])
			return false
		}
	}
	sum := written
	sum.Add(live)
	if sum != parsed {
		x.Fail("conservation", "after%s: written blocks %+v + flow log %+v != parsed packets %+v", hist, written, live, parsed)
		return false
	}
	return true
}

// ---------------------------------------------------------------- database part

// c20DBVerified remembers block lists whose database round trip was already
// verified in this worker process: the database content is a function of the
// ordered list of (timestamp, rows) handed to the writer only.
var c20DBVerified = map[[2]uint64]bool{}

func c20CheckDB(x *explore.Ctx, a *c20Alphabet, hist string, viaHandler bool, blocks []c20Block, refIntervals [][]types.Counters, writtenTotal types.Counters) bool {
	var canon bytes.Buffer
	for _, b := range blocks {
		c20CanonRows(&canon, b.rows)
	}
	memo := [2]uint64{hash64c20(canon.Bytes()), uint64(len(blocks)) << 1}
	if viaHandler {
		memo[1] |= 1
	}
	if c20DBVerified[memo] {
		return true
	}
	dir := fixture.NewDir()
	defer os.RemoveAll(dir)
	if viaHandler {
		h := writeout.NewGoDBHandler(dir, encoders.EncoderTypeLZ4)
		for _, b := range blocks {
			ch := make(chan capturetypes.TaggedAggFlowMap, 1)
			done := h.HandleWriteout(context.Background(), time.Unix(b.ts, 0), ch)
			ch <- capturetypes.TaggedAggFlowMap{Map: b.agg, Iface: c20Iface}
			close(ch)
			<-done
			x.Transition()
		}
	} else {
		w := goDB.NewDBWriter(dir, c20Iface, encoders.EncoderTypeLZ4)
		for _, b := range blocks {
			if err := w.Write(b.agg, capturetypes.CaptureStats{}, b.ts); err != nil {
				x.Fail("db:write-error", "history%s: DBWriter.Write of block @%d failed: %v", hist, b.ts, err)
				return false
			}
			x.Transition()
		}
	}
	res, err := fixture.RunQuery(dir, "sip,dip,dport,proto,time", c20Iface, "", c20Base, c20Base+300*int64(len(blocks)+2), false)
	x.Transition()
	if err != nil {
		x.Fail("db:query-error", "history%s: querying the database failed: %v", hist, err)
		return false
	}
	got, dup := fixture.RowsOf(res)
	if dup != nil {
		x.Fail("db:directions-in-two-records", "history%s: the database returns group %s twice", hist, dup)
		return false
	}
	byTS := map[int64][]c20Row{}
	var dbTotal types.Counters
	for k, cnt := range got {
		r := fixture.Rec{SIP: k.SIP, DIP: k.DIP, Dport: k.Dport, Proto: k.Proto}
		byTS[k.TS] = append(byTS[k.TS], c20Row{c20KeyOf(r.Key()), cnt})
		dbTotal.Add(cnt)
	}
	for i, b := range blocks {
		rows := byTS[b.ts]
		delete(byTS, b.ts)
		if _, ok := c20CheckBlock(x, a, "db", fmt.Sprintf("database block %d @%d", i+1, b.ts), []byte(hist), rows, refIntervals[i]); !ok {
			return false
		}
	}
	for ts, rows := range byTS {
		x.Fail("db:unexpected-block", "history%s: the database holds rows %v at %d, no write-out happened then", hist, rows, ts)
		return false
	}
	if dbTotal != writtenTotal || res.Summary.Totals != writtenTotal {
		x.Fail("db:conservation", "history%s: database rows add up to %+v (query totals %+v), rotated flow maps to %+v", hist, dbTotal, res.Summary.Totals, writtenTotal)
		return false
	}
	c20DBVerified[memo] = true
	return true
}

var c20PktLabels, c20RotLabels = func() (p, r []string) {
	for i := 0; i < 16; i++ {
		p = append(p, fmt.Sprintf("packet@%d", i))
		r = append(r, fmt.Sprintf("rotations-after@%d", i))
	}
	return
}()

func c20Cases(withDB bool) func(string) int {
	return func(t string) int {
		n := len(c20Alpha(t == "thorough").pkts) * (c20MaxRot + 1)
		if withDB {
			n *= 2
		}
		return n
	}
}

const c20Rule = "history = packet sequence over the alphabet (quick 12: v4 TCP SYN / SYN-ACK / ACK both directions, the same conversation from a second client port, same hosts other destination port, v4 DNS request / response, v6 TCP-443 SYN outbound / SYN-ACK inbound with a 2^32-1 byte packet, ESP both directions, a non-first fragment; thorough 21: + mid-stream ACK, DNS from a second client port, ICMPv6 and ICMP echo / reply (broadcast packet type), v6 UDP between two ephemeral ports, a truncated v6 TCP packet), 0, 1 or 2 rotations after every packet; case = first packet x rotations after it; every packet through the real ParsePacketV4/V6 + addToFlowLogV4/V6 of a fresh Capture, every rotation through the real FlowLog.Rotate; "

func init() {
	register("C20", &explore.Scenario{
		ID: "C20", Name: "flow log + rotation vs per-conversation accounting, every step", Level: "model_checking",
		Rule:  c20Rule + "all histories of 4 (thorough 6) packets; after every packet and every rotation: per conversation the flow log holds exactly the packets since the last rotation, every rotated map has exactly one row per conversation with traffic in the interval (flows differing only in source port share it, both directions in it, other destination port separate), counters per direction equal, nothing for idle flows, written + in memory = parsed. state = (position, the last two packets, flow-log entries with counters, rows of all written blocks), explored once; non-trivial = histories that wrote a two-direction row, merged source ports, kept / pruned / re-used an idle flow or wrote an empty block, distinct by final state",
		Cases: c20Cases(false),
		Bound: func(string) int { return 0 },
		Run: c20Run(c20Cfg{length: func(th bool) int {
			if th {
				return 6
			}
			return 4
		}}),
		PanicSig: "panic",
		Assumptions: []string{"one interface; packets are 54-byte IP layers with IHL=5 / no extension headers (parser coverage is C19's subject)",
			"stored-row orientation is not judged (C22): either orientation of the documented key is accepted, but one conversation must be one row",
			"equal (position, flow-log content, written blocks) are expanded once: Capture.addToFlowLog and FlowLog.Rotate read and write nothing else"},
	})
	register("C20.db", &explore.Scenario{
		ID: "C20", Name: "rotated flow maps through DBWriter / GoDBHandler, read back with the query engine", Level: "model_checking",
		Rule:  c20Rule + "all histories of 2 (thorough 3) packets with the same step-wise checks; even cases hand every rotated map to the real DBWriter.Write, odd cases rotate with Capture.rotate (nil map for an empty flow log) and write through the real writeout.GoDBHandler; at the end the database is queried with the real engine (sip,dip,dport,proto,time): per write-out timestamp the rows must satisfy the same per-conversation oracle, no other timestamps, totals = rotated maps, and database + flow log = parsed packets. The database round trip is executed once per distinct ordered block list per worker process",
		Cases: c20Cases(true),
		Bound: func(string) int { return 0 },
		Run: c20Run(c20Cfg{withDB: true, length: func(th bool) int {
			if th {
				return 3
			}
			return 2
		}}),
		Setup:    func(string) { engine.VerifSetNumProcessingUnits(1) },
		PanicSig: "panic",
		Assumptions: []string{"write-outs are performed after the last packet in history order: DBWriter and Capture share no state",
			"lz4 encoder, one interface, write-out timestamps 5 minutes apart crossing one midnight; query worker count pinned to 1"},
	})
}

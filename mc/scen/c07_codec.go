package scen

import (
	"bufio"
	"bytes"
	"encoding/json"
	"fmt"
	"io"
	"os"
	"os/exec"
	"reflect"
	"runtime/debug"
	"strings"
	"sync"
	"sync/atomic"
	"time"

	"github.com/els0r/goProbe/v4/pkg/goDB/encoder"
	"github.com/els0r/goProbe/v4/pkg/goDB/encoder/encoders"
	"github.com/els0r/goProbe/v4/pkg/goDB/encoder/lz4"
	"github.com/els0r/goProbe/v4/pkg/goDB/encoder/zstd"

	"verifmc/explore"
)

// C07: every compressor restores exactly the bytes it was given, and the byte
// count it reports equals the number of bytes it emitted — for every encoder,
// every level, input contents/length and caller scratch buffer, in each of the
// four compression build configurations.
//
// The same Run is registered under four keys "C07.cgo", "C07.nocgo",
// "C07.noliblz4", "C07.nolibzstd"; the driver runs each key inside the worker
// binary of that build configuration (key suffix = build config). The binary
// knows its own configuration from build-tag guarded files (c07_tag_*.go) and
// cross-checks it against the Go build info and against the encoder
// implementations that were really linked.
//
// Case = (encoder, level) x content class. Inside a case, free choices:
// input length x scratch buffer (len,cap) x encoder freshness.

// ---- build configuration self-knowledge ------------------------------------------------------

var c07TagCgo, c07TagNoLibLZ4, c07TagNoLibZSTD bool // set by c07_tag_*.go

type c07Build struct {
	cfg                   string // cgo | nocgo | noliblz4 | nolibzstd | other
	lz4Native, zstdNative bool
	err                   string
}

var (
	c07BuildOnce sync.Once
	c07BuildInfo c07Build
)

func c07DetectBuild() c07Build {
	c07BuildOnce.Do(func() {
		b := &c07BuildInfo
		switch {
		case !c07TagCgo && !c07TagNoLibLZ4 && !c07TagNoLibZSTD:
			b.cfg = "nocgo"
		case c07TagCgo && !c07TagNoLibLZ4 && !c07TagNoLibZSTD:
			b.cfg = "cgo"
		case c07TagCgo && c07TagNoLibLZ4 && !c07TagNoLibZSTD:
			b.cfg = "noliblz4"
		case c07TagCgo && !c07TagNoLibLZ4 && c07TagNoLibZSTD:
			b.cfg = "nolibzstd"
		default:
			b.cfg = fmt.Sprintf("other(cgo=%v,noliblz4=%v,nolibzstd=%v)", c07TagCgo, c07TagNoLibLZ4, c07TagNoLibZSTD)
		}
		// what the build constraints of the encoder packages select for these tags
		b.lz4Native = !c07TagCgo || c07TagNoLibLZ4
		b.zstdNative = !c07TagCgo || c07TagNoLibZSTD

		// 1. the Go build info must agree with the tag files
		if bi, ok := debug.ReadBuildInfo(); ok {
			cgoSetting, tags, haveCgo := "", "", false
			for _, s := range bi.Settings {
				switch s.Key {
				case "CGO_ENABLED":
					cgoSetting, haveCgo = s.Value, true
				case "-tags":
					tags = s.Value
				}
			}
			if haveCgo && (cgoSetting == "1") != c07TagCgo {
				b.err = fmt.Sprintf("build info CGO_ENABLED=%s disagrees with cgo tag file (%v)", cgoSetting, c07TagCgo)
				return
			}
			hasTag := func(t string) bool {
				for _, f := range strings.FieldsFunc(tags, func(r rune) bool { return r == ',' || r == ' ' }) {
					if f == t {
						return true
					}
				}
				return false
			}
			if hasTag("goprobe_noliblz4") != c07TagNoLibLZ4 || hasTag("goprobe_nolibzstd") != c07TagNoLibZSTD {
				b.err = fmt.Sprintf("build info -tags=%q disagrees with tag files (noliblz4=%v nolibzstd=%v)", tags, c07TagNoLibLZ4, c07TagNoLibZSTD)
				return
			}
		}

		// 2. the zstd implementation really linked: the cgo Encoder holds C contexts
		//    (cCtx/dCtx), the native one holds klauspost encoder/decoder objects.
		zt := reflect.TypeOf(zstd.Encoder{})
		_, hasC := zt.FieldByName("cCtx")
		_, hasN := zt.FieldByName("encoder")
		if hasC == hasN {
			b.err = "cannot tell which zstd implementation is linked (Encoder struct changed)"
			return
		}
		if hasN != b.zstdNative {
			b.err = fmt.Sprintf("zstd implementation linked is native=%v, build tags say native=%v", hasN, b.zstdNative)
			return
		}

		// 3. the lz4 implementation really linked: both reject a truncated block, the
		//    cgo one reports liblz4's numeric code ("errno"), the native one wraps a Go error.
		_, err := lz4.New().Decompress([]byte{0x10}, make([]byte, 8), &c07Reader{b: []byte{0x10}})
		if err == nil {
			b.err = "lz4 probe: truncated block was accepted, cannot tell the implementation"
			return
		}
		isCgo := strings.Contains(err.Error(), "errno")
		if isCgo == b.lz4Native {
			b.err = fmt.Sprintf("lz4 implementation linked answers %q (cgo=%v), build tags say native=%v", err.Error(), isCgo, b.lz4Native)
			return
		}
	})
	return c07BuildInfo
}

// ---- alphabets -----------------------------------------------------------------------------

type c07EncLevel struct {
	typ   encoders.Type
	level int
}

func c07EncLevels(tier string) []c07EncLevel {
	out := []c07EncLevel{{encoders.EncoderTypeNull, 0}}
	if tier == "thorough" {
		for l := 0; l <= lz4.MaxCompressionLevel; l++ {
			out = append(out, c07EncLevel{encoders.EncoderTypeLZ4, l})
		}
		for l := 0; l <= zstd.MaxCompressionLevel; l++ {
			out = append(out, c07EncLevel{encoders.EncoderTypeZSTD, l})
		}
		return out
	}
	// quick: lowest, first, default and highest level; for zstd additionally 3 so that
	// every bucket of the native level mapping (<3, 3-5, 6-9, >=10) is hit.
	for _, l := range []int{0, 1, 6, lz4.MaxCompressionLevel} {
		out = append(out, c07EncLevel{encoders.EncoderTypeLZ4, l})
	}
	for _, l := range []int{0, 1, 3, 6, zstd.MaxCompressionLevel} {
		out = append(out, c07EncLevel{encoders.EncoderTypeZSTD, l})
	}
	return out
}

var c07Classes = []string{"zeros", "period-2", "counter", "lcg-random", "bitpacked-like", "half-random-half-zero", "4-symbol-skewed", "far-repeat"}

// lengths: around the small-input thresholds of the block formats (lz4: 5/12/13
// bytes, 15/16 literal-length escape, 255/256 length bytes), around gpfile's 4 KiB
// bufio and 8 KiB scratch sizes, the 64 KiB lz4 window, the 128 KiB zstd block,
// and "several hundred KiB".
var c07LengthsQuick = []int{0, 1, 3, 8, 13, 15, 16, 64, 255, 256, 4096, 4097, 8192, 8193, 16383, 65535, 65536, 65537, 1048577}
var c07LengthsThorough = []int{0, 1, 2, 3, 7, 8, 12, 13, 15, 16, 63, 64, 65, 255, 256, 4095, 4096, 4097, 8191, 8192, 8193, 16284, 16383, 16384, 16385, 65535, 65536, 65537, 131071, 131072, 131073, 300000, 1048576, 1048577, 2100000}

// c07XL: lengths above it (beyond 1 MiB windows) are combined with two scratch buffers only.
const c07XL = 1 << 20

func c07Lengths(thorough bool) []int {
	if thorough {
		return c07LengthsThorough
	}
	return c07LengthsQuick
}

type c07Scratch struct {
	name   string
	isNil  bool
	ln, cp func(b int) int // b = worst-case compressed size for the input
	relLen int             // != 0: empty buffer whose capacity is the INPUT length + relLen (larger than the input, smaller than the bound)
}

func c07K(k int) func(int) int { return func(int) int { return k } }

// the first c07ScratchesQuick entries form the quick tier
var c07Scratches = []c07Scratch{
	{name: "nil", isNil: true},
	{name: "(0,0)", ln: c07K(0), cp: c07K(0)},
	{name: "(0,64)", ln: c07K(0), cp: c07K(64)},
	{name: "(0,bound)", ln: c07K(0), cp: func(b int) int { return b }},
	{name: "(8192,8192)", ln: c07K(8192), cp: c07K(8192)},
	{name: "(8192,16384) as gpfile", ln: c07K(8192), cp: c07K(16384)},
	{name: "(1,bound+1)", ln: c07K(1), cp: func(b int) int { return b + 1 }},
	{name: "(0,len+8)", relLen: 8},
	{name: "(0,bound-1)", ln: c07K(0), cp: func(b int) int { return max(b-1, 0) }},
	{name: "(bound,bound)", ln: func(b int) int { return b }, cp: func(b int) int { return b }},
	{name: "(bound+100,2*bound+200)", ln: func(b int) int { return b + 100 }, cp: func(b int) int { return 2*b + 200 }},
	{name: "(0,4*bound+8192)", ln: c07K(0), cp: func(b int) int { return 4*b + 8192 }},
}

const c07ScratchesQuick = 8

func c07NumScratches(thorough bool) int {
	if thorough {
		return len(c07Scratches)
	}
	return c07ScratchesQuick
}

// c07Bound is the documented worst-case compressed size of the format (only used
// to place scratch-buffer capacities next to the reallocation threshold; no oracle
// depends on it).
func c07Bound(t encoders.Type, n int) int {
	switch t {
	case encoders.EncoderTypeLZ4:
		return n + n/255 + 16
	case encoders.EncoderTypeZSTD:
		b := n + n>>8
		if n < 128<<10 {
			b += (128<<10 - n) >> 11
		}
		return b
	}
	return n
}

func c07Gen(class, n int) []byte {
	d := make([]byte, n)
	lcg := uint64(0x2545F4914F6CDD1D) + uint64(class)*977
	next := func() uint64 { lcg = lcg*6364136223846793005 + 1442695040888963407; return lcg >> 33 }
	switch class {
	case 0: // zeros
	case 1:
		for i := range d {
			d[i] = []byte{0xAB, 0xCD}[i&1]
		}
	case 2:
		for i := range d {
			d[i] = byte(i)
		}
	case 3:
		for i := range d {
			d[i] = byte(next())
		}
	case 4: // little-endian 4-byte words: slowly growing counter plus small noise
		v := uint32(1000)
		for i := 0; i < n; i++ {
			if i%4 == 0 {
				v += uint32(next() % 7)
			}
			d[i] = byte(v >> (8 * (i % 4)))
		}
	case 5:
		for i := 0; i < n/2; i++ {
			d[i] = byte(next())
		}
	case 6:
		for i := range d {
			d[i] = "aaaaaaaaaabbbcd\n"[next()%16]
		}
	case 7: // random block repeated at the far end of the match window
		p := 65536
		if n < 2*p {
			p = 251
		}
		for i := range d {
			if i < p {
				d[i] = byte(next())
			} else {
				d[i] = d[i-p]
			}
		}
	}
	return d
}

// c07Reader has os.File read semantics: a zero-length read returns (0, nil),
// reading at the end returns (0, io.EOF).
type c07Reader struct {
	b   []byte
	off int
}

func (r *c07Reader) Read(p []byte) (int, error) {
	if len(p) == 0 {
		return 0, nil
	}
	if r.off >= len(r.b) {
		return 0, io.EOF
	}
	n := copy(p, r.b[r.off:])
	r.off += n
	return n, nil
}

// c07Writer records every byte it is given (copying: the encoder owns its buffer).
type c07Writer struct {
	b     []byte
	calls int
}

func (w *c07Writer) Write(p []byte) (int, error) {
	w.b = append(w.b, p...)
	w.calls++
	return len(p), nil
}

var c07MainWriter c07Writer

func c07Hash(b []byte) uint64 {
	h := uint64(14695981039346656037)
	for _, c := range b {
		h = (h ^ uint64(c)) * 1099511628211
	}
	return h
}

func c07Impl(b c07Build, t encoders.Type) string {
	switch t {
	case encoders.EncoderTypeLZ4:
		if b.lz4Native {
			return "lz4-native"
		}
		return "lz4-cgo"
	case encoders.EncoderTypeZSTD:
		if b.zstdNative {
			return "zstd-native"
		}
		return "zstd-cgo"
	}
	return "null"
}

// c07Restore decompresses `emitted` the way the storage layer does (in sized to the
// stored length, out sized to the raw length, file-like source) and says what went wrong.
func c07Restore(dec encoder.Encoder, emitted []byte, inLen int, want []byte) (kind, detail string) {
	in := c07Buf(&c07InBuf, inLen)
	out := c07Buf(&c07OutBuf, len(want))
	for i := range out {
		out[i] = 0x5A ^ byte(i*7)
	}
	nd, err := dec.Decompress(in, out, &c07Reader{b: emitted})
	switch {
	case err != nil:
		return "decompress-error", fmt.Sprintf("Decompress(in len %d, out len %d) failed: %v", inLen, len(want), err)
	case nd != len(want):
		return "length-mismatch", fmt.Sprintf("Decompress returned %d bytes, original has %d", nd, len(want))
	case !bytes.Equal(out, want):
		i := 0
		for i < len(want) && out[i] == want[i] {
			i++
		}
		return "content-mismatch", fmt.Sprintf("restored bytes differ from the original at offset %d of %d (got %#x want %#x)", i, len(want), out[i], want[i])
	}
	return "", ""
}

// Reused buffers (one execution at a time per process). c07Buf returns a slice with
// len == cap == n, so the code under test cannot see or use anything beyond it.
var c07InBuf, c07OutBuf, c07DataBuf, c07ScratchBuf, c07Pattern []byte

func c07Buf(arena *[]byte, n int) []byte {
	if cap(*arena) < n {
		*arena = make([]byte, n+n/2+4096)
	}
	return (*arena)[:n:n]
}

type c07DataKey struct{ class, n int }

var c07DataCache = map[c07DataKey][]byte{}

func c07Data(class, n int) []byte {
	k := c07DataKey{class, n}
	d, ok := c07DataCache[k]
	if !ok {
		if len(c07DataCache) > 64 {
			clear(c07DataCache)
		}
		d = c07Gen(class, n)
		c07DataCache[k] = d
	}
	return d
}

// c07Result is what one execution observed (computed in the executor process).
type c07Result struct {
	Sig, Msg   string   // violation ("" = none)
	Obs        []string // observations, in order
	Nontrivial bool
	Trans      int
	Log        []string
	HarnessErr string
}

// c07Exec runs one execution on the real encoders: no explorer involved, so that it can
// run in a separate executor process (a fault inside liblz4/libzstd kills that process only).
func c07Exec(cfg, tier string, caseIdx, li, si, reuse int) (r c07Result) {
	b := c07DetectBuild()
	if b.err != "" {
		r.HarnessErr = "C07 build self-check: " + b.err
		return
	}
	if b.cfg != cfg {
		r.HarnessErr = fmt.Sprintf("scenario C07.%s must run inside the %q worker build, this binary is %q (the driver must pick the binary by key suffix and props must list configs cgo,nocgo,noliblz4,nolibzstd)", cfg, cfg, b.cfg)
		return
	}
	fail := func(sig, format string, a ...any) { r.Sig, r.Msg = sig, fmt.Sprintf(format, a...) }
	thorough := tier == "thorough"
	els := c07EncLevels(tier)
	el := els[caseIdx/len(c07Classes)]
	class := caseIdx % len(c07Classes)
	impl := c07Impl(b, el.typ)
	ctx := ""
	defer func() {
		if e := recover(); e != nil {
			st := string(debug.Stack())
			site := c07PanicSite(st)
			if len(st) > 1500 {
				st = st[:1500]
			}
			fail(impl+":panic:"+site, "%s: panic: %v\n%s", ctx, e, st)
		}
	}()
	n := c07Lengths(thorough)[li]
	pristine := c07Data(class, n)
	data := c07Buf(&c07DataBuf, n)
	copy(data, pristine)

	bound := c07Bound(el.typ, n)
	sc := c07Scratches[si]
	var scratch, scratchOrig []byte
	if !sc.isNil {
		var sl, scap int
		if sc.relLen != 0 {
			sl, scap = 0, n+sc.relLen
		} else {
			sl, scap = sc.ln(bound), sc.cp(bound)
		}
		if len(c07Pattern) < scap {
			c07Pattern = make([]byte, scap+scap/2+4096)
			for i := range c07Pattern {
				c07Pattern[i] = 0xA5 ^ byte(i*13) // never all-zero: leaked scratch content is recognisable
			}
		}
		full := c07Buf(&c07ScratchBuf, scap) // len == cap == scap
		if full == nil {
			full = []byte{} // "(0,0)" is an empty non-nil slice
		}
		copy(full, c07Pattern)
		scratch = full[:sl]
		scratchOrig = append([]byte{}, scratch...)
	}
	ctx = fmt.Sprintf("build %s, %s level %d, %d bytes of %s, scratch %s (len %d cap %d), encoder %s", b.cfg, impl, el.level, n, c07Classes[class],
		sc.name, len(scratch), cap(scratch), []string{"fresh", "used before"}[reuse])
	r.Log = append(r.Log, ctx)

	enc, err := encoder.New(el.typ)
	if err != nil {
		fail(impl+":new-error", "encoder.New(%v): %v", el.typ, err)
		return
	}
	defer enc.Close()
	enc.SetLevel(el.level)

	if reuse == 1 {
		// the encoder object (compression and decompression contexts) has served another
		// block before, as in gpfile where one encoder writes every block of a column
		wc := (class + 3) % len(c07Classes)
		wd := c07Data(wc, 777)
		ww := &c07Writer{}
		wn, werr := enc.Compress(append([]byte{}, wd...), nil, ww)
		r.Trans++
		if werr != nil || wn != len(ww.b) {
			fail(impl+":warmup-compress", "%s: first Compress(777 bytes %s, nil scratch) = (%d, %v), %d bytes emitted", ctx, c07Classes[wc], wn, werr, len(ww.b))
			return
		}
		if kind, detail := c07Restore(enc, ww.b, wn, wd); kind != "" {
			fail(impl+":warmup-"+kind, "%s: first block (777 bytes %s, nil scratch): %s", ctx, c07Classes[wc], detail)
			return
		}
		r.Trans++
	}

	w := &c07MainWriter
	w.b, w.calls = w.b[:0], 0
	cn, err := enc.Compress(data, scratch, w)
	r.Trans++
	if err != nil {
		fail(impl+":compress-error", "%s: Compress failed: %v (reported n=%d, %d bytes emitted)", ctx, err, cn, len(w.b))
		return
	}
	r.Obs = append(r.Obs, fmt.Sprintf("n=%d emitted=%d h=%x", cn, len(w.b), c07Hash(w.b)))
	r.Log = append(r.Log, fmt.Sprintf("Compress -> n=%d, %d bytes emitted in %d Write calls", cn, len(w.b), w.calls))
	if cn != len(w.b) {
		fail(impl+":count-mismatch", "%s: Compress reports n=%d but the writer received %d bytes in %d calls", ctx, cn, len(w.b), w.calls)
		return
	}
	inputChanged := !bytes.Equal(data, pristine)

	dec := enc
	if reuse == 0 {
		// a reader opens the file with its own encoder object
		if dec, err = encoder.New(el.typ); err != nil {
			fail(impl+":new-error", "encoder.New(%v): %v", el.typ, err)
			return
		}
		defer dec.Close()
	}
	kind, detail := c07Restore(dec, w.b, cn, pristine)
	r.Trans++
	if kind != "" {
		sig := impl + ":" + kind
		// Diagnosis only (the execution is a violation either way): is the emitted stream
		// the caller's scratch content followed by a correct compressed block?
		if sl := len(scratchOrig); sl > 0 && len(w.b) >= sl && bytes.Equal(w.b[:sl], scratchOrig) {
			if k2, _ := c07Restore(dec, w.b[sl:], len(w.b)-sl, pristine); k2 == "" {
				sig = impl + ":scratch-content-emitted"
				detail += fmt.Sprintf("; the %d emitted bytes are the %d bytes of the caller's scratch buffer followed by a %d-byte block that does restore the input", len(w.b), sl, len(w.b)-sl)
			}
		}
		if inputChanged {
			detail += "; Compress modified the caller's input slice"
		}
		fail(sig, "%s: n=%d: %s", ctx, cn, detail)
		return
	}
	r.Obs = append(r.Obs, "restored")
	r.Log = append(r.Log, fmt.Sprintf("Decompress -> %d bytes, equal to the original", n))
	// a real round trip was compared
	r.Nontrivial = n > 0
	return
}

// c07PanicSite: first repository frame below the panic (stable signature part).
func c07PanicSite(stack string) string {
	lines := strings.Split(stack, "\n")
	seen := false
	for _, l := range lines {
		if strings.HasPrefix(l, "panic(") {
			seen = true
			continue
		}
		if seen && (strings.Contains(l, "els0r/goProbe") || strings.Contains(l, "klauspost") || strings.Contains(l, "pierrec")) && !strings.HasPrefix(l, "\t") {
			if j := strings.LastIndex(l, "("); j > 0 {
				l = l[:j]
			}
			if j := strings.LastIndex(l, "/"); j >= 0 {
				l = l[j+1:]
			}
			return l
		}
	}
	return "unknown"
}

// ---- executor process --------------------------------------------------------------------
//
// Every execution runs in a child process of the SAME worker binary (started with
// VERIF_C07_SERVE=<cfg>; it serves requests from Scenario.Setup and never returns).
// A SIGSEGV/abort inside the C libraries therefore becomes a violation with its own
// signature instead of killing the worker and hiding the rest of the space.

const c07ServeEnv = "VERIF_C07_SERVE"

func c07Serve(cfg, tier string) {
	in := bufio.NewScanner(os.Stdin)
	out := bufio.NewWriter(os.Stdout)
	for in.Scan() {
		var c, li, si, reuse int
		if _, err := fmt.Sscanf(in.Text(), "%d %d %d %d", &c, &li, &si, &reuse); err != nil {
			fmt.Fprintln(os.Stderr, "c07 executor: bad request:", in.Text())
			os.Exit(3)
		}
		res := c07Exec(cfg, tier, c, li, si, reuse)
		j, _ := json.Marshal(res)
		out.Write(j)
		out.WriteByte('\n')
		out.Flush()
	}
	os.Exit(0)
}

type c07Child struct {
	cmd    *exec.Cmd
	in     io.WriteCloser
	out    *bufio.Reader
	stderr *bytes.Buffer
}

var c07Executor *c07Child

func c07Spawn(cfg, tier string) *c07Child {
	exe, err := os.Executable()
	if err != nil {
		explore.HarnessErrorf("C07: os.Executable: %v", err)
	}
	cmd := exec.Command(exe, "-scen", "C07."+cfg, "-tier", tier)
	cmd.Env = append(os.Environ(), c07ServeEnv+"="+cfg, "GOTRACEBACK=single")
	c := &c07Child{cmd: cmd, stderr: &bytes.Buffer{}}
	cmd.Stderr = c.stderr
	if c.in, err = cmd.StdinPipe(); err != nil {
		explore.HarnessErrorf("C07: %v", err)
	}
	so, err := cmd.StdoutPipe()
	if err != nil {
		explore.HarnessErrorf("C07: %v", err)
	}
	c.out = bufio.NewReaderSize(so, 1<<16)
	if err := cmd.Start(); err != nil {
		explore.HarnessErrorf("C07: cannot start executor process: %v", err)
	}
	return c
}

// c07Crash turns the death of the executor into (signature part, description).
func c07Crash(c *c07Child) (string, string) {
	c.in.Close()
	werr := c.cmd.Wait()
	txt := c.stderr.String()
	first := strings.SplitN(txt, "\n", 2)[0]
	what := ""
	switch {
	case strings.HasPrefix(first, "SIG"):
		what = strings.SplitN(first, ":", 2)[0]
	case strings.HasPrefix(first, "fatal error:"), strings.HasPrefix(first, "panic:"):
		what = "fatal"
	default:
		// killed from outside, out of memory, protocol error...: not attributable to the encoder
		explore.HarnessErrorf("C07: executor process ended unexpectedly (%v): %.600s", werr, txt)
	}
	where := "unknown"
	for _, l := range strings.Split(txt, "\n") {
		if i := strings.Index(l, "._Cfunc_"); i >= 0 {
			l = l[i+len("._Cfunc_"):]
			if j := strings.Index(l, "("); j >= 0 {
				l = l[:j]
			}
			where = l
			break
		}
	}
	if len(txt) > 1200 {
		txt = txt[:1200]
	}
	return what + "-in-" + where, fmt.Sprintf("the process died inside the encoder (%v): %s", werr, txt)
}

func c07RunFor(cfg string) func(x *explore.Ctx) {
	return func(x *explore.Ctx) {
		lengths := c07Lengths(x.Thorough())
		li := x.Choose(len(lengths), "length")
		si := x.Choose(c07NumScratches(x.Thorough()), "scratch(len,cap)")
		reuse := x.Choose(2, "encoder(fresh,used-before)")
		if lengths[li] > c07XL && si != 0 && si != 5 {
			// inputs beyond the libraries' window sizes: only with a nil scratch buffer and with gpfile's
			x.Obs("xl-skipped")
			return
		}

		var res c07Result
		if os.Getenv("VERIF_C07_INPROC") != "" {
			// debugging/profiling aid only: no protection against faults inside the C libraries
			res = c07Exec(cfg, x.Tier, x.Case, li, si, reuse)
			c07Apply(x, res, li, si, reuse)
			return
		}
		if c07Executor == nil {
			c07Executor = c07Spawn(cfg, x.Tier)
		}
		c := c07Executor
		_, err := fmt.Fprintf(c.in, "%d %d %d %d\n", x.Case, li, si, reuse)
		var line []byte
		if err == nil {
			// hang guard (harness error, not an oracle): the slowest execution takes about a second
			var hung atomic.Bool
			wd := time.AfterFunc(10*time.Minute, func() { hung.Store(true); c.cmd.Process.Kill() })
			line, err = c.out.ReadBytes('\n')
			wd.Stop()
			if hung.Load() {
				explore.HarnessErrorf("C07: executor did not answer within 10 minutes (case %d, length %d, scratch %s, reuse %d)", x.Case, lengths[li], c07Scratches[si].name, reuse)
			}
		}
		if err != nil {
			c07Executor = nil
			sig, desc := c07Crash(c)
			b := c07DetectBuild()
			el := c07EncLevels(x.Tier)[x.Case/len(c07Classes)]
			x.Transition()
			x.Fail(c07Impl(b, el.typ)+":crash:"+sig, "build %s, %s level %d, %d bytes of %s, scratch %s, encoder %s: %s", cfg, c07Impl(b, el.typ), el.level,
				lengths[li], c07Classes[x.Case%len(c07Classes)], c07Scratches[si].name, []string{"fresh", "used before"}[reuse], desc)
			return
		}
		if err := json.Unmarshal(line, &res); err != nil {
			explore.HarnessErrorf("C07: unparsable executor answer %q: %v", line, err)
		}
		c07Apply(x, res, li, si, reuse)
	}
}

func c07Apply(x *explore.Ctx, res c07Result, li, si, reuse int) {
	if res.HarnessErr != "" {
		explore.HarnessErrorf("%s", res.HarnessErr)
	}
	for _, l := range res.Log {
		x.Logf("%s", l)
	}
	x.Transitions(res.Trans)
	for _, o := range res.Obs {
		x.Obs("%s", o)
	}
	if res.Sig != "" {
		x.Fail(res.Sig, "%s", res.Msg)
		return
	}
	if res.Nontrivial {
		// distinct by input shape, scratch shape and encoder history
		x.NontrivialKey(uint64(li)<<16 | uint64(si)<<8 | uint64(reuse))
	}
}

func init() {
	for _, cfg := range []string{"cgo", "nocgo", "noliblz4", "nolibzstd"} {
		register("C07."+cfg, &explore.Scenario{
			ID: "C07", Name: "compress/decompress round trip, every encoder x level x scratch buffer, " + cfg + " build", Level: "exploration",
			Rule:  "runs inside the " + cfg + " worker build (self-checked against build info and the linked implementations). cases = (encoder,level) x 8 content classes (zeros, period-2, counter, LCG-random, bit-packed-like, half random/half zero, skewed 4-symbol, far-repeat); (encoder,level) = null, lz4 0..12, zstd 0..19 in thorough, null, lz4 {0,1,6,12}, zstd {0,1,3,6,19} in quick. per case the full product of input length (18 values 0..65537 (with 16383: just below gpfile's scratch capacity) and 1048577 quick, 35 values 0..300000, 1048576, 1048577, 2100000 thorough; lengths above 1 MiB only with the nil and the gpfile scratch buffer) x caller scratch buffers (len,cap) (quick 8: nil, (0,0), (0,64), (0,bound), (8192,8192), (8192,16384) as gpfile, (1,bound+1), (0,len+8) = larger than the input but below the worst-case bound; thorough adds (0,bound-1), (bound,bound), (bound+100,2bound+200), (0,4bound+8192); non-zero content) x encoder fresh / already used for another block (then the same object also decompresses). oracle: n returned by Compress == bytes received by a recording writer; Decompress(in sized n, out sized len(data), file-like reader) returns len(data) and out == original. non-trivial = completed round trip of a non-empty input, distinct by (length, scratch, encoder history) per case; outcomes = distinct compressed streams",
			Cases: func(t string) int { return len(c07EncLevels(t)) * len(c07Classes) },
			Bound: func(string) int { return 0 },
			Run:   c07RunFor(cfg), PanicSig: "",
			Setup: func(tier string) {
				if os.Getenv(c07ServeEnv) == cfg {
					c07Serve(cfg, tier) // executor process: never returns
				}
			},
			Assumptions: []string{
				"input contents are 8 generated classes, not all byte strings; lengths are a fixed list up to 300000",
				"the decompressor runs in the same build as the compressor (cross-build reading belongs to C02)",
				"the source reader has os.File semantics (zero-length read returns 0,nil)",
				"liblz4/libzstd as installed on this machine; a crash inside C code would surface as a tooling error, not a violation",
			},
		})
	}
}

//go:build goprobe_noliblz4

package scen

func init() { c07TagNoLibLZ4 = true }

package scen

import (
	"encoding/binary"
	"fmt"

	"github.com/els0r/goProbe/v4/pkg/capture"
	"github.com/els0r/goProbe/v4/pkg/capture/capturetypes"

	"verifmc/explore"
)

// C19: packet parsing extracts the documented flow key and never panics.
//
// Packets are built here from the RFC 791 / RFC 8200 / RFC 793 / RFC 768 /
// RFC 792 field offsets (IHL=5, no v6 extension headers) and handed to the real
// ParsePacketV4 / ParsePacketV6 truncated to every length the production
// capture source can deliver (its snap length is IP offset + 40 + 14 = 54
// bytes of IP layer; the source hands over min(frame, snaplen) - offset bytes,
// i.e. anything from 1 byte on; up to 60 is enumerated). The reference parser
// below is written from the RFC offsets and from the documented common-port
// table, not from the implementation.

// ---------------------------------------------------------------- packets

const (
	pkTCP    = 6
	pkUDP    = 17
	pkICMP   = 1
	pkESP    = 50
	pkICMPv6 = 58
	pkMaxLen = 60
)

// pkPorts is the port alphabet: every entry of the documented common-port
// table with its neighbours, the byte boundaries of the two-level lookup table
// (first byte 0/1/31/32), values that alias a table entry in one byte only or
// with swapped bytes, and the ephemeral boundary.
var pkPorts = []uint16{
	0, 1, 22, 52, 53, 54, 79, 80, 81, 144, 187, 189, 255, 256,
	309 /* 0x0135: low byte of 53 */, 336, /* 0x0150 */
	442, 443, 444, 445, 446, 1023, 1024,
	7989 /* 0x1f35 */, 8079, 8080, 8081, 8191, 8192, 8336, /* 0x2090 */
	13568 /* 53<<8 */, 20480 /* 80<<8 */, 32767, 32768, 32769,
	36895 /* 8080 byte-swapped */, 47873 /* 443 byte-swapped */, 49152, 60999, 65535,
}

// documented common service ports (flow.go: "53/TCP (DNS), 80/TCP (HTTP),
// 443/TCP (HTTPS), 445/TCP (SMB), 8080/TCP (Proxy); 53/UDP (DNS), 443/UDP").
func pkCommon(port uint16, proto byte) bool {
	switch proto {
	case pkTCP:
		return port == 53 || port == 80 || port == 443 || port == 445 || port == 8080
	case pkUDP:
		return port == 53 || port == 443
	}
	return false
}

var pkAddrV4 = [][2][4]byte{
	{{10, 0, 0, 1}, {192, 168, 1, 1}},
	{{10, 128, 0, 1}, {10, 0, 0, 2}},
	{{172, 16, 255, 254}, {255, 255, 255, 255}},
}

func pk6(hi uint16, mid uint16, lo byte) (a [16]byte) {
	binary.BigEndian.PutUint16(a[0:], hi)
	binary.BigEndian.PutUint16(a[2:], mid)
	a[15] = lo
	return
}

var pkAddrV6 = [][2][16]byte{
	{pk6(0x2001, 0x0db8, 1), pk6(0x2001, 0x0db8, 2)},
	{pk6(0xfe80, 0, 1), pk6(0xff02, 0, 1)},
	{{0x0a, 0, 0, 1, 0, 0, 0, 0, 0, 0, 0, 0, 0, 0, 0, 5}, {0xff, 0xff, 0xff, 0xff, 0xff, 0xff, 0xff, 0xff, 0xff, 0xff, 0xff, 0xff, 0xff, 0xff, 0xff, 0xfe}},
}

// fragment field alphabet (bytes 6,7 of the v4 header): offset 0 with every
// flag combination, smallest / largest / typical non-zero offsets.
var pkFrags = [][2]byte{{0x00, 0x00}, {0x20, 0x00}, {0x40, 0x00}, {0xe0, 0x00}, {0x00, 0x01}, {0x1f, 0xff}, {0x20, 0xb9}, {0x01, 0x00}}

// pkFill gives every byte that no field below overwrites a position-dependent
// non-zero value, so that a read at a wrong offset is visible.
func pkFill(b []byte) {
	for i := range b {
		b[i] = byte(0xa5 ^ (i * 7))
		if b[i] == 0 {
			b[i] = 0x5a
		}
	}
}

// pkBuildV4 writes an IPv4 packet (IHL=5) into b (len >= pkMaxLen).
func pkBuildV4(b []byte, sip, dip [4]byte, proto byte, frag [2]byte, sport, dport uint16, aux byte) {
	pkFill(b)
	b[0] = 0x45
	b[6], b[7] = frag[0], frag[1]
	b[9] = proto
	copy(b[12:16], sip[:])
	copy(b[16:20], dip[:])
	pkSetTransport(b[20:], proto, pkICMP, sport, dport, aux)
}

// pkBuildV6 writes an IPv6 packet without extension headers into b.
func pkBuildV6(b []byte, sip, dip [16]byte, proto byte, sport, dport uint16, aux byte) {
	pkFill(b)
	b[0] = 0x60
	b[6] = proto
	copy(b[8:24], sip[:])
	copy(b[24:40], dip[:])
	pkSetTransport(b[40:], proto, pkICMPv6, sport, dport, aux)
}

// transport header: TCP/UDP ports at 0..3, TCP flags at 13, ICMP type at 0.
// For every other protocol the "port" bytes are written all the same: they
// are payload there and must not show up in the key.
func pkSetTransport(t []byte, proto, icmpProto byte, sport, dport uint16, aux byte) {
	binary.BigEndian.PutUint16(t[0:], sport)
	binary.BigEndian.PutUint16(t[2:], dport)
	switch proto {
	case pkTCP:
		t[13] = aux
	case icmpProto:
		t[0] = aux
	}
}

// ---------------------------------------------------------------- reference

const (
	pkClsOK = iota
	pkClsFragment
	pkClsTruncated
	pkClsFragOrTrunc // non-first fragment that is also too short: either classification
	pkClsShort       // shorter than the fixed IP header: must be classified, never extracted
)

var pkClsName = []string{"extract", "fragment", "truncated", "fragment|truncated", "short-header"}

// pkNeed is the number of IP-layer bytes needed to extract the key and the
// direction hint of a packet: ports and the TCP flag byte (transport offset 13),
// ports for UDP, the type byte for ICMP, nothing beyond the IP header otherwise.
func pkNeed(hdr int, proto, icmpProto byte) int {
	switch proto {
	case pkTCP:
		return hdr + 14
	case pkUDP:
		return hdr + 4
	case icmpProto:
		return hdr + 1
	}
	return hdr
}

func pkRefClassV4(l int, proto byte, frag [2]byte) int {
	if l < 20 {
		return pkClsShort
	}
	need := pkNeed(20, proto, pkICMP)
	off := (uint16(frag[0]&0x1f) << 8) | uint16(frag[1])
	if off != 0 && proto != pkESP { // ESP: documented exception, no transport layer to look at
		if l < need {
			return pkClsFragOrTrunc
		}
		return pkClsFragment
	}
	if l < need {
		return pkClsTruncated
	}
	return pkClsOK
}

func pkRefClassV6(l int, proto byte) int {
	if l < 40 {
		return pkClsShort
	}
	if l < pkNeed(40, proto, pkICMPv6) {
		return pkClsTruncated
	}
	return pkClsOK
}

func pkClassOf(errno capturetypes.ParsingErrno) int {
	switch errno {
	case capturetypes.ErrnoOK:
		return pkClsOK
	case capturetypes.ErrnoPacketFragmentIgnore:
		return pkClsFragment
	case capturetypes.ErrnoPacketTruncated:
		return pkClsTruncated
	}
	return -1
}

func pkClassMatches(want, got int) bool {
	switch want {
	case pkClsFragOrTrunc:
		return got == pkClsFragment || got == pkClsTruncated
	case pkClsShort:
		return got != pkClsOK
	}
	return want == got
}

// pkRefPorts: the key ports the statement asks for. ok=false for sport means
// "not constrained" (both ports are common service ports: there is no
// ephemeral side, the destination port must be present).
func pkRefPorts(proto byte, sport, dport uint16) (ks uint16, ksConstrained bool, kd uint16, bothCommon bool) {
	if proto != pkTCP && proto != pkUDP {
		return 0, true, 0, false
	}
	sc, dc := pkCommon(sport, proto), pkCommon(dport, proto)
	switch {
	case sc && dc:
		return 0, false, dport, true
	case dc: // request towards a common service: the client's (ephemeral) port is dropped
		return 0, true, dport, false
	case sc: // response from a common service: the client's port is the destination port
		return sport, true, 0, false
	}
	return sport, true, dport, false
}

// ---------------------------------------------------------------- real code

type pkResult struct {
	cls  int
	v6   bool
	h4   capturetypes.EPHashV4
	h6   capturetypes.EPHashV6
	aux  byte
	errn capturetypes.ParsingErrno
}

// key returns the EPHash bytes (13 / 37).
func (r *pkResult) key() []byte {
	if r.v6 {
		return r.h6[:]
	}
	return r.h4[:]
}

func pkParse(v6 bool, b []byte, r *pkResult) {
	r.v6 = v6
	if v6 {
		r.h6, r.aux, r.errn = capture.ParsePacketV6(b)
	} else {
		r.h4, r.aux, r.errn = capture.ParsePacketV4(b)
	}
	r.cls = pkClassOf(r.errn)
}

// pkParseGuard runs the real parser and turns a panic into a value.
func pkParseGuard(v6 bool, b []byte) (r pkResult, panicked any) {
	defer func() {
		if e := recover(); e != nil {
			panicked = e
		}
	}()
	pkParse(v6, b, &r)
	return r, nil
}

// mirrors reports whether rm's key is the real Reverse() of r's key.
func (r *pkResult) mirrors(rm *pkResult) bool {
	if r.v6 {
		return r.h6.Reverse() == rm.h6
	}
	return r.h4.Reverse() == rm.h4
}

// key layout as documented in packet.go (sip | sport | dip | dport | proto)
func pkKeyFields(v6 bool, key []byte) (sip []byte, sport uint16, dip []byte, dport uint16, proto byte) {
	w := 4
	if v6 {
		w = 16
	}
	return key[0:w], binary.BigEndian.Uint16(key[w:]), key[w+2 : 2*w+2], binary.BigEndian.Uint16(key[2*w+2:]), key[2*w+4]
}

func pkKeyStr(v6 bool, key []byte) string {
	sip, sp, dip, dp, pr := pkKeyFields(v6, key)
	return fmt.Sprintf("%x:%d->%x:%d/%d", sip, sp, dip, dp, pr)
}

// ---------------------------------------------------------------- oracle

type pkChecker struct {
	x        *explore.Ctx
	v6       bool
	deferred [2]string // a finding with its own signature that must not hide others in the same execution
	n        int       // parser calls
	classes  [8]int    // outcome classes met
	h        uint64
}

const (
	pkOutExtractBoth = iota
	pkOutSportDropped
	pkOutDportDropped
	pkOutBothCommon
	pkOutNoPorts
	pkOutFragment
	pkOutTruncated
	pkOutESPFragment
)

var pkOutName = []string{"both-ports", "sport-dropped", "dport-dropped", "both-common", "no-ports", "fragment", "truncated", "esp-fragment-extracted"}

const (
	pkBadNone = iota
	pkBadClass
	pkBadMirrorClass
	pkBadAddress
	pkBadProtocol
	pkBadDport
	pkBadDportBothCommon
	pkBadSport
	pkBadMirrorKey
)

// one checks parse(p) against the reference and parse(mirror(p)) against
// Reverse(parse(p)). p and m are complete packets of the same length.
// Allocation-free unless something is wrong.
func (c *pkChecker) one(p, m []byte, want int, sip, dip []byte, proto byte, sport, dport uint16, what func() string) bool {
	var r, rm pkResult
	pkParse(c.v6, p, &r)
	pkParse(c.v6, m, &rm)
	c.n += 2
	bad := c.judge(&r, &rm, want, sip, dip, proto, sport, dport)
	if bad == pkBadNone || (bad == pkBadDportBothCommon && c.deferred[0] != "") {
		return true
	}
	return c.report(bad, r, rm, want, proto, sport, dport, what())
}

func (c *pkChecker) judge(r, rm *pkResult, want int, sip, dip []byte, proto byte, sport, dport uint16) int {
	c.h = (c.h ^ uint64(r.cls+1)) * 1099511628211
	if !pkClassMatches(want, r.cls) {
		return pkBadClass
	}
	if rm.cls != r.cls {
		return pkBadMirrorClass
	}
	if r.cls != pkClsOK {
		if r.cls == pkClsFragment {
			c.classes[pkOutFragment]++
		} else {
			c.classes[pkOutTruncated]++
		}
		return pkBadNone
	}
	key := r.key()
	for _, b := range key {
		c.h = (c.h ^ uint64(b)) * 1099511628211
	}
	ksip, ksp, kdip, kdp, kproto := pkKeyFields(c.v6, key)
	if string(ksip) != string(sip) || string(kdip) != string(dip) {
		return pkBadAddress
	}
	if kproto != proto {
		return pkBadProtocol
	}
	ws, wsOK, wd, both := pkRefPorts(proto, sport, dport)
	switch {
	case both:
		c.classes[pkOutBothCommon]++
	case proto != pkTCP && proto != pkUDP:
		c.classes[pkOutNoPorts]++
	case ws == 0 && sport != 0:
		c.classes[pkOutSportDropped]++
	case wd == 0 && dport != 0:
		c.classes[pkOutDportDropped]++
	default:
		c.classes[pkOutExtractBoth]++
	}
	bad := pkBadNone
	if kdp != wd {
		if !both {
			return pkBadDport
		}
		bad = pkBadDportBothCommon // own signature; the remaining checks are still made
	}
	if wsOK && ksp != ws {
		return pkBadSport
	}
	if !r.mirrors(rm) {
		return pkBadMirrorKey
	}
	return bad
}

// report is the slow path: r and rm are copies.
func (c *pkChecker) report(bad int, r, rm pkResult, want int, proto byte, sport, dport uint16, what string) bool {
	x := c.x
	ks, km := pkKeyStr(c.v6, r.key()), pkKeyStr(c.v6, rm.key())
	switch bad {
	case pkBadClass:
		x.Fail(fmt.Sprintf("class-%s-as-%s", pkClsName[want], pkErrName(r)), "%s: reference classification %s, parser returned errno %d", what, pkClsName[want], r.errn)
	case pkBadMirrorClass:
		x.Fail("mirror-class", "%s: classified errno %d, its mirror image errno %d", what, r.errn, rm.errn)
	case pkBadAddress:
		x.Fail("address", "%s: key %s does not carry the packet's addresses", what, ks)
	case pkBadProtocol:
		x.Fail("protocol", "%s: key %s does not carry the packet's protocol", what, ks)
	case pkBadDport:
		_, _, wd, _ := pkRefPorts(proto, sport, dport)
		x.Fail("dport", "%s: key %s, reference destination port %d", what, ks, wd)
	case pkBadSport:
		ws, _, _, _ := pkRefPorts(proto, sport, dport)
		x.Fail("sport", "%s: key %s, reference source-port field %d", what, ks, ws)
	case pkBadMirrorKey:
		x.Fail("mirror-key", "%s: key %s, key of the mirror-image packet %s is not its Reverse()", what, ks, km)
	case pkBadDportBothCommon:
		if c.deferred[0] == "" {
			c.deferred[0] = "dport-dropped-both-ports-common"
			c.deferred[1] = fmt.Sprintf("%s: both ports are common service ports (no ephemeral side), the key %s has lost the destination port %d", what, ks, dport)
		}
		return true
	}
	return false
}

func pkErrName(r pkResult) string {
	if r.cls >= 0 {
		return pkClsName[r.cls]
	}
	return fmt.Sprintf("errno%d", r.errn)
}

func (c *pkChecker) finish() {
	x := c.x
	x.Transitions(c.n)
	if c.deferred[0] != "" && !x.Failed() {
		x.Fail(c.deferred[0], "%s", c.deferred[1])
	}
}

// ---------------------------------------------------------------- C19: lengths x protocols

func c19Run(x *explore.Ctx) {
	v6 := x.Case >= pkMaxLen
	l := x.Case%pkMaxLen + 1
	hdr := 20
	icmpProto := byte(pkICMP)
	if v6 {
		hdr, icmpProto = 40, pkICMPv6
	}
	proto := byte(x.Choose(256, "protocol"))
	var bufP, bufM [pkMaxLen]byte

	if l < hdr {
		// Shorter than the fixed IP header. The capture source delivers such IP
		// layers as they are (frame shorter than link header + IP header).
		frags := pkFrags
		if v6 || l < 8 {
			frags = pkFrags[:1]
		}
		for _, fr := range frags {
			if v6 {
				pkBuildV6(bufP[:], pkAddrV6[0][0], pkAddrV6[0][1], proto, 40000, 80, 0x10)
			} else {
				pkBuildV4(bufP[:], pkAddrV4[0][0], pkAddrV4[0][1], proto, fr, 40000, 80, 0x10)
			}
			r, pan := pkParseGuard(v6, bufP[:l:l])
			x.Transition()
			if pan != nil {
				fam := "v4"
				if v6 {
					fam = "v6"
				}
				x.Fail("panic-short-header-"+fam, "IP%s layer of %d bytes (first byte %#x, shorter than the %d-byte header): parser panicked: %v", fam, l, bufP[0], hdr, pan)
				return
			}
			if r.cls == pkClsOK {
				x.Fail("short-header-extracted", "IP layer of %d bytes (shorter than the %d-byte header) was not classified: errno OK, key %x", l, hdr, r.key())
				return
			}
			x.Obs("short %d %d", l, r.errn)
		}
		x.Nontrivial("short/%d", pkBoolInt(proto == pkTCP || proto == pkUDP || proto == icmpProto))
		return
	}

	c := &pkChecker{x: x, v6: v6}
	// ports / aux alphabets by protocol; auxPos = position of the TCP flag byte / ICMP type
	ports := []uint16{0, 53, 80, 40000}
	naux, auxPos := 1, -1
	switch proto {
	case pkTCP:
		ports, naux, auxPos = pkPorts, 256, hdr+13
	case pkUDP:
		ports = pkPorts
	case icmpProto:
		naux, auxPos = 256, hdr
	}
	frags := pkFrags
	naddr := len(pkAddrV4)
	if v6 {
		frags = pkFrags[:1]
		naddr = len(pkAddrV6)
	}
	var sport, dport uint16
	var aux byte
	var fr [2]byte
	var ai int
	what := func() string {
		fam := "v4"
		if v6 {
			fam = "v6"
		}
		return fmt.Sprintf("IP%s len=%d proto=%d frag=%02x%02x addr#%d %d->%d aux=%#02x", fam, l, proto, fr[0], fr[1], ai, sport, dport, aux)
	}
	for fi := range frags {
		fr = frags[fi]
		want := pkRefClassV6(l, proto)
		if !v6 {
			want = pkRefClassV4(l, proto, fr)
		}
		if !v6 && proto == pkESP && ((uint16(fr[0]&0x1f)<<8)|uint16(fr[1])) != 0 {
			c.classes[pkOutESPFragment]++
		}
		for ai = 0; ai < 2*naddr; ai++ {
			// all 256 TCP flag bytes with the first address pair and fragment
			// field; elsewhere (quick tier) every 5th value 0x00, 0x05, ... 0xff,
			// which has every flag bit both set and cleared
			auxStep := 1
			if proto == pkTCP && (ai != 0 || fi != 0) && !x.Thorough() {
				auxStep = 5
			}
			var sip, dip []byte
			var s4, d4 [4]byte
			var s6, d6 [16]byte
			if v6 {
				s6, d6 = pkAddrV6[ai/2][ai%2], pkAddrV6[ai/2][1-ai%2]
				sip, dip = s6[:], d6[:]
			} else {
				s4, d4 = pkAddrV4[ai/2][ai%2], pkAddrV4[ai/2][1-ai%2]
				sip, dip = s4[:], d4[:]
			}
			for _, sport = range ports {
				for _, dport = range ports {
					if v6 {
						pkBuildV6(bufP[:], s6, d6, proto, sport, dport, 0)
						pkBuildV6(bufM[:], d6, s6, proto, dport, sport, 0)
					} else {
						pkBuildV4(bufP[:], s4, d4, proto, fr, sport, dport, 0)
						pkBuildV4(bufM[:], d4, s4, proto, fr, dport, sport, 0)
					}
					for a := 0; a < naux; a += auxStep {
						aux = byte(a)
						if auxPos >= 0 {
							bufP[auxPos], bufM[auxPos] = aux, aux
						}
						if !c.one(bufP[:l:l], bufM[:l:l], want, sip, dip, proto, sport, dport, what) {
							c.finish()
							return
						}
					}
				}
			}
		}
	}
	c.finish()
	for i, n := range c.classes {
		if n > 0 {
			x.Nontrivial("%s", pkOutName[i])
		}
	}
	x.Obs("%x", c.h)
	x.Logf("len=%d proto=%d: %d parser calls, outcome classes %v (%v)", l, proto, c.n, c.classes, pkOutName)
}

func pkBoolInt(b bool) int {
	if b {
		return 1
	}
	return 0
}

// ---------------------------------------------------------------- C19.sweep: all port pairs

// Case = (family, protocol TCP/UDP, block of source ports). One execution per
// sub-block; inside it a tight loop over (sport in sub-block) x (all 65536
// dports): build the packet in place (only the four port bytes change), parse
// it and its mirror image with the real parser, compare with the reference.
//
// quick: source ports = pkPorts only (both as sport with every dport, and as
// dport with every sport); thorough: all 2^32 pairs.

const (
	c19SweepBlocks = 64 // source-port blocks per (family, protocol)
	c19SweepSub    = 16 // executions per block
)

func c19SweepRun(x *explore.Ctx) {
	combo := x.Case % 4 // interleaved so that a capped run covers all four evenly
	block := x.Case / 4
	v6 := combo&1 == 1
	proto := byte(pkTCP)
	if combo&2 != 0 {
		proto = pkUDP
	}
	sub := x.Choose(c19SweepSub, "sport-sub-block")
	per := 65536 / c19SweepBlocks / c19SweepSub // source ports per execution
	lo := block*(65536/c19SweepBlocks) + sub*per
	l := 54
	off := 20
	if v6 {
		off = 40
	}
	var bufP, bufM [pkMaxLen]byte
	var sip, dip []byte
	if v6 {
		a, b := pkAddrV6[0][0], pkAddrV6[0][1]
		pkBuildV6(bufP[:], a, b, proto, 0, 0, 0x10)
		pkBuildV6(bufM[:], b, a, proto, 0, 0, 0x10)
		sip, dip = a[:], b[:]
	} else {
		a, b := pkAddrV4[0][0], pkAddrV4[0][1]
		pkBuildV4(bufP[:], a, b, proto, [2]byte{0x40, 0}, 0, 0, 0x10)
		pkBuildV4(bufM[:], b, a, proto, [2]byte{0x40, 0}, 0, 0, 0x10)
		sip, dip = a[:], b[:]
	}
	c := &pkChecker{x: x, v6: v6}
	var sport, dport uint16
	what := func() string {
		return fmt.Sprintf("IPv%d proto=%d %d->%d", 4+2*pkBoolInt(v6), proto, sport, dport)
	}
	p, m := bufP[:l:l], bufM[:l:l]
	var inAlphabet [65536]bool
	for _, q := range pkPorts {
		inAlphabet[q] = true
	}
	allPorts := make([]uint16, 65536)
	for i := range allPorts {
		allPorts[i] = uint16(i)
	}
	var pairs int
	for s := lo; s < lo+per; s++ {
		sport = uint16(s)
		dports := pkPorts
		if x.Thorough() || inAlphabet[sport] {
			dports = allPorts
		}
		binary.BigEndian.PutUint16(p[off:], sport)
		binary.BigEndian.PutUint16(m[off+2:], sport)
		before := c.classes
		for _, dport = range dports {
			binary.BigEndian.PutUint16(p[off+2:], dport)
			binary.BigEndian.PutUint16(m[off:], dport)
			if !c.one(p, m, pkClsOK, sip, dip, proto, sport, dport, what) {
				c.finish()
				return
			}
			pairs++
		}
		for i := range c.classes {
			if c.classes[i] != before[i] {
				x.NontrivialKey(uint64(s)<<8 | uint64(i))
			}
		}
	}
	c.finish()
	x.Obs("%d %x", pairs, c.h)
	x.Logf("sports %d..%d x all dports: %d pairs, classes %v", lo, lo+per-1, pairs, c.classes)
}

func init() {
	register("C19", &explore.Scenario{
		ID: "C19", Name: "packet parser vs RFC-offset reference, every length x protocol", Level: "exploration",
		Rule:     "case = family x IP-layer length 1..60 (the production source delivers min(frame, 54+offset)-offset bytes); execution = one of all 256 protocol numbers; inside: 8 fragment fields (v4) x 3 address pairs and their mirrors x port pairs (40x40 boundary alphabet for TCP/UDP: common-port table entries, neighbours, table byte boundaries, byte aliases, ephemeral boundary) x all 256 TCP flag bytes / ICMP types; every packet and its mirror image parsed by the real ParsePacketV4/V6 (transitions = parser calls). non-trivial = outcome classes reached (both ports kept, sport dropped, dport dropped, both common, portless protocol, fragment, truncated, ESP fragment accepted, short header), distinct per case",
		Cases:    func(string) int { return 2 * pkMaxLen },
		Bound:    func(string) int { return 0 },
		Run:      c19Run,
		PanicSig: "panic",
		Assumptions: []string{"IHL=5 and no IPv6 extension headers: fixed-offset parsing is the documented design",
			"addresses from a fixed alphabet of 3 pairs per family (parsing copies them verbatim)"},
	})
	register("C19.sweep", &explore.Scenario{
		ID: "C19", Name: "packet parser, all source/destination port pairs", Level: "exploration",
		Rule:        "case = family x {TCP,UDP} x 64 source-port blocks, 16 executions per case; inside one execution a loop over its source ports x all 65536 destination ports (thorough: all 2^32 pairs per family and protocol; quick: pairs with at least one port from the 40-port boundary alphabet): full 54-byte packet and its mirror image through the real parser, compared with the reference key and Reverse(); transitions = parser calls; non-trivial = distinct (source port, outcome class) met",
		Cases:       func(string) int { return 4 * c19SweepBlocks },
		Bound:       func(string) int { return 0 },
		Run:         c19SweepRun,
		PanicSig:    "panic",
		Assumptions: []string{"one address pair and one flag byte in the all-pairs sweep (both are varied exhaustively against the port alphabet in scenario C19)"},
	})
}

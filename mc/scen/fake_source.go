package scen

import (
	"bytes"
	"context"
	"errors"
	"fmt"
	"log/slog"
	"net"
	"runtime"
	"runtime/debug"
	"sort"
	"strings"
	"sync"
	"testing"
	"testing/synctest"
	"time"

	"github.com/els0r/goProbe/v4/pkg/capture/capturetypes"
	"github.com/els0r/goProbe/v4/pkg/types"
	"github.com/els0r/goProbe/v4/pkg/types/hashmap"
	"github.com/els0r/telemetry/logging"
	"github.com/fako1024/gotools/link"
	slimcap "github.com/fako1024/slimcap/capture"

	"verifmc/explore"
)

// Shared machinery of the schedule scenarios C21 and C29 (engine E3 of DESIGN.md):
//
//   - mcBubble: a testing/synctest bubble reachable from the worker binary (a
//     parked *testing.T as in c28_time.go),
//   - fakeSource: a complete capture.SourceZeroCopy whose behaviour is the one of
//     the production source (slimcap afring) as far as process() can observe it,
//     and whose blocking points are scheduling seams owned by the scenario,
//   - a packet alphabet with hand-written expectations, a collecting write-out
//     handler and a log sink that records reported capture errors.

var (
	mcTOnce sync.Once
	mcT     *testing.T
)

// mcTestingT returns a parked *testing.T for testing/synctest, obtained the way
// c28_time.go does it (testing.Main running one test that publishes its T and
// never returns) but without C28's time-zone tables, which take about a second
// to build per worker process. If C28's setup already ran in this process its T
// is reused.
func mcTestingT() *testing.T {
	mcTOnce.Do(func() {
		if c28T != nil {
			mcT = c28T
			return
		}
		ready := make(chan struct{})
		go testing.Main(func(string, string) (bool, error) { return true, nil },
			[]testing.InternalTest{{Name: "mcbubble", F: func(t *testing.T) {
				mcT = t
				close(ready)
				select {}
			}}}, nil, nil)
		<-ready
	})
	return mcT
}

// mcBubble runs f as the main goroutine of a fresh bubble. A panic inside f is
// recovered inside the bubble (tRunner would otherwise kill the process) and
// re-raised outside with its original value, so that explorer control panics
// (Abort, harness errors) keep their meaning. A bubble that cannot end because
// goroutines stay blocked is reported as leak (the runtime's deadlock panic).
func mcBubble(f func()) (leak string) {
	t := mcTestingT()
	var pv any
	var stack string
	func() {
		defer func() {
			if e := recover(); e != nil {
				leak = fmt.Sprint(e)
			}
		}()
		synctest.Test(t, func(*testing.T) {
			defer func() {
				if e := recover(); e != nil {
					pv, stack = e, string(debug.Stack())
				}
			}()
			f()
		})
	}()
	if pv != nil {
		if s, ok := pv.(string); ok {
			pv = s + "\n" + stack
		} else if err, ok := pv.(error); ok {
			pv = fmt.Errorf("%w\n%s", err, stack)
		}
		panic(pv)
	}
	return leak
}

// ---------------------------------------------------------------- packets

// mcPkt is one packet of the alphabet together with what the property says must
// be recorded for it (written by hand from the packet's fields, not derived
// through the parser).
type mcPkt struct {
	name     string
	ip       []byte // IP layer as handed out by the source
	typ      byte   // slimcap packet type: PacketOutgoing = leaving the host, anything else = received
	size     uint32 // total length reported by the source
	flow     bool   // false: the packet carries no flow information (non-first fragment)
	v4       bool
	key      types.Key // expected stored key (client -> server, destination port, protocol)
	out      bool      // expected direction: sent
	sip, dip string
}

func mcBuild(name, sip, dip string, sport, dport uint16, proto, aux byte, typ byte, size int, ksip, kdip string, kdport uint16) mcPkt {
	payload := make([]byte, 10)
	payload[9] = aux // TCP flags live at transport offset 13
	var p slimcap.Packet
	var err error
	if proto == capturetypes.ICMP || proto == capturetypes.ICMPv6 {
		payload[0] = aux // ICMP type is the first transport byte
		p, err = slimcap.BuildPacket(net.ParseIP(sip), net.ParseIP(dip), 0, 0, proto, payload, typ, size)
	} else {
		p, err = slimcap.BuildPacket(net.ParseIP(sip), net.ParseIP(dip), sport, dport, proto, payload, typ, size)
	}
	if err != nil {
		explore.HarnessErrorf("BuildPacket %s: %v", name, err)
	}
	a, b := net.ParseIP(ksip), net.ParseIP(kdip)
	k := mcPkt{name: name, ip: append([]byte(nil), p.IPLayer()...), typ: typ, size: uint32(size), flow: true, out: typ == slimcap.PacketOutgoing, sip: ksip, dip: kdip}
	dp := []byte{byte(kdport >> 8), byte(kdport)}
	if a4, b4 := a.To4(), b.To4(); a4 != nil && b4 != nil {
		k.v4 = true
		k.key = types.NewV4Key(a4, b4, dp, proto)
	} else {
		k.key = types.NewV6Key(a.To16(), b.To16(), dp, proto)
	}
	return k
}

// The alphabet. Every conversation is chosen such that the stored key does not
// depend on which packet is seen first (orientation is C22's subject): requests
// go to a well-known port or carry handshake flags, replies come from it.
var mcAlphabet = func() map[string]mcPkt {
	const in, out = slimcap.PacketThisHost, slimcap.PacketOutgoing
	m := map[string]mcPkt{}
	add := func(p mcPkt) { m[p.name] = p }
	add(mcBuild("a4", "10.0.0.1", "10.0.0.2", 40000, 443, capturetypes.TCP, 0x02, in, 100, "10.0.0.1", "10.0.0.2", 443))               // v4 SYN, received
	add(mcBuild("b6", "2001:db8::1", "2001:db8::2", 40001, 443, capturetypes.TCP, 0x10, out, 1300, "2001:db8::1", "2001:db8::2", 443)) // v6 ACK, sent
	add(mcBuild("c4", "10.0.0.2", "10.0.0.1", 443, 40000, capturetypes.TCP, 0x12, out, 60, "10.0.0.1", "10.0.0.2", 443))               // v4 SYN-ACK of a4's conversation, sent
	add(mcBuild("d6", "2001:db8::2", "2001:db8::1", 53, 50000, capturetypes.UDP, 0, in, 200, "2001:db8::1", "2001:db8::2", 53))        // v6 DNS reply, received
	add(mcBuild("e4", "10.0.0.1", "192.168.1.1", 0, 0, capturetypes.ICMP, 0x08, in, 84, "10.0.0.1", "192.168.1.1", 0))                 // v4 echo request, received
	add(mcBuild("g6", "fe80::1", "ff02::1", 0, 0, capturetypes.ICMPv6, 0x80, out, 72, "fe80::1", "ff02::1", 0))                        // v6 echo request to multicast, sent
	// f4: a non-first fragment carries no transport header: no flow, not counted as processed
	f := mcBuild("f4", "10.0.0.1", "10.0.0.2", 40000, 443, capturetypes.UDP, 0, in, 1500, "10.0.0.1", "10.0.0.2", 443)
	f.ip[6], f.ip[7] = 0x00, 0xb9
	f.flow = false
	add(f)
	return m
}()

func mcPkts(names string) []mcPkt {
	var out []mcPkt
	for _, n := range strings.Fields(names) {
		p, ok := mcAlphabet[n]
		if !ok {
			explore.HarnessErrorf("unknown packet %q", n)
		}
		out = append(out, p)
	}
	return out
}

// mcFlows is a flow table in reference terms: family + stored key -> counters.
type mcFlows map[string]types.Counters

func mcFlowID(v4 bool, key []byte) string {
	if v4 {
		return "4" + string(key)
	}
	return "6" + string(key)
}

func (m mcFlows) addPkt(p mcPkt) {
	if !p.flow {
		return
	}
	c := m[mcFlowID(p.v4, p.key)]
	if p.out {
		c.BytesSent += uint64(p.size)
		c.PacketsSent++
	} else {
		c.BytesRcvd += uint64(p.size)
		c.PacketsRcvd++
	}
	m[mcFlowID(p.v4, p.key)] = c
}

// addAgg adds every entry of a real aggregated flow map (primary = IPv4 map,
// secondary = IPv6 map; the key's own width is recorded as well).
func (m mcFlows) addAgg(a *hashmap.AggFlowMap) {
	if a == nil {
		return
	}
	if a.PrimaryMap != nil {
		for it := a.PrimaryMap.Iter(); it.Next(); {
			id := mcFlowID(true, it.Key())
			c := m[id]
			c.Add(it.Val())
			m[id] = c
		}
	}
	if a.SecondaryMap != nil {
		for it := a.SecondaryMap.Iter(); it.Next(); {
			id := mcFlowID(false, it.Key())
			c := m[id]
			c.Add(it.Val())
			m[id] = c
		}
	}
}

func (m mcFlows) packets() (n uint64) {
	for _, c := range m {
		n += c.PacketsRcvd + c.PacketsSent
	}
	return
}

func (m mcFlows) equal(o mcFlows) bool {
	if len(m) != len(o) {
		return false
	}
	for k, v := range m {
		if o[k] != v {
			return false
		}
	}
	return true
}

func mcFlowName(id string) string {
	k := types.Key(id[1:])
	fam := "v" + id[:1]
	switch {
	case id[0] == '4' && len(k) == types.KeyWidthIPv4, id[0] == '6' && len(k) == types.KeyWidthIPv6:
		return fmt.Sprintf("%s %s>%s:%d/%d", fam, types.RawIPToAddr(k.GetSIP()), types.RawIPToAddr(k.GetDIP()), types.PortToUint16(k.GetDport()), k.GetProto())
	}
	return fmt.Sprintf("%s key(%d bytes) %x", fam, len(k), []byte(k))
}

func (m mcFlows) String() string {
	ids := make([]string, 0, len(m))
	for id := range m {
		ids = append(ids, id)
	}
	sort.Strings(ids)
	var sb strings.Builder
	for _, id := range ids {
		c := m[id]
		fmt.Fprintf(&sb, "[%s rcvd %d B/%d pkt, sent %d B/%d pkt] ", mcFlowName(id), c.BytesRcvd, c.PacketsRcvd, c.BytesSent, c.PacketsSent)
	}
	if sb.Len() == 0 {
		return "(no flows)"
	}
	return sb.String()
}

func (m mcFlows) hash() uint64 {
	var h uint64
	for id, c := range m {
		e := uint64(14695981039346656037)
		for i := 0; i < len(id); i++ {
			e = (e ^ uint64(id[i])) * 1099511628211
		}
		e ^= c.BytesRcvd*3 + c.BytesSent*5 + c.PacketsRcvd*7 + c.PacketsSent*11
		h += e * 0x9e3779b97f4a7c15
	}
	return h
}

// ---------------------------------------------------------------- fake source

type fkWake int

const (
	fkWakePacket fkWake = iota
	fkWakeUnblocked
	fkWakeStopped
	fkWakeError
)

// errFakeTransient is what a poll returns when the scenario makes the source fail once (EINTR-like:
// neither "unblocked" nor "stopped").
var errFakeTransient = errors.New("fake source: transient poll error")

type fkRingPkt struct {
	ip   []byte
	typ  byte
	size uint32
	flow bool
}

// fkSeam is a requester goroutine parked inside Unblock or Stats.
type fkSeam struct {
	kind string // "unblock" | "stats"
	n    int    // serial number of the call (per kind)
	ch   chan struct{}
}

// fakeSource models the production source as seen through the interface:
//
//   - packets already in the ring are returned without polling, i.e. before a
//     pending unblock is noticed (afring: the block status is checked first);
//   - with an empty ring the call polls: it returns when a packet arrives or when
//     the event descriptor is readable; Unblock increments that descriptor, so any
//     number of Unblock calls before it is read coalesce into ONE ErrCaptureUnblocked;
//   - the slice handed out is only valid until the next call (zero copy): the fake
//     overwrites it at the next call;
//   - Close makes the next (or the parked) call return ErrCaptureStopped.
//
// While auto is false every blocking point is a seam: process() parks in
// NextIPPacketZeroCopy whenever the ring is empty (the scenario decides whether a
// packet arrives first or the pending unblock is seen), requester goroutines park
// in Unblock (before the descriptor is incremented) and in Stats. With auto set
// (tear-down) the source runs by itself.
//
// All fields are touched either by the scheduler while every other goroutine of
// the bubble is durably blocked (after synctest.Wait) or by the single goroutine
// the scheduler just released; mu only documents that.
type fakeSource struct {
	parkedBuffering bool // the parked poll was issued by Capture.bufferPackets
	mu              sync.Mutex
	ring            []fkRingPkt
	pending         bool
	closed          bool
	auto            bool
	parked          chan fkWake
	seams           []*fkSeam
	last            []byte

	popped, poppedFlow, nextCalls, unblockCalls, statsCalls, unblockedSeen int
	recvSinceStats                                                         uint64
}

func (f *fakeSource) pop() (slimcap.IPLayer, slimcap.PacketType, uint32, error) {
	p := f.ring[0]
	f.ring = f.ring[1:]
	f.popped++
	if p.flow {
		f.poppedFlow++
	}
	f.last = p.ip
	return p.ip, p.typ, p.size, nil
}

// NextIPPacketZeroCopy is the only fetch method process() uses.
func (f *fakeSource) NextIPPacketZeroCopy() (slimcap.IPLayer, slimcap.PacketType, uint32, error) {
	f.mu.Lock()
	f.nextCalls++
	if f.last != nil {
		for i := range f.last {
			f.last[i] = 0xEE // the ring slot is reused
		}
		f.last = nil
	}
	if len(f.ring) > 0 {
		defer f.mu.Unlock()
		return f.pop()
	}
	if f.closed {
		f.mu.Unlock()
		return nil, slimcap.PacketUnknown, 0, slimcap.ErrCaptureStopped
	}
	if f.auto && f.pending {
		f.pending = false
		f.unblockedSeen++
		f.mu.Unlock()
		return nil, slimcap.PacketUnknown, 0, slimcap.ErrCaptureUnblocked
	}
	ch := make(chan fkWake, 1)
	f.parked = ch
	// who polls: the capture's normal loop or bufferPackets (the code keeps no flag for it)
	f.parkedBuffering = false
	if pc, _, _, ok := runtime.Caller(1); ok {
		if fn := runtime.FuncForPC(pc); fn != nil {
			f.parkedBuffering = strings.HasSuffix(fn.Name(), ".bufferPackets")
		}
	}
	f.mu.Unlock()
	w := <-ch
	f.mu.Lock()
	defer f.mu.Unlock()
	switch w {
	case fkWakePacket:
		return f.pop()
	case fkWakeUnblocked:
		f.unblockedSeen++
		return nil, slimcap.PacketUnknown, 0, slimcap.ErrCaptureUnblocked
	case fkWakeError:
		return nil, slimcap.PacketUnknown, 0, errFakeTransient
	}
	return nil, slimcap.PacketUnknown, 0, slimcap.ErrCaptureStopped
}

// Buffering reports whether the parked poll was issued from inside a pause (bufferPackets).
func (f *fakeSource) Buffering() bool { return f.parked != nil && f.parkedBuffering }

// FailOnce lets the parked poll return a transient error.
func (f *fakeSource) FailOnce() {
	f.mu.Lock()
	defer f.mu.Unlock()
	f.wake(fkWakeError)
}

func (f *fakeSource) wake(w fkWake) {
	ch := f.parked
	f.parked = nil
	ch <- w
}

// Arrive puts a packet into the ring (a copy: the ring owns its memory); a parked
// poll returns with it.
func (f *fakeSource) Arrive(p mcPkt) {
	f.mu.Lock()
	defer f.mu.Unlock()
	f.ring = append(f.ring, fkRingPkt{append([]byte(nil), p.ip...), p.typ, p.size, p.flow})
	f.recvSinceStats++
	if f.parked != nil {
		f.wake(fkWakePacket)
	}
}

// PollParked reports whether process() is parked in an empty-ring poll.
func (f *fakeSource) PollParked() bool { return f.parked != nil }

// CanSeeUnblock: the parked poll could return ErrCaptureUnblocked now.
func (f *fakeSource) CanSeeUnblock() bool { return f.parked != nil && f.pending }

// SeeUnblock lets the parked poll return ErrCaptureUnblocked (reads the descriptor).
func (f *fakeSource) SeeUnblock() {
	f.mu.Lock()
	defer f.mu.Unlock()
	f.pending = false
	f.wake(fkWakeUnblocked)
}

func (f *fakeSource) seam(kind string, n int) {
	s := &fkSeam{kind: kind, n: n, ch: make(chan struct{})}
	f.seams = append(f.seams, s)
	f.mu.Unlock()
	<-s.ch
	f.mu.Lock()
}

// Park parks the calling goroutine on a named seam of the scenario (used by the
// logger seam); a no-op once the source runs by itself.
func (f *fakeSource) Park(kind string, n int) {
	f.mu.Lock()
	defer f.mu.Unlock()
	if !f.auto {
		f.seam(kind, n)
	}
}

// Release lets the i-th parked requester call complete.
func (f *fakeSource) Release(i int) {
	f.mu.Lock()
	s := f.seams[i]
	f.seams = append(f.seams[:i:i], f.seams[i+1:]...)
	f.mu.Unlock()
	close(s.ch)
}

// Unblock increments the event descriptor (after the scenario released the call).
func (f *fakeSource) Unblock() error {
	f.mu.Lock()
	defer f.mu.Unlock()
	f.unblockCalls++
	if !f.auto {
		f.seam("unblock", f.unblockCalls)
	}
	f.pending = true
	if f.auto && f.parked != nil {
		f.pending = false
		f.wake(fkWakeUnblocked)
	}
	return nil
}

// Stats returns (and clears) the source's packet counter.
func (f *fakeSource) Stats() (slimcap.Stats, error) {
	f.mu.Lock()
	defer f.mu.Unlock()
	f.statsCalls++
	if !f.auto {
		f.seam("stats", f.statsCalls)
	}
	s := slimcap.Stats{PacketsReceived: f.recvSinceStats}
	f.recvSinceStats = 0
	return s, nil
}

// Close stops the source.
func (f *fakeSource) Close() error {
	f.mu.Lock()
	defer f.mu.Unlock()
	f.closed = true
	if f.parked != nil {
		f.wake(fkWakeStopped)
	}
	return nil
}

// SetAuto switches to self-running mode and lets everything parked proceed.
func (f *fakeSource) SetAuto() {
	f.mu.Lock()
	f.auto = true
	seams := f.seams
	f.seams = nil
	if f.parked != nil && f.pending {
		f.pending = false
		f.wake(fkWakeUnblocked)
	}
	f.mu.Unlock()
	for _, s := range seams {
		close(s.ch)
	}
}

func (f *fakeSource) unused(m string) {
	explore.HarnessErrorf("fakeSource.%s called: process() is expected to use NextIPPacketZeroCopy only", m)
}

func (f *fakeSource) NewPacket() slimcap.Packet { f.unused("NewPacket"); return nil }
func (f *fakeSource) NextPacket(slimcap.Packet) (slimcap.Packet, error) {
	f.unused("NextPacket")
	return nil, nil
}
func (f *fakeSource) NextPayload([]byte) ([]byte, byte, uint32, error) {
	f.unused("NextPayload")
	return nil, 0, 0, nil
}
func (f *fakeSource) NextIPPacket(slimcap.IPLayer) (slimcap.IPLayer, slimcap.PacketType, uint32, error) {
	f.unused("NextIPPacket")
	return nil, 0, 0, nil
}
func (f *fakeSource) NextPacketFn(func([]byte, uint32, slimcap.PacketType, byte) error) error {
	f.unused("NextPacketFn")
	return nil
}
func (f *fakeSource) NextPayloadZeroCopy() ([]byte, slimcap.PacketType, uint32, error) {
	f.unused("NextPayloadZeroCopy")
	return nil, 0, 0, nil
}
func (f *fakeSource) Link() *link.Link { f.unused("Link"); return nil }

var _ slimcap.SourceZeroCopy = (*fakeSource)(nil)

// ---------------------------------------------------------------- write-out handler

// mcWriteouts is a writeout.Handler that keeps what the manager hands over.
type mcWriteouts struct {
	mu   sync.Mutex
	maps []capturetypes.TaggedAggFlowMap
	ts   []time.Time
}

func (h *mcWriteouts) HandleWriteout(_ context.Context, ts time.Time, ch <-chan capturetypes.TaggedAggFlowMap) <-chan struct{} {
	done := make(chan struct{})
	go func() {
		for m := range ch {
			h.mu.Lock()
			h.maps = append(h.maps, m)
			h.ts = append(h.ts, ts)
			h.mu.Unlock()
		}
		done <- struct{}{}
	}()
	return done
}

// ---------------------------------------------------------------- log sink / logger seam

// mcLogSink receives the records of the process-wide logger (level error and
// above): this is where the manager reports capture errors such as the local
// buffer overflow and failed locks.
type mcLogSink struct {
	mu  sync.Mutex
	buf bytes.Buffer
}

func (s *mcLogSink) Reset() {
	s.mu.Lock()
	s.buf.Reset()
	s.mu.Unlock()
}

func (s *mcLogSink) String() string {
	s.mu.Lock()
	defer s.mu.Unlock()
	return s.buf.String()
}

// Count counts occurrences of sub in the recorded output.
func (s *mcLogSink) Count(sub string) int { return strings.Count(s.String(), sub) }

// mcLogHandler is the slog.Handler behind logging.FromContext. Besides recording
// error records it is a scheduling seam: deriving a logger from a context that
// carries fields (logging.FromContext(ctx) -> With -> WithAttrs) runs on the
// calling goroutine, and mcLogHook may park it there.
type mcLogHandler struct{ attrs []slog.Attr }

func (h *mcLogHandler) Enabled(_ context.Context, l slog.Level) bool { return l >= slog.LevelError }

func (h *mcLogHandler) Handle(_ context.Context, r slog.Record) error {
	var sb strings.Builder
	sb.WriteString(r.Message)
	for _, a := range h.attrs {
		fmt.Fprintf(&sb, " %s=%v", a.Key, a.Value)
	}
	r.Attrs(func(a slog.Attr) bool { fmt.Fprintf(&sb, " %s=%v", a.Key, a.Value); return true })
	sb.WriteByte('\n')
	mcLog.mu.Lock()
	mcLog.buf.WriteString(sb.String())
	mcLog.mu.Unlock()
	return nil
}

func (h *mcLogHandler) WithAttrs(as []slog.Attr) slog.Handler {
	n := &mcLogHandler{attrs: append(append([]slog.Attr(nil), h.attrs...), as...)}
	if hook := mcLogHook; hook != nil {
		hook(n.attrs)
	}
	return n
}

func (h *mcLogHandler) WithGroup(string) slog.Handler { return h }

var (
	mcLog     = &mcLogSink{}
	mcLogOnce sync.Once
	// mcLogHook is set by a scenario for the duration of one execution.
	mcLogHook func(attrs []slog.Attr)
)

// mcReqField is the context field by which a requester's logger derivations are recognised.
const mcReqField = "verif_req"

// mcSetup (Scenario.Setup): parked testing.T for the bubbles, logger into the sink.
func mcSetup(string) {
	mcTestingT()
	mcLogOnce.Do(func() {
		// Init drops the cached global logger; the default installed right after is what gets cached next.
		if _, err := logging.Init(slog.LevelError, logging.EncodingLogfmt, logging.WithOutput(&bytes.Buffer{})); err != nil {
			explore.HarnessErrorf("logging.Init: %v", err)
		}
		slog.SetDefault(slog.New(&mcLogHandler{}))
	})
}

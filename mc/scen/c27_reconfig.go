package scen

import (
	"bytes"
	"context"
	"fmt"
	"log/slog"
	"os"
	"path/filepath"
	"regexp"
	"runtime/debug"
	"sort"
	"strings"
	"sync"
	"sync/atomic"
	"testing"
	"testing/synctest"
	"time"

	"github.com/els0r/goProbe/v4/cmd/goProbe/config"
	gpcapture "github.com/els0r/goProbe/v4/pkg/capture"
	"github.com/els0r/goProbe/v4/pkg/goDB/storage/gpfile"
	"github.com/els0r/goProbe/v4/pkg/types"
	"github.com/els0r/goProbe/v4/pkg/verifshim/verifhook"
	"github.com/els0r/telemetry/logging"
	"github.com/fako1024/gotools/bitpack"
	"github.com/fako1024/gotools/link"
	"github.com/fako1024/slimcap/capture"
	"golang.org/x/net/bpf"

	"verifmc/explore"
	"verifmc/fixture"
)

// C27: capture reconfiguration converges to the configured interfaces without data loss.
//
// One execution = one history of Manager.Update calls on a fresh real
// capture.Manager (fake packet sources, real writeout.GoDBHandler on a scratch
// directory) inside a testing/synctest bubble:
//
//	Update(c1) gap Update(c2) gap [Update(c3) gap [Update(c4) gap]] Manager.Close
//
// gap = 2 s of virtual time, then packets on every running interface, then
// quiescence (synctest.Wait). After every Update the observable state
// (Manager.Status keys, Manager.Config, the fake sources that are open and the
// configuration each was initialised with) is compared with a model written from
// the documentation of the configuration; at every Close of a source the
// database of its interface is read back and must hold every packet delivered to
// that interface so far.

// ---------------------------------------------------------------- configuration alphabet

const (
	c27D = iota // default capture configuration
	c27P        // promiscuous
	c27R        // other ring buffer
	c27V        // ignore VLANs
	c27B        // extra BPF instruction
	c27X        // disable: true
)

var c27ParNames = []string{"default", "promisc", "ring", "ignore-vlans", "bpf", "disable"}

// c27Par builds a fresh configuration value (the manager keeps what it is given).
func c27Par(p int) config.CaptureConfig {
	c := config.DefaultCaptureConfig()
	switch p {
	case c27P:
		c.Promisc = true
	case c27R:
		c.RingBuffer = &config.RingBufferConfig{BlockSize: 2 * 1024 * 1024, NumBlocks: 2}
	case c27V:
		c.IgnoreVLANs = true
	case c27B:
		c.ExtraBPFFilters = []bpf.RawInstruction{{Op: 0x6, K: 0x40000}}
	case c27X:
		c = config.CaptureConfig{Disable: true}
	}
	return c
}

// c27CfgDiff names the first field in which two capture configurations differ ("" = equal).
func c27CfgDiff(a, b config.CaptureConfig) string {
	switch {
	case a.Disable != b.Disable:
		return "disable"
	case a.Promisc != b.Promisc:
		return "promisc"
	case (a.RingBuffer == nil) != (b.RingBuffer == nil):
		return "ring_buffer"
	case a.RingBuffer != nil && *a.RingBuffer != *b.RingBuffer:
		return "ring_buffer"
	case a.IgnoreVLANs != b.IgnoreVLANs:
		return "ignore_vlans"
	case len(a.ExtraBPFFilters) != len(b.ExtraBPFFilters):
		return "extra_bpf_filters"
	}
	for i := range a.ExtraBPFFilters {
		if a.ExtraBPFFilters[i] != b.ExtraBPFFilters[i] {
			return "extra_bpf_filters"
		}
	}
	return ""
}

func c27CfgString(c config.CaptureConfig) string {
	rb := "nil"
	if c.RingBuffer != nil {
		rb = fmt.Sprintf("%dx%d", c.RingBuffer.BlockSize, c.RingBuffer.NumBlocks)
	}
	return fmt.Sprintf("{promisc:%v ring:%s ignore_vlans:%v bpf:%d disable:%v}", c.Promisc, rb, c.IgnoreVLANs, len(c.ExtraBPFFilters), c.Disable)
}

type c27Entry struct {
	key string // interface name or /regexp/
	par int
}

type c27Def struct {
	name    string
	auto    bool
	exclude []string
	entries []c27Entry
}

var c27Links = []string{"eth0", "eth1", "lo"}

var c27Alphabet = []c27Def{
	{name: "{eth0}", entries: []c27Entry{{"eth0", c27D}}},
	{name: "{eth0,eth1}", entries: []c27Entry{{"eth0", c27D}, {"eth1", c27D}}},
	{name: "{/eth.*/}", entries: []c27Entry{{"/eth.*/", c27D}}},
	{name: "{/eth.*/, /.*0/:promisc}", entries: []c27Entry{{"/eth.*/", c27D}, {"/.*0/", c27P}}},
	{name: "{/eth.*/, eth1:ring}", entries: []c27Entry{{"/eth.*/", c27D}, {"eth1", c27R}}},
	{name: "{eth0, eth1:disable}", entries: []c27Entry{{"eth0", c27D}, {"eth1", c27X}}},
	{name: "{eth0:promisc}", entries: []c27Entry{{"eth0", c27P}}},
	{name: "{eth0:ring}", entries: []c27Entry{{"eth0", c27R}}},
	{name: "{eth0:ignore-vlans}", entries: []c27Entry{{"eth0", c27V}}},
	{name: "{eth0:bpf}", entries: []c27Entry{{"eth0", c27B}}},
	{name: "autodetect -lo", auto: true, exclude: []string{"lo"}},
	{name: "{/eth.*/, eth1:disable}", entries: []c27Entry{{"/eth.*/", c27D}, {"eth1", c27X}}},
	{name: "{eth1, lo}", entries: []c27Entry{{"eth1", c27D}, {"lo", c27D}}},
	// thorough only
	{name: "autodetect -/.*1/", auto: true, exclude: []string{"/.*1/"}},
	{name: "{/eth.*/:ignore-vlans, /.*0/:bpf}", entries: []c27Entry{{"/eth.*/", c27V}, {"/.*0/", c27B}}},
	{name: "{/.*/, /eth1/:disable}", entries: []c27Entry{{"/.*/", c27D}, {"/eth1/", c27X}}},
	{name: "{eth0, /.*1/:disable}", entries: []c27Entry{{"eth0", c27D}, {"/.*1/", c27X}}},
}

const c27NQuick = 13

func c27N(tier string) int {
	if tier == "thorough" {
		return len(c27Alphabet)
	}
	return c27NQuick
}

func c27MaxLen(tier string) int {
	if tier == "thorough" {
		return 4
	}
	return 3
}

func (d *c27Def) build() *config.Config {
	c := &config.Config{}
	if d.auto {
		c.AutoDetection = config.AutoDetectionConfig{Enabled: true, Exclude: append([]string(nil), d.exclude...)}
		return c
	}
	c.Interfaces = config.Ifaces{}
	for _, e := range d.entries {
		c.Interfaces[e.key] = c27Par(e.par)
	}
	return c
}

func (d *c27Def) regexps() (n int) {
	for _, e := range d.entries {
		if config.IsRegexpInterfaceMatcher(e.key) {
			n++
		}
	}
	return
}

func c27Match(pattern, name string) bool {
	return regexp.MustCompile(pattern[1 : len(pattern)-1]).MatchString(name)
}

// candidates is the model of interface selection, written from the
// configuration documentation: autodetection selects every host link that no
// exclusion names or matches, with the default configuration; otherwise an
// interface named explicitly gets that entry, and (when the configuration has
// regular expressions) a host link without explicit entry gets the entry of a
// regular expression matching it. The result lists, per host link, the
// parameter sets it may legitimately run with (more than one = overlapping
// regular expressions; a disable entry is among them as c27X).
func (d *c27Def) candidates() map[string][]int {
	out := map[string][]int{}
	if d.auto {
	links:
		for _, l := range c27Links {
			for _, e := range d.exclude {
				if e == l || (config.IsRegexpInterfaceMatcher(e) && c27Match(e, l)) {
					continue links
				}
			}
			out[l] = []int{c27D}
		}
		return out
	}
	for _, l := range c27Links {
		var re []int
		explicit := -1
		for _, e := range d.entries {
			if e.key == l {
				explicit = e.par
			} else if config.IsRegexpInterfaceMatcher(e.key) && c27Match(e.key, l) {
				dup := false
				for _, p := range re {
					dup = dup || p == e.par
				}
				if !dup {
					re = append(re, e.par)
				}
			}
		}
		if explicit >= 0 {
			out[l] = []int{explicit}
		} else if len(re) > 0 {
			out[l] = re
		}
	}
	return out
}

// ---------------------------------------------------------------- packets and database read-back

type c27Cnt struct{ pkts, bytes uint64 }

// flow identity: 10.77.<iface>.<flow> (IPv4) / fd77::<iface>:<flow> (IPv6) as either endpoint.
type c27Flow struct {
	v6   bool
	flow byte
}

func (f c27Flow) String() string {
	if f.v6 {
		return fmt.Sprintf("v6#%d", f.flow)
	}
	return fmt.Sprintf("v4#%d", f.flow)
}

func c27IfaceIdx(iface string) byte {
	for i, l := range c27Links {
		if l == iface {
			return byte(i + 1)
		}
	}
	return 0xff
}

func c27Packet(iface string, f c27Flow) capture.IPLayer {
	if !f.v6 {
		p := make([]byte, 28)
		p[0] = 0x45
		p[3] = 28
		p[8] = 64
		p[9] = 17
		copy(p[12:16], []byte{10, 77, c27IfaceIdx(iface), f.flow})
		copy(p[16:20], []byte{10, 9, 9, 9})
		p[20], p[21] = 0x9c, 0x40 // 40000
		p[22], p[23] = 0, 53
		p[25] = 8
		return p
	}
	p := make([]byte, 48)
	p[0] = 0x60
	p[5] = 8
	p[6] = 17
	p[7] = 64
	p[8], p[9], p[22], p[23] = 0xfd, 0x77, c27IfaceIdx(iface), f.flow
	p[24], p[25], p[39] = 0xfd, 0x99, 9
	p[40], p[41] = 0x9c, 0x40
	p[42], p[43] = 0, 53
	p[45] = 8
	return p
}

// c27ReadDB sums, per flow identity, the counters of every row stored for iface.
// Rows that do not carry a flow identity of this interface are returned in odd.
func c27ReadDB(dbPath, iface string) (rows map[c27Flow]c27Cnt, odd []string, err error) {
	rows = map[c27Flow]c27Cnt{}
	base := filepath.Join(dbPath, iface)
	var days []string
	years, _ := os.ReadDir(base)
	for _, y := range years {
		months, _ := os.ReadDir(filepath.Join(base, y.Name()))
		for _, m := range months {
			ds, _ := os.ReadDir(filepath.Join(base, y.Name(), m.Name()))
			for _, d := range ds {
				days = append(days, filepath.Join(base, y.Name(), m.Name(), d.Name()))
			}
		}
	}
	idx := c27IfaceIdx(iface)
	for _, day := range days {
		ts, suffix, e := gpfile.ExtractTimestampMetadataSuffix(filepath.Base(day))
		if e != nil {
			return nil, nil, fmt.Errorf("%s: %w", day, e)
		}
		d := gpfile.NewDirReader(base, ts, suffix)
		if e := d.Open(); e != nil {
			return nil, nil, fmt.Errorf("open %s: %w", day, e)
		}
		for b := 0; b < d.NBlocks(); b++ {
			var col [types.ColIdxCount][]byte
			for _, c := range c27Cols {
				if col[c], e = d.ReadBlockAtIndex(c, b); e != nil {
					d.Close()
					return nil, nil, fmt.Errorf("%s block %d column %s: %w", day, b, types.ColumnFileNames[c], e)
				}
			}
			n4 := int(d.NumIPv4EntriesAtIndex(b))
			n := n4 + int(d.NumIPv6EntriesAtIndex(b))
			if n == 0 {
				continue
			}
			br, bs := bitpack.Unpack(col[types.BytesRcvdColIdx]), bitpack.Unpack(col[types.BytesSentColIdx])
			pr, ps := bitpack.Unpack(col[types.PacketsRcvdColIdx]), bitpack.Unpack(col[types.PacketsSentColIdx])
			sip, dip := col[types.SIPColIdx], col[types.DIPColIdx]
			if len(br) != n || len(bs) != n || len(pr) != n || len(ps) != n || len(sip) != 4*n4+16*(n-n4) || len(dip) != len(sip) {
				d.Close()
				return nil, nil, fmt.Errorf("%s block %d: inconsistent column lengths", day, b)
			}
			for i := 0; i < n; i++ {
				var s, t []byte
				if i < n4 {
					s, t = sip[4*i:4*i+4], dip[4*i:4*i+4]
				} else {
					o := 4*n4 + 16*(i-n4)
					s, t = sip[o:o+16], dip[o:o+16]
				}
				var f c27Flow
				ok := false
				for _, a := range [][]byte{s, t} {
					if len(a) == 4 && a[0] == 10 && a[1] == 77 && a[2] == idx {
						f, ok = c27Flow{false, a[3]}, true
					} else if len(a) == 16 && a[0] == 0xfd && a[1] == 0x77 && a[14] == idx {
						f, ok = c27Flow{true, a[15]}, true
					}
				}
				if !ok {
					odd = append(odd, fmt.Sprintf("%x>%x", s, t))
					continue
				}
				c := rows[f]
				c.pkts += pr[i] + ps[i]
				c.bytes += br[i] + bs[i]
				rows[f] = c
			}
		}
		if e := d.Close(); e != nil {
			return nil, nil, e
		}
	}
	return rows, odd, nil
}

var c27Cols = []types.ColumnIndex{types.SIPColIdx, types.DIPColIdx, types.BytesRcvdColIdx, types.BytesSentColIdx, types.PacketsRcvdColIdx, types.PacketsSentColIdx}

func c27RowsDiff(got, want map[c27Flow]c27Cnt) string {
	var msgs []string
	keys := map[c27Flow]bool{}
	for k := range got {
		keys[k] = true
	}
	for k := range want {
		keys[k] = true
	}
	var ks []c27Flow
	for k := range keys {
		ks = append(ks, k)
	}
	sort.Slice(ks, func(i, j int) bool { return ks[i].String() < ks[j].String() })
	for _, k := range ks {
		if got[k] != want[k] {
			msgs = append(msgs, fmt.Sprintf("flow %s: database has %d packets / %d bytes, delivered %d / %d", k, got[k].pkts, got[k].bytes, want[k].pkts, want[k].bytes))
		}
	}
	return strings.Join(msgs, "; ")
}

func c27Less(got, want map[c27Flow]c27Cnt) bool {
	for k, w := range want {
		if g := got[k]; g.pkts < w.pkts || g.bytes < w.bytes {
			return true
		}
	}
	return false
}

// ---------------------------------------------------------------- fake packet source

type c27EvKind int

const (
	c27EvPacket c27EvKind = iota
	c27EvUnblock
	c27EvStop
)

type c27Ev struct {
	kind c27EvKind
	ip   capture.IPLayer
	size uint32
}

// c27Source is a minimal capture.SourceZeroCopy: NextIPPacketZeroCopy parks on
// a queue fed by the scenario (packets), Unblock and Close.
type c27Source struct {
	env      *c27Env
	iface    string
	id       int
	cfg      config.CaptureConfig
	ch       chan c27Ev
	closed   bool // under env.mu
	stopped  bool // reader side
	pushed   int
	consumed atomic.Int64
	sinceSt  atomic.Uint64

	closedAtStep int
	dbAtClose    map[c27Flow]c27Cnt
	oddAtClose   []string
	dbErr        error
	wantAtClose  map[c27Flow]c27Cnt
}

func (s *c27Source) push(ev c27Ev) {
	select {
	case s.ch <- ev:
	default:
		s.env.harness("event queue of source %d (%s) is full", s.id, s.iface)
	}
}

func (s *c27Source) NextIPPacketZeroCopy() (capture.IPLayer, capture.PacketType, uint32, error) {
	if s.stopped {
		return nil, 0, 0, capture.ErrCaptureStopped
	}
	ev := <-s.ch
	switch ev.kind {
	case c27EvPacket:
		s.consumed.Add(1)
		s.sinceSt.Add(1)
		return ev.ip, capture.PacketThisHost, ev.size, nil
	case c27EvUnblock:
		return nil, 0, 0, capture.ErrCaptureUnblocked
	}
	s.stopped = true
	return nil, 0, 0, capture.ErrCaptureStopped
}

func (s *c27Source) NextPayloadZeroCopy() ([]byte, capture.PacketType, uint32, error) {
	ip, t, n, err := s.NextIPPacketZeroCopy()
	return ip, t, n, err
}

func (s *c27Source) unused(what string) { s.env.harness("fake source: unexpected call of %s", what) }

func (s *c27Source) NewPacket() capture.Packet { s.unused("NewPacket"); return nil }
func (s *c27Source) NextPacket(capture.Packet) (capture.Packet, error) {
	s.unused("NextPacket")
	return nil, capture.ErrCaptureStopped
}
func (s *c27Source) NextPayload([]byte) ([]byte, byte, uint32, error) {
	s.unused("NextPayload")
	return nil, 0, 0, capture.ErrCaptureStopped
}
func (s *c27Source) NextIPPacket(capture.IPLayer) (capture.IPLayer, capture.PacketType, uint32, error) {
	s.unused("NextIPPacket")
	return nil, 0, 0, capture.ErrCaptureStopped
}
func (s *c27Source) NextPacketFn(func([]byte, uint32, capture.PacketType, byte) error) error {
	s.unused("NextPacketFn")
	return capture.ErrCaptureStopped
}

func (s *c27Source) Stats() (capture.Stats, error) {
	return capture.Stats{PacketsReceived: s.sinceSt.Swap(0)}, nil
}

func (s *c27Source) Link() *link.Link { return &link.Link{Name: s.iface} }

func (s *c27Source) Unblock() error {
	s.env.mu.Lock()
	closed := s.closed
	s.env.mu.Unlock()
	if !closed {
		s.push(c27Ev{kind: c27EvUnblock})
	}
	return nil
}

// Close is where "written out before its capture stops" is observed: the
// database of the interface is read back before the source stops.
func (s *c27Source) Close() error {
	e := s.env
	e.mu.Lock()
	if s.closed {
		e.mu.Unlock()
		return nil
	}
	s.closed = true
	s.closedAtStep = e.step
	if e.open[s.iface] == s {
		delete(e.open, s.iface)
	}
	want := map[c27Flow]c27Cnt{}
	for k, v := range e.delivered[s.iface] {
		want[k] = v
	}
	e.closedNow = append(e.closedNow, s)
	e.mu.Unlock()
	s.wantAtClose = want
	if !e.race {
		s.dbAtClose, s.oddAtClose, s.dbErr = c27ReadDB(e.dbPath, s.iface)
	}
	s.push(c27Ev{kind: c27EvStop})
	return nil
}

// ---------------------------------------------------------------- execution environment

type c27Env struct {
	mu        sync.Mutex
	dbPath    string
	step      int
	nextID    int
	all       []*c27Source
	open      map[string]*c27Source
	closedNow []*c27Source
	delivered map[string]map[c27Flow]c27Cnt
	unwritten map[string]int // packets delivered to the currently open source of the interface
	seq       uint32
	harnessEr string
	dupOpen   string
	hist      []string
	race      bool           // C27.race: only the running-set oracle, no database reads, choices shared by the attempts
	memo      map[string]int // choices already made by an earlier attempt of the same execution
	gate      chan struct{}  // nil: the scheduler decides (C27.race)
}

// choose / deviate ask the explorer once per label and execution (the attempts of C27.race repeat the same history).
func (e *c27Env) choose(x *explore.Ctx, n int, label string) int {
	if v, ok := e.memo[label]; ok {
		return v
	}
	v := x.Choose(n, label)
	e.memo[label] = v
	return v
}

func (e *c27Env) deviate(x *explore.Ctx, n int, label string) int {
	if v, ok := e.memo[label]; ok {
		return v
	}
	v := x.Deviate(n, label)
	e.memo[label] = v
	return v
}

// fail records a violation; C27.race only judges the running set (everything else is C27's subject).
func (e *c27Env) fail(x *explore.Ctx, sig, format string, a ...any) {
	if e.race && !strings.HasPrefix(sig, "selected-interface-not-captured") && !strings.HasPrefix(sig, "unselected-interface-captured") {
		return
	}
	x.Fail(sig, format, a...)
}

func (e *c27Env) harness(format string, a ...any) {
	e.mu.Lock()
	if e.harnessEr == "" {
		e.harnessEr = fmt.Sprintf(format, a...)
	}
	e.mu.Unlock()
}

// initSource is the manager's source init function. With the gate enabled it
// first lets the rest of the bubble come to rest (one caller at a time), so that
// the goroutines still winding down from the sources just closed are done before
// the new capture is registered.
func (e *c27Env) initSource(c *gpcapture.Capture) (gpcapture.Source, error) {
	if e.gate != nil {
		e.gate <- struct{}{}
		synctest.Wait()
		<-e.gate
	}
	e.mu.Lock()
	defer e.mu.Unlock()
	s := &c27Source{env: e, iface: c.Iface(), id: e.nextID, cfg: c.VerifConfig(), ch: make(chan c27Ev, 64), closedAtStep: -1}
	e.nextID++
	if old := e.open[s.iface]; old != nil && e.dupOpen == "" {
		e.dupOpen = s.iface
	}
	e.open[s.iface] = s
	e.unwritten[s.iface] = 0
	e.all = append(e.all, s)
	return s, nil
}

func (e *c27Env) openIfaces() []string {
	e.mu.Lock()
	defer e.mu.Unlock()
	var out []string
	for i := range e.open {
		out = append(out, i)
	}
	sort.Strings(out)
	return out
}

func (e *c27Env) deliver(iface string, f c27Flow) {
	e.mu.Lock()
	s := e.open[iface]
	e.seq++
	size := 100 + e.seq
	if e.delivered[iface] == nil {
		e.delivered[iface] = map[c27Flow]c27Cnt{}
	}
	c := e.delivered[iface][f]
	c.pkts++
	c.bytes += uint64(size)
	e.delivered[iface][f] = c
	e.unwritten[iface]++
	s.pushed++
	e.mu.Unlock()
	s.push(c27Ev{kind: c27EvPacket, ip: c27Packet(iface, f), size: size})
}

// ---------------------------------------------------------------- log capture

type c27LogSink struct {
	mu   sync.Mutex
	keep bool
	buf  bytes.Buffer
}

func (l *c27LogSink) Write(p []byte) (int, error) {
	l.mu.Lock()
	if l.keep && l.buf.Len() < 1<<16 {
		l.buf.Write(p)
	}
	l.mu.Unlock()
	return len(p), nil
}

func (l *c27LogSink) take(keepNext bool) string {
	l.mu.Lock()
	defer l.mu.Unlock()
	s := l.buf.String()
	l.buf.Reset()
	l.keep = keepNext
	return s
}

var (
	c27Logs    = &c27LogSink{}
	c27LogOnce sync.Once
)

func c27Setup(tier string) {
	c28Setup(tier) // parks the *testing.T that testing/synctest needs (c28T)
	c27LogOnce.Do(func() {
		if _, err := logging.Init(slog.LevelInfo, logging.EncodingLogfmt, logging.WithOutput(c27Logs), logging.WithErrorOutput(c27Logs)); err != nil {
			explore.HarnessErrorf("logging.Init: %v", err)
		}
	})
}

// c27PanicSite is the first repository frame below the panic in a stack trace.
func c27PanicSite(stack string) string {
	lines := strings.Split(stack, "\n")
	seen := false
	for _, l := range lines {
		if strings.HasPrefix(l, "panic(") {
			seen = true
			continue
		}
		if seen && (strings.Contains(l, "els0r/goProbe") || strings.Contains(l, "fako1024")) && !strings.HasPrefix(l, "\t") {
			fn := l
			if j := strings.LastIndex(fn, "("); j > 0 {
				fn = fn[:j]
			}
			if j := strings.LastIndex(fn, "/"); j >= 0 {
				fn = fn[j+1:]
			}
			return fn
		}
	}
	return "unknown"
}

// c27Bubble runs body on the root goroutine of a fresh synctest bubble. A panic
// of the explorer itself is carried out of the bubble unchanged; any other
// panic is returned. cleanup always runs inside the bubble (it must let every
// goroutine of the bubble end).
func c27Bubble(body, cleanup func()) (panicVal any, stack string) {
	var explorerPanic any
	synctest.Test(c28T, func(*testing.T) {
		defer func() {
			if e := recover(); e != nil {
				if strings.HasPrefix(fmt.Sprintf("%T", e), "explore.") {
					explorerPanic = e
				} else {
					panicVal, stack = e, string(debug.Stack())
				}
			}
			cleanup()
			synctest.Wait()
		}()
		body()
	})
	if explorerPanic != nil {
		panic(explorerPanic)
	}
	return
}

// ---------------------------------------------------------------- permutations of the matcher map order

var c27Perms = map[int][][]int{
	1: {{0}},
	2: {{0, 1}, {1, 0}},
	3: {{0, 1, 2}, {0, 2, 1}, {1, 0, 2}, {1, 2, 0}, {2, 0, 1}, {2, 1, 0}},
}

func c27SetOrder(perm []int) {
	verifhook.SetOrder(func(site string, keys []string) []int {
		if site != "matchers" || len(keys) != len(perm) {
			return nil
		}
		return perm
	})
}

// c27MatcherPick asks the real matcher which entry it picks for a host link
// when its regexp map is visited in the given order (nil = sorted keys).
func c27MatcherPick(d *c27Def, l string, perm []int) (config.CaptureConfig, bool, error) {
	if perm == nil {
		verifhook.SetOrder(func(string, []string) []int { return nil })
	} else {
		c27SetOrder(perm)
	}
	defer verifhook.SetOrder(nil)
	m, _, err := d.build().Interfaces.Matcher()
	if err != nil {
		return config.CaptureConfig{}, false, err
	}
	cfg, ok := m.FindMatch(l)
	return cfg, ok, nil
}

// ---------------------------------------------------------------- the scenario

var c27PkAlts = [][]c27Flow{
	{{false, 1}, {true, 2}}, // default: an IPv4 and an IPv6 flow
	{},
	{{false, 1}},
	{{false, 1}, {false, 1}},
}

type c27Opts struct {
	gate   bool // initSource waits for the bubble to come to rest before a new capture is registered
	race   bool // no gate, several attempts, only the running-set oracle
	maxLen func(tier string) int
	stop   bool // the second configuration may be "stop"
	wide   int  // >0: the wide universe (see c27WideSetup) with that many links in the quick tier; cases are its transition pairs
}

const c27RaceAttempts = 4

func c27Cases(tier string, o c27Opts) int {
	if o.wide > 0 {
		_, _, pairs := c27Wide(c27WideLinks(tier, o))
		return len(pairs)
	}
	n := c27N(tier)
	if o.stop {
		return n * (n + 1)
	}
	return n * n
}

func c27RunWith(o c27Opts) func(x *explore.Ctx) {
	return func(x *explore.Ctx) {
		if o.wide > 0 {
			links, alpha, _ := c27Wide(c27WideLinks(x.Tier, o))
			oldL, oldA := c27Links, c27Alphabet
			c27Links, c27Alphabet = links, alpha
			defer func() { c27Links, c27Alphabet = oldL, oldA }()
		}
		restore := gpcapture.VerifSetHostLinks(func(...string) (link.Links, error) {
			var ls link.Links
			for _, l := range c27Links {
				ls = append(ls, &link.Link{Name: l})
			}
			return ls, nil
		})
		defer restore()
		defer verifhook.SetOrder(nil)
		memo := map[string]int{}
		attempts := 1
		if o.race {
			attempts = c27RaceAttempts
		}
		seen := -1
		for a := 0; a < attempts && !x.Failed(); a++ {
			c27Attempt(x, o, memo)
			if x.Failed() {
				seen = a
			}
		}
		if o.race {
			x.Logf("violation observed: %v (attempt %d of at most %d)", seen >= 0, seen+1, attempts)
			x.Obs("running set violated in some schedule: %v", seen >= 0)
		}
	}
}

// c27Attempt runs the history once on a fresh manager in a fresh bubble.
func c27Attempt(x *explore.Ctx, o c27Opts, memo map[string]int) {
	e := &c27Env{dbPath: fixture.NewDir(), open: map[string]*c27Source{}, delivered: map[string]map[c27Flow]c27Cnt{}, unwritten: map[string]int{}, race: o.race, memo: memo}
	defer os.RemoveAll(e.dbPath)
	c27Logs.take(x.Logging())
	defer c27Logs.take(false)
	pv, stack := c27Bubble(func() { c27Body(x, e, o) }, func() {
		// let every goroutine of the manager end: stop every source still open
		e.mu.Lock()
		var left []*c27Source
		for _, s := range e.all {
			if !s.closed {
				s.closed = true
				left = append(left, s)
			}
		}
		e.mu.Unlock()
		for _, s := range left {
			s.push(c27Ev{kind: c27EvStop})
		}
	})
	if x.Logging() {
		if l := c27Logs.take(false); l != "" {
			x.Logf("manager log:\n%s", l)
		}
	}
	if e.harnessEr != "" {
		explore.HarnessErrorf("%s", e.harnessEr)
	}
	if pv != nil {
		e.fail(x, "panic:"+c27PanicSite(stack), "panic during step %d (history %v): %v\n%s", e.step, e.hist, pv, stack)
	}
}

func c27Body(x *explore.Ctx, e *c27Env, o c27Opts) {
	ctx := context.Background()
	if o.gate {
		e.gate = make(chan struct{}, 1)
	}
	n := c27N(x.Tier)
	maxLen := o.maxLen(x.Tier)
	nalt := 3
	if x.Thorough() {
		nalt = len(c27PkAlts)
	}
	second := n
	if o.stop {
		second = n + 1
	}
	c1, c2 := x.Case/second, x.Case%second
	if o.wide > 0 {
		_, _, pairs := c27Wide(c27WideLinks(x.Tier, o))
		c1, c2 = pairs[x.Case][0], pairs[x.Case][1]
		n = len(c27Alphabet)
	}
	var cm *gpcapture.Manager
	for step := 0; step < maxLen; step++ {
		e.mu.Lock()
		e.step = step
		e.mu.Unlock()
		ci := c1
		switch {
		case step == 1:
			ci = c2
		case step > 1:
			ci = e.choose(x, n+1, fmt.Sprintf("config@%d", step))
		}
		if ci == n {
			break
		}
		def := &c27Alphabet[ci]
		prev := append([]string(nil), e.hist...)
		e.hist = append(e.hist, def.name)
		where := fmt.Sprintf("step %d: Update(%s) after %v", step, def.name, prev)

		// ---- map order of the regexp matchers for this update
		var perm []int
		if nre := def.regexps(); nre >= 2 {
			perm = c27Perms[nre][e.choose(x, len(c27Perms[nre]), fmt.Sprintf("matcher-order@%d", step))]
		} else if nre == 1 {
			perm = []int{0}
		}

		// ---- model of the new configuration
		cands := def.candidates()
		pick := map[string]int{}
		ambiguous := map[string]bool{}
		for _, l := range c27Links {
			cs := cands[l]
			if len(cs) == 0 {
				continue
			}
			pick[l] = cs[0]
			if len(cs) == 1 {
				continue
			}
			// several regular expressions with different entries match: any of them is
			// acceptable, but it must be the same one for every map order
			ambiguous[l] = true
			idx := func(c config.CaptureConfig) int {
				for _, p := range cs {
					if c27CfgDiff(c, c27Par(p)) == "" {
						return p
					}
				}
				return -1
			}
			ref, ok, err := c27MatcherPick(def, l, nil)
			got, ok2, err2 := c27MatcherPick(def, l, perm)
			if err != nil || err2 != nil || !ok || !ok2 {
				e.fail(x, "matcher-finds-nothing", "%s: %d regular expressions match %s but FindMatch finds nothing (sorted order: %v %v, order %v: %v %v)", where, len(cs), l, ok, err, perm, ok2, err2)
				return
			}
			ri, gi := idx(ref), idx(got)
			if ri < 0 || gi < 0 {
				e.fail(x, "matcher-entry-not-from-configuration", "%s: FindMatch(%s) returns %s / %s, none of the entries matching it", where, l, c27CfgString(ref), c27CfgString(got))
				return
			}
			pick[l] = gi
			if gi != ri {
				e.fail(x, "overlapping-regexps-by-map-order", "%s: %s matches several regular expressions with different entries; visiting the matcher map in order %v gives it %s (%s), in sorted order %s (%s): the configuration an interface runs with depends on map iteration order", where, l, perm, c27ParNames[gi], c27CfgString(got), c27ParNames[ri], c27CfgString(ref))
				// the execution continues with the entry chosen under this order
			}
			x.Nontrivial("overlap %s %s %v", def.name, l, perm)
		}
		want := map[string]int{}
		for l, p := range pick {
			if p != c27X {
				want[l] = p
			}
		}

		// ---- the update
		before := map[string]*c27Source{}
		e.mu.Lock()
		for i, s := range e.open {
			before[i] = s
		}
		unwritten := map[string]int{}
		for i, u := range e.unwritten {
			unwritten[i] = u
		}
		e.closedNow = nil
		e.mu.Unlock()
		if perm != nil {
			c27SetOrder(perm)
		}
		x.Transition()
		var err error
		if cm == nil {
			// the daemon's entry point: creates the GoDB write-out handler, the shared local buffer and applies the first configuration
			c := def.build()
			c.DB = config.DBConfig{Path: e.dbPath, EncoderType: "lz4"}
			cm, err = gpcapture.InitManager(ctx, c, gpcapture.WithSourceInitFn(e.initSource), gpcapture.WithSkipWriteoutSchedule(true))
		} else {
			_, _, _, err = cm.Update(ctx, def.build())
		}
		verifhook.SetOrder(nil)
		synctest.Wait()
		x.Logf("t=%s %s, matcher order %v -> err %v; open sources %v", time.Now().UTC().Format("15:04:05"), where, perm, err, e.openIfaces())
		if e.harnessEr != "" {
			return
		}
		if err != nil {
			e.fail(x, "update-error", "%s fails: %v", where, err)
			return
		}

		// ---- traffic of every source stopped by this update
		e.mu.Lock()
		closed := append([]*c27Source(nil), e.closedNow...)
		dup := e.dupOpen
		cur := map[string]*c27Source{}
		for i, s := range e.open {
			cur[i] = s
		}
		e.mu.Unlock()
		if dup != "" {
			e.fail(x, "two-sources-one-interface", "%s: a second source was opened on %s while the first was still open", where, dup)
			return
		}
		// sources are closed in the manager's map iteration order: judge them in a fixed one
		sort.Slice(closed, func(i, j int) bool { return closed[i].iface < closed[j].iface })
		for _, s := range closed {
			reason := "removed"
			if _, stays := want[s.iface]; stays {
				reason = "reconfigured"
			}
			if !c27CheckClosed(x, e, s, reason, where) {
				return
			}
			if unwritten[s.iface] > 0 {
				last := ""
				if len(prev) > 0 {
					last = prev[len(prev)-1]
				}
				x.Nontrivial("writeout %s %s->%s %s %d", reason, last, def.name, s.iface, unwritten[s.iface])
			}
		}

		// ---- running captures = selected interfaces, each with its deterministic configuration
		x.Transition()
		status := cm.Status(ctx)
		synctest.Wait()
		reported := cm.Config()
		var stKeys, cfKeys, wantKeys, openKeys []string
		for i := range status {
			stKeys = append(stKeys, i)
		}
		for i := range reported {
			cfKeys = append(cfKeys, i)
		}
		for i := range want {
			wantKeys = append(wantKeys, i)
		}
		for i := range cur {
			openKeys = append(openKeys, i)
		}
		sort.Strings(stKeys)
		sort.Strings(cfKeys)
		sort.Strings(wantKeys)
		sort.Strings(openKeys)
		x.Logf("   selected %v; Status %v; Config %v; open sources %v", wantKeys, stKeys, cfKeys, openKeys)
		for _, l := range c27Links {
			_, sel := want[l]
			_, run := cur[l]
			_, inSt := status[l]
			switch {
			case !sel && (run || inSt) && pick[l] == c27X && !ambiguous[l]:
				e.fail(x, "disabled-interface-captured", "%s: %s is configured with disable: true but a capture runs on it (open source: %v, in Status: %v); selected %v, running %v", where, l, run, inSt, wantKeys, openKeys)
				return
			case !sel && (run || inSt) && pick[l] == c27X:
				e.fail(x, "disabled-interface-captured:regexp", "%s: the entry chosen for %s has disable: true but a capture runs on it; selected %v, running %v", where, l, wantKeys, openKeys)
				return
			case !sel && (run || inSt):
				e.fail(x, "unselected-interface-captured", "%s: %s is not selected by the configuration but a capture runs on it (open source: %v, in Status: %v); selected %v", where, l, run, inSt, wantKeys)
				return
			case sel && !run:
				kind := "enabled"
				if before[l] != nil {
					kind = "reconfigured"
				}
				e.fail(x, "selected-interface-not-captured:"+kind, "%s: %s is selected (to be %s by this update) but no capture source is open on it afterwards; selected %v, running %v, Status %v", where, l, kind, wantKeys, openKeys, stKeys)
				return
			case sel && !inSt:
				e.fail(x, "selected-interface-not-in-status", "%s: %s is selected and its source is open but Status does not list it; Status %v", where, l, stKeys)
				return
			}
		}
		if strings.Join(cfKeys, ",") != strings.Join(wantKeys, ",") {
			e.fail(x, "config-keys", "%s: Manager.Config lists %v, selected %v", where, cfKeys, wantKeys)
			return
		}
		var st strings.Builder
		for _, l := range wantKeys {
			exp := c27Par(want[l])
			s := cur[l]
			if f := c27CfgDiff(s.cfg, exp); f != "" {
				if before[l] == s {
					e.fail(x, "stale-configuration:"+f, "%s: %s keeps running with %s (its source was opened by an earlier update), the latest configuration gives it %s: the change of %s was not applied", where, l, c27CfgString(s.cfg), c27CfgString(exp), f)
				} else {
					e.fail(x, "wrong-configuration:"+f, "%s: the source of %s was initialised with %s, the configuration gives it %s", where, l, c27CfgString(s.cfg), c27CfgString(exp))
				}
				return
			}
			if f := c27CfgDiff(reported[l], exp); f != "" {
				e.fail(x, "reported-configuration:"+f, "%s: Manager.Config reports %s for %s, the configuration gives it %s", where, c27CfgString(reported[l]), l, c27CfgString(exp))
				return
			}
			fmt.Fprintf(&st, "%s=%d/%d;", l, want[l], unwritten[l])
		}
		// canonical state: running set, applied parameter sets, packets not yet written when the update began
		x.State([]byte(st.String()))

		// ---- gap: virtual time, then traffic on every running interface
		time.Sleep(2 * time.Second)
		for _, l := range openKeys {
			alt := c27PkAlts[e.deviate(x, nalt, fmt.Sprintf("packets@%d:%s", step, l))]
			for _, f := range alt {
				x.Transition()
				e.deliver(l, f)
			}
		}
		synctest.Wait()
		e.mu.Lock()
		for _, s := range e.open {
			if int(s.consumed.Load()) != s.pushed {
				e.mu.Unlock()
				explore.HarnessErrorf("source %d (%s): %d packets delivered, %d consumed at quiescence", s.id, s.iface, s.pushed, s.consumed.Load())
			}
		}
		e.mu.Unlock()
		time.Sleep(2 * time.Second)
	}
	if cm == nil {
		return
	}

	// ---- shutdown: everything delivered must be in the database when the sources stop
	e.mu.Lock()
	e.step = len(e.hist)
	e.closedNow = nil
	e.mu.Unlock()
	x.Transition()
	cm.Close(ctx)
	synctest.Wait()
	e.mu.Lock()
	closed := append([]*c27Source(nil), e.closedNow...)
	left := len(e.open)
	e.mu.Unlock()
	x.Logf("t=%s Manager.Close -> %d sources stopped, %d left open", time.Now().UTC().Format("15:04:05"), len(closed), left)
	if left > 0 {
		e.fail(x, "close-leaves-source-open", "after %v: Manager.Close leaves sources open on %v", e.hist, e.openIfaces())
		return
	}
	sort.Slice(closed, func(i, j int) bool { return closed[i].iface < closed[j].iface })
	for _, s := range closed {
		if !c27CheckClosed(x, e, s, "shutdown", fmt.Sprintf("Manager.Close after %v", e.hist)) {
			return
		}
	}
	if e.race {
		return
	}
	var ob strings.Builder
	for _, l := range c27Links {
		if len(e.delivered[l]) == 0 {
			if _, err := os.Stat(filepath.Join(e.dbPath, l)); err != nil {
				continue
			}
		}
		rows, odd, err := c27ReadDB(e.dbPath, l)
		if err != nil {
			e.fail(x, "database-unreadable", "after %v: database of %s: %v", e.hist, l, err)
			return
		}
		if len(odd) > 0 {
			e.fail(x, "database-foreign-rows", "after %v: database of %s holds rows that were never delivered there: %v", e.hist, l, odd)
			return
		}
		if d := c27RowsDiff(rows, e.delivered[l]); d != "" {
			e.fail(x, "database-final", "after %v and Manager.Close: database of %s differs from the traffic delivered: %s", e.hist, l, d)
			return
		}
		for _, f := range []c27Flow{{false, 1}, {true, 2}} {
			if c, ok := rows[f]; ok {
				fmt.Fprintf(&ob, "%s/%s:%d/%d ", l, f, c.pkts, c.bytes)
			}
		}
	}
	x.Obs("%d updates; %s", len(e.hist), ob.String())
}

// c27CheckClosed compares the database read back at the Close of a source with
// the traffic delivered to its interface up to then.
func c27CheckClosed(x *explore.Ctx, e *c27Env, s *c27Source, reason, where string) bool {
	if e.race {
		return true
	}
	if s.dbErr != nil {
		e.fail(x, "database-unreadable", "%s: reading the database of %s at the Close of its source: %v", where, s.iface, s.dbErr)
		return false
	}
	if len(s.oddAtClose) > 0 {
		e.fail(x, "database-foreign-rows", "%s: database of %s holds rows that were never delivered there: %v", where, s.iface, s.oddAtClose)
		return false
	}
	if d := c27RowsDiff(s.dbAtClose, s.wantAtClose); d != "" {
		if c27Less(s.dbAtClose, s.wantAtClose) {
			e.fail(x, "traffic-not-written-before-close:"+reason, "%s: %s is %s; when its source is closed the database lacks traffic captured on it: %s", where, s.iface, reason, d)
		} else {
			e.fail(x, "database-surplus:"+reason, "%s: %s is %s; when its source is closed the database holds more than was delivered: %s", where, s.iface, reason, d)
		}
		return false
	}
	return true
}

// ---------------------------------------------------------------- wide universe

func c27WideLinks(tier string, o c27Opts) int {
	if tier == "thorough" {
		return o.wide + 1
	}
	return o.wide
}

type c27WideSet struct {
	links []string
	alpha []c27Def
	pairs [][2]int
}

var c27WideCache = map[int]*c27WideSet{}

// c27Wide builds, for nl host links eth0..eth<nl-1>, every single reconfiguration in which each link
// independently stays absent / is added / is removed / is kept / has a parameter changed (5^nl
// transitions, without those whose first or second configuration is empty). Configurations name
// their interfaces explicitly; the alphabet is the set of configurations these transitions use.
func c27Wide(nl int) ([]string, []c27Def, [][2]int) {
	if w, ok := c27WideCache[nl]; ok {
		return w.links, w.alpha, w.pairs
	}
	w := &c27WideSet{}
	for i := 0; i < nl; i++ {
		w.links = append(w.links, fmt.Sprintf("eth%d", i))
	}
	index := map[string]int{}
	intern := func(entries []c27Entry) int {
		var nm []string
		for _, e := range entries {
			if e.par == c27D {
				nm = append(nm, e.key)
			} else {
				nm = append(nm, e.key+":"+c27ParNames[e.par])
			}
		}
		name := "{" + strings.Join(nm, ",") + "}"
		if i, ok := index[name]; ok {
			return i
		}
		index[name] = len(w.alpha)
		w.alpha = append(w.alpha, c27Def{name: name, entries: entries})
		return len(w.alpha) - 1
	}
	total := 1
	for i := 0; i < nl; i++ {
		total *= 5
	}
	for code := 0; code < total; code++ {
		var a, b []c27Entry
		c := code
		for i := 0; i < nl; i++ {
			switch c % 5 {
			case 1: // added
				b = append(b, c27Entry{w.links[i], c27D})
			case 2: // removed
				a = append(a, c27Entry{w.links[i], c27D})
			case 3: // kept
				a = append(a, c27Entry{w.links[i], c27D})
				b = append(b, c27Entry{w.links[i], c27D})
			case 4: // parameter change
				a = append(a, c27Entry{w.links[i], c27D})
				b = append(b, c27Entry{w.links[i], c27P})
			}
			c /= 5
		}
		if len(a) == 0 || len(b) == 0 {
			continue
		}
		w.pairs = append(w.pairs, [2]int{intern(a), intern(b)})
	}
	c27WideCache[nl] = w
	return w.links, w.alpha, w.pairs
}

const c27Alpha = "{eth0}, {eth0,eth1}, {/eth.*/}, {/eth.*/ + /.*0/:promisc}, {/eth.*/ + eth1:ring}, {eth0 + eth1:disable}, {eth0:promisc}, {eth0:ring}, {eth0:ignore-vlans}, {eth0:bpf}, autodetect -lo, {/eth.*/ + eth1:disable}, {eth1,lo} (thorough adds autodetect -/.*1/, {/eth.*/:ignore-vlans + /.*0/:bpf}, {/.*/ + /eth1/:disable}, {eth0 + /.*1/:disable}) on host links eth0, eth1, lo"

func init() {
	assume := []string{
		"host links are eth0, eth1, lo (the manager's hostLinks variable, the seam its own tests assign, set through an overlay export file)",
		"packet sources are fakes implementing capture.SourceZeroCopy installed with the public WithSourceInitFn; a source never fails to open or close; packets are UDP to port 53, one flow identity per (interface, flow), every delivered packet is consumed before the next manager event",
		"the manager is created by capture.InitManager (real GoDBHandler, lz4, shared local buffer) with the scheduled rotation switched off; manager events (Update, Status, traffic, Close) are >= 2 s of virtual time apart",
		"for an interface matched by several regular expressions with different entries any of these entries is accepted, provided the real matcher returns the same one for every map iteration order (reference = sorted order)",
		"regexp-matcher map order is enumerated through the verifhook.Ordered rewrite of config.go; one order per Update",
	}
	lenMain := c27MaxLen
	lenTraffic := func(t string) int { return c27MaxLen(t) - 1 }
	oracle := "After every Update: Status keys, Config, open fake sources and the configuration each was initialised with vs. the selection model; at every source Close the interface's database is read back and compared with the traffic delivered so far. A new capture is registered only after the goroutines of the sources just closed have come to rest (the other order is C27.race). state = (running set, parameter set per interface, packets unwritten when the update began); non-trivial = distinct (reason, previous config -> new config, interface, unwritten packet count) where a stopped source had unwritten traffic, and distinct (config, interface, map order) where overlapping regular expressions were resolved"
	main := c27Opts{gate: true, maxLen: lenMain, stop: true}
	register("C27", &explore.Scenario{
		ID: "C27", Name: "capture reconfiguration histories on the real Manager (virtual time, fake sources, real GoDB write-out)", Level: "model_checking",
		Rule:  "cases = first configuration x (second configuration | stop) over the alphabet " + c27Alpha + "; free choices: third (thorough: and fourth) configuration or stop, every visiting order of the regexp-matcher map for configurations with two regular expressions; between updates every running interface receives one IPv4 and one IPv6 packet (two flows). " + oracle,
		Cases: func(t string) int { return c27Cases(t, main) },
		Bound: func(t string) int { return 0 },
		Run:   c27RunWith(main), Setup: c27Setup, PanicSig: "panic",
		Assumptions: assume,
	})
	wide := c27Opts{gate: true, maxLen: func(string) int { return 2 }, wide: 6}
	register("C27.wide", &explore.Scenario{
		ID: "C27", Name: "single reconfigurations over a wide interface universe: every per-interface transition combination", Level: "model_checking",
		Rule:  "host links eth0..eth5 (thorough eth0..eth6); cases = every reconfiguration A -> B in which each link independently {stays absent, is added, is removed, is kept, changes a parameter (promisc)}: 5^6 = 15625 (thorough 5^7 = 78125) transitions minus those with an empty A or B, interfaces named explicitly; default traffic before and after the update. " + oracle,
		Cases: func(t string) int { return c27Cases(t, wide) },
		Bound: func(t string) int { return 0 },
		Run:   c27RunWith(wide), Setup: c27Setup, PanicSig: "panic",
		Assumptions: assume,
	})
	traffic := c27Opts{gate: true, maxLen: lenTraffic, stop: true}
	register("C27.traffic", &explore.Scenario{
		ID: "C27", Name: "reconfiguration histories with 0-2 packets per interface between updates", Level: "model_checking",
		Rule:  "as C27 with histories of <= 2 (thorough 3) updates; per gap and running interface one deviation replaces the default traffic (an IPv4 and an IPv6 packet) by none / one packet / two packets of one flow; all histories with <= bound deviations. " + oracle,
		Cases: func(t string) int { return c27Cases(t, traffic) },
		Bound: func(t string) int { return 1 },
		Run:   c27RunWith(traffic), Setup: c27Setup, PanicSig: "panic",
		Assumptions: assume,
	})
	race := c27Opts{race: true, maxLen: func(string) int { return 2 }, stop: false}
	register("C27.race", &explore.Scenario{
		ID: "C27", Name: "reconfiguration with the closed capture's goroutines left to the Go scheduler", Level: "model_checking",
		Rule:  "cases = every ordered pair of configurations of the alphabet " + c27Alpha + " x matcher map orders, default traffic in between. Nothing orders the goroutines that wind down after a source was closed against the registration of the new capture on the same interface: the Go scheduler decides (GOMAXPROCS=1; the fake performs no system call in that window). Each history is run up to 4 times on fresh managers; the only oracle is running captures = selected interfaces after the second Update, a violation in any run is a violation (each run is a legal schedule). non-trivial as C27",
		Cases: func(t string) int { return c27Cases(t, race) },
		Bound: func(t string) int { return 0 },
		Run:   c27RunWith(race), Setup: c27Setup, PanicSig: "panic",
		Assumptions: append(append([]string(nil), assume...), "C27.race: goroutine order between two seams is the Go scheduler's; not enumerated"),
	})
}

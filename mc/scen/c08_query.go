package scen

import (
	"fmt"
	"net/netip"
	"os"
	"strings"

	"github.com/els0r/goProbe/v4/pkg/goDB/encoder/encoders"
	"github.com/els0r/goProbe/v4/pkg/goDB/engine"
	"github.com/els0r/goProbe/v4/pkg/query"
	"github.com/els0r/goProbe/v4/pkg/types"

	"verifmc/explore"
	"verifmc/fixture"
)

// C08: query results equal a direct aggregation of the stored flows.

const (
	dayA   = int64(1700006400) // 2023-11-15 00:00:00 UTC
	dayB   = dayA + 86400
	dayDec = int64(1701388800) // 2023-12-01 00:00:00 UTC
	tA1    = dayA + 300
	tA2    = dayA + 600
	tB1    = dayB + 300
	tD1    = dayDec + 300
)

func cnt(a, b, c, d uint64) types.Counters {
	return types.Counters{BytesRcvd: a, BytesSent: b, PacketsRcvd: c, PacketsSent: d}
}

func rec(s, d string, dport uint16, proto uint8, c types.Counters) fixture.Rec {
	return fixture.Rec{SIP: fixture.MustAddr(s), DIP: fixture.MustAddr(d), Dport: dport, Proto: proto, C: c}
}

var (
	r4a = rec("10.0.0.1", "10.0.0.2", 80, 6, cnt(100, 200, 1, 2))
	r4b = rec("10.0.0.1", "10.0.0.2", 443, 6, cnt(10, 0, 1, 0))      // inbound only
	r4c = rec("10.0.0.2", "10.0.0.1", 53, 17, cnt(0, 50, 0, 5))      // outbound only
	r4d = rec("192.168.1.1", "10.128.0.1", 0, 1, cnt(7, 7, 7, 7))    // icmp
	r4e = rec("10.128.0.1", "10.0.0.2", 80, 17, cnt(1<<33, 3, 4, 5)) // large counter, same dport other proto
	r6a = rec("2001:db8::1", "2001:db8::2", 80, 6, cnt(1000, 2000, 10, 20))
	r6b = rec("a00:1::5", "2001:db8::2", 80, 6, cnt(5, 6, 7, 8))        // leading bytes equal 10.0.0.1
	r6c = rec("fe80::1", "ff02::1", 0, 58, cnt(64, 0, 1, 0))            // inbound only
	r6d = rec("2001:db8::2", "2001:db8::1", 443, 6, cnt(0, 9, 0, 1))    // outbound only
	r6z = rec("2001:db8::", "2001:db8::2", 443, 6, cnt(11, 12, 13, 14)) // 12 trailing zero bytes
)

func scale(r fixture.Rec, k uint64) fixture.Rec {
	r.C = cnt(r.C.BytesRcvd*k, r.C.BytesSent*k+1, r.C.PacketsRcvd*k, r.C.PacketsSent*k)
	return r
}

type c08Shape struct {
	name string
	db   fixture.DB
}

func c08Shapes() []c08Shape {
	v4 := []fixture.Rec{r4a, r4b, r4c, r4d, r4e}
	v6 := []fixture.Rec{r6a, r6b, r6c, r6d}
	mk := func(a, b, c, d, e []fixture.Rec) fixture.DB {
		return fixture.DB{Blocks: []fixture.Block{
			{Iface: "eth0", TS: tA1, Recs: a, Drops: 1},
			{Iface: "eth0", TS: tA2, Recs: b, Drops: 2},
			{Iface: "eth0", TS: tB1, Recs: c},
			{Iface: "eth1", TS: tA1, Recs: d, Drops: 4},
			{Iface: "eth1", TS: tD1, Recs: e, Drops: 8},
		}}
	}
	sc := func(rs []fixture.Rec, k uint64) []fixture.Rec {
		out := make([]fixture.Rec, len(rs))
		for i := range rs {
			out[i] = scale(rs[i], k)
		}
		return out
	}
	mixed := append(append([]fixture.Rec{}, v4...), v6...)
	return []c08Shape{
		{"v4-only", mk(v4, sc(v4[:3], 2), sc(v4[1:], 3), sc(v4[2:], 5), sc(v4[:2], 7))},
		{"v6-only", mk(v6, sc(v6[:2], 2), sc(v6[1:], 3), sc(v6[2:], 5), sc(v6[:2], 7))},
		{"mixed", mk(mixed, sc(mixed[2:7], 2), sc(mixed[4:], 3), sc(mixed[:6], 5), sc(mixed[3:8], 7))},
		{"mixed+v6-trailing-zeros", mk(append(append([]fixture.Rec{}, mixed...), r6z), sc(mixed[2:7], 2), []fixture.Rec{scale(r6z, 3), r4a}, sc(mixed[:6], 5), sc(mixed[3:8], 7))},
	}
}

var c08DBPaths = map[string]string{}

// c08DB writes the shape once per worker process (read-only afterwards).
func c08DB(sh c08Shape) string {
	if p, ok := c08DBPaths[sh.name]; ok {
		return p
	}
	p := fixture.NewDir()
	if err := sh.db.WriteTo(p, encoders.EncoderTypeLZ4); err != nil {
		explore.HarnessErrorf("cannot build database %s: %v", sh.name, err)
	}
	c08DBPaths[sh.name] = p
	return p
}

type c08Cond struct {
	text string
	pred func(fixture.Rec) bool
	sig  string // finding signature class when this condition misbehaves
}

func a(s string) netip.Addr { return fixture.MustAddr(s) }
func inNet(ip netip.Addr, p string) bool {
	pf := netip.MustParsePrefix(p)
	return ip.Is4() == pf.Addr().Is4() && pf.Contains(ip)
}

// c08Conds: hand-written (text, reference predicate) pairs; index 0 = no condition.
var c08Conds = []c08Cond{
	{"", nil, "nocond"},
	{"sip = 10.0.0.1", func(r fixture.Rec) bool { return r.SIP == a("10.0.0.1") }, "leaf"},
	{"dip = 2001:db8::2", func(r fixture.Rec) bool { return r.DIP == a("2001:db8::2") }, "leaf"},
	{"dport = 80", func(r fixture.Rec) bool { return r.Dport == 80 }, "leaf"},
	{"proto = 6", func(r fixture.Rec) bool { return r.Proto == 6 }, "leaf"},
	{"dport != 80", func(r fixture.Rec) bool { return r.Dport != 80 }, "leaf"},
	{"dport < 100", func(r fixture.Rec) bool { return r.Dport < 100 }, "leaf"},
	{"dport >= 443", func(r fixture.Rec) bool { return r.Dport >= 443 }, "leaf"},
	{"snet = 10.0.0.0/8", func(r fixture.Rec) bool { return inNet(r.SIP, "10.0.0.0/8") }, "net"},
	{"dnet = 2001:db8::/32", func(r fixture.Rec) bool { return inNet(r.DIP, "2001:db8::/32") }, "net"},
	{"sip = 10.0.0.1 & dport = 80", func(r fixture.Rec) bool { return r.SIP == a("10.0.0.1") && r.Dport == 80 }, "and"},
	{"sip = 10.0.0.1 | dport = 80", func(r fixture.Rec) bool { return r.SIP == a("10.0.0.1") || r.Dport == 80 }, "or-ip-nonip"},
	{"dport = 443 | dip = 2001:db8::2", func(r fixture.Rec) bool { return r.Dport == 443 || r.DIP == a("2001:db8::2") }, "or-ip-nonip"},
	{"sip = 10.0.0.1 | sip = 2001:db8::1", func(r fixture.Rec) bool { return r.SIP == a("10.0.0.1") || r.SIP == a("2001:db8::1") }, "or-v4-v6"},
	{"sip != 10.0.0.1", func(r fixture.Rec) bool { return r.SIP != a("10.0.0.1") }, "neq-ip"},
	{"!(sip = 10.0.0.1)", func(r fixture.Rec) bool { return r.SIP != a("10.0.0.1") }, "not-ip"},
	{"!(dnet = 2001:db8::/32)", func(r fixture.Rec) bool { return !inNet(r.DIP, "2001:db8::/32") }, "not-net"},
	{"dport = 80 & !(proto = 17)", func(r fixture.Rec) bool { return r.Dport == 80 && r.Proto != 17 }, "and-not"},
	{"snet = 10.0.0.0/9 | sip = 10.128.0.1", func(r fixture.Rec) bool { return inNet(r.SIP, "10.0.0.0/9") || r.SIP == a("10.128.0.1") }, "net-then-ip"},
	{"(sip = 10.0.0.1 | dip = 10.0.0.1) & proto = 6", func(r fixture.Rec) bool {
		return (r.SIP == a("10.0.0.1") || r.DIP == a("10.0.0.1")) && r.Proto == 6
	}, "or-and"},
	{"snet = 10.0.0.0/8 & dip = 10.0.0.2", func(r fixture.Rec) bool { return inNet(r.SIP, "10.0.0.0/8") && r.DIP == a("10.0.0.2") }, "net-and-ip"},
	{"dnet = 10.0.0.0/30 | dnet = ff02::/16", func(r fixture.Rec) bool { return inNet(r.DIP, "10.0.0.0/30") || inNet(r.DIP, "ff02::/16") }, "or-v4-v6"},
}

var c08Attrs = []string{"sip", "dip", "dport", "proto"}

// c08QueryTypes: all 15 non-empty attribute subsets plus the named compound types.
func c08QueryTypes() (names []string, attrs [][]string) {
	for m := 1; m < 16; m++ {
		var as []string
		for i, n := range c08Attrs {
			if m&(1<<i) != 0 {
				as = append(as, n)
			}
		}
		names = append(names, strings.Join(as, ","))
		attrs = append(attrs, as)
	}
	names = append(names, "talk_conv", "talk_src", "talk_dst", "apps_port", "agg_talk_port")
	attrs = append(attrs, []string{"sip", "dip"}, []string{"sip"}, []string{"dip"}, []string{"dport", "proto"}, []string{"sip", "dip", "dport", "proto"})
	return
}

var c08Points = []int64{tA1 - 301, tA1 - 1, tA1, tA1 + 1, tA1 + 150, tA2, tA2 + 1, dayB - 1, dayB, tB1, tB1 + 1, tD1 - 1, tD1, tD1 + 1, tD1 + 1000000}

type c08Range struct{ first, last int64 }

func c08Ranges(tier string) []c08Range {
	out := []c08Range{{c08Points[0], c08Points[len(c08Points)-1]}}
	for i, f := range c08Points {
		for j := i; j < len(c08Points); j++ {
			last := len(c08Points) - 1
			if tier != "thorough" && !((j == i && i%2 == 0) || (j == i+1 && i%4 == 1) || (i == 0 && j%4 == 3) || (j == last && i%4 == 0 && i > 0)) {
				continue
			}
			if i == 0 && j == len(c08Points)-1 {
				continue
			}
			out = append(out, c08Range{f, c08Points[j]})
		}
	}
	return out
}

var c08IfaceArgs = []struct {
	arg    string
	ifaces []string
}{{"eth0,eth1", []string{"eth0", "eth1"}}, {"eth0", []string{"eth0"}}, {"eth1", []string{"eth1"}}, {"any", []string{"eth0", "eth1"}}}

var c08Dirs = []string{"", "in", "out", "uni", "bi"}

func c08Run(x *explore.Ctx) {
	shapes := c08Shapes()
	qnames, qattrs := c08QueryTypes()
	sh := shapes[x.Case%len(shapes)]
	qi := (x.Case / len(shapes)) % len(qnames)
	dbPath := c08DB(sh)

	ranges := c08Ranges(x.Tier)
	withTime := x.Deviate(2, "time-label") == 1
	ifs := c08IfaceArgs[x.Deviate(len(c08IfaceArgs), "ifaces")]
	cond := c08Conds[x.Deviate(len(c08Conds), "condition")]
	dir := c08Dirs[x.Deviate(len(c08Dirs), "direction-filter")]
	rg := ranges[x.Deviate(len(ranges), "time-range")]
	lowMem := x.Deviate(2, "low-mem") == 1

	qtype := qnames[qi]
	if withTime {
		qtype += ",time"
	}
	condText := cond.text
	if dir != "" {
		if condText == "" {
			condText = "dir = " + dir
		} else {
			condText = "(" + condText + ") & dir = " + dir
		}
	}
	x.Logf("db=%s query=%q ifaces=%q cond=%q first=%d last=%d lowmem=%v", sh.name, qtype, ifs.arg, condText, rg.first, rg.last, lowMem)
	res, err := fixture.RunQuery(dbPath, qtype, ifs.arg, condText, rg.first, rg.last, lowMem)
	x.Transition()
	if err != nil {
		x.Fail("query-error:"+cond.sig, "query %q cond %q on %s failed: %v", qtype, condText, sh.name, err)
		return
	}
	want := sh.db.Aggregate(fixture.QuerySpec{Attrs: qattrs[qi], Time: withTime, Iface: true, Ifaces: ifs.ifaces,
		First: rg.first, Last: rg.last, Cond: cond.pred, Dir: dir})
	got, dup := fixture.RowsOf(res)
	if dup != nil {
		x.Fail("duplicate-group:"+cond.sig, "query %q cond %q on %s: group %s returned twice", qtype, condText, sh.name, dup)
		return
	}
	if d := fixture.DiffRows(got, want); d != "" {
		sig := "rows:" + cond.sig
		if sh.name == "mixed+v6-trailing-zeros" && strings.Contains(d, "2001:db8::>") || strings.Contains(d, "32.1.13.184") {
			sig = "v6-trailing-zeros-rendered-as-v4"
		}
		x.Fail(sig, "query %q ifaces %q cond %q range [%d,%d] lowmem=%v on %s: %s", qtype, ifs.arg, condText, rg.first, rg.last, lowMem, sh.name, d)
		return
	}
	var tot types.Counters
	for _, c := range want {
		tot.Add(c)
	}
	if res.Summary.Totals != tot {
		x.Fail("totals", "query %q cond %q: Summary.Totals %+v, sum of rows %+v", qtype, condText, res.Summary.Totals, tot)
		return
	}
	if res.Summary.Hits.Total != len(want) {
		x.Fail("hits", "query %q cond %q: Hits.Total %d, rows %d", qtype, condText, res.Summary.Hits.Total, len(want))
		return
	}
	x.Obs("%s %s %d rows %+v", sh.name, qtype, len(want), tot)
	if len(want) > 0 && (cond.pred != nil || dir != "" || rg != ranges[0]) {
		x.Nontrivial("%s|%s|%s|%s|%s|%d-%d|%v", sh.name, qtype, ifs.arg, cond.text, dir, rg.first, rg.last, lowMem)
	}
}

func c08Cleanup() {
	for _, p := range c08DBPaths {
		os.RemoveAll(p)
	}
}

var _ = query.NewArgs
var _ = fmt.Sprint

func init() {
	register("C08", &explore.Scenario{
		ID: "C08", Name: "query engine vs reference aggregation", Level: "exploration",
		Rule:  "cases = 4 database shapes (v4-only, v6-only, mixed incl. a v6 address aliasing 10.0.0.1, mixed + v6 address with 12 trailing zero bytes; 2 interfaces, 3 days incl. month change, 5 write-outs) x 20 query types (all 15 attribute subsets + 5 named types); per case deviations: time label, interface argument (4), condition (22 hand-written text/predicate pairs: leaves, !=, nets, and/or/not, v4|v6, ip|non-ip), direction filter (5), time range (quick: 18 of the 120 pairs over 15 boundary points - every second point alone, adjacent pairs, prefixes and suffixes; thorough: all), low-memory; all combinations of <= bound deviating dimensions. Oracle: reference aggregation in a Go map (rows, Totals, Hits.Total). non-trivial = non-empty result under a condition, direction filter or restricted range, distinct by full query tuple",
		Cases: func(t string) int { n, _ := c08QueryTypes(); return len(c08Shapes()) * len(n) },
		Bound: func(t string) int {
			if t == "thorough" {
				return 3
			}
			return 2
		},
		Run:      c08Run,
		Setup:    func(string) { engine.VerifSetNumProcessingUnits(2) },
		PanicSig: "panic",
		Assumptions: []string{"query worker count pinned to 2 (C11 varies it)", "database written through the real DBWriter with the lz4 encoder", "rows are compared as multisets (row order is C14's subject)",
			"the engine always splits and labels rows per interface; the reference does the same"},
	})
}

// ---- C08.cond: generated conditions of the grammar through the engine -----------------

var c08CondList []*fixture.Cond

// c08GenConds: every single leaf of the core alphabet (incl. host/net sugar) plain and
// negated, plus all two-leaf trees over the same-field leaf set.
func c08GenConds() []*fixture.Cond {
	if c08CondList != nil {
		return c08CondList
	}
	for _, l := range fixture.Leaves(fixture.LeavesCore) {
		c08CondList = append(c08CondList, l, fixture.Not(l))
	}
	small := fixture.Leaves(fixture.LeavesSmall)
	for _, a := range small {
		for _, b := range small {
			for i := 0; i < fixture.NumTree2; i++ {
				c08CondList = append(c08CondList, fixture.Tree2(a, b, i))
			}
		}
	}
	return c08CondList
}

const c08CondChunks = 16

func c08CondRun(x *explore.Ctx) {
	shapes := c08Shapes()[2:] // mixed, mixed + v6 address with trailing zero bytes
	sh := shapes[x.Case%len(shapes)]
	chunk := (x.Case / len(shapes)) % c08CondChunks
	all := c08GenConds()
	var mine []*fixture.Cond
	for i := chunk; i < len(all); i += c08CondChunks {
		mine = append(mine, all[i])
	}
	cond := mine[x.Choose(len(mine), "condition")]
	withTime := x.Choose(2, "time-label") == 1
	dbPath := c08DB(sh)
	text := fixture.Render(cond, fixture.Symbols)
	qtype := "sip,dip,dport,proto"
	if withTime {
		qtype += ",time"
	}
	x.Logf("db=%s query=%q cond=%q", sh.name, qtype, text)
	res, err := fixture.RunQuery(dbPath, qtype, "any", text, 0, 1<<40, false)
	x.Transition()
	if err != nil {
		x.Fail("query-error:"+cond.Shape(), "condition %q on %s failed: %v", text, sh.name, err)
		return
	}
	pred := func(r fixture.Rec) bool {
		return fixture.Eval(cond, fixture.Flow{SIP: r.SIP, DIP: r.DIP, Dport: r.Dport, Proto: r.Proto})
	}
	want := sh.db.Aggregate(fixture.QuerySpec{Attrs: c08Attrs, Time: withTime, Iface: true, Ifaces: []string{"eth0", "eth1"}, First: 0, Last: 1 << 40, Cond: pred})
	got, dup := fixture.RowsOf(res)
	if dup != nil {
		x.Fail("duplicate-group", "condition %q: group %s returned twice", text, dup)
		return
	}
	if d := fixture.DiffRows(got, want); d != "" {
		x.Fail("rows:"+cond.Shape(), "condition %q on %s: %s", text, sh.name, d)
		return
	}
	x.Obs("%s %d", text, len(want))
	if n := len(sh.db.Aggregate(fixture.QuerySpec{Attrs: c08Attrs, Time: withTime, Iface: true, Ifaces: []string{"eth0", "eth1"}, First: 0, Last: 1 << 40})); len(want) > 0 && len(want) < n {
		x.Nontrivial("%s|%s|%v", sh.name, text, withTime)
	}
}

func init() {
	register("C08.cond", &explore.Scenario{
		ID: "C08", Name: "generated conditions through the query engine", Level: "exploration",
		Rule:     "cases = 2 mixed-family databases x 16 chunks of the generated condition list (every leaf of the core alphabet incl. host/net sugar - all attributes x allowed comparators x alphabet values x prefixes {0,1,7,8,9,31,32}/{0,1,63,64,65,127,128} - plain and negated, plus every two-leaf tree ({&,|} x 4 negation placements) over 8 same-field leaves), with and without the time label; each condition is rendered to text and run through engine.QueryRunner.Run over 'any'; rows must equal the reference aggregation under the reference condition semantics (fixture.Eval). non-trivial = conditions selecting a proper non-empty subset",
		Cases:    func(t string) int { return 2 * c08CondChunks },
		Bound:    func(t string) int { return 0 },
		Run:      c08CondRun,
		Setup:    func(string) { engine.VerifSetNumProcessingUnits(2) },
		PanicSig: "panic",
	})
}

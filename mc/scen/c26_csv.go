package scen

import (
	"context"
	"fmt"
	"os"
	"path/filepath"
	"sort"
	"strings"

	"github.com/els0r/goProbe/v4/cmd/gpdb/pkg/csvimport"
	"github.com/els0r/goProbe/v4/pkg/goDB/encoder/encoders"
	"github.com/els0r/goProbe/v4/pkg/goDB/engine"
	"github.com/els0r/goProbe/v4/pkg/types"

	"verifmc/explore"
	"verifmc/fixture"
)

// C26: CSV import stores exactly the rows it reports as imported.
//
// A CSV file is a sequence of rows from a small alphabet, rendered for one of
// several schemas, imported by the real csvimport.Import into a fresh
// directory and read back through the real query engine. The reference
// importer below is written from the property statement and the gpdb README
// (schema = header or --schema; `time` required; `iface` column or --iface;
// rows ordered by non-decreasing time; --max-rows).

const (
	c26T0       = dayA + 300 // earlier than everything else
	c26T1       = dayA + 600 // the default timestamp
	c26T2       = dayA + 900 // later, same day
	c26T3       = dayB + 300 // next day
	c26Tx       = int64(-1)  // "timestamp of the last well-formed row so far" (malformed rows: never a regression by themselves)
	c26IfaceOpt = "eth9"     // --iface value
)

// c26Row is one CSV row in schema-independent form.
type c26Row struct {
	name                   string
	ts                     int64  // c26Tx = current
	tsText                 string // overrides ts when set
	iface                  string
	sip, dip, dport, proto string
	pr, ps, br, bs         string // packets received / sent, bytes received / sent
	cut                    int    // >0: keep only the first cut fields; <0: drop the last -cut fields
	// reference knowledge
	valid        bool // well-formed in every schema
	validNoIface bool // well-formed only when the schema has no iface column (the defect sits in that column)
	rec          fixture.Rec
}

func c26Rec(s, d string, dport uint16, proto uint8, pr, ps, br, bs uint64) fixture.Rec {
	return fixture.Rec{SIP: fixture.MustAddr(s), DIP: fixture.MustAddr(d), Dport: dport, Proto: proto,
		C: types.Counters{BytesRcvd: br, BytesSent: bs, PacketsRcvd: pr, PacketsSent: ps}}
}

func c26Valid(name string, ts int64, iface, s, d, dport, proto string, dp uint16, pn uint8, pr, ps, br, bs uint64) c26Row {
	return c26Row{name: name, ts: ts, iface: iface, sip: s, dip: d, dport: dport, proto: proto,
		pr: fmt.Sprint(pr), ps: fmt.Sprint(ps), br: fmt.Sprint(br), bs: fmt.Sprint(bs),
		valid: true, rec: c26Rec(s, d, dp, pn, pr, ps, br, bs)}
}

func c26Broken(name string, mut func(r *c26Row)) c26Row {
	r := c26Valid(name, c26Tx, "eth0", "10.0.0.7", "10.0.0.8", "8080", "6", 8080, 6, 9, 9, 999, 999)
	r.valid = false
	mut(&r)
	return r
}

// c26Rows is the row alphabet.
var c26Rows = []c26Row{
	c26Valid("v4", c26T1, "eth0", "10.0.0.1", "10.0.0.2", "443", "6", 443, 6, 3, 2, 300, 200),
	c26Valid("v6", c26T1, "eth0", "2001:db8::1", "2001:db8::2", "80", "TCP", 80, 6, 10, 20, 1000, 2000),
	c26Valid("v4-same-key", c26T1, "eth0", "10.0.0.1", "10.0.0.2", "443", "6", 443, 6, 1, 1, 7, 9),
	c26Valid("v6-same-key", c26T1, "eth0", "2001:db8::1", "2001:db8::2", "80", "6", 80, 6, 2, 0, 64, 0),
	c26Valid("v4-same-key-other-iface", c26T1, "eth1", "10.0.0.1", "10.0.0.2", "443", "6", 443, 6, 5, 0, 50, 0),
	c26Valid("v4-same-key-later", c26T2, "eth0", "10.0.0.1", "10.0.0.2", "443", "6", 443, 6, 4, 1, 400, 100),
	c26Valid("v4-next-day", c26T3, "eth0", "10.0.0.3", "10.0.0.4", "53", "udp", 53, 17, 1, 1, 50, 50),
	c26Valid("v4-earlier", c26T0, "eth0", "10.0.0.5", "10.0.0.6", "0", "1", 0, 1, 0, 6, 0, 600),
	c26Broken("too-few-fields", func(r *c26Row) { r.cut = 3 }),
	c26Broken("last-field-missing", func(r *c26Row) { r.cut = -1 }),
	c26Broken("bad-ip", func(r *c26Row) { r.sip = "10.0.0.256" }),
	c26Broken("mixed-family", func(r *c26Row) { r.dip = "2001:db8::8" }),
	c26Broken("bad-counter", func(r *c26Row) { r.br = "12x" }),
	c26Broken("bad-port", func(r *c26Row) { r.dport = "65536" }),
	c26Broken("empty-iface", func(r *c26Row) { r.iface = ""; r.validNoIface = true }),
	c26Broken("path-iface", func(r *c26Row) { r.iface = "../eth0"; r.validNoIface = true }),
	c26Broken("timestamp-0", func(r *c26Row) { r.tsText = "0" }),
}

// c26Schema is one way of describing the columns.
type c26Schema struct {
	name     string
	cols     []string
	inFile   bool   // header row in the file (else Options.Schema)
	ifaceOpt string // Options.Interface
}

func (s c26Schema) hasIface() bool {
	for _, c := range s.cols {
		if c == "iface" {
			return true
		}
	}
	return false
}

var c26Counters = []string{"packets received", "packets sent", "data vol. received", "data vol. sent"}

func c26Cols(c ...string) []string { return append(c, c26Counters...) }

var c26Schemas = []c26Schema{
	{"header,iface-column", c26Cols("time", "iface", "sip", "dip", "dport", "proto"), true, ""},
	{"option,no-iface-column", c26Cols("time", "sip", "dip", "dport", "proto"), false, c26IfaceOpt},
	{"header,iface-first,time-last", append(c26Cols("iface", "sip", "dip", "dport", "proto"), "time"), true, ""},
	{"option,unknown-extra-column,iface-column-and-option", c26Cols("time", "iface", "%", "sip", "dip", "dport", "proto"), false, c26IfaceOpt},
	{"header,no-iface-column,time-between-keys", c26Cols("dip", "sip", "time", "proto", "dport"), true, c26IfaceOpt},
	{"option,counters-first,iface-last", append(append([]string{}, c26Counters...), "proto", "dport", "time", "dip", "sip", "iface"), false, ""},
}

func (r c26Row) render(s c26Schema, ts int64) string {
	tsText := fmt.Sprint(ts)
	if r.tsText != "" {
		tsText = r.tsText
	}
	f := make([]string, len(s.cols))
	for i, c := range s.cols {
		switch c {
		case "time":
			f[i] = tsText
		case "iface":
			f[i] = r.iface
		case "sip":
			f[i] = r.sip
		case "dip":
			f[i] = r.dip
		case "dport":
			f[i] = r.dport
		case "proto":
			f[i] = r.proto
		case "packets received":
			f[i] = r.pr
		case "packets sent":
			f[i] = r.ps
		case "data vol. received":
			f[i] = r.br
		case "data vol. sent":
			f[i] = r.bs
		default:
			f[i] = "12.5"
		}
	}
	if r.cut > 0 {
		f = f[:r.cut]
	} else if r.cut < 0 {
		f = f[:len(f)+r.cut]
	}
	return strings.Join(f, ",")
}

// c26Ref is the reference importer's verdict on one file.
type c26Ref struct {
	read, imported, skipped int
	regression              bool // a well-formed row is earlier than a well-formed row before it
	regressionAt            int
	sum                     map[fixture.RowKey]types.Counters // rows sharing (iface, ts, key) summed
	last                    map[fixture.RowKey]types.Counters // ... last row wins (NOT what the statement says; used to name the finding)
	dupKeys                 int                               // (iface, ts, key) groups with more than one row
	ifaces                  map[string]bool
	blocks                  map[string]bool
}

// c26Effective resolves the timestamp every row of the sequence carries in the
// file: malformed rows (c26Tx) take the timestamp of the last well-formed row
// before them (c26T1 when there is none).
func c26Effective(s c26Schema, seq []int) []int64 {
	eff := make([]int64, len(seq))
	cur := int64(c26T1)
	for i, ri := range seq {
		r := c26Rows[ri]
		eff[i] = r.ts
		if r.ts == c26Tx {
			eff[i] = cur
		}
		if r.wellFormed(s) {
			cur = eff[i]
		}
	}
	return eff
}

func (r c26Row) wellFormed(s c26Schema) bool {
	return r.valid || (r.validNoIface && !s.hasIface())
}

func c26Reference(s c26Schema, seq []int, maxRows int) c26Ref {
	eff := c26Effective(s, seq)
	ref := c26Ref{sum: map[fixture.RowKey]types.Counters{}, last: map[fixture.RowKey]types.Counters{}, ifaces: map[string]bool{}, blocks: map[string]bool{}}
	n := map[fixture.RowKey]int{}
	cur, have := int64(0), false
	for i, ri := range seq {
		if maxRows > 0 && ref.read >= maxRows {
			break
		}
		r := c26Rows[ri]
		ref.read++
		if !r.wellFormed(s) {
			ref.skipped++
			continue
		}
		ts := eff[i]
		if have && ts < cur {
			ref.regression, ref.regressionAt = true, i
			return ref
		}
		cur, have = ts, true
		iface := r.iface
		if !s.hasIface() {
			iface = s.ifaceOpt
		}
		k := fixture.RowKey{TS: ts, Iface: iface, SIP: r.rec.SIP, DIP: r.rec.DIP, Dport: r.rec.Dport, Proto: r.rec.Proto}
		c := ref.sum[k]
		c.Add(r.rec.C)
		ref.sum[k] = c
		ref.last[k] = r.rec.C
		if n[k]++; n[k] == 2 {
			ref.dupKeys++
		}
		ref.ifaces[iface] = true
		ref.blocks[fmt.Sprintf("%s@%d", iface, ts)] = true
		ref.imported++
	}
	return ref
}

func c26Run(x *explore.Ctx) {
	schema := c26Schemas[x.Case%len(c26Schemas)]
	maxLen := 3
	if x.Thorough() {
		maxLen = 4
	} else if x.Case%len(c26Schemas) >= 3 {
		maxLen = 2 // quick tier: the last three schemas with shorter files
	}
	seq := []int{x.Case / len(c26Schemas)}
	for len(seq) < maxLen {
		c := x.Choose(len(c26Rows)+1, "next-row-or-end")
		if c == len(c26Rows) {
			break
		}
		seq = append(seq, c)
	}
	// --max-rows m < len: rows m+1.. are never read, so all files that agree on
	// the first m rows behave alike; m is offered only on the representative
	// whose unread rows are all alphabet element 0.
	maxRowsAlts := []int{0}
	for m := len(seq) - 1; m >= 1 && seq[m] == 0; m-- {
		maxRowsAlts = append(maxRowsAlts, m)
	}
	maxRows := maxRowsAlts[x.Choose(len(maxRowsAlts), "max-rows")]

	// render the file
	var sb strings.Builder
	if schema.inFile {
		sb.WriteString(strings.Join(schema.cols, ",") + "\n")
	}
	eff := c26Effective(schema, seq)
	names := make([]string, len(seq))
	for i, ri := range seq {
		names[i] = c26Rows[ri].name
		sb.WriteString(c26Rows[ri].render(schema, eff[i]) + "\n")
	}
	dir := fixture.NewDir()
	defer os.RemoveAll(dir)
	in, out := filepath.Join(dir, "in.csv"), filepath.Join(dir, "db")
	if err := os.WriteFile(in, []byte(sb.String()), 0o600); err != nil {
		explore.HarnessErrorf("write csv: %v", err)
	}
	opts := csvimport.Options{InputPath: in, OutputPath: out, Interface: schema.ifaceOpt, MaxRows: maxRows, EncoderType: encoders.EncoderTypeLZ4}
	if !schema.inFile {
		opts.Schema = strings.Join(schema.cols, ",")
	}
	what := fmt.Sprintf("schema %q rows %v max-rows %d", schema.name, names, maxRows)
	x.Logf("%s\n%s", what, sb.String())

	sum, err := csvimport.Import(context.Background(), opts)
	x.Transition()
	ref := c26Reference(schema, seq, maxRows)
	x.Logf("summary %+v err=%v; reference read=%d imported=%d skipped=%d regression=%v", sum, err, ref.read, ref.imported, ref.skipped, ref.regression)

	// --- input that goes backwards in time is rejected
	if ref.regression {
		if err == nil {
			x.Fail("regression-accepted", "%s: row %d (%s) is earlier than an accepted row before it, Import returned no error (summary %+v)", what, ref.regressionAt+1, names[ref.regressionAt], sum)
			return
		}
		x.Obs("rejected read=%d imported=%d skipped=%d", sum.RowsRead, sum.RowsImported, sum.RowsSkipped)
		x.Nontrivial("regression|%s|%d|%d", schema.name, ref.imported, ref.skipped)
		return
	}
	if err != nil {
		x.Fail("ordered-input-rejected", "%s: rows are ordered by time, Import failed: %v", what, err)
		return
	}

	// --- the summary
	if sum.RowsRead != sum.RowsImported+sum.RowsSkipped {
		x.Fail("read-ne-imported-plus-skipped", "%s: RowsRead %d != RowsImported %d + RowsSkipped %d", what, sum.RowsRead, sum.RowsImported, sum.RowsSkipped)
		return
	}
	if sum.RowsRead != ref.read {
		x.Fail("rows-read", "%s: RowsRead %d, file has %d data rows within max-rows", what, sum.RowsRead, ref.read)
		return
	}
	if sum.RowsImported != ref.imported {
		x.Fail("rows-imported", "%s: RowsImported %d (skipped %d), reference: %d well-formed rows, %d malformed", what, sum.RowsImported, sum.RowsSkipped, ref.imported, ref.skipped)
		return
	}

	// --- the destination, through the real engine
	got := map[fixture.RowKey]types.Counters{}
	ifaces := c26ListIfaces(out)
	want := make([]string, 0, len(ref.ifaces))
	for i := range ref.ifaces {
		want = append(want, i)
	}
	sort.Strings(want)
	if strings.Join(ifaces, ",") != strings.Join(want, ",") {
		x.Fail("interfaces", "%s: destination holds interfaces %v, accepted rows belong to %v", what, ifaces, want)
		return
	}
	if len(ifaces) > 0 {
		res, qerr := fixture.RunQuery(out, "sip,dip,dport,proto,time", strings.Join(ifaces, ","), "", c26T0-86400, c26T3+86400, false)
		x.Transition()
		if qerr != nil {
			x.Fail("query-error", "%s: querying the destination failed: %v", what, qerr)
			return
		}
		var dup *fixture.RowKey
		if got, dup = fixture.RowsOf(res); dup != nil {
			x.Fail("duplicate-group", "%s: the destination returns group %s twice", what, dup)
			return
		}
	}
	if d := fixture.DiffRows(got, ref.sum); d != "" {
		if ref.dupKeys > 0 && fixture.DiffRows(got, ref.last) == "" {
			x.Fail("shared-key-rows-overwritten-not-summed", "%s: rows sharing (iface, time, flow key) are stored with the counters of the last such row instead of their sum: %s", what, d)
		} else {
			x.Fail("rows", "%s: destination differs from the accepted rows: %s", what, d)
		}
		return
	}
	x.Obs("%s|%d/%d/%d|%d rows|if=%d blk=%d", schema.name, sum.RowsRead, sum.RowsImported, sum.RowsSkipped, len(got), sum.Interfaces, sum.BlocksWritten)
	if ref.imported > 0 {
		cls := ""
		if ref.dupKeys > 0 {
			cls += "shared-key "
		}
		if len(ref.ifaces) > 1 {
			cls += "multi-iface "
		}
		if len(ref.blocks) > len(ref.ifaces) {
			cls += "multi-block "
		}
		if ref.skipped > 0 {
			cls += "skips "
		}
		if maxRows > 0 && len(seq) > maxRows {
			cls += "max-rows-cut "
		}
		x.Nontrivial("%s|%s|%v", schema.name, cls, names)
	}
}

// c26ListIfaces lists the interface directories of a database (sorted).
func c26ListIfaces(db string) []string {
	ents, err := os.ReadDir(db)
	if err != nil {
		if os.IsNotExist(err) {
			return nil
		}
		explore.HarnessErrorf("list %s: %v", db, err)
	}
	var out []string
	for _, e := range ents {
		out = append(out, e.Name())
	}
	sort.Strings(out)
	return out
}

func init() {
	register("C26", &explore.Scenario{
		ID: "C26", Name: "CSV import vs reference importer, destination read back through the query engine", Level: "exploration",
		Rule:     "case = 6 schemas (header in file / --schema; with, without, with-and-overridden iface column; time first, last, between key columns; unknown extra column; counters first) x first row; execution = every row sequence of length <= 3 (quick, last three schemas: 2; thorough: 4) over a 17-row alphabet (v4, v6, same key again v4/v6, same key other iface, same key later, next day, earlier, too few fields (3 fields / only the schema's last column missing), bad IP, mixed-family IPs, bad counter, bad port, empty iface, path-like iface, timestamp 0; malformed rows carry the timestamp of the last well-formed row) x max-rows (0 = all; every m < length, on the one representative file whose unread rows are the first alphabet element); real csvimport.Import into a fresh directory, Summary compared with a reference importer, destination queried with the real engine (sip,dip,dport,proto,time over all interfaces) and compared with the accepted rows summed per (iface, time, key); non-trivial = imports that stored at least one row or were rejected for a time regression, distinct by (schema, row sequence)",
		Cases:    func(string) int { return len(c26Schemas) * len(c26Rows) },
		Bound:    func(string) int { return 0 },
		Run:      c26Run,
		Setup:    func(string) { engine.VerifSetNumProcessingUnits(1) },
		PanicSig: "panic",
		Assumptions: []string{"CSV syntax errors (bare quotes etc.) are outside the alphabet: fields never need quoting",
			"malformed rows carry the timestamp of the last well-formed row, so whether a malformed row can cause a time regression is not judged",
			"lz4 encoder, default permissions; query worker count pinned to 1",
			"after a rejected (unordered) file only the rejection itself is judged, not the partially written destination"},
	})
}

package scen

import (
	"bufio"
	"bytes"
	"crypto/sha256"
	"encoding/hex"
	"encoding/json"
	"fmt"
	"io"
	"os"
	"os/exec"
	"path/filepath"
	"reflect"
	"sort"
	"strings"

	"github.com/els0r/goProbe/v4/pkg/capture/capturetypes"
	"github.com/els0r/goProbe/v4/pkg/goDB"
	"github.com/els0r/goProbe/v4/pkg/goDB/encoder/encoders"
	"github.com/els0r/goProbe/v4/pkg/goDB/engine"
	"github.com/els0r/goProbe/v4/pkg/goDB/storage/gpfile"
	"github.com/els0r/goProbe/v4/pkg/types"

	"verifmc/explore"
	"verifmc/fixture"
)

// C02: databases are interchangeable between cgo and native compression builds.
//
// The WRITER and the READER are different binaries: the scenario (running in any worker build)
// starts one child process of each of the four worker builds (cgo, nocgo, noliblz4, nolibzstd;
// paths in VERIF_BIN_*) in "dbtool" mode (env VERIF_C02_DBTOOL, served from Scenario.Setup) and
// sends them requests:
//
//	write <spec> <dir>   write (part of) a database described by spec below dir
//	dump  <dir>          canonical description of what a reader of that build sees: per day the
//	                     block list, per block and column the decoded bytes (length + SHA-256),
//	                     per-block traffic, day statistics (from .blockmeta and from the directory
//	                     suffix), and for flow databases the rows of a raw query
//
//   C02        GPDir level: payload classes of C01 x encoder {lz4, zstd, null} x level x {one block,
//              two blocks in one day}; with two blocks the first is written by build A, the second is
//              appended by build B (switching the build configuration in the middle of a day)
//   C02.flows  real flow databases (the C08 shapes through the real DBWriter) x encoder, written by
//              A up to a split point and continued by B, read back by the real query engine
//
// Enumerated: all 16 ordered (A, B) pairs x every reader build R. Oracle: every dump equals the
// reference database (payload bytes / reference aggregation), hence all builds agree pairwise.
// The files on disk need not be byte-identical across writer builds; their hashes are only
// observations.

const c02ToolEnv = "VERIF_C02_DBTOOL"

var c02Builds = []string{"cgo", "nocgo", "noliblz4", "nolibzstd"}

// ---- specs ------------------------------------------------------------------------------------------

type c02Spec struct {
	Kind     string // "g": GPDir level, "f": flow database
	Enc      encoders.Type
	Level    int
	Class    int  // g: payload class (index into c01Classes)
	Single   bool // g: only column 3 carries the class, the others the default payload
	Solo     bool // g: only column 3 carries the class, the others are empty
	NBlocks  int  // g: blocks of the day
	Shape    int  // f: index into c08Shapes()
	From, To int  // block index range [From,To) written by this call
}

type c02Req struct {
	Op    string // write | dump
	Dir   string
	Spec  c02Spec
	Query bool // dump: run the raw query as well
}

// what one reader sees (compared with the reference)
type c02Col struct {
	Len  int
	Hash string
	Err  string `json:",omitempty"`
}

type c02Blk struct {
	TS      int64
	Traffic gpfile.TrafficMetadata
	Cols    [types.ColIdxCount]c02Col
}

type c02Day struct {
	Path        string // iface/year/month/day timestamp (without metadata suffix)
	OpenErr     string `json:",omitempty"`
	Stats       gpfile.Stats
	SuffixStats gpfile.Stats // decoded from the directory name before Open
	Blocks      []c02Blk
}

type c02Query struct {
	Err       string `json:",omitempty"`
	Rows      []string
	Totals    string
	Corrupted uint64
}

// informational only (not compared): how the data is stored
type c02Info struct {
	Stored []string // per day/col/block: encoder type and stored length
	Disk   []string // per file: relative path, size, SHA-256 prefix
}

type c02Resp struct {
	Cfg   string
	Err   string `json:",omitempty"` // tool-level failure (write error, unreadable directory tree...)
	Days  []c02Day
	Query *c02Query `json:",omitempty"`
	Info  c02Info
}

func c02Sum(b []byte) string {
	s := sha256.Sum256(b)
	return hex.EncodeToString(s[:12])
}

func c02BlockTS(i int) int64 { return c01Day0 + int64(i+1)*300 }

func c02Payload(sp c02Spec, blk, col int) []byte {
	if sp.Solo && col != 3 {
		return nil
	}
	if sp.Single && col != 3 {
		return c01Payload(0, col+blk)
	}
	return c01Payload(sp.Class, col+blk)
}

// ---- dbtool: write ---------------------------------------------------------------------------------

func c02Write(dir string, sp c02Spec) error {
	switch sp.Kind {
	case "g":
		d := gpfile.NewDirWriter(filepath.Join(dir, "eth0"), c02BlockTS(0), gpfile.WithEncoderTypeLevel(sp.Enc, sp.Level))
		if err := d.Open(); err != nil {
			return fmt.Errorf("open for write: %w", err)
		}
		for i := sp.From; i < sp.To; i++ {
			var data [types.ColIdxCount][]byte
			for c := range data {
				data[c] = append([]byte(nil), c02Payload(sp, i, c)...)
			}
			if err := d.WriteBlocks(c02BlockTS(i), c01Traffic[i%len(c01Traffic)], c01Counts[i%len(c01Counts)], data); err != nil {
				d.Close()
				return fmt.Errorf("WriteBlocks(block %d): %w", i, err)
			}
		}
		if err := d.Close(); err != nil {
			return fmt.Errorf("close: %w", err)
		}
		return nil
	case "f":
		blocks := c08Shapes()[sp.Shape].db.Blocks
		for i := sp.From; i < sp.To; i++ {
			b := blocks[i]
			w := goDB.NewDBWriter(dir, b.Iface, sp.Enc).EncoderLevel(sp.Level)
			if err := w.Write(fixture.FlowMap(b.Recs), capturetypes.CaptureStats{Dropped: b.Drops}, b.TS); err != nil {
				return fmt.Errorf("write-out %d (%s@%d): %w", i, blocks[i].Iface, blocks[i].TS, err)
			}
		}
		return nil
	}
	return fmt.Errorf("unknown spec kind %q", sp.Kind)
}

// ---- dbtool: dump ----------------------------------------------------------------------------------

func c02Dump(dir string, withQuery bool) (r c02Resp) {
	ifaces, err := os.ReadDir(dir)
	if err != nil {
		r.Err = err.Error()
		return
	}
	for _, ifc := range ifaces {
		days, _ := filepath.Glob(filepath.Join(dir, ifc.Name(), "*", "*", "*"))
		sort.Strings(days)
		for _, dp := range days {
			ts, suffix, err := gpfile.ExtractTimestampMetadataSuffix(filepath.Base(dp))
			if err != nil {
				r.Err = fmt.Sprintf("unexpected directory %s: %v", dp, err)
				return
			}
			rel, _ := filepath.Rel(dir, filepath.Dir(dp))
			day := c02Day{Path: filepath.Join(rel, fmt.Sprint(ts))}
			d := gpfile.NewDirReader(filepath.Join(dir, ifc.Name()), ts, suffix)
			if d.Metadata != nil {
				day.SuffixStats = d.Metadata.Stats
			}
			if err := d.Open(); err != nil {
				day.OpenErr = err.Error()
				r.Days = append(r.Days, day)
				continue
			}
			day.Stats = d.Metadata.Stats
			for i := 0; i < d.NBlocks(); i++ {
				blk := c02Blk{TS: d.BlockMetadata[0].BlockList[i].Timestamp, Traffic: d.BlockTraffic[i]}
				for c := types.ColumnIndex(0); c < types.ColIdxCount; c++ {
					bl := d.BlockMetadata[c].BlockList[i]
					if bl.Timestamp != blk.TS {
						blk.Cols[c].Err = fmt.Sprintf("column timestamp %d", bl.Timestamp)
					}
					r.Info.Stored = append(r.Info.Stored, fmt.Sprintf("%s col %d block %d: %s %d/%d", day.Path, c, i, bl.EncoderType, bl.Len, bl.RawLen))
					b, err := d.ReadBlockAtIndex(c, i)
					if err != nil {
						blk.Cols[c].Err = err.Error()
						continue
					}
					blk.Cols[c].Len, blk.Cols[c].Hash = len(b), c02Sum(b)
				}
				day.Blocks = append(day.Blocks, blk)
			}
			d.Close()
			r.Days = append(r.Days, day)
			files, _ := os.ReadDir(dp)
			for _, f := range files {
				b, _ := os.ReadFile(filepath.Join(dp, f.Name()))
				r.Info.Disk = append(r.Info.Disk, fmt.Sprintf("%s/%s %d %s", day.Path, f.Name(), len(b), c02Sum(b)))
			}
		}
	}
	if withQuery {
		q := &c02Query{}
		res, err := fixture.RunQuery(dir, "sip,dip,dport,proto,time", "any", "", c08Points[0], c08Points[len(c08Points)-1], false)
		if err != nil {
			q.Err = err.Error()
		} else {
			rows, dup := fixture.RowsOf(res)
			if dup != nil {
				q.Err = fmt.Sprintf("group %s returned twice", dup)
			}
			q.Rows = c02RowStrings(rows)
			q.Totals = fmt.Sprintf("%+v", res.Summary.Totals)
			q.Corrupted = res.Summary.Stats.BlocksCorrupted
		}
		r.Query = q
	}
	return
}

func c02RowStrings(rows map[fixture.RowKey]types.Counters) []string {
	out := make([]string, 0, len(rows))
	for k, c := range rows {
		out = append(out, fmt.Sprintf("%s %+v", k, c))
	}
	sort.Strings(out)
	return out
}

// c02Serve is the dbtool: one JSON request per stdin line, one JSON answer per stdout line.
func c02Serve() {
	b := c07DetectBuild()
	out := bufio.NewWriter(os.Stdout)
	send := func(r c02Resp) {
		r.Cfg = b.cfg
		j, err := json.Marshal(r)
		if err != nil {
			fmt.Fprintln(os.Stderr, "c02 dbtool:", err)
			os.Exit(3)
		}
		out.Write(j)
		out.WriteByte('\n')
		out.Flush()
	}
	send(c02Resp{Err: b.err}) // hello: build configuration and its self-check
	engine.VerifSetNumProcessingUnits(2)
	in := bufio.NewReaderSize(os.Stdin, 1<<16)
	for {
		line, err := in.ReadBytes('\n')
		if len(line) > 0 {
			var rq c02Req
			if e := json.Unmarshal(line, &rq); e != nil {
				fmt.Fprintln(os.Stderr, "c02 dbtool: bad request:", string(line))
				os.Exit(3)
			}
			switch rq.Op {
			case "write":
				var r c02Resp
				if e := c02Write(rq.Dir, rq.Spec); e != nil {
					r.Err = e.Error()
				}
				send(r)
			case "dump":
				send(c02Dump(rq.Dir, rq.Query))
			default:
				fmt.Fprintln(os.Stderr, "c02 dbtool: unknown op", rq.Op)
				os.Exit(3)
			}
		}
		if err != nil {
			os.Exit(0)
		}
	}
}

// ---- parent side: child processes ----------------------------------------------------------------

type c02Child struct {
	cfg    string
	cmd    *exec.Cmd
	in     io.WriteCloser
	out    *bufio.Reader
	stderr *bytes.Buffer
}

var c02Children = map[string]*c02Child{}

func c02Tool(cfg, tier string) *c02Child {
	if c, ok := c02Children[cfg]; ok {
		return c
	}
	bin := os.Getenv("VERIF_BIN_" + strings.ToUpper(cfg))
	if bin == "" {
		explore.HarnessErrorf("C02 needs the worker binary of build configuration %q (VERIF_BIN_%s is not set): props.PROPS[\"C02\"][\"configs\"] must list cgo, nocgo, noliblz4, nolibzstd", cfg, strings.ToUpper(cfg))
	}
	cmd := exec.Command(bin, "-scen", "C02", "-tier", tier)
	cmd.Env = append(os.Environ(), c02ToolEnv+"="+cfg, "GOTRACEBACK=single")
	c := &c02Child{cfg: cfg, cmd: cmd, stderr: &bytes.Buffer{}}
	cmd.Stderr = c.stderr
	var err error
	if c.in, err = cmd.StdinPipe(); err != nil {
		explore.HarnessErrorf("C02: %v", err)
	}
	so, err := cmd.StdoutPipe()
	if err != nil {
		explore.HarnessErrorf("C02: %v", err)
	}
	c.out = bufio.NewReaderSize(so, 1<<20)
	if err := cmd.Start(); err != nil {
		explore.HarnessErrorf("C02: cannot start %s dbtool %s: %v", cfg, bin, err)
	}
	hello, crash := c.recv()
	if crash != "" {
		explore.HarnessErrorf("C02: %s dbtool did not start: %s", cfg, crash)
	}
	if hello.Err != "" {
		explore.HarnessErrorf("C02: %s dbtool build self-check: %s", cfg, hello.Err)
	}
	if hello.Cfg != cfg {
		explore.HarnessErrorf("C02: binary %s (VERIF_BIN_%s) reports build configuration %q", bin, strings.ToUpper(cfg), hello.Cfg)
	}
	c02Children[cfg] = c
	return c
}

// recv reads one answer; crash != "" when the process died instead.
func (c *c02Child) recv() (r c02Resp, crash string) {
	line, err := c.out.ReadBytes('\n')
	if err != nil {
		c.in.Close()
		werr := c.cmd.Wait()
		delete(c02Children, c.cfg)
		txt := c.stderr.String()
		if len(txt) > 1500 {
			txt = txt[:1500]
		}
		return r, fmt.Sprintf("process ended (%v): %s", werr, txt)
	}
	if err := json.Unmarshal(line, &r); err != nil {
		explore.HarnessErrorf("C02: unparsable answer of %s dbtool: %.300q: %v", c.cfg, line, err)
	}
	return r, ""
}

// send writes one request; a dead process is noticed by the following recv.
func (c *c02Child) send(rq c02Req) {
	j, _ := json.Marshal(rq)
	c.in.Write(append(j, '\n'))
}

func (c *c02Child) call(rq c02Req) (c02Resp, string) {
	c.send(rq)
	return c.recv()
}

// c02CrashSig classifies the death of a dbtool: a fault inside the build's libraries is a finding,
// anything else (killed, protocol error) a tooling error.
func c02CrashSig(crash string) string {
	_, txt, _ := strings.Cut(crash, "): ")
	first := strings.SplitN(txt, "\n", 2)[0]
	switch {
	case strings.HasPrefix(first, "SIG"), strings.HasPrefix(first, "fatal error:"), strings.HasPrefix(first, "panic:"), strings.Contains(txt, "\npanic:"), strings.Contains(txt, "\nfatal error:"):
		return "crash"
	}
	explore.HarnessErrorf("C02: dbtool ended unexpectedly: %.800s", crash)
	return ""
}

// ---- implementations behind a build -----------------------------------------------------------------

func c02Impl(cfg string, t encoders.Type) string {
	native := false
	switch t {
	case encoders.EncoderTypeLZ4:
		native = cfg == "nocgo" || cfg == "noliblz4"
		if native {
			return "lz4-native"
		}
		return "lz4-cgo"
	case encoders.EncoderTypeZSTD:
		native = cfg == "nocgo" || cfg == "nolibzstd"
		if native {
			return "zstd-native"
		}
		return "zstd-cgo"
	}
	return "null"
}

// ---- reference ----------------------------------------------------------------------------------------

func c02RefG(sp c02Spec) []c02Day {
	day := c02Day{Path: filepath.Join("eth0", "2023", "11", fmt.Sprint(c01Day0))}
	for i := 0; i < sp.NBlocks; i++ {
		blk := c02Blk{TS: c02BlockTS(i), Traffic: c01Traffic[i%len(c01Traffic)]}
		for c := range blk.Cols {
			p := c02Payload(sp, i, c)
			blk.Cols[c] = c02Col{Len: len(p), Hash: c02Sum(p)}
		}
		day.Blocks = append(day.Blocks, blk)
		day.Stats.Traffic = day.Stats.Traffic.Add(blk.Traffic)
		day.Stats.Counts.Add(c01Counts[i%len(c01Counts)])
	}
	day.SuffixStats = day.Stats
	return []c02Day{day}
}

type c02FlowRef struct {
	days  []c02Day
	query c02Query
}

var c02FlowRefs = map[int]*c02FlowRef{}

// c02RefF: the reference of a flow database. Column bytes: the same write-outs stored by this
// process with the null encoder (no compression library involved) and read back; per-block traffic,
// day statistics and query rows: from the reference database itself.
func c02RefF(shape int) *c02FlowRef {
	if r, ok := c02FlowRefs[shape]; ok {
		return r
	}
	sh := c08Shapes()[shape]
	dir := fixture.NewDir()
	defer os.RemoveAll(dir)
	if err := c02Write(dir, c02Spec{Kind: "f", Enc: encoders.EncoderTypeNull, Shape: shape, From: 0, To: len(sh.db.Blocks)}); err != nil {
		explore.HarnessErrorf("C02: reference write of %s: %v", sh.name, err)
	}
	d := c02Dump(dir, false)
	if d.Err != "" {
		explore.HarnessErrorf("C02: reference dump of %s: %s", sh.name, d.Err)
	}
	// cross-check the reference against the reference database: traffic and statistics
	type dk struct {
		iface string
		day   int64
	}
	want := map[dk]*c02Day{}
	for _, b := range sh.db.Blocks {
		k := dk{b.Iface, gpfile.DirTimestamp(b.TS)}
		if want[k] == nil {
			want[k] = &c02Day{}
		}
		tr := gpfile.TrafficMetadata{NumDrops: b.Drops}
		var cs types.Counters
		for _, r := range b.Recs {
			if r.IsV4() {
				tr.NumV4Entries++
			} else {
				tr.NumV6Entries++
			}
			cs.Add(r.C)
		}
		want[k].Blocks = append(want[k].Blocks, c02Blk{TS: b.TS, Traffic: tr})
		want[k].Stats.Traffic = want[k].Stats.Traffic.Add(tr)
		want[k].Stats.Counts.Add(cs)
	}
	if len(d.Days) != len(want) {
		explore.HarnessErrorf("C02: reference dump of %s has %d days, reference database %d", sh.name, len(d.Days), len(want))
	}
	for _, day := range d.Days {
		parts := strings.Split(day.Path, string(filepath.Separator))
		var ts int64
		fmt.Sscan(parts[len(parts)-1], &ts)
		w := want[dk{parts[0], ts}]
		if w == nil || day.OpenErr != "" || day.Stats != w.Stats || day.SuffixStats != w.Stats || len(day.Blocks) != len(w.Blocks) {
			explore.HarnessErrorf("C02: reference dump of %s, day %s disagrees with the reference database: %+v vs %+v", sh.name, day.Path, day, w)
		}
		for i, b := range day.Blocks {
			if b.TS != w.Blocks[i].TS || b.Traffic != w.Blocks[i].Traffic {
				explore.HarnessErrorf("C02: reference dump of %s, day %s block %d disagrees with the reference database", sh.name, day.Path, i)
			}
			for c, col := range b.Cols {
				if col.Err != "" {
					explore.HarnessErrorf("C02: reference dump of %s: column %d: %s", sh.name, c, col.Err)
				}
			}
		}
	}
	rows := sh.db.Aggregate(fixture.QuerySpec{Attrs: c08Attrs, Time: true, Iface: true, Ifaces: sh.db.Ifaces(), First: c08Points[0], Last: c08Points[len(c08Points)-1]})
	var tot types.Counters
	for _, c := range rows {
		tot.Add(c)
	}
	r := &c02FlowRef{days: d.Days, query: c02Query{Rows: c02RowStrings(rows), Totals: fmt.Sprintf("%+v", tot)}}
	c02FlowRefs[shape] = r
	return r
}

// c02Compare names the first difference between what a reader saw and the reference ("" = equal).
func c02Compare(got []c02Day, want []c02Day) (kind, detail string) {
	if len(got) != len(want) {
		return "day-count", fmt.Sprintf("%d day directories, reference %d", len(got), len(want))
	}
	for i, g := range got {
		w := want[i]
		switch {
		case g.Path != w.Path:
			return "day-path", fmt.Sprintf("day directory %s, reference %s", g.Path, w.Path)
		case g.OpenErr != "":
			return "open-error", fmt.Sprintf("day %s cannot be opened: %s", g.Path, g.OpenErr)
		case len(g.Blocks) != len(w.Blocks):
			return "block-count", fmt.Sprintf("day %s: %d blocks, reference %d", g.Path, len(g.Blocks), len(w.Blocks))
		}
		for b, gb := range g.Blocks {
			wb := w.Blocks[b]
			if gb.TS != wb.TS {
				return "block-timestamp", fmt.Sprintf("day %s block %d: timestamp %d, reference %d", g.Path, b, gb.TS, wb.TS)
			}
			for c := range gb.Cols {
				gc, wc := gb.Cols[c], wb.Cols[c]
				switch {
				case gc.Err != "":
					return "read-error", fmt.Sprintf("day %s block %d column %d (%d bytes written): %s", g.Path, b, c, wc.Len, gc.Err)
				case gc.Len != wc.Len:
					return "read-length", fmt.Sprintf("day %s block %d column %d: %d bytes read back, %d written", g.Path, b, c, gc.Len, wc.Len)
				case gc.Hash != wc.Hash:
					return "read-mismatch", fmt.Sprintf("day %s block %d column %d: the %d bytes read back differ from the bytes written", g.Path, b, c, gc.Len)
				}
			}
			if gb.Traffic != wb.Traffic {
				return "block-traffic", fmt.Sprintf("day %s block %d: traffic %+v, reference %+v", g.Path, b, gb.Traffic, wb.Traffic)
			}
		}
		if g.Stats != w.Stats {
			return "day-stats", fmt.Sprintf("day %s: statistics %+v, reference %+v", g.Path, g.Stats, w.Stats)
		}
		if g.SuffixStats != w.SuffixStats {
			return "suffix-stats", fmt.Sprintf("day %s: statistics from the directory suffix %+v, reference %+v", g.Path, g.SuffixStats, w.SuffixStats)
		}
	}
	return "", ""
}

// ---- scenarios ----------------------------------------------------------------------------------------

var c02EncTypes = []encoders.Type{encoders.EncoderTypeLZ4, encoders.EncoderTypeZSTD, encoders.EncoderTypeNull}

// c02Combo is one (level, payload alternative) of a case.
type c02Combo struct {
	level        int
	class        int
	single, solo bool
}

func (c c02Combo) String() string {
	mode := "all 8 columns"
	if c.single {
		mode = "column 3, default payload elsewhere"
	} else if c.solo {
		mode = "column 3, other columns empty"
	}
	return fmt.Sprintf("level %d, payload %s (%s)", c.level, c01Classes[c.class].name, mode)
}

var c02ComboCache = map[string][]c02Combo{}

// c02Combos: level x payload alternative. The pure-Go zstd encoder allocates its match tables
// when it compresses its first block (about 0.2 s per column file from level 3 upwards), so the
// levels that cost this are combined with payloads in one column only ("solo"), in the quick
// tier for four classes.
func c02Combos(t encoders.Type, tier string) []c02Combo {
	ck := fmt.Sprint(t, tier)
	if c, ok := c02ComboCache[ck]; ok {
		return c
	}
	var out []c02Combo
	full := func(levels ...int) {
		for _, l := range levels {
			for _, a := range c01Alts(tier) {
				out = append(out, c02Combo{level: l, class: a.class, single: a.single})
			}
		}
	}
	solo := func(classes []int, levels ...int) {
		for _, l := range levels {
			for _, c := range classes {
				out = append(out, c02Combo{level: l, class: c, solo: true})
			}
		}
	}
	all := make([]int, len(c01Classes))
	for i := range all {
		all[i] = i
	}
	seq := func(from, to int) (l []int) {
		for i := from; i <= to; i++ {
			l = append(l, i)
		}
		return
	}
	thorough := tier == "thorough"
	xl0, xl1, xl2, xl3 := c01ClassIndex("XL-16380B-incompressible"), c01ClassIndex("XL-131073B-compressible"), c01ClassIndex("XL-1200000B-half-half"), c01ClassIndex("XL-2100000B-compressible")
	small := all[:xl0]
	switch t {
	case encoders.EncoderTypeNull:
		if thorough {
			full(0)
		} else {
			solo([]int{0, 1, 2, 6, 9}, 0)
			out = append(out, c02Combo{class: 0}, c02Combo{class: 6})
		}
	case encoders.EncoderTypeLZ4:
		if thorough {
			full(seq(0, 12)...)
			solo([]int{xl0, xl1, xl2, xl3}, 0, 1, 9, 12)
		} else {
			full(0, 12)
			solo([]int{0, 3, 6, 9, xl0, xl2}, 1)
		}
	case encoders.EncoderTypeZSTD:
		if thorough {
			full(0, 1, 3, 19)
			solo(small, seq(0, 19)...)
			solo([]int{xl0, xl1, xl2, xl3}, 0, 1, 3, 6, 12, 19)
		} else {
			full(1)
			solo([]int{0, 3, 6, 9, xl2}, 0, 19) // 100B / 5000B compressible, 4096B / 70000B incompressible, 1.2 MB mixed
			solo([]int{xl0, xl1, xl3}, 0)
		}
	}
	c02ComboCache[ck] = out
	return out
}

// last database written by this process: consecutive executions that differ only in the reader
// (the last choice) read the same directory
var c02Last struct {
	key, dir string
	failSig  string
	failMsg  string
	dumps    map[string]c02Dumped // what each reader build sees in dir
}

type c02Dumped struct {
	resp  c02Resp
	crash string
}

// c02Written makes sure the database of (key) exists: part one by build A, part two by build B.
func c02Written(x *explore.Ctx, key string, a, b string, sp1, sp2 c02Spec, withQuery bool) (dumps map[string]c02Dumped, ok bool) {
	if c02Last.key != key {
		if c02Last.dir != "" {
			os.RemoveAll(c02Last.dir)
		}
		c02Last.key, c02Last.dir, c02Last.failSig, c02Last.failMsg = key, fixture.NewDir(), "", ""
		for i, w := range []struct {
			cfg string
			sp  c02Spec
		}{{a, sp1}, {b, sp2}} {
			if w.sp.From >= w.sp.To {
				continue
			}
			x.Transition()
			r, crash := c02Tool(w.cfg, x.Tier).call(c02Req{Op: "write", Dir: c02Last.dir, Spec: w.sp})
			part := []string{"first", "second"}[i]
			if crash != "" {
				c02Last.failSig = fmt.Sprintf("%s:write-%s", c02Impl(w.cfg, w.sp.Enc), c02CrashSig(crash))
				c02Last.failMsg = fmt.Sprintf("%s build died while writing the %s part: %s", w.cfg, part, crash)
				break
			}
			if r.Err != "" {
				c02Last.failSig = fmt.Sprintf("%s:write-error", c02Impl(w.cfg, w.sp.Enc))
				if i == 1 && a != b {
					c02Last.failSig = fmt.Sprintf("%s-after-%s:append-error", c02Impl(w.cfg, w.sp.Enc), c02Impl(a, w.sp.Enc))
				}
				c02Last.failMsg = fmt.Sprintf("%s build cannot write the %s part: %s", w.cfg, part, r.Err)
				break
			}
		}
		if c02Last.failSig == "" {
			// the four reader builds dump the directory at the same time (requests first, answers after)
			c02Last.dumps = map[string]c02Dumped{}
			tools := make([]*c02Child, len(c02Builds))
			for i, cfg := range c02Builds {
				tools[i] = c02Tool(cfg, x.Tier)
				tools[i].send(c02Req{Op: "dump", Dir: c02Last.dir, Query: withQuery})
			}
			for i, cfg := range c02Builds {
				r, crash := tools[i].recv()
				c02Last.dumps[cfg] = c02Dumped{r, crash}
			}
		}
	}
	if c02Last.failSig != "" {
		x.Fail(c02Last.failSig, "%s", c02Last.failMsg)
		return nil, false
	}
	return c02Last.dumps, true
}

func c02PairOf(c int) (a, b string) { return c02Builds[(c/4)%4], c02Builds[c%4] }

// writer implementations involved / reader implementation, for signatures
func c02Who(a, b, r string, t encoders.Type, parts int) string {
	w := c02Impl(a, t)
	if parts == 2 && c02Impl(b, t) != w {
		w += "+" + c02Impl(b, t)
	}
	return "written-by-" + w + ":read-by-" + c02Impl(r, t)
}

func c02BlocksRun(x *explore.Ctx) {
	a, b := c02PairOf(x.Case)
	et := c02EncTypes[(x.Case/16)%len(c02EncTypes)]
	combos := c02Combos(et, x.Tier)
	cb := combos[x.Choose(len(combos), "level x payload")]
	level := cb.level
	nblocks := 2
	if a == b {
		nblocks = 1 + x.Choose(2, "blocks in the day (1,2)")
	}
	r := c02Builds[x.Choose(4, "reader build")]

	sp := c02Spec{Kind: "g", Enc: et, Level: level, Class: cb.class, Single: cb.single, Solo: cb.solo, NBlocks: nblocks}
	sp1, sp2 := sp, sp
	sp1.From, sp1.To = 0, 1
	sp2.From, sp2.To = 1, nblocks
	what := fmt.Sprintf("%s %s, %d block(s): block 0 written by %s", et, cb, nblocks, a)
	if nblocks == 2 {
		what += fmt.Sprintf(", block 1 appended by %s", b)
	}
	what += ", read by " + r
	x.Logf("%s", what)
	key := fmt.Sprintf("g|%s|%d|%d|%+v|%d", x.Tier, x.Case, et, cb, nblocks)
	dumps, ok := c02Written(x, key, a, b, sp1, sp2, false)
	if !ok {
		return
	}
	x.Transition()
	d, crash := dumps[r].resp, dumps[r].crash
	who := c02Who(a, b, r, et, nblocks)
	if crash != "" {
		x.Fail(who+":read-"+c02CrashSig(crash), "%s: the reading build died: %s", what, crash)
		return
	}
	if d.Err != "" {
		x.Fail(who+":dump-error", "%s: %s", what, d.Err)
		return
	}
	if x.Logging() {
		for _, s := range d.Info.Stored {
			x.Logf("  stored %s", s)
		}
	}
	if kind, detail := c02Compare(d.Days, c02RefG(sp)); kind != "" {
		x.Fail(who+":"+kind, "%s: %s", what, detail)
		return
	}
	// outcome = what is on disk (distinct on-disk forms of equal content are counted, not judged)
	x.Obs("%v", d.Info.Disk)
	if et != encoders.EncoderTypeNull && (c02Impl(a, et) != c02Impl(r, et) || (nblocks == 2 && c02Impl(b, et) != c02Impl(r, et))) && len(c01Payload(cb.class, 3)) > 0 {
		// a block compressed by one implementation was decoded by the other
		x.Nontrivial("%s|%+v|%d|%s|%s|%s", et, cb, nblocks, a, b, r)
	}
}

var c02FlowEncs = []encoders.Type{encoders.EncoderTypeLZ4, encoders.EncoderTypeZSTD, encoders.EncoderTypeNull}

// c02FlowShapes: indices into c08Shapes() (quick: IPv6-only and mixed; thorough: all four).
func c02FlowShapes(tier string) []int {
	if tier == "thorough" {
		return []int{0, 1, 2, 3}
	}
	return []int{1, 2}
}

func c02FlowsRun(x *explore.Ctx) {
	a, b := c02PairOf(x.Case)
	fs := c02FlowShapes(x.Tier)
	si := fs[(x.Case/16)%len(fs)]
	sh := c08Shapes()[si]
	et := c02FlowEncs[x.Choose(len(c02FlowEncs), "encoder")]
	n := len(sh.db.Blocks)
	// A == B: everything by one build; otherwise B continues after the first write-out (same
	// interface, same day) or takes over at the next interface
	split := n
	if a != b {
		split = []int{1, 3}[x.Choose(2, "write-outs by the first build (1,3)")]
	}
	r := c02Builds[x.Choose(4, "reader build")]
	// quick: level 1 (the pure-Go zstd encoder needs ~1.6 s per write-out from level 3 upwards); thorough: the default level
	level := 1
	if x.Thorough() {
		level = 0
	}
	sp := c02Spec{Kind: "f", Enc: et, Level: level, Shape: si}
	sp1, sp2 := sp, sp
	sp1.From, sp1.To = 0, split
	sp2.From, sp2.To = split, n
	what := fmt.Sprintf("flow database %s, encoder %s level %d: write-outs 0..%d by %s", sh.name, et, level, split-1, a)
	if split < n {
		what += fmt.Sprintf(", %d..%d by %s", split, n-1, b)
	}
	what += ", read by " + r
	x.Logf("%s", what)
	key := fmt.Sprintf("f|%s|%d|%d|%d", x.Tier, x.Case, et, split)
	dumps, ok := c02Written(x, key, a, b, sp1, sp2, true)
	if !ok {
		return
	}
	x.Transition()
	d, crash := dumps[r].resp, dumps[r].crash
	parts := 1
	if split < n {
		parts = 2
	}
	who := c02Who(a, b, r, et, parts)
	if crash != "" {
		x.Fail(who+":read-"+c02CrashSig(crash), "%s: the reading build died: %s", what, crash)
		return
	}
	if d.Err != "" {
		x.Fail(who+":dump-error", "%s: %s", what, d.Err)
		return
	}
	ref := c02RefF(si)
	if kind, detail := c02Compare(d.Days, ref.days); kind != "" {
		x.Fail(who+":"+kind, "%s: %s", what, detail)
		return
	}
	q := d.Query
	switch {
	case q == nil || q.Err != "":
		x.Fail(who+":query-error", "%s: raw query failed: %+v", what, q)
	case q.Corrupted != 0:
		x.Fail(who+":query-corrupted-blocks", "%s: the query engine reports %d corrupted blocks", what, q.Corrupted)
	case !reflect.DeepEqual(q.Rows, ref.query.Rows):
		x.Fail(who+":query-rows", "%s: the raw query returns %d rows that differ from the %d rows of the reference aggregation (first: %.200v)", what, len(q.Rows), len(ref.query.Rows), q.Rows)
	case q.Totals != ref.query.Totals:
		x.Fail(who+":query-totals", "%s: totals %s, reference %s", what, q.Totals, ref.query.Totals)
	}
	if x.Failed() {
		return
	}
	x.Obs("%v", d.Info.Disk)
	if et != encoders.EncoderTypeNull && (c02Impl(a, et) != c02Impl(r, et) || (parts == 2 && c02Impl(b, et) != c02Impl(r, et))) {
		x.Nontrivial("%s|%s|%d|%s|%s|%s", sh.name, et, split, a, b, r)
	}
}

func c02Setup(tier string) {
	if os.Getenv(c02ToolEnv) != "" {
		c02Serve() // dbtool process: never returns
	}
}

func init() {
	assume := []string{
		"each dbtool checks its own build configuration against the Go build info and the encoder implementations really linked (as C07 does); the parent checks that VERIF_BIN_<cfg> answers with that configuration",
		"liblz4 / libzstd as installed on this machine; klauspost/compress and pierrec/lz4 as vendored by the module",
		"payloads are the 12 fixed payload classes of C01 (not all byte strings); files live on tmpfs",
		"on-disk bytes are recorded as outcomes but not compared across builds (only decoded content is)",
	}
	register("C02", &explore.Scenario{
		ID: "C02", Name: "blocks written by one build (and appended to by a second) read back by every build", Level: "exploration",
		Rule:  "cases = all 16 ordered pairs (A, B) of {cgo, nocgo (CGO_ENABLED=0), noliblz4, nolibzstd} x encoder {lz4, zstd, null}; per case the full product level {default, 1, max} (thorough: every level lz4 0-12, zstd 0-19) x payload alternative (quick 11, thorough 23: the C01 classes - empty, 1 B, compressible / incompressible below, at and above the 4 KiB write buffer, 70 kB - on all 8 columns or one; plus, on one column, blocks next to the writer's 16 KiB scratch buffers (16380 B incompressible) and beyond the libraries' block / window sizes: 131073 B, 1.2 MB, 2.1 MB) x day layout (A = B: one block, or two blocks in two sessions; A != B: block 0 written by A, block 1 appended by B) x reader build R (4). Every process is a separate binary of that build. Oracle: R's dump (block list, timestamps, every column's decoded length and SHA-256, per-block traffic, day statistics from .blockmeta and from the directory suffix) equals the reference computed from the payloads. non-trivial = a block compressed by one implementation (liblz4 / pierrec, libzstd / klauspost) decoded by the other, distinct by (encoder, level, payload, layout, A, B, R); outcomes = distinct on-disk forms",
		Cases: func(string) int { return 16 * len(c02EncTypes) },
		Bound: func(string) int { return 0 },
		Run:   c02BlocksRun, Setup: c02Setup, PanicSig: "", Assumptions: assume,
	})
	register("C02.flows", &explore.Scenario{
		ID: "C02", Name: "flow databases written by one build, continued by a second, queried by every build", Level: "exploration",
		Rule:  "cases = all 16 ordered pairs (A, B) of the four builds x 2 (thorough all 4) of the C08 database shapes (IPv6-only, mixed; thorough also IPv4-only and mixed with trailing-zero IPv6; 2 interfaces, 3 days, 5 write-outs through the real DBWriter); per case encoder {lz4, zstd, null} (level 1 in quick, default level in thorough) x split (A = B: all by A; A != B: B continues after the first write-out, i.e. inside a day, or after the third, i.e. at the next interface) x reader build R (4). Oracle: R's dump equals the reference (decoded column bytes of the same write-outs stored uncompressed; per-block flow counts and drops, day statistics from the reference database), and R's raw query (sip,dip,dport,proto,time over all interfaces) returns exactly the rows and totals of the reference aggregation with 0 corrupted blocks. non-trivial = data compressed by one implementation decoded by the other",
		Cases: func(t string) int { return 16 * len(c02FlowShapes(t)) },
		Bound: func(string) int { return 0 },
		Run:   c02FlowsRun, Setup: c02Setup, PanicSig: "", Assumptions: assume,
	})
}

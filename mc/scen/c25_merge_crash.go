package scen

import (
	"context"
	"fmt"
	"github.com/els0r/goProbe/v4/pkg/goDB/storage/gpfile"
	"sort"
	"strings"

	"github.com/els0r/goProbe/v4/pkg/goDB"
	"github.com/els0r/goProbe/v4/pkg/goDB/engine"
	"github.com/els0r/goProbe/v4/pkg/goDB/info"
	"github.com/els0r/goProbe/v4/pkg/types"

	"verifmc/explore"
	"verifmc/fixture"
)

// C25: an interrupted merge never duplicates or hides data. The real
// MergeDatabases runs over the vos shim and is killed before every mutating
// file-system step; the destination as left is inspected through the interface
// list, the query engine and the listing, then a complete merge is run.

type c25Scen struct {
	name         string
	srcSt, dstSt []int
	overwrite    bool
}

// shape indices of c24SmallShapes: 0 missing, 1 complete, 2 partialP, 3 partialQ
var c25Scens = []c25Scen{
	{"copy-new(both days)", []int{1, 2}, []int{0, 0}, false},
	{"copy-over-existing(overwrite) + copy-new", []int{1, 1}, []int{2, 0}, true},
	{"rebuild(dest wins) + skip(complete vs complete)", []int{2, 1}, []int{3, 1}, false},
	{"rebuild(source wins) + copy-over-complete", []int{3, 1}, []int{2, 1}, true},
	{"rebuild + rebuild", []int{2, 3}, []int{3, 2}, false},
	{"copy-new into existing interface + rebuild", []int{1, 2}, []int{0, 3}, false},
}

// c25Rows is the reference content of one cell given its block list.
func c25Rows(cl c24Cell, bs []c24Blk) map[fixture.RowKey]types.Counters {
	var db fixture.DB
	for _, b := range bs {
		db.Blocks = append(db.Blocks, c24Block(b.Side, cl.Iface, b.TS))
	}
	return db.Aggregate(fixture.QuerySpec{Attrs: c08Attrs, Time: true, Iface: true, Ifaces: []string{cl.Iface}, First: 0, Last: 1 << 40})
}

// c25Inspect checks the destination through the public readers. options[cell] lists
// the admissible contents of the cell (before / after). It returns a signature
// suffix and message, or "".
func c25Inspect(dst string, cfg *c24Cfg, options map[c24Cell][][]c24Blk) (string, string) {
	ifs, err := info.GetInterfaces(dst)
	if err != nil {
		return "interface-list-error", err.Error()
	}
	known := map[string]bool{}
	for _, i := range cfg.ifaces() {
		known[i] = true
	}
	var real []string
	for _, i := range ifs {
		if !known[i] {
			return "leftover-listed-as-interface", fmt.Sprintf("the interface list of the destination contains %q (list: %v)", i, ifs)
		}
		real = append(real, i)
	}
	if len(real) == 0 {
		for cl, opts := range options {
			for _, o := range opts {
				if len(o) != 0 {
					goto mustHave
				}
			}
			_ = cl
		}
		return "", ""
	mustHave:
		for _, opts := range options {
			ok := false
			for _, o := range opts {
				ok = ok || len(o) == 0
			}
			if !ok {
				return "data-hidden", "the destination lists no interface although a day must hold data"
			}
		}
		return "", ""
	}
	res, err := fixture.RunQuery(dst, woQueryType, "any", "", 0, 1<<40, false)
	if err != nil {
		return "query-failed", "a query over the destination fails: " + err.Error()
	}
	rows, dup := fixture.RowsOf(res)
	if dup != nil {
		return "query-duplicate-row", "query returns " + dup.String() + " twice"
	}
	for _, cl := range cfg.Cells {
		got := map[fixture.RowKey]types.Counters{}
		for k, v := range rows {
			if k.Iface == cl.Iface && k.TS >= cl.Day && k.TS < cl.Day+86400 {
				got[k] = v
			}
		}
		ok := false
		var diffs []string
		for _, o := range options[cl] {
			d := fixture.DiffRows(got, c25Rows(cl, o))
			if d == "" {
				ok = true
				break
			}
			diffs = append(diffs, d)
		}
		if !ok {
			kind := "neither-before-nor-after"
			if len(got) == 0 {
				kind = "data-hidden"
			}
			return kind, fmt.Sprintf("%s day %d holds neither its pre-merge nor its merged content (%d rows): vs before: %s || vs after: %s", cl.Iface, cl.Day, len(got), diffs[0], diffs[len(diffs)-1])
		}
	}
	for _, iface := range real {
		wm, err := goDB.NewDBWorkManager(goDB.NewMetadataQuery(), dst, iface, 1)
		if err == nil {
			_, err = wm.ReadMetadata(0, 1<<40)
		}
		if err != nil {
			return "listing-failed", fmt.Sprintf("the listing of %s fails: %v", iface, err)
		}
	}
	return "", ""
}

func c25Run(x *explore.Ctx) {
	gpfile.VerifResetPools()
	sc := c25Scens[x.Case%len(c25Scens)]
	cfg := c24CfgSmall1
	p := c24BuildPair(cfg, sc.srcSt, sc.dstSt, true)
	defer p.Cleanup()
	exp := c24ExpectedDest(cfg, sc.srcSt, sc.dstSt, sc.overwrite, c24WideTol, nil)
	opts := goDB.MergeOptions{SourcePath: p.Src, DestinationPath: p.Dst, Overwrite: sc.overwrite, CompleteTolerance: c24WideTol}
	srcHash := c24TreeHash(p.Src)

	ctl := &fsCtl{x: x, mode: fsCrash, root: p.Root, partial: x.Thorough(), phase: "merge", armed: true}
	err, crashed := fsRun(ctl, func() error {
		_, e := goDB.MergeDatabases(context.Background(), opts)
		return e
	})
	ctl.armed = false
	x.Transition()
	x.Logf("scenario %s: plan %v", sc.name, exp.Actions)
	if !crashed {
		if err != nil {
			x.Fail("merge-error", "%s: uninterrupted merge failed: %v", sc.name, err)
			return
		}
	} else {
		x.Logf("%s", ctl.hit)
		x.Nontrivial("%d %s", x.Case, ctl.hit)
		x.State([]byte(fmt.Sprintf("%d|%s", x.Case, strings.Join(fixture.TreeOf(p.Dst), ";"))))
		if c24TreeHash(p.Src) != srcHash {
			x.Fail("source-modified", "%s, %s: the source tree changed", sc.name, ctl.hit)
			return
		}
		options := map[c24Cell][][]c24Blk{}
		for _, cl := range cfg.Cells {
			options[cl] = [][]c24Blk{exp.Before[cl], exp.Days[cl]}
		}
		if sig, msg := c25Inspect(p.Dst, cfg, options); sig != "" {
			x.Fail(sig+":"+c25StepClass(ctl), "%s, %s: %s [destination: %s]", sc.name, ctl.hit, msg, strings.Join(c25TopLevel(p.Dst), " "))
			return
		}
		// a later complete merge must succeed and produce the merged result
		if _, err := goDB.MergeDatabases(context.Background(), opts); err != nil {
			x.Fail("later-merge-fails:"+c25StepClass(ctl), "%s, %s: a later complete merge fails: %v", sc.name, ctl.hit, err)
			return
		}
		x.Transition()
	}
	final := map[c24Cell][][]c24Blk{}
	for _, cl := range cfg.Cells {
		final[cl] = [][]c24Blk{exp.Days[cl]}
	}
	if sig, msg := c25Inspect(p.Dst, cfg, final); sig != "" {
		when := "after the uninterrupted merge"
		if crashed {
			when = ctl.hit + ", after the later complete merge"
		}
		x.Fail("final:"+sig+":"+c25StepClass(ctl), "%s, %s: %s", sc.name, when, msg)
		return
	}
	x.Obs("%v", crashed)
}

// c25StepClass normalises the interrupted step (file kind and merge phase).
func c25StepClass(c *fsCtl) string {
	if c.hit == "" {
		return "none"
	}
	p := c.hitOp.Path + " " + c.hitOp.Path2
	where := "dest"
	switch {
	case strings.Contains(c.hitOp.Path, ".gpdb-merge-stage"):
		where = "stage"
	case strings.Contains(p, ".gpdb-merge-backup"):
		where = "backup"
	}
	if strings.Contains(c.hitOp.Path2, ".gpdb-merge-backup") {
		where = "day->backup"
	} else if strings.Contains(c.hitOp.Path, ".gpdb-merge-stage") && c.hitOp.Path2 != "" {
		where = "stage->day"
	}
	return c.hitOp.Kind + "@" + where
}

func c25TopLevel(dst string) []string {
	t := fixture.TreeOf(dst)
	var out []string
	for _, e := range t {
		if strings.Count(strings.TrimSuffix(e, "/"), "/") <= 3 && strings.HasSuffix(e, "/") {
			out = append(out, e)
		}
	}
	sort.Strings(out)
	return out
}

func init() {
	register("C25", &explore.Scenario{
		ID: "C25", Name: "kill at every mutating step of MergeDatabases", Level: "fault_enumeration",
		Rule:     "cases = 6 merge scenarios over 2 days (copy new days; copy over an existing partial day with overwrite; rebuild with destination / source winning; skip; combinations); the real MergeDatabases runs over the vos shim and is killed before EVERY mutating file-system step (mkdir, create, write, chmod, rename, unlink/rmdir of stage, day and backup directories; thorough: also inside writes). On the destination as left: the interface list contains only real interfaces, a query over 'any' and the listing succeed, every day's rows equal its pre-merge or its merged content (never both, never neither); then a complete merge must succeed and yield the merged content. non-trivial = executions with a kill, distinct by (scenario, step)",
		Cases:    func(t string) int { return len(c25Scens) },
		Bound:    func(t string) int { return 1 },
		Run:      c25Run,
		PanicSig: "panic",
		Setup:    func(string) { engine.VerifSetNumProcessingUnits(1) },
		Assumptions: []string{"process kill semantics (completed system calls persist in order); io.Copy decomposed into read/write steps by the shim",
			"databases from the C24 builders: small days under an 11 h completeness tolerance"},
	})
}

package scen

import (
	"bytes"
	"encoding/json"
	"fmt"
	"io"
	"math"
	"net/netip"
	"reflect"
	"sort"
	"strings"
	"time"

	"github.com/els0r/goProbe/v4/pkg/query"
	"github.com/els0r/goProbe/v4/pkg/results"
	"github.com/els0r/goProbe/v4/pkg/types"
	"github.com/els0r/goProbe/v4/pkg/types/workload"
	jsoniter "github.com/json-iterator/go"

	"verifmc/explore"
)

// C17: query arguments, prepared statements and results survive JSON round
// trips; every enumeration value maps to its name and back to itself.
//
// Four scenarios:
//   C17        the two enumerations (types.Direction, results.SortOrder): value -> name -> value and
//              value -> JSON -> value, bare and as a struct field, encoded through a pointer and by value
//   C17.args   query.Args
//   C17.stmt   query.Statement
//   C17.result results.Result (status, host statuses, summary, query, rows with labels/attributes/counters)
//
// The three struct scenarios share one generic driver: a base value (all-zero
// or fully populated), one deviation point per field with a small alphabet of
// alternative values, all executions with <= bound deviating fields; every
// execution encodes with {encoding/json, jsoniter}, decodes with
// {encoding/json, jsoniter} (all four pairings: the API client uses jsoniter,
// the server side encoding/json), the encoder being handed either a pointer
// or the value itself. The decoded value is compared field by field
// (exported, JSON-visible fields only; instants by time.Equal; nil == empty).

type c17Lib struct {
	name      string
	marshal   func(any) ([]byte, error)
	unmarshal func([]byte, any) error
}

var c17Libs = []c17Lib{
	{"std", json.Marshal, json.Unmarshal},
	{"jsoniter", jsoniter.Marshal, jsoniter.Unmarshal}, // ConfigDefault: what the repository calls
}

var c17Modes = []string{"ptr", "value"}

func c17Hash(b []byte) uint64 {
	h := uint64(14695981039346656037)
	for _, c := range b {
		h = (h ^ uint64(c)) * 1099511628211
	}
	return h
}

// ---------------------------------------------------------------- equivalence

var (
	c17TimeType = reflect.TypeOf(time.Time{})
	c17AddrType = reflect.TypeOf(netip.Addr{})
)

type c17Difference struct {
	path   string // field path without indices (normal form)
	detail string
}

// c17Diff walks two values of the same type and records where they are not
// equivalent. Only what JSON is supposed to carry is compared: exported
// fields that are not tagged json:"-".
func c17Diff(path string, a, b reflect.Value, out *[]c17Difference) {
	add := func(format string, args ...any) {
		*out = append(*out, c17Difference{path, path + ": " + fmt.Sprintf(format, args...)})
	}
	switch a.Type() {
	case c17TimeType:
		ta, tb := a.Interface().(time.Time), b.Interface().(time.Time)
		if !ta.Equal(tb) {
			add("instant %s became %s", ta.Format(time.RFC3339Nano), tb.Format(time.RFC3339Nano))
		}
		return
	case c17AddrType:
		if a.Interface() != b.Interface() {
			add("address %v became %v", a.Interface(), b.Interface())
		}
		return
	}
	switch a.Kind() {
	case reflect.Struct:
		t := a.Type()
		for i := 0; i < t.NumField(); i++ {
			f := t.Field(i)
			if !f.IsExported() || f.Tag.Get("json") == "-" {
				continue
			}
			p := f.Name
			if path != "" {
				p = path + "." + f.Name
			}
			c17Diff(p, a.Field(i), b.Field(i), out)
		}
	case reflect.Slice:
		if a.Len() != b.Len() { // nil and empty are equivalent
			add("length %d became %d", a.Len(), b.Len())
			return
		}
		for i := 0; i < a.Len(); i++ {
			n := len(*out)
			c17Diff(path, a.Index(i), b.Index(i), out)
			for j := n; j < len(*out); j++ {
				(*out)[j].detail = fmt.Sprintf("[%d] ", i) + (*out)[j].detail
			}
		}
	case reflect.Map:
		if a.Len() != b.Len() {
			add("map size %d became %d", a.Len(), b.Len())
			return
		}
		for _, k := range a.MapKeys() {
			bv := b.MapIndex(k)
			if !bv.IsValid() {
				add("key %q lost", k.Interface())
				continue
			}
			n := len(*out)
			c17Diff(path, a.MapIndex(k), bv, out)
			for j := n; j < len(*out); j++ {
				(*out)[j].detail = fmt.Sprintf("[%q] ", k.Interface()) + (*out)[j].detail
			}
		}
	case reflect.Pointer:
		if a.IsNil() != b.IsNil() {
			add("nil=%v became nil=%v", a.IsNil(), b.IsNil())
			return
		}
		if !a.IsNil() {
			c17Diff(path, a.Elem(), b.Elem(), out)
		}
	case reflect.Interface, reflect.Func, reflect.Chan:
		// not representable in JSON; such fields are json:"-" in the types under test
	default:
		if a.Interface() != b.Interface() {
			add("%#v became %#v", a.Interface(), b.Interface())
		}
	}
}

// ---------------------------------------------------------------- generic driver

// c17Mut is one deviation point: a field and its alternative values.
type c17Mut[T any] struct {
	name string
	alts []func(*T)
}

func c17Set[T, F any](name string, f func(*T) *F, vals ...F) c17Mut[T] {
	m := c17Mut[T]{name: name}
	for _, v := range vals {
		v := v
		m.alts = append(m.alts, func(t *T) { *f(t) = v })
	}
	return m
}

func c17Flip[T any](name string, f func(*T) *bool) c17Mut[T] {
	return c17Mut[T]{name: name, alts: []func(*T){func(t *T) { *f(t) = !*f(t) }}}
}

// string alphabet: plain, quoting/escapes, HTML-sensitive, non-ASCII incl. U+2028, empty
var c17Strs = []string{"x", "he said \"hi\"\\\n\t", "<b>&amp;</b>", "日本語 é \u2028 \u00a0", ""}

func c17Str[T any](name string, f func(*T) *string) c17Mut[T] { return c17Set(name, f, c17Strs...) }

var c17Durs = []time.Duration{0, 1, -5 * time.Second, 2 * time.Hour, math.MaxInt64}

func c17Dur[T any](name string, f func(*T) *time.Duration) c17Mut[T] {
	return c17Set(name, f, c17Durs...)
}

func c17Int[T any](name string, f func(*T) *int) c17Mut[T] {
	return c17Set(name, f, 0, 1, -1, math.MaxInt32)
}

var c17Times = []time.Time{
	{},
	time.Unix(0, 0).UTC(),
	time.Date(2024, 4, 12, 3, 20, 0, 0, time.FixedZone("", 2*3600)),
	time.Date(1969, 12, 31, 23, 59, 59, 999999999, time.FixedZone("", 4*3600+1800)),
	time.Date(9999, 12, 31, 23, 59, 59, 0, time.UTC),
	time.Date(2021, 3, 28, 1, 0, 0, 123000000, time.FixedZone("", -7*3600)),
}

func c17Time[T any](name string, f func(*T) *time.Time) c17Mut[T] {
	return c17Set(name, f, c17Times...)
}

var c17Counters = []types.Counters{
	{},
	{BytesRcvd: 1},
	{BytesRcvd: math.MaxUint64, BytesSent: math.MaxUint64 - 1, PacketsRcvd: 1 << 53, PacketsSent: 1<<53 + 1},
	{BytesSent: 512, PacketsSent: 1},
}

var c17Addrs = []netip.Addr{
	{},
	netip.MustParseAddr("10.81.45.1"),
	netip.MustParseAddr("0.0.0.0"),
	netip.MustParseAddr("2001:db8::1"),
	netip.MustParseAddr("::"),
	netip.MustParseAddr("::ffff:1.2.3.4"),
	netip.MustParseAddr("fe80::1%eth0"),
}

type c17Spec[T any] struct {
	kind    string
	hasMaps bool // the type contains maps: documents are canonicalised before they are counted
	bases   []func() *T
	muts    func(base int) []c17Mut[T]
}

// case index -> (encoder, decoder, mode, base)
func c17Cases[T any](s *c17Spec[T]) int { return 8 * len(s.bases) }

func c17Run[T any](s *c17Spec[T]) func(x *explore.Ctx) {
	mutCache := map[int][]c17Mut[T]{}
	return func(x *explore.Ctx) {
		bi := x.Case >> 3
		muts, ok := mutCache[bi]
		if !ok {
			muts = s.muts(bi)
			mutCache[bi] = muts
		}
		v := s.bases[bi]()
		var devs []string
		for i := range muts {
			alt := x.Deviate(len(muts[i].alts)+1, muts[i].name)
			if alt > 0 {
				muts[i].alts[alt-1](v)
				x.Transition()
				if x.Logging() {
					devs = append(devs, fmt.Sprintf("%s#%d", muts[i].name, alt))
				}
			}
		}
		cur := c17Combo{x.Case & 1, (x.Case >> 1) & 1, (x.Case >> 2) & 1}
		x.Logf("%s base %d %s deviations %v", s.kind, bi, cur, devs)
		class, detail, doc := c17Trip(v, cur)
		x.Logf("json: %s", doc)
		canon := doc
		if s.hasMaps && cur.enc == 1 {
			canon = c17Canonical(doc) // jsoniter writes map entries in iteration order
		}
		x.Obs("%s %s", class, canon)
		if class == "" || strings.HasPrefix(class, "diff:") {
			x.NontrivialKey(c17Hash(canon))
		}
		if class == "" {
			return
		}
		// Normal form of the failure: which (encoder, decoder, mode) combinations fail in the
		// same way for this very value.
		var same []c17Combo
		for _, c := range c17AllCombos {
			if cl, _, _ := c17Trip(v, c); cl == class {
				same = append(same, c)
			}
		}
		x.Fail(s.kind+":"+class+"@"+c17ComboSet(same), "%s: %s\ndocument: %s", cur, detail, doc)
	}
}

// c17Combo selects encoder library, decoder library and whether Marshal gets a pointer or the value.
type c17Combo struct{ enc, dec, mode int }

func (c c17Combo) String() string {
	return c17Libs[c.enc].name + ">" + c17Libs[c.dec].name + ":" + c17Modes[c.mode]
}

var c17AllCombos = func() (l []c17Combo) {
	for i := 0; i < 8; i++ {
		l = append(l, c17Combo{i & 1, (i >> 1) & 1, (i >> 2) & 1})
	}
	return
}()

// c17ComboSet renders a set of combinations in a canonical short form:
// "all", or a sorted list of enc:mode (both decoders) / enc>dec:mode.
func c17ComboSet(set []c17Combo) string {
	if len(set) == len(c17AllCombos) {
		return "all"
	}
	decs := map[[2]int][]int{}
	for _, c := range set {
		k := [2]int{c.enc, c.mode}
		decs[k] = append(decs[k], c.dec)
	}
	var out []string
	for k, d := range decs {
		if len(d) == len(c17Libs) {
			out = append(out, c17Libs[k[0]].name+":"+c17Modes[k[1]])
			continue
		}
		for _, di := range d {
			out = append(out, c17Combo{k[0], di, k[1]}.String())
		}
	}
	sort.Strings(out)
	return strings.Join(out, ",")
}

// c17Canonical re-renders a document with sorted object keys (numbers kept verbatim).
func c17Canonical(doc []byte) []byte {
	d := json.NewDecoder(bytes.NewReader(doc))
	d.UseNumber()
	var a any
	if err := d.Decode(&a); err != nil {
		return doc
	}
	out, err := json.Marshal(a)
	if err != nil {
		return doc
	}
	return out
}

// c17Trip performs one round trip and classifies it: "" (equivalent),
// "marshal-error", "unmarshal-error" or "diff:<differing field paths>".
func c17Trip[T any](v *T, c c17Combo) (class, detail string, doc []byte) {
	var in any = v
	if c.mode == 1 {
		in = *v
	}
	doc, err := c17Libs[c.enc].marshal(in)
	if err != nil {
		return "marshal-error", fmt.Sprintf("Marshal(%+v) failed: %v", *v, err), nil
	}
	out := new(T)
	if err := c17Libs[c.dec].unmarshal(doc, out); err != nil {
		return "unmarshal-error", fmt.Sprintf("the document produced by Marshal cannot be decoded again: %v", err), doc
	}
	var diffs []c17Difference
	c17Diff("", reflect.ValueOf(v).Elem(), reflect.ValueOf(out).Elem(), &diffs)
	if len(diffs) == 0 {
		return "", "", doc
	}
	paths := map[string]bool{}
	var details []string
	for _, d := range diffs {
		paths[d.path] = true
		details = append(details, d.detail)
	}
	ps := make([]string, 0, len(paths))
	for p := range paths {
		ps = append(ps, p)
	}
	sort.Strings(ps)
	return "diff:" + strings.Join(ps, "+"), "decoded value differs from the encoded one\n  " + strings.Join(details, "\n  "), doc
}

func c17Register[T any](key, name string, s *c17Spec[T], boundQ, boundT int) {
	register(key, &explore.Scenario{
		ID: "C17", Name: name, Level: "exploration",
		Rule:  "cases = encoder {encoding/json, jsoniter} x decoder {encoding/json, jsoniter} x {Marshal(&v), Marshal(v)} x base value {all-zero, fully populated}; per case one deviation point per exported field (strings: plain/escapes/HTML/non-ASCII+U+2028/empty; numbers: 0,1,-1,max; durations; bools flipped; instants: zero, epoch, ns precision, offsets +02:00/-07:00/+04:30, year 9999; addresses: invalid, v4, v6, unspecified, 4in6, zoned; counters up to 2^64-1; enumerations: every member; slices/maps nil, empty, 1..2 elements); all combinations with <= bound deviating fields; every execution is one Marshal -> Unmarshal and a field-by-field comparison; distinct non-trivial = distinct JSON documents that decoded without error and were compared",
		Cases: func(string) int { return c17Cases(s) },
		Bound: func(t string) int {
			if t == "thorough" {
				return boundT
			}
			return boundQ
		},
		Run:      c17Run(s),
		PanicSig: "panic",
		Assumptions: []string{"strings are valid UTF-8 (JSON cannot carry anything else)",
			"equivalence = exported fields not tagged json:\"-\"; instants compared with time.Equal (the location is not part of the value); nil and empty slices/maps are equivalent",
			"time zone offsets are whole minutes (RFC 3339 cannot express others)"},
	})
}

// ---------------------------------------------------------------- Args

func c17ArgsSpec() *c17Spec[query.Args] {
	type A = query.Args
	return &c17Spec[A]{
		kind: "args",
		bases: []func() *A{
			func() *A { return &A{} },
			func() *A {
				return &A{Query: "sip,dip,dport,proto", Ifaces: "eth0,eth1", QueryHosts: "hostA,hostB", QueryHostsResolverType: "string",
					Hostname: "hostA", HostID: 123456, Condition: "dport = 443 & proto = tcp", In: true, Out: true, Sum: true,
					First: "2020-08-12T09:47:00+02:00", Last: "-24h", TimeResolution: "auto", Format: "json", SortBy: "packets",
					NumResults: 25, SortAscending: true, List: true, Version: true,
					DNSResolution: query.DNSResolution{Enabled: true, Timeout: 2 * time.Second, MaxRows: 25},
					MaxMemPct:     80, LowMem: true, KeepAlive: 2 * time.Second, Caller: "goQuery", Live: true}
			},
		},
		muts: func(int) []c17Mut[A] {
			return []c17Mut[A]{
				c17Str("Query", func(a *A) *string { return &a.Query }),
				c17Str("Ifaces", func(a *A) *string { return &a.Ifaces }),
				c17Str("QueryHosts", func(a *A) *string { return &a.QueryHosts }),
				c17Str("QueryHostsResolverType", func(a *A) *string { return &a.QueryHostsResolverType }),
				c17Str("Hostname", func(a *A) *string { return &a.Hostname }),
				c17Set("HostID", func(a *A) *uint { return &a.HostID }, 0, 1, math.MaxUint32, math.MaxUint64),
				c17Str("Condition", func(a *A) *string { return &a.Condition }),
				c17Flip("In", func(a *A) *bool { return &a.In }),
				c17Flip("Out", func(a *A) *bool { return &a.Out }),
				c17Flip("Sum", func(a *A) *bool { return &a.Sum }),
				c17Str("First", func(a *A) *string { return &a.First }),
				c17Str("Last", func(a *A) *string { return &a.Last }),
				c17Str("TimeResolution", func(a *A) *string { return &a.TimeResolution }),
				c17Str("Format", func(a *A) *string { return &a.Format }),
				c17Str("SortBy", func(a *A) *string { return &a.SortBy }),
				c17Set("NumResults", func(a *A) *uint64 { return &a.NumResults }, 0, 1, 1<<53+1, math.MaxUint64),
				c17Flip("SortAscending", func(a *A) *bool { return &a.SortAscending }),
				c17Flip("List", func(a *A) *bool { return &a.List }),
				c17Flip("Version", func(a *A) *bool { return &a.Version }),
				c17Flip("DNSResolution.Enabled", func(a *A) *bool { return &a.DNSResolution.Enabled }),
				c17Dur("DNSResolution.Timeout", func(a *A) *time.Duration { return &a.DNSResolution.Timeout }),
				c17Int("DNSResolution.MaxRows", func(a *A) *int { return &a.DNSResolution.MaxRows }),
				c17Int("MaxMemPct", func(a *A) *int { return &a.MaxMemPct }),
				c17Flip("LowMem", func(a *A) *bool { return &a.LowMem }),
				c17Dur("KeepAlive", func(a *A) *time.Duration { return &a.KeepAlive }),
				c17Str("Caller", func(a *A) *string { return &a.Caller }),
				c17Flip("Live", func(a *A) *bool { return &a.Live }),
			}
		},
	}
}

// ---------------------------------------------------------------- Statement

var c17Directions = []types.Direction{types.DirectionUnknown, types.DirectionSum, types.DirectionIn, types.DirectionOut, types.DirectionBoth}
var c17SortOrders = []results.SortOrder{results.SortUnknown, results.SortPackets, results.SortTraffic, results.SortTime}

func c17StmtSpec() *c17Spec[query.Statement] {
	type S = query.Statement
	return &c17Spec[S]{
		kind: "stmt",
		bases: []func() *S{
			func() *S { return &S{} },
			func() *S {
				return &S{Ifaces: []string{"eth0", "eth1"}, LabelSelector: types.LabelSelector{Timestamp: true, Iface: true, Hostname: true, HostID: true},
					QueryType: "sip,dip,time", Condition: "dport = 443", Direction: types.DirectionIn, First: 1597218420, Last: 1712908020,
					TimeBinSize: 5 * time.Minute, Format: "json", NumResults: 1000, SortBy: results.SortTraffic, SortAscending: true,
					Output: io.Discard, Caller: "goQuery", DNSResolution: query.DNSResolution{Enabled: true, Timeout: time.Second, MaxRows: 25},
					MaxMemPct: 60, LowMem: true, KeepAliveDuration: 2 * time.Second, Live: true}
			},
		},
		muts: func(int) []c17Mut[S] {
			return []c17Mut[S]{
				c17Set("Ifaces", func(s *S) *[]string { return &s.Ifaces }, nil, []string{}, []string{"eth0"}, []string{"any", "tun \"0\"", "日本"}),
				c17Flip("LabelSelector.Timestamp", func(s *S) *bool { return &s.LabelSelector.Timestamp }),
				c17Flip("LabelSelector.Iface", func(s *S) *bool { return &s.LabelSelector.Iface }),
				c17Flip("LabelSelector.Hostname", func(s *S) *bool { return &s.LabelSelector.Hostname }),
				c17Flip("LabelSelector.HostID", func(s *S) *bool { return &s.LabelSelector.HostID }),
				c17Str("QueryType", func(s *S) *string { return &s.QueryType }),
				c17Str("Condition", func(s *S) *string { return &s.Condition }),
				c17Set("Direction", func(s *S) *types.Direction { return &s.Direction }, c17Directions...),
				c17Set("First", func(s *S) *int64 { return &s.First }, 0, 1, -1, math.MaxInt64, math.MinInt64),
				c17Set("Last", func(s *S) *int64 { return &s.Last }, 0, 1, -1, types.MaxTime.Unix(), 1<<53+1),
				c17Dur("TimeBinSize", func(s *S) *time.Duration { return &s.TimeBinSize }),
				c17Str("Format", func(s *S) *string { return &s.Format }),
				c17Set("NumResults", func(s *S) *uint64 { return &s.NumResults }, 0, 1, 1<<53+1, math.MaxUint64),
				c17Set("SortBy", func(s *S) *results.SortOrder { return &s.SortBy }, c17SortOrders...),
				c17Flip("SortAscending", func(s *S) *bool { return &s.SortAscending }),
				c17Str("Caller", func(s *S) *string { return &s.Caller }),
				c17Flip("DNSResolution.Enabled", func(s *S) *bool { return &s.DNSResolution.Enabled }),
				c17Dur("DNSResolution.Timeout", func(s *S) *time.Duration { return &s.DNSResolution.Timeout }),
				c17Int("DNSResolution.MaxRows", func(s *S) *int { return &s.DNSResolution.MaxRows }),
				c17Int("MaxMemPct", func(s *S) *int { return &s.MaxMemPct }),
				c17Flip("LowMem", func(s *S) *bool { return &s.LowMem }),
				c17Dur("KeepAliveDuration", func(s *S) *time.Duration { return &s.KeepAliveDuration }),
				c17Flip("Live", func(s *S) *bool { return &s.Live }),
			}
		},
	}
}

// ---------------------------------------------------------------- Result

func c17ResultSpec() *c17Spec[results.Result] {
	type R = results.Result
	row := func(i int) results.Row {
		if i == 0 {
			return results.Row{
				Labels:     results.Labels{Timestamp: time.Date(2024, 4, 12, 3, 20, 0, 0, time.FixedZone("", 7200)), Iface: "eth0", Hostname: "hostA", HostID: "123456"},
				Attributes: results.Attributes{SrcIP: netip.MustParseAddr("10.81.45.1"), DstIP: netip.MustParseAddr("8.8.8.8"), IPProto: 6, DstPort: 443},
				Counters:   types.Counters{BytesRcvd: 1024, BytesSent: 512, PacketsRcvd: 2, PacketsSent: 1},
			}
		}
		return results.Row{
			Labels:     results.Labels{Iface: "eth1"},
			Attributes: results.Attributes{SrcIP: netip.MustParseAddr("2001:db8::1"), DstIP: netip.MustParseAddr("2001:db8::2"), IPProto: 17, DstPort: 53},
			Counters:   types.Counters{BytesRcvd: 7, PacketsRcvd: 1},
		}
	}
	rowMuts := func(i int) []c17Mut[R] {
		p := fmt.Sprintf("Rows[%d].", i)
		return []c17Mut[R]{
			c17Time(p+"Labels.Timestamp", func(r *R) *time.Time { return &r.Rows[i].Labels.Timestamp }),
			c17Str(p+"Labels.Iface", func(r *R) *string { return &r.Rows[i].Labels.Iface }),
			c17Str(p+"Labels.Hostname", func(r *R) *string { return &r.Rows[i].Labels.Hostname }),
			c17Str(p+"Labels.HostID", func(r *R) *string { return &r.Rows[i].Labels.HostID }),
			c17Set(p+"Attributes.SrcIP", func(r *R) *netip.Addr { return &r.Rows[i].Attributes.SrcIP }, c17Addrs...),
			c17Set(p+"Attributes.DstIP", func(r *R) *netip.Addr { return &r.Rows[i].Attributes.DstIP }, c17Addrs...),
			c17Set(p+"Attributes.IPProto", func(r *R) *uint8 { return &r.Rows[i].Attributes.IPProto }, 0, 1, 255),
			c17Set(p+"Attributes.DstPort", func(r *R) *uint16 { return &r.Rows[i].Attributes.DstPort }, 0, 1, 65535),
			c17Set(p+"Counters", func(r *R) *types.Counters { return &r.Rows[i].Counters }, c17Counters...),
		}
	}
	return &c17Spec[R]{
		kind: "result", hasMaps: true,
		bases: []func() *R{
			func() *R { return &R{} },
			func() *R {
				return &R{Hostname: "hostA", Status: results.Status{Code: types.StatusOK, Message: "fine"},
					HostsStatuses: results.HostsStatuses{"hostA": {Code: types.StatusOK}, "hostB": {Code: types.StatusError, Message: "boom"}},
					Summary: results.Summary{Interfaces: results.Interfaces{"eth0", "eth1"},
						TimeRange: results.TimeRange{First: time.Date(2020, 8, 12, 9, 47, 0, 0, time.FixedZone("", 7200)), Last: time.Date(2024, 4, 12, 9, 47, 0, 0, time.FixedZone("", 7200))},
						Totals:    types.Counters{BytesRcvd: 1031, BytesSent: 512, PacketsRcvd: 3, PacketsSent: 1},
						Timings:   results.Timings{QueryStart: time.Date(2024, 4, 12, 9, 48, 0, 5, time.UTC), QueryDuration: 235 * time.Millisecond, ResolutionDuration: 515 * time.Millisecond},
						Hits:      results.Hits{Displayed: 2, Total: 1034}, DataAvailable: true,
						Stats: &workload.Stats{BytesLoaded: 1, BytesDecompressed: 2, BlocksProcessed: 3, BlocksCorrupted: 4, DirectoriesProcessed: 5, Workloads: 6}},
					Query: results.Query{Attributes: []string{"sip", "dip", "proto", "dport"}, Condition: "dport = 443"},
					Rows:  results.Rows{row(0), row(1)}}
			},
		},
		muts: func(base int) []c17Mut[R] {
			m := []c17Mut[R]{
				c17Str("Hostname", func(r *R) *string { return &r.Hostname }),
				c17Set("Status.Code", func(r *R) *types.Status { return &r.Status.Code }, types.StatusError, types.StatusEmpty, types.StatusMissingData, types.StatusTooManyRequests, types.StatusOK, ""),
				c17Str("Status.Message", func(r *R) *string { return &r.Status.Message }),
				c17Set("HostsStatuses", func(r *R) *results.HostsStatuses { return &r.HostsStatuses }, nil, results.HostsStatuses{},
					results.HostsStatuses{"": {}}, results.HostsStatuses{"h \"1\"": {Code: types.StatusMissingData, Message: "<none>"}, "日本": {Code: types.StatusTooManyRequests}, "c": {Code: types.StatusEmpty, Message: "e"}}),
				c17Set("Summary.Interfaces", func(r *R) *results.Interfaces { return &r.Summary.Interfaces }, nil, results.Interfaces{}, results.Interfaces{"eth0"}, results.Interfaces{"b", "a", "tun \"0\""}),
				c17Time("Summary.First", func(r *R) *time.Time { return &r.Summary.First }),
				c17Time("Summary.Last", func(r *R) *time.Time { return &r.Summary.Last }),
				c17Set("Summary.Totals", func(r *R) *types.Counters { return &r.Summary.Totals }, c17Counters...),
				c17Time("Summary.Timings.QueryStart", func(r *R) *time.Time { return &r.Summary.Timings.QueryStart }),
				c17Dur("Summary.Timings.QueryDuration", func(r *R) *time.Duration { return &r.Summary.Timings.QueryDuration }),
				c17Dur("Summary.Timings.ResolutionDuration", func(r *R) *time.Duration { return &r.Summary.Timings.ResolutionDuration }),
				c17Int("Summary.Hits.Displayed", func(r *R) *int { return &r.Summary.Hits.Displayed }),
				c17Int("Summary.Hits.Total", func(r *R) *int { return &r.Summary.Hits.Total }),
				c17Flip("Summary.DataAvailable", func(r *R) *bool { return &r.Summary.DataAvailable }),
				c17Set("Summary.Stats", func(r *R) **workload.Stats { return &r.Summary.Stats }, nil, &workload.Stats{}, &workload.Stats{BytesLoaded: math.MaxUint64, Workloads: 1}),
				c17Set("Query.Attributes", func(r *R) *[]string { return &r.Query.Attributes }, nil, []string{}, []string{"time"}, []string{"sip", "\"", "日本"}),
				c17Str("Query.Condition", func(r *R) *string { return &r.Query.Condition }),
			}
			if base == 0 {
				// no rows in the base value: the row list itself deviates
				m = append(m, c17Set("Rows", func(r *R) *results.Rows { return &r.Rows }, results.Rows{}, results.Rows{{}}, results.Rows{row(0)}, results.Rows{row(1), row(0), row(1)}))
				return m
			}
			m = append(m, c17Mut[R]{name: "Rows", alts: []func(*R){
				func(r *R) { r.Rows[0], r.Rows[1] = r.Rows[1], r.Rows[0] },
				func(r *R) { r.Rows = append(r.Rows, results.Row{}) },
			}})
			m = append(m, rowMuts(0)...)
			m = append(m, rowMuts(1)...)
			return m
		},
	}
}

// ---------------------------------------------------------------- enumerations

type c17Holder[E any] struct {
	Before string `json:"before"`
	E      E      `json:"e"`
	After  int    `json:"after"`
}

// c17EnumRun checks one enumeration: Choose(value) x Choose(path).
func c17EnumRun[E interface{ ~int }](x *explore.Ctx, name string, vals []E, str func(E) string, from func(string) E) {
	v := vals[x.Choose(len(vals), name+" value")]
	// path 0: name mapping; paths 1..16: container {bare, field} x mode x encoder x decoder
	p := x.Choose(17, "path")
	x.Transition()
	if p == 0 {
		n := str(v)
		back := from(n)
		x.Logf("%s(%d).String() = %q; FromString(%q) = %d", name, int(v), n, n, int(back))
		x.Obs("%s %d", n, int(back))
		x.Nontrivial("%s name %q", name, n)
		for _, o := range vals {
			if o != v && str(o) == n {
				x.Fail("enum:"+name+":name-shared:"+n, "%s values %d and %d share the name %q", name, int(v), int(o), n)
				return
			}
		}
		if back != v {
			x.Fail("enum:"+name+":name:"+n, "%s value %d has the name %q, but %q maps back to %d (%q)", name, int(v), n, n, int(back), str(back))
		}
		return
	}
	p--
	container := p & 1
	cur := c17AllCombos[p>>1]
	class, detail, doc := c17EnumTrip(v, container, cur, str)
	x.Logf("%s %q %s %s -> %s", name, str(v), c17Containers[container], cur, doc)
	x.Obs("%s %s", class, doc)
	if class == "" || class == "diff" {
		x.Nontrivial("%s json %s %s %s", name, c17Containers[container], cur, doc)
	}
	if class == "" {
		return
	}
	var same []c17Combo
	for _, c := range c17AllCombos {
		if cl, _, _ := c17EnumTrip(v, container, c, str); cl == class {
			same = append(same, c)
		}
	}
	what := class
	if class == "diff" {
		what = "diff(" + str(v) + ")"
	}
	x.Fail("enum:"+name+":"+c17Containers[container]+":"+what+"@"+c17ComboSet(same), "%s %q (%d), %s, %s: %s", name, str(v), int(v), c17Containers[container], cur, detail)
}

var c17Containers = []string{"bare", "field"}

// c17EnumTrip: one JSON round trip of an enumeration value, bare or as a struct field.
func c17EnumTrip[E interface{ ~int }](v E, container int, c c17Combo, str func(E) string) (class, detail string, doc []byte) {
	var in any
	switch {
	case container == 0 && c.mode == 0:
		in = &v
	case container == 0:
		in = v
	case c.mode == 0:
		in = &c17Holder[E]{"b", v, 7}
	default:
		in = c17Holder[E]{"b", v, 7}
	}
	doc, err := c17Libs[c.enc].marshal(in)
	if err != nil {
		return "marshal-error", fmt.Sprintf("Marshal failed: %v", err), nil
	}
	var got E
	if container == 0 {
		err = c17Libs[c.dec].unmarshal(doc, &got)
	} else {
		var h c17Holder[E]
		err = c17Libs[c.dec].unmarshal(doc, &h)
		got = h.E
		if err == nil && (h.Before != "b" || h.After != 7) {
			return "neighbours", fmt.Sprintf("neighbouring fields damaged: %+v (document %s)", h, doc), doc
		}
	}
	if err != nil {
		return "unmarshal-error", fmt.Sprintf("encoded as %s, which cannot be decoded again: %v", doc, err), doc
	}
	if got != v {
		return "diff", fmt.Sprintf("encoded as %s, which decodes to %q (%d)", doc, str(got), int(got)), doc
	}
	return "", "", doc
}

func init() {
	register("C17", &explore.Scenario{
		ID: "C17", Name: "enumerations: value <-> name, value <-> JSON", Level: "exploration",
		Rule:  "case 0 = types.Direction, case 1 = results.SortOrder; every declared member x 17 paths: String()->FromString(), and JSON as a bare value or as a struct field x encoder given a pointer or the value x encoder {encoding/json, jsoniter} x decoder {encoding/json, jsoniter}; non-trivial = distinct (enumeration, path, document)",
		Cases: func(string) int { return 2 },
		Bound: func(string) int { return 0 },
		Run: func(x *explore.Ctx) {
			if x.Case == 0 {
				c17EnumRun(x, "Direction", c17Directions, types.Direction.String, types.DirectionFromString)
			} else {
				c17EnumRun(x, "SortOrder", c17SortOrders, results.SortOrder.String, results.SortOrderFromString)
			}
		},
		PanicSig:    "panic",
		Assumptions: []string{"the enumeration members are the declared constants (Direction 0..4, SortOrder 0..3); undeclared integers are not enumeration values"},
	})
	c17Register("C17.args", "query.Args JSON round trip", c17ArgsSpec(), 2, 4)
	c17Register("C17.stmt", "query.Statement JSON round trip", c17StmtSpec(), 2, 4)
	c17Register("C17.result", "results.Result JSON round trip", c17ResultSpec(), 2, 3)
}

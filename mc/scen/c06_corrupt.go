package scen

import (
	"bufio"
	"bytes"
	"context"
	"encoding/binary"
	"encoding/json"
	"fmt"
	"io"
	"log/slog"
	"os"
	"os/exec"
	"path/filepath"
	"runtime"
	"runtime/debug"
	"sort"
	"strings"
	"sync/atomic"
	"syscall"
	"time"

	"github.com/els0r/goProbe/v4/pkg/goDB"
	"github.com/els0r/goProbe/v4/pkg/goDB/encoder/encoders"
	"github.com/els0r/goProbe/v4/pkg/goDB/engine"
	"github.com/els0r/goProbe/v4/pkg/goDB/storage/gpfile"
	"github.com/els0r/goProbe/v4/pkg/query"
	"github.com/els0r/goProbe/v4/pkg/results"
	"github.com/els0r/goProbe/v4/pkg/types"

	"verifmc/explore"
	"verifmc/fixture"
)

// C06: corrupted or foreign files never crash a reader and stay contained.
//
// A valid database (2 interfaces x 3 days x <=3 blocks) is written once through the real
// DBWriter and kept as an in-memory image. One execution = one mutation of one file (or of
// one day directory name) x one of four read shapes. The mutated tree is read by the real
// engine.QueryRunner / DBWorkManager.ReadMetadata inside an EXECUTOR CHILD PROCESS of the
// same worker binary, so that an unrecovered goroutine panic, a runtime fatal error or a
// fault inside liblz4 kills the child only and becomes a violation pinned to the mutation.
//
// Oracle (written from the property statement):
//   * no panic, no process death, no hang;
//   * rows of every reference block NOT overlapped by the mutated byte range (whole day for
//     .blockmeta and directory-name mutations) equal the reference rows of that block - in
//     particular every other day and the other interface return exactly their stored flows;
//   * Summary.Stats.BlocksCorrupted >= number of damaged reference blocks whose rows are
//     entirely absent from the unconditioned result (only where the mutation leaves the
//     block timestamps intact, so that "absent" is well defined);
//   * rows of damaged blocks are unconstrained.

const (
	c06Blockmeta = int(types.ColIdxCount) // file index of .blockmeta
	c06Dirname   = c06Blockmeta + 1       // pseudo file index: the day directory name
	c06NFiles    = c06Dirname + 1

	c06First = dayA - 3600
	c06Last  = dayDec + 2*86400
)

func c06FileName(f int) string {
	if f == c06Blockmeta {
		return ".blockmeta"
	}
	return types.ColumnFileNames[f] + gpfile.FileSuffix
}

func c06Kind(f int) string {
	switch f {
	case c06Blockmeta:
		return "blockmeta"
	case c06Dirname:
		return "dirname"
	}
	return "col." + types.ColumnFileNames[f]
}

// ---- reference database ------------------------------------------------------------------

func c06RefDB() fixture.DB {
	v4 := []fixture.Rec{r4a, r4b, r4c, r4d, r4e}
	v6 := []fixture.Rec{r6a, r6b, r6c, r6d}
	mixed := append(append([]fixture.Rec{}, v4...), v6...)
	sc := func(rs []fixture.Rec, k uint64) []fixture.Rec {
		out := make([]fixture.Rec, len(rs))
		for i := range rs {
			out[i] = scale(rs[i], k)
		}
		return out
	}
	return fixture.DB{Blocks: []fixture.Block{
		{Iface: "eth0", TS: tA1, Recs: mixed, Drops: 1},
		{Iface: "eth0", TS: tA2, Recs: sc(mixed[2:7], 2), Drops: 2},
		{Iface: "eth0", TS: dayA + 900, Recs: sc(v4, 11), Drops: 16},
		{Iface: "eth0", TS: tB1, Recs: sc(mixed[4:], 3), Drops: 32},
		{Iface: "eth0", TS: dayB + 600, Recs: sc(v6, 13), Drops: 64},
		{Iface: "eth0", TS: tD1, Recs: sc(mixed[:6], 5), Drops: 128},
		{Iface: "eth1", TS: tA1, Recs: sc(mixed[3:8], 7), Drops: 4},
		{Iface: "eth1", TS: tB1, Recs: sc(v4[:3], 17)},
		{Iface: "eth1", TS: dayB + 600, Recs: sc(v6[1:3], 31), Drops: 3},
		{Iface: "eth1", TS: dayB + 900, Recs: sc(mixed, 19), Drops: 5},
		{Iface: "eth1", TS: tD1, Recs: sc(v6[:2], 23), Drops: 8},
		{Iface: "eth1", TS: tD1 + 300, Recs: sc(mixed[1:6], 29), Drops: 9},
		// the big day: one block whose address columns exceed the readers' smallest buffers (16 KiB), so that
		// entry counts that disagree with the columns make a reader leave the buffer, not just its filled part
		{Iface: "eth1", TS: c06BigTS, Recs: c06BigRecs(), Drops: 7},
	}}
}

const c06BigTS = dayDec + 86400 + 300

func c06BigRecs() []fixture.Rec {
	var out []fixture.Rec
	for i := 0; i < 1028; i++ {
		out = append(out, rec(fmt.Sprintf("10.7.%d.%d", i>>8, i&255), fmt.Sprintf("10.8.%d.%d", i>>8, i&255), []uint16{80, 443}[i%2], 6, cnt(uint64(100+i), uint64(i%7), 2, uint64(i%3))))
	}
	return append(out, scale(r6a, 3), scale(r6b, 5))
}

// c06IsBig: the big day is only the target of structured .blockmeta mutations (its files are 50x the others').
func c06IsBig(d *c06Day) bool { return d.ts == c06BigTS-300 && d.iface == "eth1" }

type c06BID struct {
	iface string
	ts    int64
}

type c06Blk struct {
	ts      int64
	off, ln [types.ColIdxCount]uint64 // [Offset, Offset+Len) of the block in each column file
	nrecs   int
}

type c06Day struct {
	iface string
	ts    int64
	month string // relative path of the month directory: eth0/2023/11
	name  string // directory name including the metadata suffix
	files [c06Blockmeta + 1][]byte
	blks  []c06Blk
}

// c06Shape is one read shape; index 3 is the listing.
type c06Shape struct {
	name, qtype, cond string
	lowMem            bool
	attrs             []string
	pred              func(fixture.Rec) bool
}

var c06Shapes = []c06Shape{
	{name: "raw+time", qtype: "sip,dip,dport,proto,time", attrs: []string{"sip", "dip", "dport", "proto"}},
	{name: "sip,dip,time where dport=80 (low-mem: plain file reads)", qtype: "sip,dip,time", cond: "dport = 80", lowMem: true,
		attrs: []string{"sip", "dip"}, pred: func(r fixture.Rec) bool { return r.Dport == 80 }},
	{name: "dport,proto,time where snet=2001:db8::/32 (IPv6 only)", qtype: "dport,proto,time", cond: "snet = 2001:db8::/32",
		attrs: []string{"dport", "proto"}, pred: func(r fixture.Rec) bool { return inNet(r.SIP, "2001:db8::/32") }},
	{name: "listing (ReadMetadata)"},
}

const c06Listing = 3

type c06Img struct {
	pristine string // directory holding the untouched database
	db       fixture.DB
	days     []*c06Day
	ifaces   []string
	want     [c06Listing]map[fixture.RowKey]types.Counters
	blkDay   map[c06BID]int // reference block -> day index
	nrecs    map[c06BID]int
}

var c06ImgCache *c06Img

func c06Image() *c06Img {
	if c06ImgCache != nil {
		return c06ImgCache
	}
	img := &c06Img{db: c06RefDB(), blkDay: map[c06BID]int{}, nrecs: map[c06BID]int{}}
	img.ifaces = img.db.Ifaces()
	// the worker writes the database through the real DBWriter; its executor children read that very tree
	dir := os.Getenv(c06PristineEnv)
	if dir == "" {
		dir = fixture.NewDir()
		if err := img.db.WriteTo(dir, encoders.EncoderTypeLZ4); err != nil {
			explore.HarnessErrorf("C06: cannot build the reference database: %v", err)
		}
	}
	img.pristine = dir
	rd := func(p string) []os.DirEntry {
		l, err := os.ReadDir(p)
		if err != nil {
			explore.HarnessErrorf("C06: %v", err)
		}
		return l
	}
	for _, iface := range img.ifaces {
		for _, y := range rd(filepath.Join(dir, iface)) {
			for _, m := range rd(filepath.Join(dir, iface, y.Name())) {
				for _, d := range rd(filepath.Join(dir, iface, y.Name(), m.Name())) {
					ts, suffix, err := gpfile.ExtractTimestampMetadataSuffix(d.Name())
					if err != nil {
						explore.HarnessErrorf("C06: %v", err)
					}
					day := &c06Day{iface: iface, ts: ts, month: filepath.Join(iface, y.Name(), m.Name()), name: d.Name()}
					for f := 0; f <= c06Blockmeta; f++ {
						b, err := os.ReadFile(filepath.Join(dir, day.month, day.name, c06FileName(f)))
						if err != nil {
							explore.HarnessErrorf("C06: %v", err)
						}
						day.files[f] = b
					}
					r := gpfile.NewDirReader(filepath.Join(dir, iface), ts, suffix)
					if err := r.Open(); err != nil {
						explore.HarnessErrorf("C06: cannot open reference day: %v", err)
					}
					for j := range r.BlockMetadata[0].BlockList {
						var b c06Blk
						b.ts = r.BlockMetadata[0].BlockList[j].Timestamp
						for c := 0; c < int(types.ColIdxCount); c++ {
							b.off[c] = r.BlockMetadata[c].BlockList[j].Offset
							b.ln[c] = uint64(r.BlockMetadata[c].BlockList[j].Len)
						}
						day.blks = append(day.blks, b)
					}
					r.Close()
					img.days = append(img.days, day)
				}
			}
		}
	}
	// cross-check the image against the reference list of write-outs
	n := 0
	for di, d := range img.days {
		for j := range d.blks {
			found := false
			for _, b := range img.db.Blocks {
				if b.Iface == d.iface && b.TS == d.blks[j].ts {
					found = true
					d.blks[j].nrecs = len(b.Recs)
					img.nrecs[c06BID{d.iface, b.TS}] = len(b.Recs)
				}
			}
			if !found || d.blks[j].ts < d.ts || d.blks[j].ts >= d.ts+86400 {
				explore.HarnessErrorf("C06: stored block %s@%d is not a reference block", d.iface, d.blks[j].ts)
			}
			img.blkDay[c06BID{d.iface, d.blks[j].ts}] = di
			n++
		}
	}
	if n != len(img.db.Blocks) || len(img.days) != 7 {
		explore.HarnessErrorf("C06: reference database has %d blocks in %d days, image has %d", len(img.db.Blocks), len(img.days), n)
	}
	for s := 0; s < c06Listing; s++ {
		img.want[s] = img.db.Aggregate(fixture.QuerySpec{Attrs: c06Shapes[s].attrs, Time: true, Iface: true, Ifaces: img.ifaces,
			First: c06First, Last: c06Last, Cond: c06Shapes[s].pred})
	}
	c06ImgCache = img
	return img
}

// c06WriteIface (re)creates the pristine tree of one interface below root.
func c06WriteIface(root string, img *c06Img, iface string) {
	if err := os.RemoveAll(filepath.Join(root, iface)); err != nil {
		explore.HarnessErrorf("C06: %v", err)
	}
	for _, d := range img.days {
		if d.iface != iface {
			continue
		}
		p := filepath.Join(root, d.month, d.name)
		if err := os.MkdirAll(p, 0o755); err != nil {
			explore.HarnessErrorf("C06: %v", err)
		}
		for f := 0; f <= c06Blockmeta; f++ {
			if err := os.WriteFile(filepath.Join(p, c06FileName(f)), d.files[f], 0o644); err != nil {
				explore.HarnessErrorf("C06: %v", err)
			}
		}
	}
}

// ---- .blockmeta layout (documented in gpdir.go: Marshal) ------------------------------------

// c06MetaField names the field of a .blockmeta file with n blocks that contains byte offset off.
func c06MetaField(n, off int) string {
	switch {
	case off < 8:
		return "version"
	case off < 16:
		return "nblocks"
	case off < 24:
		return "total-v4"
	case off < 32:
		return "total-v6"
	case off < 40:
		return "total-drops"
	case off < 72:
		return "total-counters"
	}
	off -= 72
	per := 8 + 9*n
	if off < per*int(types.ColIdxCount) {
		o := off % per
		switch {
		case o < 8:
			return "cur-offset"
		case (o-8)%9 < 4:
			return "len"
		case (o-8)%9 < 8:
			return "rawlen"
		}
		return "enctype"
	}
	off -= per * int(types.ColIdxCount)
	if off < 8 {
		return "first-ts"
	}
	off -= 8
	if off >= 16*n {
		return "trailing"
	}
	return []string{"blk-v4", "blk-v6", "blk-drops", "ts-delta"}[(off%16)/4]
}

// c06MetaKeepsTimes: a change confined to this field leaves the number of blocks and their timestamps intact.
func c06MetaKeepsTimes(field string) bool {
	switch field {
	case "nblocks", "first-ts", "ts-delta":
		return false
	}
	return true
}

// c06MetaPrefix builds a well-formed metadata file that describes only the first keep blocks of
// the day (keep=0: the file Marshal writes for a day without blocks: header, eight zero offsets, zero timestamp).
func c06MetaPrefix(orig []byte, n, keep int) []byte {
	nc := int(types.ColIdxCount)
	out := make([]byte, 72+nc*(8+9*keep)+8+16*keep)
	copy(out[:72], orig[:72])
	binary.BigEndian.PutUint64(out[8:16], uint64(keep))
	if keep == 0 {
		for i := 16; i < 72; i++ {
			out[i] = 0
		}
		return out
	}
	pos := 72
	for c := 0; c < nc; c++ {
		src := 72 + c*(8+9*n)
		var cur uint64
		for j := 0; j < keep; j++ {
			cur += uint64(binary.BigEndian.Uint32(orig[src+8+9*j:]))
		}
		binary.BigEndian.PutUint64(out[pos:], cur)
		copy(out[pos+8:pos+8+9*keep], orig[src+8:src+8+9*keep])
		pos += 8 + 9*keep
	}
	src := 72 + nc*(8+9*n)
	copy(out[pos:], orig[src:src+8+16*keep])
	return out
}

// ---- mutations ---------------------------------------------------------------------------

const (
	c06OpContent = iota // replace the content of the file (see cop)
	c06OpDelete
	c06OpSwapFile // exchange with sibling file a of the same day
	c06OpSwapDay  // exchange with the same-named file of day a
	c06OpRename   // rename the day directory to name
)

const (
	c06CopTruncate = iota // keep the first a bytes
	c06CopFlip            // flip bit b of byte a
	c06CopSet             // set byte a to b
	c06CopAppend          // append data
	c06CopReplace         // whole new content = data
)

type c06Mut struct {
	kind, class string // signature parts
	what        string // human readable detail
	day, file   int
	op, cop     int
	a, b        int
	lo, hi      int // changed byte range of the file (content mutations)
	data        []byte
	name        string
	keepTimes   bool  // (blockmeta) block count and timestamps are provably untouched
	pairable    bool  // member of the reduced list used for two-mutation executions
	lenByte     int   // (blockmeta len/rawlen fields) 1 + index of the changed byte within the big-endian field, else 0
	heavy       bool  // makes the reader allocate and clear up to 2 GiB: seconds per execution, run under a machine-wide slot lock
	shapes      []int // read shapes run against this mutation in this tier
	gid         int   // position in the tier's global mutation order
}

func (m *c06Mut) content(img *c06Img) []byte {
	orig := img.days[m.day].files[m.file]
	switch m.cop {
	case c06CopTruncate:
		return orig[:m.a]
	case c06CopFlip:
		d := append([]byte{}, orig...)
		d[m.a] ^= 1 << m.b
		return d
	case c06CopSet:
		d := append([]byte{}, orig...)
		d[m.a] = byte(m.b)
		return d
	case c06CopAppend:
		return append(append([]byte{}, orig...), m.data...)
	}
	return m.data
}

func (m *c06Mut) desc(img *c06Img) string {
	d := img.days[m.day]
	if m.file == c06Dirname {
		return fmt.Sprintf("rename day directory %s/%s to %q (%s)", d.month, d.name, m.name, m.what)
	}
	where := fmt.Sprintf("%s/%s/%s (%d bytes, %d blocks)", d.month, d.name, c06FileName(m.file), len(d.files[m.file]), len(d.blks))
	switch m.op {
	case c06OpDelete:
		return "delete " + where
	case c06OpSwapFile:
		return fmt.Sprintf("exchange %s with its sibling %s", where, c06FileName(m.a))
	case c06OpSwapDay:
		return fmt.Sprintf("exchange %s with the file of the same name in %s/%s", where, img.days[m.a].month, img.days[m.a].name)
	}
	orig := d.files[m.file]
	switch m.cop {
	case c06CopTruncate:
		if m.a == 0 {
			return "replace by an empty file: " + where
		}
		return fmt.Sprintf("truncate to %d bytes: %s", m.a, where)
	case c06CopFlip:
		return fmt.Sprintf("flip bit %d of byte %d (%#02x -> %#02x) of %s", m.b, m.a, orig[m.a], orig[m.a]^(1<<m.b), where)
	case c06CopSet:
		return fmt.Sprintf("set byte %d (%#02x) to %#02x in %s", m.a, orig[m.a], m.b, where)
	case c06CopAppend:
		return fmt.Sprintf("append %d garbage bytes to %s", len(m.data), where)
	}
	return fmt.Sprintf("replace by %s (%d bytes): %s", m.what, len(m.data), where)
}

// c06LenByte: for a byte of a Len or RawLen field of a .blockmeta with nb blocks, 1 + its index in the big-endian field (1 = most significant).
func c06LenByte(f, nb, off int) int {
	if f != c06Blockmeta {
		return 0
	}
	switch c06MetaField(nb, off) {
	case "len", "rawlen":
		return 1 + ((off-72)%(8+9*nb)-8)%9%4
	}
	return 0
}

// c06TableColumn: the column whose block table contains byte off of a .blockmeta with nb blocks (-1: none).
func c06TableColumn(nb, off int) int {
	per := 8 + 9*nb
	if off >= 72 && off < 72+int(types.ColIdxCount)*per {
		return (off - 72) / per
	}
	return -1
}

func c06Garbage(seed uint64, n int) []byte { return fixture.LCG(seed, n) }

// c06FileMuts enumerates the mutations of one data file (full list of the tier; quick is filtered later).
func c06FileMuts(img *c06Img, thorough bool, di, f int) []c06Mut {
	d := img.days[di]
	orig := d.files[f]
	n := len(orig)
	nb := len(d.blks)
	var out []c06Mut
	kindAt := func(off int) (string, bool) {
		if f == c06Blockmeta {
			fld := c06MetaField(nb, off)
			return "blockmeta." + fld, c06MetaKeepsTimes(fld)
		}
		return c06Kind(f), false
	}
	add := func(m c06Mut) {
		m.day, m.file = di, f
		if m.kind == "" {
			m.kind = c06Kind(f)
		}
		out = append(out, m)
	}
	// every truncation length; 0 = replaced by an empty file
	add(c06Mut{class: "empty", op: c06OpContent, cop: c06CopTruncate, a: 0, lo: 0, hi: n, pairable: true})
	for l := 1; l < n; l++ {
		add(c06Mut{class: "truncate", op: c06OpContent, cop: c06CopTruncate, a: l, lo: l, hi: n, pairable: l == n/2})
	}
	add(c06Mut{class: "delete", op: c06OpDelete, lo: 0, hi: n, pairable: f == c06Blockmeta})
	// single-bit flips
	for i := 0; i < n; i++ {
		if !thorough && f != c06Blockmeta {
			near := i < 8 || i >= n-8
			for _, b := range d.blks { // first byte of every block (bit-pack width / lz4 token)
				if b.ln[f] > 0 && uint64(i) == b.off[f] {
					near = true
				}
			}
			if !near {
				continue
			}
		}
		for bit := 0; bit < 8; bit++ {
			k, keep := kindAt(i)
			lb := c06LenByte(f, nb, i)
			add(c06Mut{kind: k, class: "bitflip", op: c06OpContent, cop: c06CopFlip, a: i, b: bit, lo: i, hi: i + 1, keepTimes: keep, pairable: i == 0 && bit == 0,
				lenByte: lb, heavy: lb == 1 && bit < 7})
		}
	}
	// every byte <- 00 / ff
	if thorough {
		for i := 0; i < n; i++ {
			for _, v := range []byte{0x00, 0xff} {
				if orig[i] == v {
					continue
				}
				k, keep := kindAt(i)
				add(c06Mut{kind: k, class: fmt.Sprintf("byte%02x", v), op: c06OpContent, cop: c06CopSet, a: i, b: int(v), lo: i, hi: i + 1, keepTimes: keep, lenByte: c06LenByte(f, nb, i)})
			}
		}
	}
	// appended garbage: no stored byte changes
	apps := []int{1, 16}
	if thorough {
		apps = append(apps, 88, 4096)
	}
	for _, k := range apps {
		g := c06Garbage(uint64(di*16+f), k)
		if k == 1 {
			g = []byte{0}
		}
		add(c06Mut{class: "append", op: c06OpContent, cop: c06CopAppend, data: g, lo: n, hi: n + k, pairable: k == 16})
	}
	// exchanged with a sibling file of the same day
	var sibs []int
	if f == c06Blockmeta {
		sibs = []int{int(types.SIPColIdx), int(types.BytesRcvdColIdx)}
	} else {
		sibs = []int{(f + 1) % int(types.ColIdxCount)}
		if thorough {
			sibs = nil
			for s := 0; s < int(types.ColIdxCount); s++ {
				if s != f {
					sibs = append(sibs, s)
				}
			}
		}
	}
	for _, s := range sibs {
		add(c06Mut{class: "swap-sibling", op: c06OpSwapFile, a: s, lo: 0, hi: n})
	}
	// exchanged with the same-named file of another day
	for o := range img.days {
		if o == di {
			continue
		}
		if !thorough && !(img.days[o].iface == d.iface && o == c06NextDay(img, di)) {
			continue
		}
		cls := "swap-day"
		if img.days[o].iface != d.iface {
			cls = "swap-iface"
		}
		add(c06Mut{class: cls, op: c06OpSwapDay, a: o, lo: 0, hi: n})
	}
	if f == c06Blockmeta {
		// consistent-looking edits of a block's IPv4 / IPv6 entry counts: 4k IPv4 entries fewer and k IPv6
		// entries more (or the reverse) leave the expected length of the address columns unchanged
		base := 72 + int(types.ColIdxCount)*(8+9*nb) + 8
		for j := 0; j < nb; j++ {
			o := base + 16*j
			v4, v6 := int(binary.BigEndian.Uint32(orig[o:])), int(binary.BigEndian.Uint32(orig[o+4:]))
			type sh struct{ d4, d6 int }
			var shifts []sh
			for _, k := range []int{1, v4 / 4} {
				if k >= 1 && v4 >= 4*k && !(k == 1 && v4/4 == 1 && len(shifts) > 0) {
					shifts = append(shifts, sh{-4 * k, k})
				}
			}
			for _, k := range []int{1, v6} {
				if k >= 1 && v6 >= k && !(k == 1 && v6 == 1 && len(shifts) > 0 && shifts[len(shifts)-1].d6 == -1) {
					shifts = append(shifts, sh{4 * k, -k})
				}
			}
			seen := map[sh]bool{}
			for _, x := range shifts {
				if seen[x] {
					continue
				}
				seen[x] = true
				dt := append([]byte{}, orig...)
				binary.BigEndian.PutUint32(dt[o:], uint32(v4+x.d4))
				binary.BigEndian.PutUint32(dt[o+4:], uint32(v6+x.d6))
				add(c06Mut{kind: "blockmeta.blk-v4v6", class: "split-shift", what: fmt.Sprintf("block %d: IPv4 / IPv6 entry counts %d/%d -> %d/%d (same address column length)", j, v4, v6, v4+x.d4, v6+x.d6),
					op: c06OpContent, cop: c06CopReplace, data: dt, lo: o, hi: o + 8, keepTimes: true})
			}
		}
		add(c06Mut{class: "zero-blocks", what: "a well-formed metadata file with zero blocks", op: c06OpContent, cop: c06CopReplace, data: c06MetaPrefix(orig, nb, 0), lo: 0, hi: n, pairable: true})
		for keep := 1; keep < nb; keep++ {
			add(c06Mut{class: "fewer-blocks", what: fmt.Sprintf("a well-formed metadata file describing only the first %d blocks", keep), op: c06OpContent, cop: c06CopReplace, data: c06MetaPrefix(orig, nb, keep), lo: 0, hi: n})
		}
	}
	return out
}

func c06NextDay(img *c06Img, di int) int {
	for k := 1; k < len(img.days); k++ {
		o := (di + k) % len(img.days)
		if img.days[o].iface == img.days[di].iface {
			return o
		}
	}
	return di
}

// c06DirMuts enumerates the directory-name mutations of one day.
func c06DirMuts(img *c06Img, thorough bool, di int) []c06Mut {
	d := img.days[di]
	prefix, suffix, _ := strings.Cut(d.name, "_")
	other := img.days[c06NextDay(img, di)]
	_, otherSuffix, _ := strings.Cut(other.name, "_")
	fields := strings.Split(suffix, "-")
	var out []c06Mut
	seen := map[string]bool{d.name: true}
	add := func(class, name, what string, pair bool) {
		if seen[name] || name == "" || strings.ContainsAny(name, "/\x00") || len(name) > 255 {
			return
		}
		seen[name] = true
		out = append(out, c06Mut{kind: "dirname", class: class, day: di, file: c06Dirname, op: c06OpRename, name: name, pairable: pair, what: what})
	}
	add("suffix-removed", prefix, "no metadata suffix", true)
	add("suffix-empty", prefix+"_", "empty suffix", false)
	add("suffix-other-day", prefix+"_"+otherSuffix, "suffix of another day", false)
	add("suffix-zero", prefix+"_0-0-0-0-0-0-0", "all-zero summary", false)
	add("suffix-fields", prefix+"_"+strings.Join(fields[:1], "-"), "1 field", false)
	add("suffix-fields", prefix+"_"+strings.Join(fields[:6], "-"), "6 fields", false)
	add("suffix-fields", prefix+"_"+suffix+"-1", "8 fields", false)
	add("suffix-fields", prefix+"_"+strings.Repeat("-", 6), "7 empty fields", false)
	add("suffix-huge", prefix+"_"+strings.Repeat("ZZZZZZZZZZZ-", 6)+"ZZZZZZZZZZZ", "values beyond 64 bit", false)
	add("suffix-huge", prefix+"_"+strings.Repeat("Z", 200), "200-character field", false)
	add("suffix-second-underscore", d.name+"_x", "second underscore part", false)
	add("suffix-second-underscore", prefix+"_x_"+suffix, "suffix in third part", false)
	add("suffix-nonalnum", prefix+"_"+suffix+"~", "character beyond the code table", true)
	add("suffix-nonalnum", prefix+"_{"+suffix, "character beyond the code table", false)
	add("suffix-nonalnum", prefix+"_"+suffix+"\xff", "non-ASCII byte", false)
	add("suffix-nonalnum", prefix+"_"+suffix+"\xc3\xa9", "UTF-8 letter", false)
	add("suffix-punct", prefix+"_"+suffix+".", "punctuation inside the code table range", false)
	add("suffix-punct", prefix+"_"+strings.ReplaceAll(suffix, "-", "+"), "wrong delimiter", false)
	add("suffix-punct", prefix+"_ "+suffix, "blank", false)
	add("prefix-nonnumeric", "x"+d.name, "timestamp prefix not a number", true)
	add("prefix-nonnumeric", prefix+".bak_"+suffix, "timestamp prefix not a number", false)
	add("prefix-nonnumeric", "_"+suffix, "empty timestamp prefix", false)
	add("prefix-unaligned", fmt.Sprintf("%d_%s", d.ts+1, suffix), "timestamp not a day boundary", false)
	add("prefix-other-day", fmt.Sprintf("%d_%s", d.ts+5*86400, suffix), "timestamp of a day without data, same month", false)
	add("prefix-other-day", fmt.Sprintf("%d_%s", d.ts-40*86400, suffix), "timestamp of another month", false)
	// day-aligned timestamps far outside every query range whose NAMES sort among the real days
	// (name order is not time order): whoever cuts the directory walk short at them loses intact days
	add("prefix-out-of-range", fmt.Sprintf("%d0_%s", d.ts, suffix), "timestamp ten times as large (day boundary centuries ahead, sorts right after this day's name)", false)
	add("prefix-out-of-range", fmt.Sprintf("%d_%s", d.ts/86400/10*86400, suffix), "timestamp a tenth as large (day boundary in 1975)", false)
	add("prefix-negative", fmt.Sprintf("-%d_%s", d.ts, suffix), "negative timestamp", false)
	add("prefix-huge", "99999999999999999999_"+suffix, "timestamp beyond 64 bit", false)
	add("prefix-huge", fmt.Sprintf("%d_%s", int64(1)<<62, suffix), "timestamp 2^62", false)
	if thorough {
		// every character of the suffix replaced by a few alphabet members
		for i := 0; i < len(suffix); i++ {
			for _, c := range []byte{'0', 'Z', '-', '_', '~', 0x80} {
				if suffix[i] == c {
					continue
				}
				b := []byte(suffix)
				b[i] = c
				cls := "suffix-char"
				switch {
				case c == '~' || c == 0x80:
					cls = "suffix-nonalnum"
				case c == '-' || suffix[i] == '-':
					cls = "suffix-fields"
				case c == '_':
					cls = "suffix-second-underscore"
				}
				add(cls, prefix+"_"+string(b), fmt.Sprintf("suffix character %d set to %q", i, c), false)
			}
		}
		for l := 1; l < len(suffix); l++ {
			add("suffix-truncated", prefix+"_"+suffix[:l], fmt.Sprintf("suffix cut to %d characters", l), false)
		}
	}
	return out
}

type c06Target struct {
	day, file int
	lo, hi    int // slice of the file's (filtered) mutation list
}

type c06Plan struct {
	targets  []c06Target
	muts     map[[2]int][]c06Mut // (day,file) -> mutations run in this tier
	pairable []c06Mut            // global reduced list for second mutations (thorough)
}

var c06Plans = map[string]*c06Plan{}

var c06AllShapes = []int{0, 1, 2, c06Listing}

// c06QuickShapes selects what the quick tier runs: nil = mutation left to the thorough tier.
// pos = 0,1,2: first (3 blocks), middle (2 blocks), last (1 block) day of the mutated interface; nb = its block count.
// Every death of the reading process costs a new executor process (~0.5 s), so quick keeps one
// representative of each way to die and leaves the full product to the thorough tier.
func c06QuickShapes(m *c06Mut, pos, nb int) []int {
	meta := m.file == c06Blockmeta
	q0, q0l := []int{0}, []int{0, c06Listing}
	switch m.class {
	case "split-shift":
		return c06AllShapes // few, and whether an out-of-range read shows depends on the read mode and on the buffers' history
	case "truncate":
		if meta {
			return q0l // every length, every day
		}
		if pos == 0 {
			return q0 // every length of every column of the 3-block day
		}
		return nil
	case "bitflip":
		if !meta {
			if pos == 0 {
				return q0
			}
			return nil
		}
		// the eight per-column block tables are decoded by one loop: quick flips the bits of two of them
		// (sip: variable width attribute, bytes_rcvd: counter), of the header, of the timestamps and of the per-block counts
		if c := c06TableColumn(nb, m.a); c >= 0 && c != int(types.SIPColIdx) && c != int(types.BytesRcvdColIdx) {
			return nil
		}
		// lengths of 64 KiB and more make the reader allocate and clear that much (0.1 s .. seconds each):
		// quick keeps the top bit of the two high bytes (2^31: the reader dies; 2^23: 16 MiB)
		if (m.lenByte == 1 || m.lenByte == 2) && m.b != 7 {
			return nil
		}
		switch {
		case pos == 0:
			return q0l
		case pos == 1 && (m.b == 0 || m.b == 7):
			return q0
		case pos == 2 && m.b == 7:
			return q0
		}
		return nil
	case "delete":
		if !meta {
			// a missing column file currently kills the reader
			switch {
			case m.file == int(types.SIPColIdx) && pos == 0:
				return c06AllShapes
			case m.file == int(types.SIPColIdx) || pos == 0:
				return q0
			}
			return nil
		}
	}
	// empty, delete, append, exchanges, zero/fewer blocks, directory names
	if pos == 0 {
		return c06AllShapes
	}
	return q0l
}

// c06Weight estimates the cost of all executions of one mutation in units of 1 ms: a query ~10,
// a listing ~1, a death of the reading process ~1500 (new executors, also for the two confirmation replays), a gigabyte-sized length ~3000.
func c06Weight(m *c06Mut, seconds int) int {
	w := 0
	for _, q := range m.shapes {
		switch {
		case q == c06Listing:
			w++
		case m.heavy:
			w += 3000
		case m.lenByte == 1 && (m.cop == c06CopFlip && m.b == 7 || m.cop == c06CopSet && m.b == 0xff), m.op == c06OpDelete && m.file < c06Blockmeta:
			w += 1500
		case m.lenByte == 2:
			w += 150
		default:
			w += 10
		}
	}
	return w * (1 + seconds)
}

func c06PlanFor(tier string) *c06Plan {
	if p, ok := c06Plans[tier]; ok {
		return p
	}
	img := c06Image()
	thorough := tier == "thorough"
	p := &c06Plan{muts: map[[2]int][]c06Mut{}}
	// the driver gives every case an equal share of the time budget: keep cases small (quick ~1 s, thorough ~20 s)
	partWeight := 1000
	if thorough {
		partWeight = 20000
	}
	gid := 0
	var keys [][2]int
	for di, d := range img.days {
		big := c06IsBig(d)
		if !thorough && d.iface != img.ifaces[0] && !big {
			continue // quick: the three days of the first interface (first, middle, last directory), and the big day
		}
		pos := 0
		for o := 0; o < di; o++ {
			if img.days[o].iface == d.iface {
				pos++
			}
		}
		for f := 0; f < c06NFiles; f++ {
			var all, ms []c06Mut
			if big && f != c06Blockmeta {
				continue
			}
			if f == c06Dirname {
				all = c06DirMuts(img, thorough, di)
			} else {
				all = c06FileMuts(img, thorough, di, f)
			}
			for i := range all {
				m := all[i]
				m.shapes = c06AllShapes
				if big {
					switch {
					case m.class == "split-shift", m.class == "zero-blocks", m.class == "empty", m.class == "delete":
					case m.class == "bitflip" && (m.kind == "blockmeta.blk-v4" || m.kind == "blockmeta.blk-v6" || m.kind == "blockmeta.nblocks" || m.kind == "blockmeta.total-v4"):
					default:
						continue
					}
					m.gid = gid
					gid++
					ms = append(ms, m)
					continue
				}
				if m.heavy {
					// 16 MiB .. 1 GiB lengths: two columns, three magnitudes, one shape
					if c := c06TableColumn(len(d.blks), m.a); (c != int(types.SIPColIdx) && c != int(types.BytesRcvdColIdx)) || (m.b != 0 && m.b != 3 && m.b != 6) {
						continue
					}
					m.shapes = []int{0}
				}
				if !thorough {
					m.shapes = c06QuickShapes(&m, pos, len(d.blks))
				}
				if m.shapes == nil {
					continue
				}
				m.gid = gid
				gid++
				ms = append(ms, m)
				if m.pairable {
					p.pairable = append(p.pairable, m)
				}
			}
			p.muts[[2]int{di, f}] = ms
			keys = append(keys, [2]int{di, f})
		}
	}
	for _, k := range keys {
		ms := p.muts[k]
		lo, w := 0, 0
		for i := range ms {
			nsec := 0
			if thorough {
				nsec = len(p.seconds(img, &ms[i]))
			}
			w += c06Weight(&ms[i], nsec)
			if w >= partWeight || i == len(ms)-1 {
				p.targets = append(p.targets, c06Target{k[0], k[1], lo, i + 1})
				lo, w = i+1, 0
			}
		}
	}
	c06Plans[tier] = p
	return p
}

// partMuts lists the mutations of one case.
func (p *c06Plan) partMuts(t c06Target) []c06Mut {
	return p.muts[[2]int{t.day, t.file}][t.lo:t.hi]
}

// seconds lists the candidates for a second mutation after m: members of the reduced list in a
// different calendar day that come later in the global order (each unordered pair once).
func (p *c06Plan) seconds(img *c06Img, m *c06Mut) []c06Mut {
	if !m.pairable {
		return nil
	}
	var out []c06Mut
	for _, s := range p.pairable {
		if s.gid > m.gid && img.days[s.day].ts != img.days[m.day].ts {
			out = append(out, s)
		}
	}
	return out
}

// ---- damage model ---------------------------------------------------------------------------

type c06Damage struct {
	blocks  map[c06BID]bool // reference blocks whose rows are unconstrained
	days    map[int]bool    // days that count as damaged for the listing
	wild    map[string]bool // interfaces whose rows may carry timestamps of no reference block
	countOK bool            // damaged blocks keep their timestamps: "absent from the result" is well defined
}

func c06DamageOf(img *c06Img, muts []c06Mut) c06Damage {
	dm := c06Damage{blocks: map[c06BID]bool{}, days: map[int]bool{}, wild: map[string]bool{}, countOK: true}
	wholeDay := func(di int, wild bool) {
		d := img.days[di]
		for _, b := range d.blks {
			dm.blocks[c06BID{d.iface, b.ts}] = true
		}
		dm.days[di] = true
		if wild {
			dm.wild[d.iface] = true
		}
	}
	colRange := func(di, f, lo, hi int) {
		d := img.days[di]
		for _, b := range d.blks {
			if b.ln[f] > 0 && int(b.off[f]) < hi && int(b.off[f]+b.ln[f]) > lo {
				dm.blocks[c06BID{d.iface, b.ts}] = true
				dm.days[di] = true
			}
		}
	}
	for _, m := range muts {
		switch {
		case m.file == c06Dirname:
			wholeDay(m.day, true)
			dm.countOK = false
		case m.file == c06Blockmeta:
			wholeDay(m.day, !m.keepTimes)
			if m.op == c06OpSwapDay {
				wholeDay(m.a, true)
			}
			if !m.keepTimes {
				dm.countOK = false
			}
		default:
			switch m.op {
			case c06OpSwapFile:
				wholeDay(m.day, false)
			case c06OpSwapDay:
				wholeDay(m.day, false)
				wholeDay(m.a, false)
			default:
				colRange(m.day, m.file, m.lo, m.hi)
			}
		}
	}
	return dm
}

// ---- applying a mutation to the working tree -----------------------------------------------------

func c06ApplyMut(root string, img *c06Img, m *c06Mut) error {
	d := img.days[m.day]
	dir := filepath.Join(root, d.month, d.name)
	switch m.op {
	case c06OpContent:
		return os.WriteFile(filepath.Join(dir, c06FileName(m.file)), m.content(img), 0o644)
	case c06OpDelete:
		return os.Remove(filepath.Join(dir, c06FileName(m.file)))
	case c06OpSwapFile:
		if err := os.WriteFile(filepath.Join(dir, c06FileName(m.file)), d.files[m.a], 0o644); err != nil {
			return err
		}
		return os.WriteFile(filepath.Join(dir, c06FileName(m.a)), d.files[m.file], 0o644)
	case c06OpSwapDay:
		o := img.days[m.a]
		if err := os.WriteFile(filepath.Join(dir, c06FileName(m.file)), o.files[m.file], 0o644); err != nil {
			return err
		}
		return os.WriteFile(filepath.Join(root, o.month, o.name, c06FileName(m.file)), d.files[m.file], 0o644)
	case c06OpRename:
		return os.Rename(dir, filepath.Join(root, d.month, m.name))
	}
	return fmt.Errorf("unknown op %d", m.op)
}

// ---- one execution (runs in the executor child) ----------------------------------------------------

type c06Result struct {
	Sig, Msg   string // violation: Sig is the symptom part only
	Obs        []string
	Nontrivial bool
	Trans      int
	Log        []string
	HarnessErr string
	Recycle    bool // the executor asks to be replaced (it holds much memory)
	Sys        uint64
}

var c06WorkRoot string

func c06Work(img *c06Img) string {
	if c06WorkRoot == "" {
		c06WorkRoot = fixture.NewDir()
		for _, i := range img.ifaces {
			c06WriteIface(c06WorkRoot, img, i)
		}
	}
	return c06WorkRoot
}

func c06PanicSite(stack string) string {
	lines := strings.Split(stack, "\n")
	seen := false
	for _, l := range lines {
		if strings.HasPrefix(l, "panic(") {
			seen = true
			continue
		}
		if seen && !strings.HasPrefix(l, "\t") && (strings.Contains(l, "els0r/goProbe") || strings.Contains(l, "fako1024")) {
			return c06Frame(l)
		}
	}
	return "unknown"
}

func c06Frame(l string) string {
	if j := strings.LastIndex(l, "("); j > 0 {
		l = l[:j]
	}
	if j := strings.LastIndex(l, "/"); j >= 0 {
		l = l[j+1:]
	}
	return strings.TrimSpace(l)
}

func c06ErrClass(err error) string {
	s := err.Error()
	for _, p := range [][2]string{
		{"failed to open first GPDir", "first-dir-unreadable"},
		{"failed to open last GPDir", "last-dir-unreadable"},
		{"failed to open GPDir", "dir-unreadable"},
		{"internal error during query processing", "worker-gave-up"},
		{"failed to parse timestamp / suffix", "dirname-unparsable"},
		{"failed to parse", "name-unparsable"},
		{"failed to read block metadata", "block-metadata"},
		{"errors encountered during write of GPFile", "close-failed"},
		{"no such file or directory", "not-found"},
	} {
		if strings.Contains(s, p[0]) {
			return p[1]
		}
	}
	return "other"
}

// c06HeavySlot admits at most four memory-hungry executions at a time on the whole machine.
func c06HeavySlot() (release func()) {
	base := os.TempDir()
	open := func(k int) *os.File {
		f, err := os.OpenFile(filepath.Join(base, fmt.Sprintf("verif-c06-heavy-slot%d.lock", k)), os.O_CREATE|os.O_RDWR, 0o666)
		if err != nil {
			explore.HarnessErrorf("C06: %v", err)
		}
		return f
	}
	for k := 0; k < 4; k++ {
		f := open(k)
		if syscall.Flock(int(f.Fd()), syscall.LOCK_EX|syscall.LOCK_NB) == nil {
			return func() { f.Close() }
		}
		f.Close()
	}
	f := open(os.Getpid() % 4)
	if err := syscall.Flock(int(f.Fd()), syscall.LOCK_EX); err != nil {
		explore.HarnessErrorf("C06: flock: %v", err)
	}
	return func() { f.Close() }
}

type c06Call struct {
	panicked string // "" or the panic site
	panicMsg string
}

// c06Guard runs f and turns a panic of the calling goroutine into data.
func c06Guard(f func()) (c c06Call) {
	defer func() {
		if e := recover(); e != nil {
			st := string(debug.Stack())
			c.panicked = c06PanicSite(st)
			if len(st) > 1800 {
				st = st[:1800]
			}
			c.panicMsg = fmt.Sprintf("panic: %v\n%s", e, st)
		}
	}()
	f()
	return
}

func c06RowHash(rows map[fixture.RowKey]types.Counters) uint64 {
	var h uint64
	for k, c := range rows {
		e := uint64(14695981039346656037)
		for _, b := range []byte(k.String()) {
			e = (e ^ uint64(b)) * 1099511628211
		}
		e ^= c.BytesRcvd*3 + c.BytesSent*5 + c.PacketsRcvd*7 + c.PacketsSent*11
		h += e * 0x9e3779b97f4a7c15
	}
	return h
}

func c06Exec(tier string, caseIdx, mi, m2, qi int) (r c06Result) {
	img := c06Image()
	plan := c06PlanFor(tier)
	if caseIdx >= len(plan.targets) {
		r.HarnessErr = fmt.Sprintf("C06: case %d out of range", caseIdx)
		return
	}
	pm := plan.partMuts(plan.targets[caseIdx])
	if mi >= len(pm) {
		r.HarnessErr = fmt.Sprintf("C06: mutation %d out of range in case %d", mi, caseIdx)
		return
	}
	muts := []c06Mut{pm[mi]}
	if m2 >= 0 {
		sec := plan.seconds(img, &pm[mi])
		if m2 >= len(sec) {
			r.HarnessErr = fmt.Sprintf("C06: second mutation %d out of range", m2)
			return
		}
		muts = append(muts, sec[m2])
	}
	for i := range muts {
		if muts[i].heavy {
			defer c06HeavySlot()()
			break
		}
	}
	root := c06Work(img)
	dm := c06DamageOf(img, muts)
	touched := map[string]bool{}
	for i := range muts {
		m := &muts[i]
		r.Log = append(r.Log, m.desc(img))
		touched[img.days[m.day].iface] = true
		if m.op == c06OpSwapDay {
			touched[img.days[m.a].iface] = true
		}
		if err := c06ApplyMut(root, img, m); err != nil {
			r.HarnessErr = fmt.Sprintf("C06: cannot apply %q: %v", m.desc(img), err)
			return
		}
	}
	defer func() {
		for i := range touched {
			c06WriteIface(root, img, i)
		}
	}()
	fail := func(sig, format string, a ...any) {
		if r.Sig == "" {
			r.Sig, r.Msg = sig, fmt.Sprintf(format, a...)
		}
	}
	ctx := muts[0].desc(img)
	if len(muts) > 1 {
		ctx += " AND " + muts[1].desc(img)
	}
	r.Log = append(r.Log, "read shape: "+c06Shapes[qi].name)
	if qi == c06Listing {
		c06ExecListing(img, root, dm, ctx, &r, fail)
	} else {
		c06ExecQuery(img, root, dm, qi, ctx, &r, fail)
	}
	var ms runtime.MemStats
	runtime.ReadMemStats(&ms)
	r.Sys = ms.Sys
	if ms.Sys > 768<<20 {
		r.Recycle = true
	}
	return
}

func c06ExecQuery(img *c06Img, root string, dm c06Damage, qi int, ctx string, r *c06Result, fail func(string, string, ...any)) {
	sh := c06Shapes[qi]
	var res *results.Result
	var err error
	call := c06Guard(func() {
		res, err = fixture.RunQuery(root, sh.qtype, strings.Join(img.ifaces, ","), sh.cond, c06First, c06Last, sh.lowMem)
	})
	r.Trans++
	if call.panicked != "" {
		r.Obs = append(r.Obs, "panic "+call.panicked)
		r.Nontrivial = true
		fail("panic:"+call.panicked, "%s; query %q cond %q: %s", ctx, sh.qtype, sh.cond, call.panicMsg)
		return
	}
	if err != nil {
		r.Obs = append(r.Obs, "error "+c06ErrClass(err))
		r.Nontrivial = true
		fail("query-fails:"+c06ErrClass(err), "%s; query %q cond %q over all days and interfaces returned no result at all: %v (the undamaged days are lost with the damaged one)", ctx, sh.qtype, sh.cond, err)
		return
	}
	if res == nil {
		fail("query-nil-result", "%s; query %q: Run returned neither result nor error", ctx, sh.qtype)
		return
	}
	got, _ := fixture.RowsOf(res)
	want := img.want[qi]
	st := res.Summary.Stats
	if st == nil {
		fail("query-nil-stats", "%s; query %q: Summary.Stats is nil", ctx, sh.qtype)
		return
	}
	r.Obs = append(r.Obs, fmt.Sprintf("rows=%d h=%x corrupted=%d processed=%d", len(got), c06RowHash(got), st.BlocksCorrupted, st.BlocksProcessed))
	r.Log = append(r.Log, fmt.Sprintf("query %q cond %q -> %d rows, BlocksProcessed=%d BlocksCorrupted=%d", sh.qtype, sh.cond, len(got), st.BlocksProcessed, st.BlocksCorrupted))

	// rows of undamaged blocks
	present := map[c06BID]bool{}
	bad := map[c06BID]string{} // undamaged block -> first difference
	var phantom []string
	for k, c := range got {
		id := c06BID{k.Iface, k.TS}
		present[id] = true
		if _, isRef := img.blkDay[id]; !isRef {
			if !dm.wild[k.Iface] {
				phantom = append(phantom, fmt.Sprintf("%s %+v", k, c))
			}
			continue
		}
		if dm.blocks[id] {
			continue
		}
		w, ok := want[k]
		if !ok {
			bad[id] = fmt.Sprintf("unexpected row %s %+v", k, c)
		} else if w != c {
			bad[id] = fmt.Sprintf("row %s has counters %+v, stored %+v", k, c, w)
		}
	}
	lost := map[c06BID]int{}
	expect := map[c06BID]int{}
	for k, w := range want {
		id := c06BID{k.Iface, k.TS}
		expect[id]++
		if dm.blocks[id] {
			continue
		}
		if _, ok := got[k]; !ok {
			lost[id]++
			if _, dup := bad[id]; !dup {
				bad[id] = fmt.Sprintf("missing row %s %+v", k, w)
			}
		}
	}
	if len(got) != len(want) || st.BlocksCorrupted > 0 || len(bad) > 0 {
		r.Nontrivial = true
	}
	if len(bad) > 0 {
		ids := make([]c06BID, 0, len(bad))
		for id := range bad {
			ids = append(ids, id)
		}
		sort.Slice(ids, func(i, j int) bool {
			if ids[i].iface != ids[j].iface {
				return ids[i].iface < ids[j].iface
			}
			return ids[i].ts < ids[j].ts
		})
		// classify by the most distant victim: other interface > other day > other block of the damaged day
		scope, rank := "", -1
		allLost := true
		var lines []string
		for _, id := range ids {
			rk, sc := 0, "undamaged-block-of-damaged-day"
			di := img.blkDay[id]
			if !dm.days[di] {
				rk, sc = 1, "other-day"
				otherIface := true
				for dd := range dm.days {
					if img.days[dd].iface == id.iface {
						otherIface = false
					}
				}
				if otherIface {
					rk, sc = 2, "other-iface"
				}
			}
			if rk > rank {
				rank, scope = rk, sc
			}
			if lost[id] != expect[id] {
				allLost = false
			}
			if len(lines) < 5 {
				lines = append(lines, fmt.Sprintf("block %s@%d (%s): %s", id.iface, id.ts, sc, bad[id]))
			}
		}
		how := "rows-altered"
		if allLost {
			how = "rows-missing"
		}
		fail(scope+"-"+how, "%s; query %q cond %q: %d undamaged blocks do not return their stored flows (BlocksCorrupted=%d): %s", ctx, sh.qtype, sh.cond, len(bad), st.BlocksCorrupted, strings.Join(lines, "; "))
		return
	}
	if len(phantom) > 0 {
		sort.Strings(phantom)
		if len(phantom) > 4 {
			phantom = phantom[:4]
		}
		fail("phantom-rows", "%s; query %q: rows that belong to no stored block of an interface whose block times are intact: %s", ctx, sh.qtype, strings.Join(phantom, "; "))
		return
	}
	// skipped blocks must be counted (unconditioned query only: there a block that is read yields a row per flow)
	if qi == 0 && dm.countOK {
		missing := 0
		var which []string
		for id := range dm.blocks {
			if img.nrecs[id] > 0 && !present[id] {
				missing++
				which = append(which, fmt.Sprintf("%s@%d", id.iface, id.ts))
			}
		}
		sort.Strings(which)
		if st.BlocksCorrupted < uint64(missing) {
			fail("skipped-blocks-not-counted", "%s; query %q: %d stored blocks (%s) are absent from the result but Summary.Stats.BlocksCorrupted=%d (BlocksProcessed=%d)", ctx, sh.qtype, missing, strings.Join(which, ","), st.BlocksCorrupted, st.BlocksProcessed)
			return
		}
		if missing > 0 {
			r.Obs = append(r.Obs, fmt.Sprintf("missing=%d", missing))
		}
	}
}

// c06RefListing sums the reference blocks of one interface with first <= ts <= last.
func c06RefListing(img *c06Img, iface string, first, last int64) (s gpfile.Stats, n int) {
	for _, b := range img.db.Blocks {
		if b.Iface != iface || b.TS < first || b.TS > last {
			continue
		}
		n++
		s.Traffic.NumDrops += b.Drops
		for _, rc := range b.Recs {
			if rc.IsV4() {
				s.Traffic.NumV4Entries++
			} else {
				s.Traffic.NumV6Entries++
			}
			s.Counts.Add(rc.C)
		}
	}
	return
}

func c06ExecListing(img *c06Img, root string, dm c06Damage, ctx string, r *c06Result, fail func(string, string, ...any)) {
	list := func(iface string, first, last int64) (im *goDB.InterfaceMetadata, err error, call c06Call) {
		call = c06Guard(func() {
			var wm *goDB.DBWorkManager
			wm, err = goDB.NewDBWorkManager(goDB.NewMetadataQuery(), root, iface, 2)
			if err != nil {
				return
			}
			im, err = wm.ReadMetadata(first, last)
		})
		r.Trans++
		return
	}
	type rng struct {
		name        string
		first, last int64
	}
	for _, iface := range img.ifaces {
		damagedIface := false
		for di := range dm.days {
			if img.days[di].iface == iface {
				damagedIface = true
			}
		}
		ranges := []rng{{"whole range", c06First, c06Last}, {"partial first and last day", tA2, tD1}}
		if damagedIface {
			for di, d := range img.days {
				if d.iface == iface && !dm.days[di] {
					ranges = append(ranges, rng{fmt.Sprintf("undamaged day %d only", d.ts), d.blks[0].ts, d.blks[len(d.blks)-1].ts})
				}
			}
		}
		for ri, rg := range ranges {
			im, err, call := list(iface, rg.first, rg.last)
			exact := !damagedIface || ri >= 2
			scope := "damaged-iface"
			if !damagedIface {
				scope = "other-iface"
			} else if ri >= 2 {
				scope = "other-day"
			}
			switch {
			case call.panicked != "":
				r.Obs = append(r.Obs, "panic "+call.panicked)
				r.Nontrivial = true
				fail("listing-panic:"+call.panicked, "%s; ReadMetadata(%s, %s [%d,%d]): %s", ctx, iface, rg.name, rg.first, rg.last, call.panicMsg)
				return
			case err != nil:
				r.Obs = append(r.Obs, "error "+c06ErrClass(err))
				r.Nontrivial = true
				fail("listing-fails:"+scope+":"+c06ErrClass(err), "%s; ReadMetadata(%s, %s [%d,%d]) returned no summary at all: %v", ctx, iface, rg.name, rg.first, rg.last, err)
				return
			case im == nil:
				fail("listing-nil", "%s; ReadMetadata(%s, %s) returned neither summary nor error", ctx, iface, rg.name)
				return
			}
			want, _ := c06RefListing(img, iface, rg.first, rg.last)
			r.Obs = append(r.Obs, fmt.Sprintf("%s/%d %+v", iface, ri, im.Stats))
			if im.Stats != want {
				r.Nontrivial = true
				if exact {
					fail("listing-"+scope+"-wrong", "%s; ReadMetadata(%s, %s [%d,%d]) = %+v, stored blocks sum to %+v", ctx, iface, rg.name, rg.first, rg.last, im.Stats, want)
					return
				}
			}
		}
	}
}

// ---- executor process ---------------------------------------------------------------------------------

const (
	c06ServeEnv    = "VERIF_C06_SERVE"
	c06MemLimit    = 8 << 30 // address-space limit of the executor: above what one corrupted 32-bit length can request (2 x 2 GiB); a net for the machine only
	c06HangGuard   = 120 * time.Second
	c06InprocEnv   = "VERIF_C06_INPROC"
	c06PristineEnv = "VERIF_C06_PRISTINE"
	c06OOMMarker   = "out of memory"
	c06OOMMarker2  = "cannot allocate memory"
)

func c06Quiet() {
	slog.SetDefault(slog.New(slog.NewTextHandler(io.Discard, nil)))
	engine.VerifSetNumProcessingUnits(2)
}

func c06Serve(tier string) {
	lim := syscall.Rlimit{Cur: c06MemLimit, Max: c06MemLimit}
	if err := syscall.Setrlimit(syscall.RLIMIT_AS, &lim); err != nil {
		fmt.Fprintln(os.Stderr, "c06 executor: setrlimit:", err)
		os.Exit(3)
	}
	c06Quiet()
	in := bufio.NewScanner(os.Stdin)
	out := bufio.NewWriter(os.Stdout)
	for in.Scan() {
		var c, mi, m2, qi int
		if _, err := fmt.Sscanf(in.Text(), "%d %d %d %d", &c, &mi, &m2, &qi); err != nil {
			fmt.Fprintln(os.Stderr, "c06 executor: bad request:", in.Text())
			os.Exit(3)
		}
		res := c06Exec(tier, c, mi, m2, qi)
		j, _ := json.Marshal(res)
		out.Write(j)
		out.WriteByte('\n')
		out.Flush()
		if res.Recycle {
			break
		}
	}
	fixture.Cleanup()
	os.Exit(0)
}

type c06Tail struct {
	b []byte
}

func (t *c06Tail) Write(p []byte) (int, error) {
	// the runtime's report starts with the reason: keep the head, drop what follows
	if room := 1<<16 - len(t.b); room > 0 {
		t.b = append(t.b, p[:min(room, len(p))]...)
	}
	return len(p), nil
}

type c06Child struct {
	cmd    *exec.Cmd
	in     io.WriteCloser
	out    *bufio.Reader
	stderr *c06Tail
	served int
	sys    uint64 // memory obtained from the OS as of the last answer
}

var c06Executor *c06Child

func c06Spawn(tier string) *c06Child {
	exe, err := os.Executable()
	if err != nil {
		explore.HarnessErrorf("C06: os.Executable: %v", err)
	}
	cmd := exec.Command(exe, "-scen", "C06", "-tier", tier)
	cmd.Env = append(os.Environ(), c06ServeEnv+"=1", "GOTRACEBACK=single", "VERIF_SCRATCH="+fixture.ScratchRoot(), c06PristineEnv+"="+c06Image().pristine)
	c := &c06Child{cmd: cmd, stderr: &c06Tail{}}
	cmd.Stderr = c.stderr
	if c.in, err = cmd.StdinPipe(); err != nil {
		explore.HarnessErrorf("C06: %v", err)
	}
	so, err := cmd.StdoutPipe()
	if err != nil {
		explore.HarnessErrorf("C06: %v", err)
	}
	c.out = bufio.NewReaderSize(so, 1<<16)
	if err := cmd.Start(); err != nil {
		explore.HarnessErrorf("C06: cannot start executor process: %v", err)
	}
	return c
}

func (c *c06Child) stop() {
	c.in.Close()
	c.cmd.Process.Kill()
	c.cmd.Wait()
}

// c06Crash describes the death of the executor: (symptom, text). ok=false: the death cannot be
// attributed to the code under test (killed from outside, protocol error).
func c06Crash(c *c06Child) (sym, desc string, ok bool) {
	c.in.Close()
	werr := c.cmd.Wait()
	txt := string(c.stderr.b)
	// the runtime's report starts at the first of these markers
	start := -1
	for _, mk := range []string{"panic: ", "fatal error: ", "SIGSEGV", "SIGBUS", "SIGABRT", "SIGILL", "SIGFPE", "runtime: "} {
		if i := strings.Index(txt, mk); i >= 0 && (start < 0 || i < start) {
			start = i
		}
	}
	if start < 0 {
		return "", fmt.Sprintf("executor ended unexpectedly (%v): %.600s", werr, txt), false
	}
	txt = txt[start:]
	first := strings.SplitN(txt, "\n", 2)[0]
	site := "unknown"
	running := false
	for _, l := range strings.Split(txt, "\n") {
		if strings.HasPrefix(l, "goroutine ") {
			running = true
			continue
		}
		if i := strings.Index(l, "._Cfunc_"); i >= 0 && site == "unknown" {
			site = "cgo-" + c06Frame(l[i+len("._Cfunc_"):]+"(")
			break
		}
		if running && !strings.HasPrefix(l, "\t") && (strings.Contains(l, "els0r/goProbe") || strings.Contains(l, "fako1024")) {
			site = c06Frame(l)
			break
		}
	}
	switch {
	case strings.Contains(txt[:min(len(txt), 400)], c06OOMMarker) || strings.Contains(txt[:min(len(txt), 400)], c06OOMMarker2):
		sym = "crash:out-of-memory:" + site
	case strings.HasPrefix(first, "panic: "):
		sym = "crash:panic:" + site
	case strings.HasPrefix(first, "fatal error: "):
		sym = "crash:fatal:" + strings.ReplaceAll(strings.TrimPrefix(first, "fatal error: "), " ", "-") + ":" + site
	default:
		sym = "crash:" + strings.SplitN(first, ":", 2)[0] + ":" + site
	}
	if len(txt) > 1500 {
		txt = txt[:1500]
	}
	return sym, fmt.Sprintf("the reading process died (%v, address space limited to %d MiB): %s", werr, c06MemLimit>>20, txt), true
}

// c06Ask sends one request; err != nil: the child is dead or silent (hung=true: no answer within the guard).
func c06Ask(c *c06Child, caseIdx, mi, m2, qi int, guard time.Duration) (res c06Result, hung bool, err error) {
	if _, err = fmt.Fprintf(c.in, "%d %d %d %d\n", caseIdx, mi, m2, qi); err != nil {
		return
	}
	var h atomic.Bool
	wd := time.AfterFunc(guard, func() { h.Store(true); c.cmd.Process.Kill() })
	line, rerr := c.out.ReadBytes('\n')
	wd.Stop()
	if h.Load() {
		return res, true, fmt.Errorf("no answer within %v", guard)
	}
	if rerr != nil {
		return res, false, rerr
	}
	if uerr := json.Unmarshal(line, &res); uerr != nil {
		explore.HarnessErrorf("C06: unparsable executor answer %q: %v", line, uerr)
	}
	c.served++
	c.sys = res.Sys
	return
}

func c06Sig(muts []c06Mut, sym string) string {
	if len(muts) == 1 {
		return muts[0].kind + ":" + muts[0].class + ":" + sym
	}
	return "pair:" + sym // the two mutations are named in the message
}

func c06Run(x *explore.Ctx) {
	img := c06Image()
	plan := c06PlanFor(x.Tier)
	t := plan.targets[x.Case]
	pm := plan.partMuts(t)
	mi := x.Choose(len(pm), "mutation")
	qi := pm[mi].shapes[x.Choose(len(pm[mi].shapes), "read-shape")]
	muts := []c06Mut{pm[mi]}
	m2 := -1
	if x.Thorough() {
		if sec := plan.seconds(img, &pm[mi]); len(sec) > 0 {
			// a free choice, not a deviation: the explorer would re-execute every single-mutation
			// execution once more at bound 1; alternative 0 = no second mutation
			m2 = x.Choose(1+len(sec), "second-mutation-in-another-day") - 1
			if m2 >= 0 {
				muts = append(muts, sec[m2])
			}
		}
	}
	ctx := muts[0].desc(img)
	if len(muts) > 1 {
		ctx += " AND " + muts[1].desc(img)
	}
	apply := func(res c06Result) {
		if res.HarnessErr != "" {
			explore.HarnessErrorf("%s", res.HarnessErr)
		}
		for _, l := range res.Log {
			x.Logf("%s", l)
		}
		x.Transitions(res.Trans)
		for _, o := range res.Obs {
			x.Obs("%s", o)
		}
		if res.Nontrivial {
			x.NontrivialKey(uint64(mi)<<24 | uint64(m2+1)<<4 | uint64(qi))
		}
		if res.Sig != "" {
			x.Fail(c06Sig(muts, res.Sig), "%s", res.Msg)
		}
	}
	if os.Getenv(c06InprocEnv) != "" {
		// debugging aid only: no protection against process death
		c06Quiet()
		apply(c06Exec(x.Tier, x.Case, mi, m2, qi))
		return
	}
	// attempt 0 runs in the long-lived executor; if that one dies or stays silent, the same
	// execution is repeated ALONE in a fresh executor and only the repeat is judged.
	for attempt := 0; attempt < 2; attempt++ {
		if c06Executor == nil {
			c06Executor = c06Spawn(x.Tier)
		}
		c := c06Executor
		fresh := c.served == 0
		guard := c06HangGuard
		for i := range muts {
			if muts[i].heavy {
				guard = 5 * c06HangGuard // waits for a memory slot and clears gigabytes
			}
		}
		res, hung, err := c06Ask(c, x.Case, mi, m2, qi, guard)
		if err == nil {
			if res.Recycle {
				c.in.Close()
				c.cmd.Wait()
				c06Executor = nil
			}
			apply(res)
			return
		}
		c06Executor = nil
		if hung {
			c.cmd.Wait()
			fmt.Fprintf(os.Stderr, "C06: executor silent for %v (fresh=%v served=%d sys=%dMiB) on case %d mutation %d shape %d: %s\n", guard, fresh, c.served, c.sys>>20, x.Case, mi, qi, ctx)
			if !fresh {
				continue
			}
			x.Transition()
			x.Obs("hang")
			x.NontrivialKey(uint64(mi)<<24 | uint64(m2+1)<<4 | uint64(qi))
			x.Fail(c06Sig(muts, "hang"), "%s; read shape %s: the reader did not finish within %v in a process of its own (an intact database takes milliseconds)", ctx, c06Shapes[qi].name, guard)
			return
		}
		sym, desc, ok := c06Crash(c)
		if !ok {
			explore.HarnessErrorf("C06: %s", desc)
		}
		if !fresh && !strings.HasPrefix(sym, "crash:panic:") {
			continue // out of memory, runtime fatal error, signal: may depend on what the executor did before
		}
		x.Transition()
		x.Obs("%s", sym)
		x.NontrivialKey(uint64(mi)<<24 | uint64(m2+1)<<4 | uint64(qi))
		x.Fail(c06Sig(muts, sym), "%s; read shape %s: %s", ctx, c06Shapes[qi].name, desc)
		return
	}
	explore.HarnessErrorf("C06: unreachable")
}

var _ = query.NewArgs
var _ = context.Background
var _ = bytes.Equal

func init() {
	register("C06", &explore.Scenario{
		ID: "C06", Name: "single (thorough: paired) mutations of every file and day-directory name of a valid database, read by the real engine in an executor child process", Level: "fault_enumeration",
		Rule: "reference database: 2 interfaces x 3 days (month change) x 1-3 blocks (12 blocks, v4/v6/mixed) plus one day on eth1 with one block of 1030 flows (address columns larger than the readers' smallest buffers; target of the structured .blockmeta mutations only: count shifts, count / nblocks bit flips, zero blocks, empty, delete), written by the real DBWriter (lz4). case = (day directory, file) x slice of its mutation list; files = 8 column files, .blockmeta, the directory name. execution = one mutation x one read shape (Q0 raw+time; Q1 sip,dip,time where dport=80 in low-memory mode; Q2 dport,proto,time where snet is IPv6; L listing through ReadMetadata over whole range, partial range and each undamaged day), run in an executor child process. " +
			"THOROUGH: all 6 days; per file every truncation length, empty, delete, EVERY single-bit flip, every byte <- 00/ff, appended garbage (1,16,88,4096 bytes), exchange with every sibling column (.blockmeta: with sip and bytes_rcvd), exchange with the same-named file of every other day of both interfaces, .blockmeta replaced by well-formed files with zero / fewer blocks, per block the IPv4/IPv6 entry counts shifted by (-4k,+k) / (+4k,-k) (k = 1, maximal: the address columns' expected length stays the same); directory names: suffix removed/empty/foreign/zero/wrong field count/overlong/second underscore/characters outside the code table, every suffix character x 6 values, every suffix truncation, timestamp prefix non-numeric/unaligned/other day/day-aligned but far outside the range with a name that sorts among the real days/negative/overflowing; all x 4 shapes. Exception: bit flips that turn a stored block length into 16 MiB..1 GiB (top byte of Len/RawLen, bits 0-6; seconds and up to 2 GiB each) run for 2 columns x 3 magnitudes x Q0 under a machine-wide 4-slot lock. Plus every unordered PAIR of mutations from a reduced list (empty, half truncation, first bit, +16 bytes, .blockmeta deleted / zero blocks, 3 directory names) in different calendar days x 4 shapes. " +
			"QUICK: the 3 days of eth0 (first/middle/last directory; eth1 is the untouched interface); all structural mutations (empty, delete, append, exchanges, zero/fewer blocks, IPv4/IPv6 count shifts, ~28 directory names) x 4 shapes in the first day, x {Q0,L} in the others; every truncation length of every .blockmeta x {Q0,L} and of every column of the first day x Q0; bit flips: every bit of the first/last 8 bytes and of the first byte of every block of every column of the first day x Q0; every bit of .blockmeta header, block tables of sip and bytes_rcvd, first timestamp and per-block counts/deltas in the first day x {Q0,L}, lowest and top bit of each of those bytes in the middle day and top bit in the last day x Q0 (lengths >= 64 KiB only through the top bit of the two high bytes). " +
			"non-trivial = the reader noticed the damage (error, panic, death, BlocksCorrupted>0 or rows differing from the intact result), distinct by (mutation, shape); outcomes = distinct (rows hash, statistics / error class)",
		Cases: func(t string) int { return len(c06PlanFor(t).targets) },
		Bound: func(t string) int { return 0 },
		Run:   c06Run, PanicSig: "",
		Setup: func(tier string) {
			if os.Getenv(c06ServeEnv) != "" {
				c06Serve(tier) // executor process: never returns
			}
		},
		Assumptions: []string{
			"one mutation per database (thorough: also pairs from a reduced list in different days; the second mutation is a free choice, so the deviation bound is 0); database of 12 small blocks",
			fmt.Sprintf("the reading process runs with an address-space limit of %d MiB (more than a single corrupted 32-bit length can make the reader request); running out of it would be reported as a crash, judged only when it repeats alone in a fresh process", c06MemLimit>>20),
			"hang = no answer within 120 s wall clock in a process of its own, judged only when it repeats alone in a fresh process (an intact query takes ~2 ms)",
			"rows of damaged blocks (whole day for .blockmeta and directory-name mutations) are unconstrained; every query carries the time attribute so that rows are attributable to blocks",
			"query worker count pinned to 2; lz4 as linked into the cgo build",
		},
	})
}

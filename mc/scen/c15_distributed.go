package scen

import (
	"context"
	"errors"
	"fmt"
	"log/slog"
	"net/netip"
	"runtime/debug"
	"sort"
	"strconv"
	"strings"
	"time"

	"github.com/danielgtaylor/huma/v2/sse"
	gqd "github.com/els0r/goProbe/v4/cmd/global-query/pkg/distributed"
	"github.com/els0r/goProbe/v4/pkg/api"
	"github.com/els0r/goProbe/v4/pkg/distributed/hosts"
	"github.com/els0r/goProbe/v4/pkg/query"
	"github.com/els0r/goProbe/v4/pkg/results"
	"github.com/els0r/goProbe/v4/pkg/types"
	"github.com/els0r/goProbe/v4/pkg/types/workload"
	"github.com/els0r/goProbe/v4/plugins/resolver/stringresolver"

	"verifmc/explore"
)

// C15: the merged result of a distributed query does not depend on the order
// in which the per-host results arrive; streaming final == non-streaming.
//
// The aggregator (distributed.QueryRunner.run -> aggregateResults) consumes
// ONE channel sequentially in the caller's goroutine, so the only thing any
// interleaving of the per-host goroutines can change is the ARRIVAL ORDER on
// that channel. The scenario owns the channel: a fake distributed.Querier
// returns a buffered channel that already holds the per-host results in the
// order the explorer chose (one Choose per arrival among the hosts not yet
// delivered) and is closed; Run / RunStreaming then execute single-threaded
// and deterministically.
//
// Case = (N, kind of host 0, ..., kind of host N-1). Per execution: query
// mode x arrival order. Every execution runs the REAL code three times on
// fresh host results: Run(order), Run(identity order), RunStreaming(order).

const (
	c15KOverlap      = iota // rows whose labels+attributes also occur on other "overlap" hosts (+ one own row)
	c15KDisjoint            // rows labelled with the own hostname only; host truncated its rows (Hits.Total > len(Rows))
	c15KEmpty               // no rows, status "empty", statistics and time range present
	c15KError               // results.New() + SetErr(plain error), as apiclient.Query builds it
	c15KWrapped             // SetErr(fmt.Errorf("...: %w", inner))
	c15KEmptyNoRange        // like empty, but the host reports no covered time range at all (zero First / Last)
	c15KDup                 // as overlap, and its first row occurs twice in the reply (same labels and attributes): the merge sums them, whoever arrives first
	c15KSubset              // only rows that other overlap hosts have as well (no row of its own): arriving later, it changes counters but not the number of rows
	c15NKinds
)

var c15KindNames = [...]string{"overlap", "disjoint", "empty", "error", "wrapped-error", "empty-no-time-range", "overlap-with-repeated-row", "overlap-subset"}

const c15T0 = int64(1700000100) // multiple of 300 and of 900

// host i covers [T0+first_i, T0+last_i]; min First and max Last sit on different hosts
var c15First = [...]int64{2 * 3600, 1 * 3600, 3 * 3600, 0, 4 * 3600}
var c15Last = [...]int64{5 * 3600, 4 * 3600, 9 * 3600, 3 * 3600, 6 * 3600}

type c15Mode struct {
	name     string
	queryTyp string
	timeRes  string // "" = default 5m (no binning)
	bin      int64  // seconds, 0 = no binning
	limit    uint64
	sortBy   string
	asc      bool
	withTime bool
}

var c15ModesQuick = []c15Mode{
	{name: "attrs/limit=1000/bytes-desc", queryTyp: "sip,dport", limit: 1000, sortBy: "bytes"},
	{name: "attrs/limit=3/bytes-desc", queryTyp: "sip,dport", limit: 3, sortBy: "bytes"},
	{name: "attrs/limit=1/packets-asc", queryTyp: "sip,dport", limit: 1, sortBy: "packets", asc: true},
	{name: "time/5m/limit=1000", queryTyp: "time,sip,dport", limit: 1000, sortBy: "bytes", withTime: true},
	{name: "time/bin15m/limit=1000", queryTyp: "time,sip,dport", timeRes: "15m", bin: 900, limit: 1000, sortBy: "bytes", withTime: true},
	{name: "time/bin15m/limit=2", queryTyp: "time,sip,dport", timeRes: "15m", bin: 900, limit: 2, sortBy: "bytes", withTime: true},
}

var c15ModesThorough = append(append([]c15Mode{}, c15ModesQuick...),
	c15Mode{name: "attrs/limit=2/packets-desc", queryTyp: "sip,dport", limit: 2, sortBy: "packets"},
	c15Mode{name: "attrs/limit=1000/bytes-asc", queryTyp: "sip,dport", limit: 1000, sortBy: "bytes", asc: true},
	c15Mode{name: "time/5m/limit=3", queryTyp: "time,sip,dport", limit: 3, sortBy: "bytes", withTime: true},
	c15Mode{name: "time/bin1h/limit=1000", queryTyp: "time,sip,dport", timeRes: "1h", bin: 3600, limit: 1000, sortBy: "bytes", withTime: true},
)

func c15Modes(x *explore.Ctx) []c15Mode {
	if x.Thorough() {
		return c15ModesThorough
	}
	return c15ModesQuick
}

// ---------------------------------------------------------------------------
// host result alphabet

type c15Row struct {
	ts               int64 // 0 = no timestamp label
	iface, host, hid string
	sip              string
	dport            uint16
	br, bs, pr, ps   uint64
}

type c15Host struct {
	name    string
	kind    int
	noRange bool // the host result carries no covered time range
	rows    []c15Row
	totals  types.Counters
	hits    int
	stats   workload.Stats
	first   int64
	last    int64
	ifaces  []string
	err     error
}

func c15Counters(host, rowid int) (br, bs, pr, ps uint64) {
	h, r := uint64(host), uint64(rowid)
	return 1000*(h+1) + 10*r + 1, 7*(h+1) + r, 3*(h+1) + r, (h+r)%3 + 1
}

func c15HostName(i int) string { return fmt.Sprintf("h%d", i) }

// c15BuildHost describes the result host i sends (pure data; the real
// results.Result is built freshly from it for every run).
func c15BuildHost(i, kind int, withTime bool) *c15Host {
	h := &c15Host{name: c15HostName(i), kind: kind}
	switch kind {
	case c15KError:
		h.err = fmt.Errorf("host %s: connection refused", h.name)
		return h
	case c15KWrapped:
		h.err = fmt.Errorf("failed to run query: %w", fmt.Errorf("host %s: 503 service unavailable", h.name))
		return h
	}
	h.first, h.last = c15T0+c15First[i], c15T0+c15Last[i]
	// every host captures on eth1 (the interface of the shared rows); the lists differ otherwise, so that the
	// merged interface list is built from lists that are neither equal nor nested in arrival order
	h.ifaces = []string{"eth1"}
	ownIface := "eth1"
	switch i % 3 {
	case 1:
		h.ifaces = []string{"eth0", "eth1"}
		ownIface = "eth0"
	case 2:
		h.ifaces = []string{"eth1", "eth2"}
		ownIface = "eth2"
	}
	h.stats.BytesLoaded = 10000 * uint64(i+1)
	h.stats.BytesDecompressed = 30000*uint64(i+1) + 1
	h.stats.BlocksProcessed = 12 * uint64(i+1)
	h.stats.BlocksCorrupted = uint64(i % 2)
	h.stats.DirectoriesProcessed = uint64(i + 1)
	h.stats.Workloads = 2 * uint64(i+1)
	if kind == c15KEmptyNoRange {
		h.noRange = true
		return h
	}
	if kind == c15KEmpty {
		return h
	}
	ts := func(off int64) int64 {
		if !withTime {
			return 0
		}
		return c15T0 + off
	}
	add := func(rowid int, r c15Row) {
		r.br, r.bs, r.pr, r.ps = c15Counters(i, rowid)
		h.rows = append(h.rows, r)
	}
	shared := []c15Row{
		{ts: ts(300), iface: "eth1", host: "shared", hid: "id-shared", sip: "10.0.0.1", dport: 80},
		{ts: ts(600), iface: "eth1", host: "shared", hid: "id-shared", sip: "10.0.0.2", dport: 443},
		{ts: ts(900), iface: "eth1", host: "shared", hid: "id-shared", sip: "10.0.0.3", dport: 53},
	}
	own := c15Row{ts: ts(600 + 300*int64(i)), iface: ownIface, host: h.name, hid: "id-" + h.name, sip: fmt.Sprintf("10.1.0.%d", i+1), dport: 8080}
	switch kind {
	case c15KSubset:
		add(0, shared[i%3])
		add(1, shared[(i+1)%3])
	case c15KOverlap, c15KDup:
		add(0, shared[i%3])
		if kind == c15KDup {
			add(4, shared[i%3])
		}
		add(1, shared[(i+1)%3])
		if withTime {
			// same attributes as shared[0] at another 5m block: 600 falls into the same 15m bin, 1200 into the next
			if i%2 == 0 {
				add(2, c15Row{ts: ts(600), iface: "eth1", host: "shared", hid: "id-shared", sip: "10.0.0.1", dport: 80})
			} else {
				add(2, c15Row{ts: ts(1200), iface: "eth1", host: "shared", hid: "id-shared", sip: "10.0.0.1", dport: 80})
			}
		}
		add(3, own)
	case c15KDisjoint:
		// same attributes as shared[0] but a different hostname label: must NOT merge with it
		add(0, c15Row{ts: ts(300), iface: ownIface, host: h.name, hid: "id-" + h.name, sip: "10.0.0.1", dport: 80})
		add(1, own)
		if withTime {
			add(2, c15Row{ts: ts(600), iface: ownIface, host: h.name, hid: "id-" + h.name, sip: "10.0.0.1", dport: 80})
		}
	}
	for _, r := range h.rows {
		h.totals.Add(types.Counters{BytesRcvd: r.br, BytesSent: r.bs, PacketsRcvd: r.pr, PacketsSent: r.ps})
	}
	h.hits = len(h.rows)
	if kind == c15KDisjoint {
		// the host itself truncated its row list: totals and hits cover more than the rows sent
		h.totals.Add(types.Counters{BytesRcvd: 500, BytesSent: 50, PacketsRcvd: 5, PacketsSent: 1})
		h.hits += 5
	}
	return h
}

func c15Time(ts int64) time.Time {
	if ts == 0 {
		return time.Time{}
	}
	return time.Unix(ts, 0)
}

// c15Result builds the real per-host result the way the hosts / the API
// client querier hand it to the aggregator.
func c15Result(h *c15Host, m *c15Mode) *results.Result {
	if h.err != nil {
		// plugins/querier/apiclient/querier.go: qr = results.New(); qr.SetErr(err); qr.Hostname = wl.Host
		qr := results.New()
		qr.SetErr(h.err)
		qr.Hostname = h.name
		return qr
	}
	r := results.New()
	r.Start()
	r.Hostname = h.name
	r.Query = results.Query{Attributes: strings.Split(m.queryTyp, ",")}
	r.Summary.Interfaces = append(results.Interfaces(nil), h.ifaces...)
	if !h.noRange {
		r.Summary.First, r.Summary.Last = time.Unix(h.first, 0), time.Unix(h.last, 0)
	}
	r.Summary.Totals = h.totals
	r.Summary.Hits.Total = h.hits
	r.Summary.DataAvailable = true
	st := &h.stats
	r.Summary.Stats = &workload.Stats{BytesLoaded: st.BytesLoaded, BytesDecompressed: st.BytesDecompressed, BlocksProcessed: st.BlocksProcessed,
		BlocksCorrupted: st.BlocksCorrupted, DirectoriesProcessed: st.DirectoriesProcessed, Workloads: st.Workloads}
	for _, cr := range h.rows {
		r.Rows = append(r.Rows, results.Row{
			Labels:     results.Labels{Timestamp: c15Time(cr.ts), Iface: cr.iface, Hostname: cr.host, HostID: cr.hid},
			Attributes: results.Attributes{SrcIP: netip.MustParseAddr(cr.sip), DstPort: cr.dport},
			Counters:   types.Counters{BytesRcvd: cr.br, BytesSent: cr.bs, PacketsRcvd: cr.pr, PacketsSent: cr.ps},
		})
	}
	r.Summary.Hits.Displayed = len(r.Rows)
	if len(r.Rows) == 0 {
		r.Status = results.Status{Code: types.StatusEmpty, Message: results.ErrorNoResults.Error()}
	}
	r.HostsStatuses[h.name] = r.Status
	if h.kind == c15KOverlap || h.kind == c15KDup || h.kind == c15KSubset {
		// the system both endpoints look at reports itself as well (identical entry from every overlap host)
		r.HostsStatuses["shared"] = results.Status{Code: types.StatusOK}
	}
	return r
}

// ---------------------------------------------------------------------------
// the seam: a Querier whose channel content is dictated by the scenario

type c15Querier struct {
	deliver  []*results.Result
	gotHosts hosts.Hosts
	calls    int
}

func (q *c15Querier) Query(_ context.Context, hl hosts.Hosts, _ *query.Args) (<-chan *results.Result, <-chan struct{}) {
	q.calls++
	q.gotHosts = hl
	rc := make(chan *results.Result, len(q.deliver))
	for _, r := range q.deliver {
		rc <- r
	}
	close(rc)
	kc := make(chan struct{})
	close(kc) // no keepalive ever fires: the forwarder goroutine (if started) ends immediately without calling the sender
	return rc, kc
}

func c15Args(m *c15Mode, n int) *query.Args {
	names := make([]string, n)
	for i := range names {
		names[i] = c15HostName(i)
	}
	return &query.Args{
		Query:          m.queryTyp,
		Ifaces:         "eth0,eth1",
		QueryHosts:     strings.Join(names, ","),
		Format:         "json",
		MaxMemPct:      60,
		NumResults:     m.limit,
		SortBy:         m.sortBy,
		SortAscending:  m.asc,
		TimeResolution: m.timeRes,
		First:          fmt.Sprint(c15T0 - 3600),
		Last:           fmt.Sprint(c15T0 + 12*3600),
		KeepAlive:      time.Hour, // > 0 so that RunStreaming takes its keepalive-forwarding path; the channel is closed and empty
	}
}

// ---------------------------------------------------------------------------
// canonical form: every field of the result except Summary.Timings

var c15Components = [...]string{"rows", "totals", "stats", "hits", "hosts_statuses", "status", "interfaces", "query", "hostname", "data_available", "time_range"}

type c15Canon map[string]string

func c15RowString(r *results.Row) string {
	b := make([]byte, 0, 96)
	if r.Labels.Timestamp.IsZero() {
		b = append(b, '-')
	} else {
		b = strconv.AppendInt(b, r.Labels.Timestamp.Unix(), 10)
	}
	b = append(append(b, '|'), r.Labels.Iface...)
	b = append(append(b, '|'), r.Labels.Hostname...)
	b = append(append(b, '|'), r.Labels.HostID...)
	b = r.Attributes.SrcIP.AppendTo(append(b, '|'))
	b = r.Attributes.DstIP.AppendTo(append(b, '|'))
	b = strconv.AppendUint(append(b, '|'), uint64(r.Attributes.IPProto), 10)
	b = strconv.AppendUint(append(b, '|'), uint64(r.Attributes.DstPort), 10)
	b = strconv.AppendUint(append(b, '|'), r.Counters.BytesRcvd, 10)
	b = strconv.AppendUint(append(b, ','), r.Counters.BytesSent, 10)
	b = strconv.AppendUint(append(b, ','), r.Counters.PacketsRcvd, 10)
	b = strconv.AppendUint(append(b, ','), r.Counters.PacketsSent, 10)
	return string(b)
}

func c15TimeString(t time.Time) string {
	if t.IsZero() {
		return "zero"
	}
	return fmt.Sprint(t.Unix())
}

func c15Canonical(r *results.Result) c15Canon {
	c := c15Canon{}
	rows := make([]string, len(r.Rows))
	for i := range r.Rows {
		rows[i] = c15RowString(&r.Rows[i])
	}
	c["rows"] = strings.Join(rows, "\n")
	t := r.Summary.Totals
	c["totals"] = fmt.Sprintf("%d,%d,%d,%d", t.BytesRcvd, t.BytesSent, t.PacketsRcvd, t.PacketsSent)
	if s := r.Summary.Stats; s != nil {
		c["stats"] = fmt.Sprintf("bytes_loaded=%d bytes_decompressed=%d blocks_processed=%d blocks_corrupted=%d directories_processed=%d workloads=%d",
			s.BytesLoaded, s.BytesDecompressed, s.BlocksProcessed, s.BlocksCorrupted, s.DirectoriesProcessed, s.Workloads)
	} else {
		c["stats"] = "nil"
	}
	c["hits"] = fmt.Sprintf("total=%d displayed=%d", r.Summary.Hits.Total, r.Summary.Hits.Displayed)
	hs := make([]string, 0, len(r.HostsStatuses))
	for h, s := range r.HostsStatuses {
		hs = append(hs, fmt.Sprintf("%s=%s:%s", h, s.Code, s.Message))
	}
	sort.Strings(hs)
	c["hosts_statuses"] = strings.Join(hs, "; ")
	c["status"] = fmt.Sprintf("%s:%s", r.Status.Code, r.Status.Message)
	c["interfaces"] = strings.Join(r.Summary.Interfaces, ",")
	c["query"] = fmt.Sprintf("%s/%s", strings.Join(r.Query.Attributes, ","), r.Query.Condition)
	c["hostname"] = r.Hostname
	c["data_available"] = fmt.Sprint(r.Summary.DataAvailable)
	c["time_range"] = c15TimeString(r.Summary.First) + ".." + c15TimeString(r.Summary.Last)
	return c
}

func (c c15Canon) String() string {
	var b strings.Builder
	for _, k := range c15Components {
		fmt.Fprintf(&b, "%s{%s} ", k, strings.ReplaceAll(c[k], "\n", " / "))
	}
	return b.String()
}

// ---------------------------------------------------------------------------
// running the real code

type c15Run struct {
	res      *results.Result
	canon    c15Canon
	partials []string // canonical partial results seen by the sse sender (streaming only)
}

func c15Execute(x *explore.Ctx, hs []*c15Host, order []int, m *c15Mode, streaming bool) *c15Run {
	q := &c15Querier{}
	for _, i := range order {
		q.deliver = append(q.deliver, c15Result(hs[i], m))
	}
	rm := hosts.NewResolverMap()
	rm.Set(stringresolver.Type, stringresolver.NewResolver(true))
	runner := gqd.NewQueryRunner(rm, q)
	args := c15Args(m, len(hs))
	out := &c15Run{}
	var (
		res *results.Result
		err error
	)
	if streaming {
		send := sse.Sender(func(msg sse.Message) error {
			switch v := msg.Data.(type) {
			case *api.PartialResult:
				// the aggregator keeps mutating the object: canonicalise now
				out.partials = append(out.partials, c15Canonical(v.Result).String())
			default:
				explore.HarnessErrorf("C15: unexpected SSE message %T (keepalive channel is closed and empty)", msg.Data)
			}
			return nil
		})
		res, err = runner.RunStreaming(context.Background(), args, send)
	} else {
		res, err = runner.Run(context.Background(), args)
	}
	if err != nil || res == nil {
		explore.HarnessErrorf("C15: runner returned res=%v err=%v for mode %s", res, err, m.name)
	}
	if q.calls != 1 || len(q.gotHosts) != len(hs) {
		explore.HarnessErrorf("C15: querier called %d times with hosts %v, expected once with %d hosts", q.calls, q.gotHosts, len(hs))
	}
	x.Transitions(len(order))
	out.res = res
	out.canon = c15Canonical(res)
	return out
}

// ---------------------------------------------------------------------------
// reference merge, written from the property statement

type c15Ref struct {
	rows      map[string]types.Counters // key: row identity (labels, attributes) -> summed counters
	totals    types.Counters
	stats     workload.Stats
	hitsTotal int
	merged    int
	failed    map[string]error
	okHosts   []string
	anyShared bool
}

func c15RowKey(ts int64, r *c15Row) string {
	b := make([]byte, 0, 64)
	if ts == 0 {
		b = append(b, '-')
	} else {
		b = strconv.AppendInt(b, ts, 10)
	}
	b = append(append(b, '|'), r.iface...)
	b = append(append(b, '|'), r.host...)
	b = append(append(b, '|'), r.hid...)
	b = append(append(b, '|'), r.sip...)
	b = append(b, "||0|"...) // no destination address, no protocol in the queried attributes
	b = strconv.AppendUint(b, uint64(r.dport), 10)
	return string(b)
}

func c15Reference(hs []*c15Host, m *c15Mode) *c15Ref {
	ref := &c15Ref{rows: map[string]types.Counters{}, failed: map[string]error{}}
	sent := 0
	plain := map[string]struct{}{} // union before binning: the hit count speaks about merged ROWS of the hosts
	for _, h := range hs {
		if h.err != nil {
			ref.failed[h.name] = h.err
			continue
		}
		ref.okHosts = append(ref.okHosts, h.name)
		if h.kind == c15KOverlap || h.kind == c15KDup || h.kind == c15KSubset {
			ref.anyShared = true
		}
		ref.totals.Add(h.totals)
		ref.stats.BytesLoaded += h.stats.BytesLoaded
		ref.stats.BytesDecompressed += h.stats.BytesDecompressed
		ref.stats.BlocksProcessed += h.stats.BlocksProcessed
		ref.stats.BlocksCorrupted += h.stats.BlocksCorrupted
		ref.stats.DirectoriesProcessed += h.stats.DirectoriesProcessed
		ref.stats.Workloads += h.stats.Workloads
		ref.hitsTotal += h.hits
		for i := range h.rows {
			r := &h.rows[i]
			sent++
			plain[c15RowKey(r.ts, r)] = struct{}{}
			ts := r.ts
			if m.bin > 0 && ts != 0 {
				// a timestamp t stands for (t-5m, t]; it belongs to the bin ending at the next multiple of the bin size
				ts = (ts + m.bin - 1) / m.bin * m.bin
			}
			k := c15RowKey(ts, r)
			c := ref.rows[k]
			c.Add(types.Counters{BytesRcvd: r.br, BytesSent: r.bs, PacketsRcvd: r.pr, PacketsSent: r.ps})
			ref.rows[k] = c
		}
	}
	ref.merged = sent - len(plain)
	ref.hitsTotal -= ref.merged
	return ref
}

// c15CheckReference compares the real final result with the reference merge.
// It returns (signature, message) pairs.
func c15CheckReference(got *results.Result, ref *c15Ref, hs []*c15Host, m *c15Mode, what string) (fails [][2]string) {
	fail := func(sig, format string, a ...any) {
		fails = append(fails, [2]string{sig, what + ": " + fmt.Sprintf(format, a...)})
	}
	// rows = union of the hosts' rows, counters summed per (labels, attributes)
	want := len(ref.rows)
	if uint64(want) > m.limit {
		want = int(m.limit)
	}
	seen := map[string]types.Counters{}
	rowsOK := true
	for i := range got.Rows {
		r := &got.Rows[i]
		s := c15RowString(r)
		k := s[:strings.LastIndex(s, "|")]
		if _, dup := seen[k]; dup {
			fail("ref:rows-duplicate", "row %s appears twice in the merged result", k)
			rowsOK = false
			break
		}
		seen[k] = r.Counters
		wc, ok := ref.rows[k]
		if !ok {
			fail("ref:rows-phantom", "row %s is in the merged result but in no host's rows (reference union has %d rows)", k, len(ref.rows))
			rowsOK = false
			break
		}
		if wc != r.Counters {
			fail("ref:rows-counters", "row %s has counters %+v, sum over the hosts is %+v", k, r.Counters, wc)
			rowsOK = false
			break
		}
	}
	if rowsOK && len(got.Rows) != want {
		fail("ref:rows-missing", "merged result has %d rows, union of the hosts' rows has %d (limit %d)", len(got.Rows), len(ref.rows), m.limit)
	}
	if got.Summary.Totals != ref.totals {
		fail("ref:totals", "Summary.Totals=%+v, sum of the hosts' totals is %+v", got.Summary.Totals, ref.totals)
	}
	if s := got.Summary.Stats; s == nil {
		fail("ref:stats-nil", "Summary.Stats is nil")
	} else {
		for _, f := range []struct {
			name      string
			got, want uint64
		}{
			{"bytes_loaded", s.BytesLoaded, ref.stats.BytesLoaded},
			{"bytes_decompressed", s.BytesDecompressed, ref.stats.BytesDecompressed},
			{"blocks_processed", s.BlocksProcessed, ref.stats.BlocksProcessed},
			{"blocks_corrupted", s.BlocksCorrupted, ref.stats.BlocksCorrupted},
			{"directories_processed", s.DirectoriesProcessed, ref.stats.DirectoriesProcessed},
			{"workloads", s.Workloads, ref.stats.Workloads},
		} {
			if f.got != f.want {
				fail("ref:stats."+f.name, "Summary.Stats.%s=%d, sum over the hosts that answered is %d", f.name, f.got, f.want)
			}
		}
	}
	if m.bin == 0 {
		// with time binning the hit count is redefined by the binner (rows after binning); only the
		// order / streaming comparisons apply there
		if got.Summary.Hits.Total != ref.hitsTotal {
			fail("ref:hits-total", "Hits.Total=%d, expected sum of host hits minus merged rows = %d (merged %d)", got.Summary.Hits.Total, ref.hitsTotal, ref.merged)
		}
	}
	if got.Summary.Hits.Displayed != len(got.Rows) {
		fail("ref:hits-displayed", "Hits.Displayed=%d but %d rows are returned", got.Summary.Hits.Displayed, len(got.Rows))
	}
	// every failed host present with its error; every other host present
	for _, h := range hs {
		st, ok := got.HostsStatuses[h.name]
		if h.err != nil {
			inner := h.err
			if u := errors.Unwrap(inner); u != nil {
				inner = u
			}
			switch {
			case !ok:
				fail("ref:failed-host-missing", "failed host %s (%v) is not in HostsStatuses %v", h.name, h.err, got.HostsStatuses)
			case st.Code != types.StatusError:
				fail("ref:failed-host-code", "failed host %s has status code %q", h.name, st.Code)
			case st.Message != h.err.Error() && st.Message != inner.Error():
				fail("ref:failed-host-message", "failed host %s reported with %q, its error is %q", h.name, st.Message, h.err.Error())
			}
			continue
		}
		if !ok {
			fail("ref:host-missing", "host %s answered but is not in HostsStatuses %v", h.name, got.HostsStatuses)
		} else if st.Code == types.StatusError {
			fail("ref:host-false-error", "host %s answered without error but is reported as %q %q", h.name, st.Code, st.Message)
		}
	}
	wantN := len(hs)
	if ref.anyShared {
		wantN++
	}
	if len(got.HostsStatuses) != wantN {
		fail("ref:hosts-statuses-extra", "HostsStatuses has %d entries %v, expected %d", len(got.HostsStatuses), got.HostsStatuses, wantN)
	}
	return fails
}

func c15Diff(prefix string, a, b c15Canon, an, bn string) (fails [][2]string) {
	for _, k := range c15Components {
		if a[k] != b[k] {
			sig := prefix + ":" + k
			if k == "status" {
				// the status code pair is part of the normal form: "missing data" on a result with rows is
				// a different failure than "ok" on a result that was never finalised
				ca, _, _ := strings.Cut(a[k], ":")
				cb, _, _ := strings.Cut(b[k], ":")
				sig += "(" + ca + "!=" + cb + ")"
			}
			fails = append(fails, [2]string{sig, fmt.Sprintf("%s differs: %s has {%s}, %s has {%s}", k,
				an, strings.ReplaceAll(a[k], "\n", " / "), bn, strings.ReplaceAll(b[k], "\n", " / "))})
		}
	}
	return fails
}

// ---------------------------------------------------------------------------

func c15Decode(c int) (n int, kinds []int) {
	n = 2
	size := c15NKinds * c15NKinds
	for c >= size {
		c -= size
		n++
		size *= c15NKinds
	}
	kinds = make([]int, n)
	for i := n - 1; i >= 0; i-- {
		kinds[i] = c % c15NKinds
		c /= c15NKinds
	}
	return n, kinds
}

func c15Cases(tier string) int {
	// sum over N of c15NKinds^N
	maxN := 3
	if tier == "thorough" {
		maxN = 5
	}
	total, size := 0, c15NKinds
	for n := 2; n <= maxN; n++ {
		size *= c15NKinds
		total += size
	}
	return total
}

var c15ArrivalLabels = func() [][]string {
	// label of the k-th arrival given the hosts still outstanding (bitmask) -> precomputed strings
	l := make([][]string, 6)
	for k := range l {
		l[k] = make([]string, 32)
		for mask := range l[k] {
			var names []string
			for i := 0; i < 5; i++ {
				if mask&(1<<i) != 0 {
					names = append(names, c15HostName(i))
				}
			}
			l[k][mask] = fmt.Sprintf("arrival#%d among {%s}", k, strings.Join(names, ","))
		}
	}
	return l
}()

func c15RunScenario(x *explore.Ctx) {
	n, kinds := c15Decode(x.Case)
	modes := c15Modes(x)
	mi := x.Choose(len(modes), "mode")
	m := &modes[mi]

	hs := make([]*c15Host, n)
	kn := make([]string, n)
	answering := 0
	for i := range hs {
		hs[i] = c15BuildHost(i, kinds[i], m.withTime)
		kn[i] = c15KindNames[kinds[i]]
		if hs[i].err == nil {
			answering++
		}
	}

	// arrival order: one choice per arrival among the hosts not yet delivered
	order := make([]int, 0, n)
	mask := 1<<n - 1
	identity := true
	for k := 0; k < n; k++ {
		var outstanding []int
		for i := 0; i < n; i++ {
			if mask&(1<<i) != 0 {
				outstanding = append(outstanding, i)
			}
		}
		c := x.Choose(len(outstanding), c15ArrivalLabels[k][mask])
		h := outstanding[c]
		if h != k {
			identity = false
		}
		order = append(order, h)
		mask &^= 1 << h
		// state = (mode, set of hosts merged so far)
		x.StateKey(uint64(mi)<<16 | uint64(((1<<n)-1)&^mask))
	}
	x.Logf("N=%d hosts=%v mode=%s order=%v", n, kn, m.name, order)

	ref := c15Reference(hs, m)

	base := make([]int, n)
	for i := range base {
		base[i] = i
	}
	plain := c15Execute(x, hs, order, m, false)
	var plain0 *c15Run
	if identity {
		plain0 = plain
	} else {
		plain0 = c15Execute(x, hs, base, m, false)
	}
	stream := c15Execute(x, hs, order, m, true)

	x.Logf("Run(order)         : %s", plain.canon)
	if !identity {
		x.Logf("Run(identity)      : %s", plain0.canon)
	}
	x.Logf("RunStreaming(order): %s", stream.canon)

	// states: canonical partial result after each answering host, together with the set merged so far
	pi := 0
	set := 0
	for _, h := range order {
		set |= 1 << h
		if hs[h].err != nil {
			continue
		}
		if pi < len(stream.partials) {
			x.State([]byte(fmt.Sprintf("%d/%b/%s", mi, set, stream.partials[pi])))
			x.Logf("partial after %v: %s", c15HostName(h), stream.partials[pi])
		}
		pi++
	}

	x.Obs("%s", plain.canon.String())
	x.Obs("%s", stream.canon.String())
	if !identity && answering >= 2 {
		// the mechanism: >= 2 host results aggregated into one in an order different from the reference order
		x.Nontrivial("%d/%v/merged=%v", mi, order, ref.merged > 0)
	}

	var fails [][2]string
	fails = append(fails, c15CheckReference(plain.res, ref, hs, m, "Run, arrival order "+fmt.Sprint(order))...)
	fails = append(fails, c15Diff("order-dependent", plain.canon, plain0.canon, "arrival order "+fmt.Sprint(order), "arrival order "+fmt.Sprint(base))...)
	fails = append(fails, c15Diff("streaming-final-differs", stream.canon, plain.canon, "RunStreaming", "Run")...)

	// distinct signatures only, in a fixed order
	var uniq [][2]string
	seen := map[string]bool{}
	for _, f := range fails {
		if !seen[f[0]] {
			seen[f[0]] = true
			uniq = append(uniq, f)
		}
	}
	if len(uniq) == 0 {
		return
	}
	// Several oracles fired on this input: branch so that each signature is reported by one execution
	// (x.Fail keeps only the first per execution; nothing may be masked).
	k := 0
	if len(uniq) > 1 {
		k = x.Choose(len(uniq), fmt.Sprintf("report-which-of-%d-failed-oracles", len(uniq)))
	}
	x.Fail(uniq[k][0], "hosts=%v mode=%s: %s", kn, m.name, uniq[k][1])
}

func init() {
	register("C15", &explore.Scenario{
		ID: "C15", Name: "distributed merge: all arrival orders, reference merge, streaming == non-streaming", Level: "model_checking",
		Rule:  "case = (N, kind of each of the N hosts) for N=2..3 (quick) / 2..5 (thorough) with kinds {rows overlapping other hosts' rows (+1 own row), disjoint rows (host-truncated: hits/totals exceed rows), empty, error, wrapped error, empty without any covered time range, overlapping rows with one row repeated inside the reply, only rows that other hosts have as well}, every host with its own covered time range, interfaces, statistics; per case: query mode (6 quick / 10 thorough: attribute query with limit 1000/3/1/2 and bytes|packets asc|desc; time query unbinned, 15m and 1h bins, with/without truncating limit) x ALL N! arrival orders (one choice per arrival among the hosts not yet delivered) on the channel the real aggregator reads. Each execution runs the real distributed.QueryRunner three times on fresh inputs: Run(order), Run(identity order), RunStreaming(order, recording sse.Sender). Oracles: (ref) reference merge from the statement: rows = union with counters summed per (labels, attributes), with a limit: min(limit, |union|) rows, each one a row of the union with the summed counters (WHICH rows survive is the sort property's subject), totals/stats = sums, Hits.Total = sum of host hits - merged rows (unbinned modes), every failed host present with code error and its (possibly unwrapped) message, every answering host present; (order-dependent:<component>) every component of the canonical result except timings equal to the identity-order run; (streaming-final-differs:<component>) RunStreaming result equal to Run result. When several oracles fire on one input an extra choice point selects which one the execution reports, so no finding masks another. state = (mode, set of hosts merged so far) plus the canonical partial result handed to the sse sender after each answering host; non-trivial = non-identity order with >= 2 answering hosts, distinct by (mode, order, whether rows merged)",
		Cases: c15Cases,
		Bound: func(string) int { return 0 },
		Run:   c15RunScenario,
		Setup: func(string) {
			// the aggregator logs every query and every failed host through the global slog logger
			slog.SetDefault(slog.New(slog.DiscardHandler))
			debug.SetGCPercent(800) // tiny live heap, heavy churn: collect less often
		},
		Assumptions: []string{
			"the aggregator reads exactly one channel sequentially in the caller's goroutine, hence arrival order on that channel is the only effect of host-goroutine interleaving (the fan-in of plugins/querier/apiclient itself is not executed; error results are built exactly as it builds them)",
			"keepalive channel closed and empty: no keepalive event, no timer; Summary.Timings excluded from every comparison",
			"all hosts report the same Query block; HostID is a function of the hostname; timestamps are time.Unix values in the process' local zone, as the query engine and the time binner produce them",
		},
	})
}

// Package scen holds one scenario (driver + oracle) per property.
package scen

import (
	"sort"

	"verifmc/explore"
)

// All maps scenario key ("C18", "C18.iter", …) to its scenario. A property may
// own several scenarios; the driver runs every scenario whose ID matches.
var All = map[string]*explore.Scenario{}

func register(key string, s *explore.Scenario) {
	if _, dup := All[key]; dup {
		panic("duplicate scenario " + key)
	}
	All[key] = s
}

// ForProperty lists the scenario keys of one property in a fixed order.
func ForProperty(id string) []string {
	var out []string
	for k, s := range All {
		if s.ID == id {
			out = append(out, k)
		}
	}
	sort.Strings(out)
	return out
}

func one(string) int { return 1 }

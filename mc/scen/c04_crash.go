package scen

import (
	"fmt"
	"os"
	"path/filepath"
	"strings"
	"syscall"

	"github.com/els0r/goProbe/v4/pkg/goDB"
	"github.com/els0r/goProbe/v4/pkg/goDB/encoder/encoders"
	"github.com/els0r/goProbe/v4/pkg/goDB/engine"
	"github.com/els0r/goProbe/v4/pkg/goDB/storage/gpfile"
	"github.com/els0r/goProbe/v4/pkg/types"

	"verifmc/explore"
	"verifmc/fixture"
)

// C04 (crash during a write-out) and C05 (failed I/O during a write-out) share
// the history generator and the consistency oracle.

// A history is a sequence of write-outs; each next write-out is chosen relative
// to the previous ones: 0 = same interface, next block of the same day; 1 = same
// interface, first block of the next day; 2 = same interface, first day of the
// next month; 3 = the other interface at the same timestamp as the previous one.
var woKinds = []string{"same-day", "next-day", "next-month", "other-iface"}

func woHistory(code, n int) []fixture.Block {
	// second half of the case space: the second write-out carries no flows at all (an idle
	// interval: no column file is touched, only the metadata is rewritten)
	variant := (code / woHistories(n)) % 3
	emptySecond := variant == 1
	// third part of the case space (thorough, 4 write-outs): the LAST write-out is the idle one, so that it
	// follows a write-out that may have been interrupted on a day that already carries a suffix
	emptyLast := variant == 2 && n >= 4
	code %= woHistories(n)
	var out []fixture.Block
	iface, ts := "eth0", tA1
	recsets := [][]fixture.Rec{{r4a, r6a, r4c}, {r4b, r6b}, {r4a, r4d, r6c, r6d}, {r6a}, {r4e, r4a}}
	for i := 0; i < n; i++ {
		if i > 0 {
			k := code % 4
			code /= 4
			switch k {
			case 0:
				ts += 300
			case 1:
				ts = gpfile.DirTimestamp(ts) + 86400 + 300
			case 2:
				ts = dayDec + 300 + int64(i)*300
			case 3:
				if iface == "eth0" {
					iface = "eth1"
				} else {
					iface = "eth0"
				}
			}
		}
		// never write a timestamp twice / backwards for one interface
		for _, b := range out {
			if b.Iface == iface && b.TS >= ts {
				ts = b.TS + 300
			}
		}
		rs := recsets[i%len(recsets)]
		if (emptySecond && i == 1) || (emptyLast && i == n-1) {
			rs = nil
		}
		scaled := make([]fixture.Rec, len(rs))
		for j, r := range rs {
			scaled[j] = scale(r, uint64(i+1))
		}
		drops := uint64(i + 1)
		if (emptySecond && i == 1) || (emptyLast && i == n-1) {
			drops = 0 // an interval in which nothing at all happened: the day's totals (and its directory suffix) do not change
		}
		out = append(out, fixture.Block{Iface: iface, TS: ts, Recs: scaled, Drops: drops})
	}
	return out
}

// woHistories is the number of distinct write-out kind sequences of length n.
func woHistories(n int) int {
	k := 1
	for i := 1; i < n; i++ {
		k *= 4
	}
	return k
}

func woDescribe(h []fixture.Block) string {
	var p []string
	for _, b := range h {
		p = append(p, fmt.Sprintf("%s@%d(%d flows)", b.Iface, b.TS, len(b.Recs)))
	}
	return strings.Join(p, " ")
}

func has(l []string, s string) bool {
	for _, x := range l {
		if x == s {
			return true
		}
	}
	return false
}

func ifacesOf(bs []fixture.Block) []string {
	db := fixture.DB{Blocks: bs}
	return db.Ifaces()
}

const woQueryType = "sip,dip,dport,proto,time"

// dbMatches reports "" if the database on disk shows exactly the blocks `want`
// (through the query engine and through the interface listing), else a description.
func dbMatches(dbPath string, want []fixture.Block, alsoIfaces ...string) string {
	ifs := ifacesOf(want)
	// interfaces that must show NO data (e.g. the interface of a failed first write-out)
	for _, iface := range alsoIfaces {
		if has(ifs, iface) {
			continue
		}
		if _, err := os.Stat(filepath.Join(dbPath, iface)); err != nil {
			continue // no directory at all: nothing can be visible
		}
		res, err := fixture.RunQuery(dbPath, woQueryType, iface, "", 0, 1<<40, false)
		if err != nil {
			return "query failed: " + err.Error()
		}
		if len(res.Rows) != 0 {
			return fmt.Sprintf("query rows: %d unexpected rows on %s, e.g. %s", len(res.Rows), iface, res.Rows[0].String())
		}
		// a block without flows is invisible to queries: the listing must not count it either
		if wm, err := goDB.NewDBWorkManager(goDB.NewMetadataQuery(), dbPath, iface, 1); err == nil {
			im, err := wm.ReadMetadata(0, 1<<40)
			if err != nil {
				return "listing of " + iface + " failed: " + err.Error()
			}
			if im.Stats != (gpfile.Stats{}) {
				return fmt.Sprintf("listing of %s shows %+v, nothing is committed there", iface, im.Stats)
			}
		}
	}
	if len(ifs) == 0 {
		return ""
	}
	db := fixture.DB{Blocks: want}
	res, err := fixture.RunQuery(dbPath, woQueryType, strings.Join(ifs, ","), "", 0, 1<<40, false)
	if err != nil {
		return "query failed: " + err.Error()
	}
	got, dup := fixture.RowsOf(res)
	if dup != nil {
		return "query returns group twice: " + dup.String()
	}
	ref := db.Aggregate(fixture.QuerySpec{Attrs: c08Attrs, Time: true, Iface: true, Ifaces: ifs, First: 0, Last: 1 << 40})
	if d := fixture.DiffRows(got, ref); d != "" {
		return "query rows: " + d
	}
	for _, iface := range ifs {
		wm, err := goDB.NewDBWorkManager(goDB.NewMetadataQuery(), dbPath, iface, 1)
		if err != nil {
			return "listing: " + err.Error()
		}
		im, err := wm.ReadMetadata(0, 1<<40)
		if err != nil {
			return "listing of " + iface + " failed: " + err.Error()
		}
		var st gpfile.Stats
		for _, b := range want {
			if b.Iface != iface {
				continue
			}
			st.Traffic.NumDrops += b.Drops
			for _, r := range b.Recs {
				if r.IsV4() {
					st.Traffic.NumV4Entries++
				} else {
					st.Traffic.NumV6Entries++
				}
				st.Counts.Add(r.C)
			}
		}
		if im.Stats != st {
			return fmt.Sprintf("listing of %s shows %+v, blocks sum to %+v", iface, im.Stats, st)
		}
	}
	return ""
}

// blocksOnDisk counts, per (iface, day), the blocks a fresh reader sees (through the day's metadata).
func inflightVisible(dbPath string, b fixture.Block, committedSameDay int) (visible bool, err error) {
	d := gpfile.NewDirReader(filepath.Join(dbPath, b.Iface), b.TS, "")
	if e := d.Open(); e != nil {
		if committedSameDay == 0 {
			return false, nil // day not (yet) visible at all
		}
		return false, e
	}
	defer d.Close()
	n := d.NBlocks()
	switch n {
	case committedSameDay:
		return false, nil
	case committedSameDay + 1:
		return true, nil
	}
	return false, fmt.Errorf("day of %s@%d shows %d blocks, %d were committed before the interrupted write-out", b.Iface, b.TS, n, committedSameDay)
}

func sameDayCount(bs []fixture.Block, b fixture.Block) int {
	n := 0
	for _, c := range bs {
		if c.Iface == b.Iface && gpfile.DirTimestamp(c.TS) == gpfile.DirTimestamp(b.TS) {
			n++
		}
	}
	return n
}

// c04QuickLong: codes of the 4-write-out histories of the quick tier (variant 2 = idle last write-out).
var c04QuickLong = []int{2*64 + 1, 2*64 + 0, 2*64 + 3}

func c04Run(x *explore.Ctx) {
	gpfile.VerifResetPools()
	n := 3
	if x.Thorough() {
		n = 4
	}
	code := x.Case
	if !x.Thorough() && x.Case >= 32 {
		// three histories of FOUR write-outs in the quick tier: the last one idle (no flows, no drops) after
		// {next day, same day} / {same day, same day} / {other interface, same day}: a kill can hit a day that
		// already carries a suffix and be followed by a write-out that does not change the day's totals
		n, code = 4, c04QuickLong[x.Case-32]
	}
	hist := woHistory(code, n)
	dbPath := fixture.NewDir()
	defer os.RemoveAll(dbPath)
	ctl := &fsCtl{x: x, mode: fsCrash, root: dbPath, partial: x.Thorough()}
	x.Logf("history: %s", woDescribe(hist))

	var committed []fixture.Block
	var lagging *fixture.Block // write-out after whose kill the day's directory suffix lags (known finding), not yet repaired
	crashes := 0
	for i, b := range hist {
		ctl.phase, ctl.nstep, ctl.hit = fmt.Sprintf("w%d", i), 0, ""
		ctl.armed = x.Budget() > 0
		err, crashed := fsRun(ctl, func() error { return fixture.WriteBlock(dbPath, b, encoders.EncoderTypeLZ4) })
		ctl.armed = false
		x.Transition()
		if !crashed {
			if err != nil {
				x.Fail("write-failed-without-fault", "write-out %d (%s@%d) failed although nothing was injected (after %d earlier crashes): %v", i, b.Iface, b.TS, crashes, err)
				return
			}
			committed = append(committed, b)
			if lagging != nil && lagging.Iface == b.Iface && gpfile.DirTimestamp(lagging.TS) == gpfile.DirTimestamp(b.TS) {
				lagging = nil // this write-out went to the day with the lagging suffix: from now on everything must agree again
			}
			if crashes > 0 && lagging == nil {
				// the first write-outs after a crash must leave a consistent database as well
				if d := dbMatches(dbPath, committed); d != "" {
					x.Fail("after-recovery:"+stepClass(ctl.hitOp), "history [%s], %s: after the following write-out %d the database is wrong: %s", woDescribe(hist), ctl.lastHit(), i, d)
					return
				}
			}
			continue
		}
		crashes++
		x.Logf("write-out %d: %s", i, ctl.hit)
		x.Nontrivial("%d %d %s", x.Case, i, ctl.hit)
		x.State([]byte(fmt.Sprintf("%d|%d|%s", x.Case, i, strings.Join(fixture.TreeOf(dbPath), ";"))))
		// ---- the tree is now exactly what a kill at that point leaves behind
		vis, verr := inflightVisible(dbPath, b, sameDayCount(committed, b))
		if verr != nil {
			x.Fail("day-unreadable:"+stepClass(ctl.hitOp), "history [%s], write-out %d %s: %v", woDescribe(hist), i, ctl.hit, verr)
			return
		}
		want := committed
		if vis {
			want = append(append([]fixture.Block{}, committed...), b)
		}
		if d := dbMatches(dbPath, want, b.Iface); d != "" {
			// The recorded finding (directory suffix lags behind after a kill between the two renames) lasts "until
			// the next write-out to that day". One branch reports it here; the other goes on, so that the history
			// behind it - in particular the write-out that has to repair the suffix - is explored as well.
			if stepClass(ctl.hitOp) == "rename:daydir->daydir" && dClass(d) == "listing-disagrees" && i < len(hist)-1 &&
				x.Choose(2, fmt.Sprintf("suffix lag after w%d: report | continue", i)) == 1 {
				lagging = &hist[i]
				ctl.saveHit()
				committed = want
				continue
			}
			x.Fail("inconsistent:"+stepClass(ctl.hitOp)+":"+dClass(d), "history [%s], write-out %d %s (in-flight block visible: %v): %s", woDescribe(hist), i, ctl.hit, vis, d)
			return
		}
		ctl.saveHit()
		committed = want
	}
	if lagging != nil {
		x.Obs("suffix still lagging at the end")
		return
	}
	if d := dbMatches(dbPath, committed); d != "" {
		x.Fail("final:"+stepClass(ctl.hitOp), "history [%s], %s: final database is wrong: %s", woDescribe(hist), ctl.lastHit(), d)
		return
	}
	x.Obs("%d crashes, %d blocks", crashes, len(committed))
}

// dClass reduces an oracle message to its kind.
func dClass(d string) string {
	switch {
	case strings.HasPrefix(d, "query failed"):
		return "query-failed"
	case strings.HasPrefix(d, "query rows"):
		return "query-rows"
	case strings.HasPrefix(d, "listing of") && strings.Contains(d, "failed"):
		return "listing-failed"
	case strings.HasPrefix(d, "listing"):
		return "listing-disagrees"
	}
	return "other"
}

var lastHits = map[*fsCtl]string{}

func (c *fsCtl) saveHit() { lastHits[c] = c.hit }
func (c *fsCtl) lastHit() string {
	h := lastHits[c]
	delete(lastHits, c)
	if h == "" {
		return c.hit
	}
	return h
}

var _ = engine.NewQueryRunner
var _ = types.Counters{}

func init() {
	register("C04", &explore.Scenario{
		ID: "C04", Name: "kill at every mutating file-system step of every write-out", Level: "fault_enumeration",
		Rule: "cases = all histories of 3 (thorough 4) write-outs where each next write-out is {next block same day, first block next day, first day of next month, other interface}: 16 (64) histories, each also with a second write-out that carries neither flows nor drops (the day's totals and directory suffix stay as they are; thorough: also with such a LAST write-out; quick: three histories of 4 write-outs with an idle last one); the real DBWriter.Write runs over the vos shim; before EVERY mutating step (mkdir, open-create, write, chmod, rename, unlink) of every write-out one deviation = the process is killed there (thorough: also inside every write after 1..n-1 bytes for writes <=64 B, else after 1, n/2, n-1 bytes; and a second kill in a later write-out, bound 2). After the kill the tree is inspected without the shim: the in-flight block is visible or not (atomic), the query engine (raw+time) and ReadMetadata succeed and equal the reference for exactly the visible blocks; then the remaining write-outs run and are checked again (after the recorded suffix-lag finding one branch reports it, another continues: the next write-out to that day must repair the suffix). non-trivial = every execution with a kill, distinct by (history, write-out, step)",
		Cases: func(t string) int {
			if t == "thorough" {
				return 192
			}
			return 32 + len(c04QuickLong)
		},
		Bound: func(t string) int {
			if t == "thorough" {
				return 2
			}
			return 1
		},
		Run:      c04Run,
		PanicSig: "panic",
		Setup:    func(string) { engine.VerifSetNumProcessingUnits(1) },
		Assumptions: []string{"process kill semantics: completed system calls persist in order (no power loss; goProbe never calls fsync)",
			"one file-system step = one system call of the vos shim (MkdirAll/RemoveAll/WriteFile/CreateTemp decomposed)"},
	})
}

// ---- C05: failed I/O during a write-out -------------------------------------------

func c05Run(x *explore.Ctx) {
	gpfile.VerifResetPools()
	n := 3
	hist := woHistory(x.Case, n)
	dbPath := fixture.NewDir()
	defer os.RemoveAll(dbPath)
	ctl := &fsCtl{x: x, mode: fsFault, root: dbPath}
	x.Logf("history: %s", woDescribe(hist))
	var committed []fixture.Block
	faults := 0
	for i, b := range hist {
		ctl.phase, ctl.nstep, ctl.hit = fmt.Sprintf("w%d", i), 0, ""
		ctl.armed = x.Budget() > 0
		err, crashed := fsRun(ctl, func() error { return fixture.WriteBlock(dbPath, b, encoders.EncoderTypeLZ4) })
		ctl.armed = false
		x.Transition()
		if crashed {
			explore.HarnessErrorf("unexpected crash in fault mode")
		}
		injected := ctl.hit != ""
		if injected {
			faults++
			x.Logf("write-out %d: %s -> Write returned %v", i, ctl.hit, err)
			x.Nontrivial("%d %d %s", x.Case, i, ctl.hit)
			x.State([]byte(fmt.Sprintf("%d|%d|%v|%s", x.Case, i, err == nil, strings.Join(fixture.TreeOf(dbPath), ";"))))
		}
		cls := "none"
		if injected {
			cls = stepClass(ctl.hitOp) + ":" + errnoName(ctl.hitErr.(interface{ Error() string }).(syscallErrno))
		}
		if err != nil {
			if !injected {
				x.Fail("write-failed-without-fault", "history [%s]: write-out %d failed although nothing was injected into it (earlier faults: %d): %v", woDescribe(hist), i, faults, err)
				return
			}
			// (i) an error was reported: the database must hold exactly the previously committed data
			if d := dbMatches(dbPath, committed, b.Iface); d != "" {
				x.Fail("error-but-damaged:"+cls+":"+dClass(d), "history [%s], write-out %d: %s; Write returned %q, but the database no longer equals the previously committed data: %s", woDescribe(hist), i, ctl.hit, err, d)
				return
			}
			continue
		}
		// (ii) Write returned nil: the block must be committed and consistent
		committed = append(committed, b)
		if injected || faults > 0 {
			if d := dbMatches(dbPath, committed); d != "" {
				sig := "nil-but-wrong:" + cls + ":" + dClass(d)
				if !injected {
					sig = "after-fault:" + dClass(d)
				}
				x.Fail(sig, "history [%s], write-out %d: %s; Write returned nil, but the database does not equal committed data + this block: %s", woDescribe(hist), i, ctl.hit, d)
				return
			}
		}
	}
	if d := dbMatches(dbPath, committed); d != "" {
		x.Fail("final:"+dClass(d), "history [%s]: final database is wrong: %s", woDescribe(hist), d)
		return
	}
	x.Obs("%d faults, %d blocks", faults, len(committed))
}

type syscallErrno = syscall.Errno

func init() {
	register("C05", &explore.Scenario{
		ID: "C05", Name: "errno injection at every file-system call of every write-out", Level: "fault_enumeration",
		Rule:  "cases = the 32 histories of 3 write-outs of C04 (16 kind sequences x second write-out with / without flows); at EVERY file-system step (mutating or not: stat, readdir, open, read, mkdir, write, close, chmod, rename, unlink) of every write-out one deviation = that call fails with one of the errnos it can return (ENOSPC, EIO, EACCES/EPERM; writes also as a short write + ENOSPC); at most one fault per write-out, bound 1 (thorough 2: faults in two different write-outs). Oracle: Write returned an error => the database read back through the query engine and the listing equals the previously committed data; Write returned nil => committed data + this block; later fault-free write-outs succeed and the final database equals the reference without the failed write-outs. non-trivial = executions with an injected fault, distinct by (history, write-out, step, errno)",
		Cases: func(t string) int { return 32 },
		Bound: func(t string) int {
			if t == "thorough" {
				return 2
			}
			return 1
		},
		Run:         c05Run,
		PanicSig:    "panic",
		Setup:       func(string) { engine.VerifSetNumProcessingUnits(1) },
		Assumptions: []string{"a failed call has no effect on the tree (a short write leaves the written prefix)", "one file-system step = one system call of the vos shim"},
	})
}

package scen

import (
	"bytes"
	"fmt"
	"os"

	"github.com/els0r/goProbe/v4/pkg/capture"
	"github.com/els0r/goProbe/v4/pkg/capture/capturetypes"

	"verifmc/explore"
)

// C23: the local packet buffer is a bounded FIFO that preserves every field.
//
// Reference model: a Go slice of items (the queue) plus the number of bytes
// accepted since the last Reset, where an item accounts for len(key)+7 bytes
// (the element size documented at bufElementAddSize). Oracle, from the
// statement only:
//   - every Next returns the head of the model queue, field by field
//     (IP version, flow key, packet type, auxiliary byte, parse status, size),
//     and reports "empty" exactly when the model queue is empty;
//   - a refused Add is justified only if accepted bytes + item bytes >= limit;
//   - a refused Add changes neither Usage() nor anything drained afterwards.
//
// A size mismatch is reported last (after every other check of the execution
// has run) so that it cannot hide a different failure.

type c23Item struct {
	v4    bool
	key   []byte
	typ   byte
	aux   byte
	errno capturetypes.ParsingErrno
	size  uint32
	h     uint64 // content hash (harness bookkeeping)
}

func (it c23Item) String() string {
	v := "v6"
	if it.v4 {
		v = "v4"
	}
	return fmt.Sprintf("{%s key=%x type=%d aux=%#x errno=%d size=%d}", v, it.key, it.typ, it.aux, it.errno, it.size)
}

func (it c23Item) bytes() int { return len(it.key) + capture.VerifBufElementAddSize }

var (
	c23Types  = []byte{0, 4, 0xff, 1}
	c23Auxs   = []byte{0, 0x12, 0xff}
	c23Errnos = []capturetypes.ParsingErrno{-1, 0, 1, 2, -128, 127}
	c23Sizes  = []uint32{0, 1, 1500, 65535, 1<<24 - 1, 1 << 24, 1<<32 - 1}
	c23Edge   = []byte{0x00, 0xff, 0x01}
)

func c23KeyLen(v4 bool) int {
	if v4 {
		return capturetypes.EPHashSizeV4
	}
	return capturetypes.EPHashSizeV6
}

// c23Key builds a flow key: pattern 0 = position dependent bytes, 1 = all zero, 2 = all 0xff.
func c23Key(v4 bool, seed, pattern int) []byte {
	k := make([]byte, c23KeyLen(v4))
	switch pattern {
	case 1:
	case 2:
		for j := range k {
			k[j] = 0xff
		}
	default:
		for j := range k {
			k[j] = byte(seed*37 + j*11 + 1)
		}
		k[0] = c23Edge[seed%3]
		k[len(k)-1] = c23Edge[(seed/3+1)%3]
	}
	return k
}

// c23StepItem is the item inserted at history step i (fields cycle with co-prime periods).
func c23StepItem(i int, v4 bool) c23Item {
	return c23Item{v4: v4, key: c23Key(v4, i, 0), typ: c23Types[i%4], aux: c23Auxs[i%3],
		errno: c23Errnos[(i/2)%6], size: c23Sizes[i%7]}
}

type c23State struct {
	x     *explore.Ctx
	limit int
	pool  *capture.LocalBufferPool
	buf   *capture.LocalBuffer
	queue []*c23Item // accepted items; queue[qh:] are not yet drained
	qh    int
	used  int    // bytes accepted since the last Reset (len(key)+7 per item)
	seq   uint64 // rolling hash of everything accepted/drained (outcome + state key)
	tmp   []byte

	drained, accepted, refused, growths int
	pendSig, pendMsg                    string
}

// model-side scratch memory reused between executions (never the real object)
var (
	c23QueueBuf = make([]*c23Item, 0, 1024)
	c23TmpBuf   = make([]byte, 0, 64)
)

func c23New(x *explore.Ctx, limit int) *c23State {
	s := &c23State{x: x, limit: limit, tmp: c23TmpBuf[:0], queue: c23QueueBuf[:0], seq: 14695981039346656037}
	s.pool = capture.NewLocalBufferPool(1, limit)
	s.buf = capture.NewLocalBuffer(s.pool)
	s.buf.Assign(s.pool.Get(c23Page)) // the lock request carries memPool.Get(initialElementSize), see ThreePointLock.Lock
	return s
}

func (s *c23State) mix(v uint64) { s.seq = (s.seq ^ v) * 1099511628211 }

func (s *c23State) pending() int { return len(s.queue) - s.qh }

func c23ItemHash(it c23Item) uint64 {
	h := uint64(len(it.key))<<56 ^ uint64(it.typ)<<48 ^ uint64(it.aux)<<40 ^ uint64(uint8(it.errno))<<32 ^ uint64(it.size)
	for _, b := range it.key {
		h = (h ^ uint64(b)) * 1099511628211
	}
	return h
}

// event registers the canonical state (positions, data length, accepted/drained sequence).
func (s *c23State) event() {
	w, r, n := capture.VerifBufState(s.buf)
	s.x.StateKey(s.seq ^ uint64(w)<<44 ^ uint64(r)<<24 ^ uint64(n))
}

// realAdd calls Add; a panic of the code under test is re-raised with the
// failing input (the explorer still finds the repository frame below).
func (s *c23State) realAdd(it *c23Item, w0, n0 int) bool {
	defer func() {
		if e := recover(); e != nil {
			panic(fmt.Sprintf("%v — Add of a %d-byte key after %d accepted items, %d bytes written, data length %d, size limit %d", e, len(it.key), s.accepted, w0, n0, s.limit))
		}
	}()
	return s.buf.Add(s.tmp, it.typ, it.size, it.v4, it.aux, it.errno)
}

// add inserts one item into the real buffer and the model and checks a refusal.
func (s *c23State) add(it *c23Item) (ok bool) {
	x := s.x
	w0, r0, n0 := capture.VerifBufState(s.buf)
	u0 := s.buf.Usage()
	s.tmp = append(s.tmp[:0], it.key...)
	ok = s.realAdd(it, w0, n0)
	s.tmp[0] ^= 0x5a // the caller's key buffer is reused for the next packet
	s.tmp[len(s.tmp)-1] ^= 0x5a
	x.Transition()
	if x.Logging() {
		w1, r1, n1 := capture.VerifBufState(s.buf)
		x.Logf("Add%v -> %v   (written %d->%d, read %d, data %d->%d, limit %d)", *it, ok, w0, w1, r1, n0, n1, s.limit)
	}
	if ok {
		s.queue = append(s.queue, it)
		if cap(s.queue) > cap(c23QueueBuf) {
			c23QueueBuf = s.queue[:0]
		}
		s.used += it.bytes()
		s.accepted++
		s.mix(it.h)
		if _, _, n1 := capture.VerifBufState(s.buf); n1 != n0 {
			s.growths++
			s.event()
			if s.pending() > 1 {
				x.NontrivialKey(uint64(n0)<<40 ^ uint64(n1)<<20 ^ uint64(w0)<<4 ^ uint64(len(it.key)&3)<<2 ^ 1)
			}
		}
		return ok
	}
	s.refused++
	s.mix(0xdead)
	s.event()
	x.NontrivialKey(uint64(n0)<<40 ^ uint64(w0)<<20 ^ uint64(r0)<<4 ^ uint64(len(it.key)&3)<<2 ^ 2)
	if s.used+it.bytes() < s.limit {
		x.Fail("refused-below-limit", "Add%v refused although only %d bytes (%d items pending) were accepted since the last Reset and the item needs %d: %d < limit %d",
			*it, s.used, s.pending(), it.bytes(), s.used+it.bytes(), s.limit)
		return ok
	}
	if u1 := s.buf.Usage(); u1 != u0 {
		x.Fail("refusal-changed-usage", "refused Add%v changed Usage() from %v to %v", *it, u0, u1)
	}
	return ok
}

// next takes one item from the real buffer and compares it with the model head.
// Returns false when the execution should stop (violation or empty).
func (s *c23State) next() bool {
	x := s.x
	key, typ, size, v4, aux, errno, ok := s.buf.Next()
	x.Transition()
	if s.pending() == 0 {
		if ok {
			x.Fail("drain-phantom", "Next() yields an item {v4=%v key=%x type=%d aux=%#x errno=%d size=%d} although every inserted item was already taken", v4, key, typ, aux, errno, size)
		}
		return false
	}
	want := s.queue[s.qh]
	if !ok {
		x.Fail("drain-lost", "Next() reports empty, %d accepted items were not returned; next expected %v", s.pending(), *want)
		return false
	}
	if x.Logging() {
		x.Logf("Next -> {v4=%v key=%x type=%d aux=%#x errno=%d size=%d}", v4, key, typ, aux, errno, size)
	}
	s.qh++
	s.drained++
	s.mix(uint64(s.drained) << 8)
	switch {
	case v4 != want.v4:
		x.Fail("field-ipversion", "item %d: inserted %v, Next() returned isIPv4=%v", s.drained, *want, v4)
		return false
	case !bytes.Equal(key, want.key):
		x.Fail("field-key", "item %d: inserted %v, Next() returned key %x", s.drained, *want, key)
		return false
	case typ != want.typ:
		x.Fail("field-type", "item %d: inserted %v, Next() returned packet type %d", s.drained, *want, typ)
		return false
	case aux != want.aux:
		x.Fail("field-aux", "item %d: inserted %v, Next() returned auxiliary byte %#x", s.drained, *want, aux)
		return false
	case errno != want.errno:
		x.Fail("field-errno", "item %d: inserted %v, Next() returned parse status %d", s.drained, *want, errno)
		return false
	}
	if size != want.size && s.pendSig == "" {
		follow := "last"
		if s.pending() > 0 {
			follow = "followed-by-v6"
			if s.queue[s.qh].v4 {
				follow = "followed-by-v4"
			}
		}
		sig := "field-size"
		if size&0x00ffffff == want.size&0x00ffffff {
			sig = "field-size-top-byte:" + follow
		}
		s.pendSig = sig
		s.pendMsg = fmt.Sprintf("item %d (%s in the buffer): inserted %v, Next() returned size %d (%#x instead of %#x)", s.drained, follow, *want, size, size, want.size)
		if x.Logging() {
			x.Logf("  size mismatch noted (%s), continuing with the remaining checks", sig)
		}
	}
	return true
}

// take1 takes one item (or checks the empty report).
func (s *c23State) take1() bool {
	s.next()
	s.event()
	return !s.x.Failed()
}

// drainAll takes items until the model is empty and checks the empty report.
func (s *c23State) drainAll() bool {
	for s.pending() > 0 {
		if !s.next() {
			return false
		}
	}
	s.next() // must report empty
	s.event()
	return !s.x.Failed()
}

func (s *c23State) reset(recycle bool) {
	s.buf.Reset()
	s.queue, s.qh = s.queue[:0], 0
	s.used = 0
	s.mix(0xbeef)
	if recycle {
		// what capture.go / the lock do between two pauses: release to the pool, claim again, Assign
		s.pool.Put(capture.VerifBufData(s.buf))
		s.buf.Assign(s.pool.Get(c23Page))
		s.mix(0xcafe)
	}
	s.x.Transition()
	s.event()
}

// finish reports the deferred size finding if nothing else failed.
func (s *c23State) finish() {
	s.x.Obs("acc=%d ref=%d drained=%d grow=%d seq=%x", s.accepted, s.refused, s.drained, s.growths, s.seq)
	if s.pendSig != "" {
		s.x.Fail(s.pendSig, "%s", s.pendMsg)
	}
}

var c23Page = os.Getpagesize()

// limit tables (P = page size = initial buffer size)
func c23Limits(key, tier string) []int {
	P := c23Page
	thorough := tier == "thorough"
	switch key {
	case "C23":
		if thorough {
			return []int{100, P, P + 1, P + 2, P + 3, P + 4, P + 8, P + 20, P + 21, P + 24, P + 37, P + 38, P + 44, P + 45}
		}
		return []int{100, P, P + 1, P + 4, P + 21, P + 45}
	case "C23.grow":
		if thorough {
			return []int{2 * P, 2*P + 4, 2*P + 21}
		}
		return []int{2 * P, 2*P + 4, 2*P + 21, 3 * P}
	default: // C23.limits
		var l []int
		for d := -1; d <= 46; d++ {
			l = append(l, P+d)
		}
		if thorough {
			for d := -1; d <= 46; d++ {
				l = append(l, 2*P+d, 4*P+d)
			}
			l = append(l, 1, 5000, 6000, 10000, 3*P, 8*P, 16*P, 100000)
		}
		return l
	}
}

var c23Patterns = []string{"v4,v6,v4,…", "v6,v4,v6,…", "all v4", "all v6"}

func c23PatternV4(p, step int) bool {
	switch p {
	case 0:
		return step%2 == 0
	case 1:
		return step%2 == 1
	case 2:
		return true
	}
	return false
}

// item table: c23Tbl[step][0] = IPv6 item of that step, [1] = IPv4 item
var c23Tbl [][2]c23Item

func c23TblItem(step int, v4 bool) *c23Item {
	for len(c23Tbl) <= step {
		i := len(c23Tbl)
		a, b := c23StepItem(i, false), c23StepItem(i, true)
		a.h, b.h = c23ItemHash(a), c23ItemHash(b)
		c23Tbl = append(c23Tbl, [2]c23Item{a, b})
	}
	if v4 {
		return &c23Tbl[step][1]
	}
	return &c23Tbl[step][0]
}

// A deviation replaces/precedes the default Add of one history step.
type c23Dev struct{ pos, kind int }

var c23Kinds = []string{"", "other-version", "take1", "take-all", "take-all+Reset", "take-all+Reset+recycle"}

// c23DryLen runs the history (with the given deviations, no oracle) on a fresh
// real buffer and returns the index of the first refused step. It only sizes
// the next choice point; a panic ends the dry run at the panicking step.
func c23DryLen(limit, pat int, devs []c23Dev) (n int) {
	defer func() { _ = recover() }()
	pool := capture.NewLocalBufferPool(1, limit)
	buf := capture.NewLocalBuffer(pool)
	buf.Assign(pool.Get(c23Page))
	tmp := make([]byte, 0, 64)
	di := 0
	for step := 0; ; step++ {
		n = step
		kind := 0
		if di < len(devs) && devs[di].pos == step {
			kind = devs[di].kind
			di++
		}
		switch kind {
		case 2:
			buf.Next()
		case 3, 4, 5:
			for {
				if _, _, _, _, _, _, ok := buf.Next(); !ok {
					break
				}
			}
			if kind >= 4 {
				buf.Reset()
			}
			if kind == 5 {
				pool.Put(capture.VerifBufData(buf))
				buf.Assign(pool.Get(c23Page))
			}
		}
		it := c23TblItem(step, c23PatternV4(pat, step) != (kind == 1))
		tmp = append(tmp[:0], it.key...)
		if !buf.Add(tmp, it.typ, it.size, it.v4, it.aux, it.errno) {
			return step
		}
		if step > 200000 {
			explore.HarnessErrorf("C23: dry run does not end (limit %d)", limit)
		}
	}
}

type c23LenKey struct {
	scen       string
	cas        int
	pos1, kind int
}

var (
	c23LenMemoKey c23LenKey
	c23LenMemoVal = -1
)

func c23HistoryLen(scen string, cas, limit, pat int, devs []c23Dev) int {
	k := c23LenKey{scen, cas, -1, 0}
	if len(devs) > 0 {
		k.pos1, k.kind = devs[0].pos, devs[0].kind
	}
	if c23LenMemoVal >= 0 && c23LenMemoKey == k {
		return c23LenMemoVal
	}
	c23LenMemoKey, c23LenMemoVal = k, c23DryLen(limit, pat, devs)
	return c23LenMemoVal
}

var c23BaseLen = map[c23LenKey]int{}

// c23MaxDevs is the number of deviations per history explored by a scenario/tier.
func c23MaxDevs(key, tier string) int {
	if key != "C23.limits" && tier == "thorough" {
		return 2
	}
	return 1
}

func c23FillRun(key string) func(x *explore.Ctx) {
	return func(x *explore.Ctx) {
		limits := c23Limits(key, x.Tier)
		idx := x.Case
		k1 := idx % 6 // kind of the first deviation (0 = none)
		idx /= 6
		pat := idx % len(c23Patterns)
		limit := limits[idx/len(c23Patterns)]
		bk := c23LenKey{key + x.Tier, x.Case, -1, 0}
		n0, ok := c23BaseLen[bk]
		if !ok {
			n0 = c23DryLen(limit, pat, nil)
			c23BaseLen[bk] = n0
		}
		// deviations: position (step index 0..n, n = the step that would be refused) and kind.
		// The first one is enumerated by the case (kind) and a free choice (position); the
		// scenario bound counts the further ones.
		var devs []c23Dev
		if k1 > 0 {
			d1 := c23Dev{x.Choose(n0+1, fmt.Sprintf("deviation1(%s)-at-step(max %d)", c23Kinds[k1], n0)), k1}
			devs = append(devs, d1)
			if c23MaxDevs(key, x.Tier) > 1 {
				n1 := c23HistoryLen(key+x.Tier, x.Case, limit, pat, devs)
				if n1 > d1.pos {
					if q := x.Deviate(n1-d1.pos+1, fmt.Sprintf("deviation2-steps-after-deviation1(0=none,max %d)", n1-d1.pos)); q > 0 {
						devs = append(devs, c23Dev{d1.pos + q, 1 + x.Choose(5, "kind2(other-version,take1,take-all,take-all+Reset,take-all+Reset+recycle)")})
					}
				}
			}
		}
		s := c23New(x, limit)
		if x.Logging() {
			x.Logf("limit=%d fill pattern=%s deviations=%v (kinds: %v)", limit, c23Patterns[pat], devs, c23Kinds[1:])
		}
		var last *c23Item
		step, di := 0, 0
		for ; ; step++ {
			if step > 200000 {
				explore.HarnessErrorf("C23: no refusal after %d steps (limit %d)", step, limit)
			}
			kind := 0
			if di < len(devs) && devs[di].pos == step {
				kind = devs[di].kind
				di++
				if x.Logging() {
					x.Logf("step %d: deviation %s", step, c23Kinds[kind])
				}
			}
			switch kind {
			case 2:
				if !s.take1() {
					return
				}
			case 3:
				if !s.drainAll() {
					return
				}
			case 4, 5:
				if !s.drainAll() {
					return
				}
				s.reset(kind == 5)
			}
			last = c23TblItem(step, c23PatternV4(pat, step) != (kind == 1))
			if !s.add(last) {
				break
			}
		}
		if x.Failed() {
			return
		}
		if di < len(devs) {
			explore.HarnessErrorf("C23: history ended at step %d before deviation %v (dry run mis-sized the choice)", step, devs[di])
		}
		// after the first refusal
		switch x.Choose(3, "after-refusal(0=drain,1=retry,2=other-version)") {
		case 1:
			if s.add(last) {
				x.Fail("refusal-not-repeatable", "Add%v was refused and the identical Add directly afterwards was accepted", *last)
				return
			}
		case 2:
			s.add(c23TblItem(step+1, !last.v4))
		}
		if x.Failed() {
			return
		}
		if !s.drainAll() {
			return
		}
		s.finish()
	}
}

// ---- all field values on adjacent items ------------------------------------

var c23FSizes = []uint32{0, 1, 1<<24 - 1, 1 << 24, 1<<32 - 1}

// quick tier: type/aux/parse status of item 2 are tied together
var c23FCombos = [][3]int{{0, 0, 0}, {1, 1, 1}, {2, 2, 2}, {0, 2, 3}}

func c23FieldsRun(x *explore.Ctx) {
	// case = version x size x key pattern of the first item
	c := x.Case
	v4 := c%2 == 0
	c /= 2
	size := c23FSizes[c%len(c23FSizes)]
	c /= len(c23FSizes)
	kp := c % 3
	errnos := c23Errnos
	if !x.Thorough() {
		errnos = c23Errnos[:4]
	}
	s := c23New(x, 1<<16)
	it1 := c23Item{v4: v4, key: c23Key(v4, 1, kp), size: size,
		typ:   c23Types[x.Choose(3, "type1")],
		aux:   c23Auxs[x.Choose(3, "aux1")],
		errno: errnos[x.Choose(len(errnos), "errno1")]}
	v42 := x.Choose(2, "v6?2") == 0
	it2 := c23Item{v4: v42, key: c23Key(v42, 2, x.Choose(3, "key2")), size: c23FSizes[x.Choose(len(c23FSizes), "size2")]}
	if x.Thorough() {
		it2.typ = c23Types[x.Choose(3, "type2")]
		it2.aux = c23Auxs[x.Choose(3, "aux2")]
		it2.errno = errnos[x.Choose(len(errnos), "errno2")]
	} else {
		cb := c23FCombos[x.Choose(len(c23FCombos), "type/aux/errno2")]
		it2.typ, it2.aux, it2.errno = c23Types[cb[0]], c23Auxs[cb[1]], errnos[cb[2]]
	}
	items := []c23Item{it1, it2}
	switch x.Choose(3, "third(0=none,1=v4,2=v6)") {
	case 1:
		items = append(items, c23StepItem(5, true))
	case 2:
		items = append(items, c23StepItem(5, false))
	}
	for i := range items {
		items[i].h = c23ItemHash(items[i])
		if !s.add(&items[i]) {
			return
		}
	}
	x.NontrivialKey(s.seq)
	if !s.drainAll() {
		return
	}
	s.finish()
}

func init() {
	assume := []string{"items are inserted with a flow key whose length matches the IP version flag (13 / 37 bytes), as ParsePacketV4/V6 produce them",
		"the buffer obtains its memory from a real LocalBufferPool exactly as capture.go / ThreePointLock do (Get(initial size), Assign, Put)",
		"item bytes = len(key)+7 as documented at bufElementAddSize; bytes accepted are counted since the last Reset"}
	for _, k := range []string{"C23", "C23.grow", "C23.limits"} {
		key := k
		bound := func(t string) int { return c23MaxDevs(key, t) - 1 }
		register(key, &explore.Scenario{
			ID: "C23", Name: "fill/drain histories of the real LocalBuffer vs a queue model (" + key + ")", Level: "model_checking",
			Rule:        "cases = size limits x 4 fill patterns (alternating starting v4 / starting v6, all v4, all v6) x kind of the first deviation (none + 5 kinds); limits (P = page = initial size): C23 = 100,P,P+1,P+4,P+21,P+45 (thorough 100,P,P+1,P+2,P+3,P+4,P+8,P+20,P+21,P+24,P+37,P+38,P+44,P+45), C23.grow = 2P,2P+4,2P+21,3P (thorough 2P,2P+4,2P+21), C23.limits = every value P-1..P+46 (thorough also 2P-1..2P+46, 4P-1..4P+46, 1, 5000, 6000, 10000, 3P, 8P, 16P, 100000); at most 1 deviation per history, in thorough 2 for C23 and C23.grow (the first deviation is enumerated by case and a free position choice, so the explorer's bound counts the second one: bound = deviations-1); default history = Add until the first refusal, field values cycling (type 0/4/255/1, aux 0/0x12/0xff, parse status -1,0,1,2,-128,127, size 0,1,1500,65535,2^24-1,2^24,2^32-1, key edge bytes 00/ff/01); at every step one deviation may insert the other IP version, take 1 item, take all, take all+Reset, or take all+Reset+release/re-acquire the pool slice first; all histories with at most that many deviations; after the refusal: drain / retry / other-version insert, then full drain. Every taken item is compared field by field with the model queue. state = (write position, read position, data length, hash of accepted sequence); non-trivial = distinct (growth with pending items | refusal) by positions and item kind",
			Cases:       func(t string) int { return len(c23Limits(key, t)) * len(c23Patterns) * 6 },
			Bound:       bound,
			Run:         c23FillRun(key),
			PanicSig:    "panic",
			Assumptions: assume,
		})
	}
	register("C23.fields", &explore.Scenario{
		ID: "C23", Name: "all field values on adjacent items of the real LocalBuffer", Level: "model_checking",
		Rule:        "cases = IP version x size {0,1,2^24-1,2^24,2^32-1} x key pattern {mixed,zeros,ff} of item 1; inside: item 1 type x aux x parse status, item 2 version x key pattern x type x aux x parse status x size (full product; parse status 4 values quick / 6 thorough), optional third item v4/v6; all inserted, all drained, compared field by field; distinct = distinct inserted sequences",
		Cases:       func(string) int { return 2 * len(c23FSizes) * 3 },
		Bound:       func(string) int { return 0 },
		Run:         c23FieldsRun,
		PanicSig:    "panic",
		Assumptions: assume,
	})
}

package scen

import (
	"errors"
	"fmt"
	"net/netip"
	"regexp"
	"runtime/debug"
	"sort"
	"strings"
	"sync"
	"time"

	"github.com/els0r/goProbe/v4/pkg/goDB/conditions"
	"github.com/els0r/goProbe/v4/pkg/goDB/conditions/node"
	"github.com/els0r/goProbe/v4/pkg/query"
	"github.com/els0r/goProbe/v4/pkg/verifshim/verifhook"

	"verifmc/explore"
	"verifmc/fixture"
)

// C10: condition text is parsed robustly and its canonical form keeps its meaning.
//
// Everything goes through the real query.Args.Prepare. Go's map iteration order
// over the sanitiser's rule table is not left to chance: for every input the
// rule groups that can ever rewrite a string reachable from it are computed
// (closure over the real compiled table) and ALL permutations of those groups
// are forced through the overlay's order hook; groups that can never fire are
// order-irrelevant. DNS is answered NXDOMAIN by the lookup hook.
//
// Oracles (per input, per order):
//
//	panic:<first repo frame>          Prepare / ParseAndInstrument / Sanitize crashed
//	canon-rejected:<tmpl>             Prepare accepted the input but rejects its own canonical string
//	canon-unparsable:<tmpl>           ... and ParseAndInstrument (what the query engine calls) rejects the canonical string
//	canon-not-idempotent:<tmpl>       canonical(canonical(x)) != canonical(x)
//	canon-meaning:<tmpl>              canonical string selects other flows than the sanitised original
//	rejected:<tmpl>                   a documented spelling of an accepted condition is rejected (C10.spell)
//	meaning:<tmpl>                    a documented spelling is accepted but selects other flows than the symbol form
//	map-order:accept-differs:<groups> the same input is accepted under one rule order and rejected under another
//	map-order:meaning-differs:<groups> accepted under all orders but selecting different flows
//
// For generated conditions rejected:/meaning: carry the minimal failing set of spelling
// deviations: every deviation that is not needed for the failure is reverted to the base
// symbol; the remaining spellings in rendering order form the signature — "and,not" for
// "C and not C". <tmpl> elsewhere names the input class: fuzz | generated | literal:<class> | host-word.

type c10Rule struct {
	re  *regexp.Regexp
	lit string // every match contains this literal ("" = unknown, always try)
}

type c10Group struct {
	name  string
	rules []c10Rule
}

// c10Literal derives a literal every match of the rule must contain, but only for
// expressions of the shapes <ws>Q<ws>, (^|<ws>)Q<ws>, (^|<ws>)Q[brace] and Q with Q a
// quoted literal; anything else gets no prefilter.
func c10Literal(src string) string {
	core := src
	for _, pre := range []string{`(^|\s+)`, `\s+`} {
		if strings.HasPrefix(core, pre) {
			core = core[len(pre):]
			break
		}
	}
	for _, suf := range []string{`\s+`, `[\(\[\{]`} {
		if strings.HasSuffix(core, suf) {
			core = core[:len(core)-len(suf)]
			break
		}
	}
	// unquote: only backslash-escaped punctuation and plain characters allowed
	var lit strings.Builder
	for i := 0; i < len(core); i++ {
		c := core[i]
		switch {
		case c == '\\' && i+1 < len(core) && strings.ContainsRune(`-*+|{}[]()`, rune(core[i+1])):
			i++
			lit.WriteByte(core[i])
		case c >= 'a' && c <= 'z', c == '&', c == '=', c == '-':
			lit.WriteByte(c)
		default:
			return ""
		}
	}
	return lit.String()
}

type c10Env struct {
	once    sync.Once
	groups  []c10Group // sorted by name, the order verifhook passes
	perm    []int      // permutation installed for site "tokenize" (nil = sorted order)
	capped  int
	hookErr string
	// memo of pure functions of the text (symbol-only grammar, no rule order involved)
	vecMemo  map[string]c10Vec
	prepMemo map[string]c10Out // only for texts without live rule groups
}

type c10Vec struct {
	vec     string
	err     error
	panSite string
}

var c10 c10Env

const c10MaxLive = 6 // 720 orders; more live groups than this are capped and reported

func (e *c10Env) init() {
	e.once.Do(func() {
		c09.init()
		tbl := conditions.VerifGrammarTable()
		for name, res := range tbl {
			g := c10Group{name: name}
			for _, re := range res {
				g.rules = append(g.rules, c10Rule{re: re, lit: c10Literal(re.String())})
			}
			e.groups = append(e.groups, g)
		}
		sort.Slice(e.groups, func(i, j int) bool { return e.groups[i].name < e.groups[j].name })
		verifhook.SetLookup(func(host string) ([]string, error) {
			return nil, fmt.Errorf("lookup %s: no such host", host)
		})
		verifhook.SetOrder(func(site string, keys []string) []int {
			if site != "tokenize" {
				return nil
			}
			// (no panic from inside the code under test: remember and let the caller raise it)
			if len(keys) != len(e.groups) {
				e.hookErr = fmt.Sprintf("order hook: %d keys, table has %d groups", len(keys), len(e.groups))
				return nil
			}
			for i := range keys {
				if keys[i] != e.groups[i].name {
					e.hookErr = fmt.Sprintf("order hook: key order %q differs from the harness's %q", keys[i], e.groups[i].name)
					return nil
				}
			}
			return e.perm
		})
	})
}

func (g *c10Group) apply(s string) string {
	for _, r := range g.rules {
		if r.lit != "" && !strings.Contains(s, r.lit) {
			continue
		}
		s = r.re.ReplaceAllString(s, g.name)
	}
	return s
}

// live computes the indices (sorted) of the rule groups that can rewrite some
// string reachable from input by applying groups in any sequence.
func (e *c10Env) live(input string) []int {
	start := strings.ToLower(input)
	seen := map[string]struct{}{start: {}}
	queue := []string{start}
	var liveSet [64]bool
	for len(queue) > 0 {
		s := queue[0]
		queue = queue[1:]
		for gi := range e.groups {
			t := e.groups[gi].apply(s)
			if t == s {
				continue
			}
			liveSet[gi] = true
			if _, ok := seen[t]; !ok {
				if len(seen) > 5000 {
					explore.HarnessErrorf("closure of %q exceeds 5000 strings", input)
				}
				seen[t] = struct{}{}
				queue = append(queue, t)
			}
		}
	}
	var out []int
	for gi := range e.groups {
		if liveSet[gi] {
			out = append(out, gi)
		}
	}
	return out
}

// orders returns every rule order that can matter for the input: all
// permutations of the live groups (first c10MaxLive of them if more), the other
// groups appended in sorted order.
func (e *c10Env) orders(input string) (perms [][]int, live []int, capped bool) {
	live = e.live(input)
	enum := live
	if len(enum) > c10MaxLive {
		enum, capped = enum[:c10MaxLive], true
	}
	isEnum := map[int]bool{}
	for _, g := range enum {
		isEnum[g] = true
	}
	var rest []int
	for gi := range e.groups {
		if !isEnum[gi] {
			rest = append(rest, gi)
		}
	}
	var rec func(k int, cur []int)
	used := make([]bool, len(enum))
	rec = func(k int, cur []int) {
		if k == len(enum) {
			p := append(append([]int{}, cur...), rest...)
			perms = append(perms, p)
			return
		}
		for i := range enum {
			if !used[i] {
				used[i] = true
				rec(k+1, append(cur, enum[i]))
				used[i] = false
			}
		}
	}
	rec(0, nil)
	return
}

func (e *c10Env) groupNames(idx []int) string {
	n := make([]string, len(idx))
	for i, g := range idx {
		n[i] = e.groups[g].name
	}
	return strings.Join(n, " ")
}

// groupClasses is the signature normal form of a set of rule groups: comparator
// groups -> CMP, "&" "|" -> BIN, "!" "!(" -> NOT, "(" ")" -> BRACE.
func (e *c10Env) groupClasses(idx []int) string {
	set := map[string]bool{}
	for _, g := range idx {
		switch e.groups[g].name {
		case "&", "|":
			set["BIN"] = true
		case "!", "!(":
			set["NOT"] = true
		case "(", ")":
			set["BRACE"] = true
		default:
			set["CMP"] = true
		}
	}
	var out []string
	for k := range set {
		out = append(out, k)
	}
	sort.Strings(out)
	return strings.Join(out, "+")
}

func c10PanicSite(stack string) string {
	lines := strings.Split(stack, "\n")
	seenPanic := false
	for i := 0; i+1 < len(lines); i++ {
		l := lines[i]
		if strings.HasPrefix(l, "panic(") {
			seenPanic = true
			continue
		}
		if !seenPanic {
			continue
		}
		if strings.Contains(l, "els0r/goProbe") && !strings.Contains(l, "verifshim") {
			fn := l
			if j := strings.LastIndex(fn, "("); j > 0 {
				fn = fn[:j]
			}
			if j := strings.LastIndex(fn, "/"); j >= 0 {
				fn = fn[j+1:]
			}
			return fn
		}
	}
	return "unknown"
}

type c10Out struct {
	accepted bool
	canon    string // Statement.Condition
	errMsg   string
	panSite  string
	panMsg   string
}

// c10Prepare runs the real Args.Prepare with every other argument valid, so
// that an error can only stem from the condition.
func c10Prepare(cond string) (o c10Out) {
	a := &query.Args{
		Query: "sip,dip,dport,proto", Ifaces: "eth0", Format: "json", Condition: cond,
		First: "1700000000", Last: "1700000600", MaxMemPct: 60, NumResults: 10,
		DNSResolution: query.DNSResolution{Timeout: 5 * time.Second},
	}
	var (
		st  *query.Statement
		err error
	)
	func() {
		defer func() {
			if p := recover(); p != nil {
				o = c10Out{panSite: c10PanicSite(string(debug.Stack())), panMsg: fmt.Sprint(p)}
			}
		}()
		st, err = a.Prepare()
	}()
	if c10.hookErr != "" {
		explore.HarnessErrorf("%s", c10.hookErr)
	}
	if o.panSite != "" {
		return o
	}
	if err != nil {
		var de *query.DetailError
		if !errors.As(err, &de) {
			explore.HarnessErrorf("Prepare returned %T: %v", err, err)
		}
		for _, d := range de.Errors {
			if d.Location != "body.condition" {
				explore.HarnessErrorf("Prepare rejects a fixed argument (%s: %s); the harness's Args are wrong", d.Location, d.Message)
			}
		}
		if len(de.Errors) == 0 {
			explore.HarnessErrorf("Prepare failed without details: %v", err)
		}
		return c10Out{errMsg: de.Errors[0].Message, canon: st.Condition}
	}
	return c10Out{accepted: true, canon: st.Condition}
}

// prepareStable prepares a text on which no sanitiser rule can fire (pure function of the text: memoised).
func (e *c10Env) prepareStable(x *explore.Ctx, text string) c10Out {
	if m, ok := e.prepMemo[text]; ok {
		return m
	}
	if len(e.prepMemo) > 200000 || e.prepMemo == nil {
		e.prepMemo = map[string]c10Out{}
	}
	o := c10Prepare(text)
	x.Transition()
	e.prepMemo[text] = o
	return o
}

// c10Vector parses text with the real parser and evaluates it on fresh keys of
// all covering flows: one byte per flow (0 false, 1 true, 2 panic), prefixed by
// the direction filter type.
func c10Vector(text string) (vec string, err error, panSite string) {
	if m, ok := c10.vecMemo[text]; ok {
		return m.vec, m.err, m.panSite
	}
	if len(c10.vecMemo) > 200000 || c10.vecMemo == nil {
		c10.vecMemo = map[string]c10Vec{}
	}
	vec, err, panSite = c10VectorRaw(text)
	c10.vecMemo[text] = c10Vec{vec, err, panSite}
	return
}

func c10VectorRaw(text string) (vec string, err error, panSite string) {
	defer func() {
		if p := recover(); p != nil {
			panSite = c10PanicSite(string(debug.Stack()))
			err = fmt.Errorf("panic: %v", p)
		}
	}()
	n, vf, e := node.ParseAndInstrument(text, 5*time.Second)
	if e != nil {
		return "", e, ""
	}
	var sb strings.Builder
	if vf != nil {
		sb.WriteString(vf.FilterType)
		if vf.LeftNode {
			sb.WriteString("<")
		}
	}
	sb.WriteByte(':')
	for fam := 0; fam < 2; fam++ {
		for i := range c09.compact[fam] {
			if n == nil {
				sb.WriteByte('1')
				continue
			}
			r, _, p := c09.fresh(n, &c09.compact[fam][i], false)
			switch {
			case p != nil:
				sb.WriteByte('2')
			case r:
				sb.WriteByte('1')
			default:
				sb.WriteByte('0')
			}
		}
	}
	return sb.String(), nil, ""
}

func c10Separates(vec string) bool {
	v := vec[strings.IndexByte(vec, ':')+1:]
	return strings.Contains(v, "0") && strings.Contains(v, "1")
}

// c10Result is what one input does under one rule order.
type c10Result struct {
	out c10Out
	vec string // meaning of the canonical string (accepted only)
}

// c10RunInput prepares the input under every relevant rule order and applies
// the per-input oracles. tmpl names the input in signatures. It returns the
// per-order results (nil after a violation was reported).
func (e *c10Env) runInput(x *explore.Ctx, input, tmpl string) (res []c10Result, live []int) {
	perms, live, capped := e.orders(input)
	if capped {
		e.capped++
		x.Obs("order-capped live=%d", len(live))
		x.Nontrivial("order-capped:%s", e.groupNames(live))
	}
	if len(live) >= 2 {
		x.Nontrivial("orders:%s", e.groupNames(live))
	}
	defer func() { e.perm = nil }()
	// The canonical-form oracles and the rule-order oracles can both fire on one input. Both kinds
	// are collected; if both fired, a choice point decides which is reported, so neither hides the other.
	type finding struct{ sig, msg string }
	var canonF, orderF *finding
	canonFail := func(sig, format string, a ...any) {
		if canonF == nil {
			canonF = &finding{sig, fmt.Sprintf(format, a...)}
		}
	}
	for _, perm := range perms {
		e.perm = perm
		ordName := ""
		if len(perms) > 1 {
			ordName = " [rule order: " + e.groupNames(perm[:min(len(live), c10MaxLive)]) + "]"
		}
		o := c10Prepare(input)
		x.Transition()
		if o.panSite != "" {
			x.Fail("panic:"+o.panSite, "Args.Prepare panics on condition %q%s: %s", input, ordName, o.panMsg)
			return nil, live
		}
		r := c10Result{out: o}
		if o.accepted {
			r.vec = e.checkCanonical(x, input, ordName, tmpl, o, canonFail)
			if x.Failed() {
				return nil, live
			}
			e.perm = perm
		}
		res = append(res, r)
	}
	// cross-order comparison
	for i := 1; i < len(res); i++ {
		if !res[i].out.accepted && !res[0].out.accepted && res[i].out.canon != res[0].out.canon {
			// not a violation (rejected either way), but the rule order is visible in the rejected statement's text
			x.Obs("rejected-text-differs-by-order")
			break
		}
	}
	// relevant(f): the live groups whose position changes f(order) while the relative order of all other groups stays the same
	relevant := func(f func(i int) string) []int {
		nl := min(len(live), c10MaxLive)
		var out []int
		for _, g := range live[:nl] {
			seen := map[string]string{}
			rel := false
			for i, p := range perms {
				var sb strings.Builder
				for _, h := range p[:nl] {
					if h != g {
						fmt.Fprintf(&sb, "%d,", h)
					}
				}
				v := f(i)
				if old, ok := seen[sb.String()]; ok && old != v {
					rel = true
					break
				}
				seen[sb.String()] = v
			}
			if rel {
				out = append(out, g)
			}
		}
		return out
	}
	for i := 1; i < len(res) && orderF == nil; i++ {
		if res[i].out.accepted != res[0].out.accepted {
			a, b := 0, i
			if !res[a].out.accepted {
				a, b = b, a
			}
			rel := relevant(func(i int) string { return fmt.Sprint(res[i].out.accepted) })
			orderF = &finding{"map-order:accept-differs:" + e.groupClasses(rel), fmt.Sprintf("condition %q is accepted under rule order [%s] (canonical %q) and rejected under [%s] (%s)",
				input, e.groupNames(perms[a][:len(live)]), res[a].out.canon, e.groupNames(perms[b][:len(live)]), strings.TrimSpace(res[b].out.errMsg))}
		} else if res[i].out.accepted && res[i].vec != "" && res[0].vec != "" && res[i].vec != res[0].vec {
			rel := relevant(func(i int) string { return res[i].vec })
			orderF = &finding{"map-order:meaning-differs:" + e.groupClasses(rel), fmt.Sprintf("condition %q: canonical %q under rule order [%s], %q under [%s]; they select different flows",
				input, res[0].out.canon, e.groupNames(perms[0][:len(live)]), res[i].out.canon, e.groupNames(perms[i][:len(live)]))}
		}
	}
	report := canonF
	switch {
	case canonF != nil && orderF != nil:
		if x.Choose(2, "report(canonical-form,rule-order)") == 1 {
			report = orderF
		}
	case orderF != nil:
		report = orderF
	}
	if report != nil {
		x.Fail(report.sig, "%s", report.msg)
		return nil, live
	}
	return res, live
}

// checkCanonical applies the canonical-form oracles to an accepted input (rule order of
// the acceptance still installed). Panics are reported at once; other failures through fail.
// Returns the selection vector of the canonical string ("" if it could not be computed).
func (e *c10Env) checkCanonical(x *explore.Ctx, input, ordName, tmpl string, o c10Out, fail func(sig, format string, a ...any)) string {
	san := conditions.SanitizeUserInput(input) // same rule order still installed
	vOrig, err, ps := c10Vector(san)
	if ps != "" {
		x.Fail("panic:"+ps, "ParseAndInstrument panics on sanitised %q (from %q)%s: %v", san, input, ordName, err)
		return ""
	}
	if err != nil {
		fail("canon-sanitised-rejected:"+tmpl, "Prepare accepts %q%s but ParseAndInstrument rejects its sanitised form %q: %v", input, ordName, san, err)
		return ""
	}
	vCanon, err, ps := c10Vector(o.canon)
	if ps != "" {
		x.Fail("panic:"+ps, "ParseAndInstrument panics on canonical %q (from %q)%s: %v", o.canon, input, ordName, err)
		return ""
	}
	if err != nil {
		fail("canon-unparsable:"+tmpl, "Prepare accepts %q%s, canonical string %q is rejected by ParseAndInstrument: %v", input, ordName, o.canon, err)
		return ""
	}
	if vCanon != vOrig {
		fail("canon-meaning:"+tmpl, "input %q%s: sanitised %q and canonical %q select different flows (%s vs %s)", input, ordName, san, o.canon, vOrig, vCanon)
	}
	if c10Separates(vCanon) {
		x.Nontrivial("sep:%s", o.canon)
	} else {
		x.Nontrivial("acc:%s", o.canon)
	}
	// re-prepare the canonical string under every order relevant for IT
	perms2, live2, _ := e.orders(o.canon)
	for _, p2 := range perms2 {
		e.perm = p2
		var o2 c10Out
		if len(live2) == 0 {
			o2 = e.prepareStable(x, o.canon)
		} else {
			o2 = c10Prepare(o.canon)
			x.Transition()
		}
		if o2.panSite != "" {
			x.Fail("panic:"+o2.panSite, "Args.Prepare panics on canonical condition %q: %s", o.canon, o2.panMsg)
			return vCanon
		}
		if !o2.accepted {
			fail("canon-rejected:"+tmpl, "Prepare accepts %q%s and stores the canonical string %q, but preparing that string again is rejected: %s", input, ordName, o.canon, strings.TrimSpace(o2.errMsg))
			break
		}
		if o2.canon != o.canon {
			fail("canon-not-idempotent:"+tmpl, "canonical(%q)=%q, canonical of that = %q", input, o.canon, o2.canon)
			break
		}
	}
	return vCanon
}

// ---- C10 (fuzz): all short token strings -----------------------------------------------------

// Token alphabet: attribute words, values (incl. a hostname-like word, unusual prefix
// lengths, a v4-mapped network), every comparator symbol and some word spellings, all
// braces, every logical operator spelling, garbage.
var c10Tokens = []string{
	// reduced alphabet (first c10Reduced entries): enough to form and break every kind of clause
	"dport", "80", "=", "<", "eq", "le", "(", ")", "{", "!", "not", "&", "and", "|", "or", "*", "xyz",
	// rest
	"sip", "10.0.0.1", "!=", "==", "host", "snet", "dir", "tcp", "10.0.0.0/8", "in", "foo.com", "2001:db8::1", "10.0.0.0/-8", "::ffff:10.0.0.1/24",
	">=", "===", "-ne", "g", "[", "]", "}", "&&", "||", "+",
}

const c10Reduced = 17

var c10Seps = []struct{ sep, pad, name string }{{" ", "", "sp"}, {"", "", "none"}, {"  ", "", "2sp"}, {"\t", "", "tab"}, {" ", " ", "sp+pad"}}

func c10FuzzRun(x *explore.Ctx) {
	c10.init()
	maxFull, maxRed := 3, 4
	if x.Thorough() {
		maxFull, maxRed = 4, 5
	}
	first := x.Case
	maxLen := maxFull
	if first < c10Reduced {
		maxLen = maxRed
	}
	n := 1 + x.Choose(maxLen, "length")
	alpha := len(c10Tokens)
	if n > maxFull {
		alpha = c10Reduced
	}
	toks := make([]string, n)
	toks[0] = c10Tokens[first]
	for i := 1; i < n; i++ {
		toks[i] = c10Tokens[x.Choose(alpha, "token")]
	}
	sp := c10Seps[x.Choose(len(c10Seps), "separator")]
	input := sp.pad + strings.Join(toks, sp.sep) + sp.pad
	if x.Logging() {
		x.Logf("input %q", input)
	}
	res, _ := c10.runInput(x, input, "fuzz")
	if res == nil {
		return
	}
	if res[0].out.accepted {
		x.Obs("acc %s", res[0].out.canon)
	} else {
		x.Obs("rej")
	}
}

// ---- C10.spell: generated conditions in every documented spelling ---------------------------

type c10Dev struct {
	kind string // cmp and or not br sp wsp upper
	occ  int
	idx  int
	cmp  fixture.Cmp
}

// c10Style builds a fixture.Style from a list of deviations (everything else base symbols).
func c10Style(devs []c10Dev, paren fixture.ParenMode, abstract bool) *fixture.Style {
	find := func(kind string, occ int) int {
		for _, d := range devs {
			if d.kind == kind && d.occ == occ {
				return d.idx
			}
		}
		return 0
	}
	st := &fixture.Style{
		Cmp:     func(occ int, c fixture.Cmp) string { return fixture.CmpSpellings[c][find("cmp", occ)] },
		And:     func(occ int) string { return fixture.AndSpellings[find("and", occ)] },
		Or:      func(occ int) string { return fixture.OrSpellings[find("or", occ)] },
		Not:     func(occ int) fixture.NotSpelling { return fixture.NotSpellings[find("not", occ)] },
		Bracket: func(occ int) [2]string { return fixture.Brackets[find("br", occ)] },
		Space:   fixture.SymbolSpaces[find("sp", 0)], WordSpace: fixture.WordSpaces[find("wsp", 0)],
		Paren: paren, Upper: find("upper", 0) == 1, ProtoNames: true, Abstract: abstract,
	}
	return st
}

// c10Trees: the generated conditions. Leaves use every comparator.
var c10Leaves = func() []*fixture.Cond {
	a := netip.MustParseAddr
	return []*fixture.Cond{
		fixture.NumLeaf(fixture.Dport, fixture.EQ, 80),
		fixture.NumLeaf(fixture.Proto, fixture.NE, 6), // rendered by name: proto != tcp
		fixture.NumLeaf(fixture.Dport, fixture.LT, 256),
		fixture.NumLeaf(fixture.Port, fixture.GT, 80),
		fixture.NumLeaf(fixture.Dport, fixture.LE, 255),
		fixture.NumLeaf(fixture.Proto, fixture.GE, 17),
		fixture.AddrLeaf(fixture.SIP, fixture.EQ, a("10.0.0.1")),
		fixture.NetLeaf(fixture.SNet, fixture.NE, a("10.0.0.0"), 8),
		fixture.AddrLeaf(fixture.Host, fixture.EQ, a("2001:db8::1")),
	}
}()

// c10Tree decodes case/choices into a tree and a brace mode: single leaves, negated
// leaves, two-leaf trees, and depth-2 trees (A op B) op (C op D) with group negations,
// the latter also rendered relying on the documented precedence.
func c10Tree(x *explore.Ctx) (*fixture.Cond, fixture.ParenMode) {
	nl := len(c10Leaves)
	// case = first leaf x class {single/two-leaf, depth-2}
	a := c10Leaves[x.Case%nl]
	class := x.Case / nl
	if class == 0 {
		k := x.Choose(3, "arity(leaf,!leaf,two)")
		switch k {
		case 0:
			return a, fixture.ParenFull
		case 1:
			return fixture.Not(a), fixture.ParenFull
		}
		// second leaf: quick 3 of the alphabet (rotating with the first), thorough all
		nb, step := 3, 3
		if x.Thorough() {
			nb, step = 5, 2
		}
		b := c10Leaves[(x.Case+1+step*x.Choose(nb, "leafB"))%nl]
		return fixture.Tree2(a, b, x.Choose(fixture.NumTree2, "shape")), fixture.ParenFull
	}
	// depth 2: leaves B, C, D walk the alphabet from a's successor
	b, c, d := c10Leaves[(x.Case+1)%nl], c10Leaves[(x.Case+2)%nl], c10Leaves[(x.Case+4)%nl]
	opsSet := []int{0, 2, 5, 7} // bits: inner-left, inner-right, outer is OR
	ops := opsSet[x.Choose(len(opsSet), "ops")]
	neg := x.Choose(6, "neg(none,L,R,whole,leafA,leafD)")
	paren := fixture.ParenMode(x.Choose(2, "braces(full,minimal)"))
	mk := func(or bool, l, r *fixture.Cond) *fixture.Cond {
		if or {
			return fixture.Or(l, r)
		}
		return fixture.And(l, r)
	}
	if neg == 4 {
		a = fixture.Not(a)
	}
	if neg == 5 {
		d = fixture.Not(d)
	}
	l, r := mk(ops&1 != 0, a, b), mk(ops&2 != 0, c, d)
	if neg == 1 {
		l = fixture.Not(l)
	}
	if neg == 2 {
		r = fixture.Not(r)
	}
	t := mk(ops&4 != 0, l, r)
	if neg == 3 {
		t = fixture.Not(t)
	}
	return t, paren
}

func c10SpellRun(x *explore.Ctx) {
	c10.init()
	t, paren := c10Tree(x)
	// spelling deviations, one choice point per operator occurrence, in rendering order
	var devs []c10Dev
	// a first rendering pass discovers the occurrences; choices are made on the fly
	st := &fixture.Style{Paren: paren, ProtoNames: true}
	dev := func(kind string, occ, n int, cmp fixture.Cmp) int {
		i := x.Deviate(n, kind)
		if i != 0 {
			devs = append(devs, c10Dev{kind, occ, i, cmp})
		}
		return i
	}
	st.Cmp = func(occ int, c fixture.Cmp) string {
		return fixture.CmpSpellings[c][dev("cmp", occ, len(fixture.CmpSpellings[c]), c)]
	}
	st.And = func(occ int) string { return fixture.AndSpellings[dev("and", occ, len(fixture.AndSpellings), 0)] }
	st.Or = func(occ int) string { return fixture.OrSpellings[dev("or", occ, len(fixture.OrSpellings), 0)] }
	st.Not = func(occ int) fixture.NotSpelling {
		return fixture.NotSpellings[dev("not", occ, len(fixture.NotSpellings), 0)]
	}
	st.Bracket = func(occ int) [2]string { return fixture.Brackets[dev("br", occ, len(fixture.Brackets), 0)] }
	fixture.Render(t, st) // discovers operator occurrences and takes their spelling choices
	nsp := len(fixture.WordSpaces)
	if !x.Thorough() {
		nsp-- // line breaks as white space: thorough only
	}
	dev("sp", 0, len(fixture.SymbolSpaces), 0)
	dev("wsp", 0, nsp, 0)
	dev("upper", 0, 2, 0)
	nx := 3 // white space outside the documented set (blank, tab, line break): quick = form feed / no-break space
	if x.Thorough() {
		nx = len(c10Exotic)
	}
	exotic := false
	if xi := x.Deviate(nx, "xsp"); xi != 0 {
		// which separator it replaces: every run of white space of the spelled text
		runs := c10SpaceRuns(fixture.Render(t, c10Style(devs, paren, false)))
		if len(runs) > 0 {
			devs = append(devs, c10Dev{"xsp", x.Choose(len(runs), "xsp-position"), xi, 0})
			exotic = true
		}
	}

	word := c10RenderSpelled(t, devs, paren)
	sym := fixture.Render(t, c10Style(nil, paren, false))
	if x.Logging() {
		x.Logf("tree %s (template %s)", t, fixture.Render(t, c10Style(nil, paren, true)))
		x.Logf("symbol form %q", sym)
		x.Logf("spelled     %q (%d deviations)", word, len(devs))
	}
	// baseline: the symbol rendering (no sanitiser rule fires on it)
	if l := c10.live(sym); len(l) != 0 {
		explore.HarnessErrorf("symbol rendering %q has live rule groups [%s]", sym, c10.groupNames(l))
	}
	base := c10.prepareStable(x, sym)
	if base.panSite != "" {
		x.Fail("panic:"+base.panSite, "Args.Prepare panics on %q: %s", sym, base.panMsg)
		return
	}
	if !base.accepted {
		x.Fail("symbol-form-rejected", "generated condition %q is rejected: %s", sym, base.errMsg)
		return
	}
	vSym, err, ps := c10Vector(base.canon)
	if ps != "" || err != nil {
		x.Fail("symbol-form-broken", "canonical %q of %q: %v %s", base.canon, sym, err, ps)
		return
	}
	res, live := c10.runInput(x, word, "generated")
	if res == nil {
		return
	}
	failing := func(text string) (class string) {
		perms, _, _ := c10.orders(text)
		defer func() { c10.perm = nil }()
		for _, p := range perms {
			c10.perm = p
			o := c10Prepare(text)
			if o.panSite != "" {
				return "panic"
			}
			if !o.accepted {
				return "rejected"
			}
			v, err, _ := c10Vector(o.canon)
			if err != nil || v != vSym {
				return "meaning"
			}
		}
		return ""
	}
	for i, r := range res {
		class := ""
		switch {
		case !r.out.accepted && exotic:
			// white space outside the documented set need not be understood; it must not be misunderstood
		case !r.out.accepted:
			class = "rejected"
		case r.vec != vSym:
			class = "meaning"
		}
		if class == "" {
			continue
		}
		// minimise: revert every deviation that is not needed for this class of failure
		keep := append([]c10Dev{}, devs...)
		for k := 0; k < len(keep); {
			try := append(append([]c10Dev{}, keep[:k]...), keep[k+1:]...)
			if failing(c10RenderSpelled(t, try, paren)) == class {
				keep = try
			} else {
				k++
			}
		}
		mt := c10.template(t, keep, paren)
		if class == "rejected" {
			x.Fail("rejected:"+c10DevSig(keep), "documented spelling rejected: %q (symbol form %q is accepted) under rule order #%d of live groups [%s]: %s; minimal failing template %q",
				word, sym, i, c10.groupNames(live), strings.TrimSpace(r.out.errMsg), mt)
		} else {
			x.Fail("meaning:"+c10DevSig(keep), "documented spelling %q (canonical %q) selects other flows than its symbol form %q (canonical %q); minimal failing template %q",
				word, r.out.canon, sym, base.canon, mt)
		}
		return
	}
	x.Obs("%s|%d", res[0].out.canon, len(res))
}

// template renders the tree with the given deviations in template form (for messages):
// base-symbol comparisons as "C".
func (e *c10Env) template(t *fixture.Cond, devs []c10Dev, paren fixture.ParenMode) string {
	s := fixture.Render(t, c10Style(devs, paren, true))
	s = strings.ReplaceAll(s, "\t", "\\t")
	s = strings.ReplaceAll(s, "\n", "\\n")
	return s
}

// c10DevSig is the signature normal form of a minimal failing set of spelling
// deviations: the deviating spellings in rendering order, e.g. "and,not" for
// "C and not C" and "or,not(" for "C or not(C)". The tree they occurred in is not part of it.
// c10Exotic[i] (i>0): a white-space character outside the documented set; the deviation's cmp field
// holds the index of the separator run of the spelled text that it replaces.
var c10Exotic = []string{"", "\f", "\u00a0", "\v", "\u0085", "\u2028", "\u3000"}

func c10IsSp(c byte) bool { return c == ' ' || c == '\t' || c == '\n' }

// c10SpaceRuns lists the runs of documented white space in s.
func c10SpaceRuns(s string) (runs [][2]int) {
	for i := 0; i < len(s); i++ {
		if c10IsSp(s[i]) {
			j := i
			for j < len(s) && c10IsSp(s[j]) {
				j++
			}
			runs = append(runs, [2]int{i, j})
			i = j
		}
	}
	return
}

// c10RenderSpelled renders the tree with the deviations, including the exotic white space.
func c10RenderSpelled(t *fixture.Cond, devs []c10Dev, paren fixture.ParenMode) string {
	s := fixture.Render(t, c10Style(devs, paren, false))
	for _, d := range devs {
		if d.kind != "xsp" {
			continue
		}
		if runs := c10SpaceRuns(s); d.occ < len(runs) {
			s = s[:runs[d.occ][0]] + c10Exotic[d.idx] + s[runs[d.occ][1]:]
		}
	}
	return s
}

func c10DevSig(devs []c10Dev) string {
	var parts []string
	for _, d := range devs {
		switch d.kind {
		case "cmp":
			parts = append(parts, fixture.CmpSpellings[d.cmp][d.idx])
		case "and":
			parts = append(parts, fixture.AndSpellings[d.idx])
		case "or":
			parts = append(parts, fixture.OrSpellings[d.idx])
		case "not":
			ns := fixture.NotSpellings[d.idx]
			if ns.Attach {
				parts = append(parts, ns.Text+"(")
			} else {
				parts = append(parts, ns.Text)
			}
		case "br":
			parts = append(parts, fixture.Brackets[d.idx][0]+fixture.Brackets[d.idx][1])
		case "xsp":
			parts = append(parts, fmt.Sprintf("exotic-space=%+q", c10Exotic[d.idx]))
		case "sp":
			parts = append(parts, fmt.Sprintf("symbol-space=%q", fixture.SymbolSpaces[d.idx]))
		case "wsp":
			parts = append(parts, fmt.Sprintf("word-space=%q", fixture.WordSpaces[d.idx]))
		case "upper":
			parts = append(parts, "UPPER")
		}
	}
	if len(parts) == 0 {
		return "symbols-only"
	}
	return strings.Join(parts, ",")
}

// ---- C10.lit: unusual literals through Prepare -----------------------------------------------

func c10LitRun(x *explore.Ctx) {
	c10.init()
	per := (len(c09OddList) + 15) / 16
	lo := x.Case * per
	hi := min(lo+per, len(c09OddList))
	if lo >= hi {
		return
	}
	oc := c09OddList[lo+x.Choose(hi-lo, "literal")]
	form := x.Choose(3, "form(plain,negated,conjunct)")
	text := oc.attr + " " + oc.cmp + " " + oc.value
	switch form {
	case 1:
		text = "not (" + text + ")"
	case 2:
		text = "dport = 80 and " + text
	}
	x.Logf("literal condition %q", text)
	res, _ := c10.runInput(x, text, "literal:"+oc.class+":"+oc.litClass)
	if res == nil {
		return
	}
	if res[0].out.accepted {
		x.Obs("acc %s", res[0].out.canon)
	} else {
		x.Obs("rej")
	}
}

// ---- C10.host: host names spelled like operator words, resolvable --------------------------

var c10HostWords = []string{"eq", "-eq", "equals", "neq", "-neq", "ne", "-ne", "le", "-le", "leq", "ge", "geq", "g", "-g", "gt", "greater", "l", "-l", "lt", "less", "and", "or", "not"}

var c10HostResolvable = func() map[string]bool {
	m := map[string]bool{}
	for _, w := range c10HostWords {
		m[w] = true
	}
	return m
}()

func c10HostSetup(string) {
	c10.init()
	// in this scenario the DNS seam resolves exactly the operator-like host names
	verifhook.SetLookup(func(host string) ([]string, error) {
		if c10HostResolvable[host] {
			return []string{"10.0.0.1"}, nil
		}
		return nil, fmt.Errorf("lookup %s: no such host", host)
	})
}

func c10HostRun(x *explore.Ctx) {
	c10.init()
	w := c10HostWords[x.Case]
	conn := []string{"and", "or", "&", "|", "&&", "||", "*", "+"}[x.Choose(8, "connective")]
	ws := []string{" ", "  ", "\t"}[x.Choose(3, "space")]
	attr := []string{"sip", "dip", "host"}[x.Choose(3, "attr")]
	leaf := attr + ws + "=" + ws + w
	var input string
	cs := ws // white space around the connective; symbol connectives may also go without
	switch x.Choose(6, "position(left,right,braced,tight-braced,negated,left-tight)") {
	case 0:
		input = leaf + cs + conn + cs + "dport = 80"
	case 1:
		input = "dport = 80" + cs + conn + cs + leaf
	case 2:
		input = "(" + ws + leaf + ws + ")" + cs + conn + cs + "dport = 80"
	case 3:
		input = "(" + leaf + ")" + cs + conn + cs + "dport = 80"
	case 4:
		input = "not" + ws + leaf + cs + conn + cs + "dport = 80"
	default:
		if fixture.IsWord(conn) {
			x.Obs("n/a")
			return
		}
		input = leaf + conn + "dport = 80"
	}
	x.Logf("input %q (host name %q resolves to 10.0.0.1)", input, w)
	res, _ := c10.runInput(x, input, "host-word")
	if res == nil {
		return
	}
	if res[0].out.accepted {
		x.Obs("acc %s", res[0].out.canon)
	} else {
		x.Obs("rej")
	}
}

func init() {
	register("C10.host", &explore.Scenario{
		ID: "C10", Name: "resolvable host names spelled like operator words, every rule order", Level: "exploration",
		Rule:  "case = host name from the list of operator word spellings (eq, -ne, le, g, and, or, not, …) which the DNS seam resolves to 10.0.0.1; execution = connective spelling (8) x white space (3) x attribute {sip,dip,host} x position {left of the connective, right (end of input), braced with/without inner space, negated, left of a symbol connective without space}; every permutation of the live rule groups; same oracles as C10 (no panic; canonical form stable and meaning-preserving; acceptance and selection independent of the rule order)",
		Cases: func(string) int { return len(c10HostWords) }, Bound: func(string) int { return 0 },
		Run: c10HostRun, Setup: c10HostSetup,
		Assumptions: []string{"DNS seam resolves exactly the listed words (models a resolver/search domain where such a short name exists)"},
	})
	register("C10", &explore.Scenario{
		ID: "C10", Name: "all short token strings through Args.Prepare, every rule order", Level: "exploration",
		Rule:  "case = first token of a 41-token alphabet (attribute words, values incl. hostname-like word / negative prefix / v4-mapped network, every comparator symbol and several word spellings, all braces, every logical-operator spelling, garbage); execution = (length, remaining tokens, separator {space, none, two spaces, tab, space+padding}); quick: every string of <=3 tokens over the full alphabet and of 4 tokens over the 17-token reduced alphabet; thorough: <=4 full, 5 reduced. Each input is prepared under EVERY permutation of the sanitiser rule groups that can fire on a string reachable from it (closure over the real compiled table; <=6 live groups, more would be capped and reported). Per order: no panic; if accepted, canonical string accepted again under all of ITS orders, unchanged, and selecting the same 149 covering flows (+ direction filter) as the sanitised original; across orders: same acceptance, same selection. transitions = Prepare calls. non-trivial = distinct accepted canonical strings (sep: separating the flows) and inputs with >=2 live rule groups",
		Cases: func(string) int { return len(c10Tokens) }, Bound: func(string) int { return 0 },
		Run:         c10FuzzRun,
		Assumptions: []string{"map iteration order over the rule table is enumerated through the overlay hook verifhook.Ordered (tokenize.go range rewritten by the driver)", "DNS answered NXDOMAIN by the overlay hook; DNS timeout 5 s never reached", "ASCII input only"},
	})
	register("C10.spell", &explore.Scenario{
		ID: "C10", Name: "generated conditions in every documented spelling vs their symbol form", Level: "exploration",
		Rule:  "case = first leaf (9 leaves using all six comparators, a protocol name, address/network/sugar) x class; execution = tree (leaf, !leaf, every two-leaf tree {&,|} x negation placement over 9x9 leaves, depth-2 trees (A op B) op (C op D) with 4 operator and 6 negation patterns; second leaf of two-leaf trees: 3 (quick) / 5 (thorough) of the alphabet) x brace mode (full / relying on documented precedence) x spelling deviations: each operator OCCURRENCE (comparator: all documented word/symbol spellings; and/or: word, doubled symbol, * or +; not: 'not ' and attached 'not('; braces () [] {}), symbol spacing {' ', none, two spaces, tab}, word spacing {' ', two spaces, tab, (thorough) newline}, upper-casing, one separator replaced by white space outside the documented set (form feed, no-break space; thorough also VT, NEL, U+2028, U+3000; at every separator position: such input may be rejected but, if accepted, must mean the same); all combinations of <= bound deviations (2 quick, 3 thorough) from the all-symbols rendering. Oracle: symbol form accepted; spelled form accepted under every relevant rule order and selecting the same flows as the symbol form (differential, real code on both sides); plus the canonical-form oracles of C10. Failures are minimised to the smallest set of deviations that still fails: signature = template such as 'C and not C'",
		Cases: func(string) int { return 2 * len(c10Leaves) }, Bound: func(t string) int {
			if t == "thorough" {
				return 3
			}
			return 2
		},
		Run: c10SpellRun,
	})
	register("C10.lit", &explore.Scenario{
		ID: "C10", Name: "unusual literals through Args.Prepare", Level: "exploration",
		Rule:  "execution = (attribute incl. sugar, {=,!=}, literal from the list of unusual spellings also used by C09.odd) x form {plain, 'not (…)', 'dport = 80 and …'}; Prepare must reject or accept without crashing; accepted inputs get the canonical-form oracles",
		Cases: func(string) int { return 16 }, Bound: func(string) int { return 0 },
		Run: c10LitRun,
	})
}

package scen

import (
	"fmt"
	"os"
	"path/filepath"
	"runtime"
	"strconv"
	"strings"
	"sync/atomic"

	"github.com/els0r/goProbe/v4/pkg/goDB"
	"github.com/els0r/goProbe/v4/pkg/goDB/encoder/encoders"
	"github.com/els0r/goProbe/v4/pkg/goDB/engine"
	"github.com/els0r/goProbe/v4/pkg/goDB/storage/gpfile"
	"github.com/els0r/goProbe/v4/pkg/types"
	"github.com/els0r/goProbe/v4/pkg/verifshim/vos"

	"verifmc/explore"
	"verifmc/fixture"
)

// C30: a query / listing running while the same database is written sees, per day,
// the blocks of some write-out that had completed. ALL interleavings of the
// reader's and the writer's file-system steps are explored: both run as real
// goroutines that block in the vos controller before every step; the explorer
// decides who proceeds. Memoisation key = (writer pc, reader pc, hash of
// everything the reader has observed so far, writer progress when the reader
// started): the disk is a function of the writer pc alone and each thread is
// deterministic given what it has observed, so equal keys have equal futures.

func goid() uint64 {
	var buf [64]byte
	n := runtime.Stack(buf[:], false)
	f := strings.Fields(string(buf[:n]))
	if len(f) < 2 {
		return 0
	}
	id, _ := strconv.ParseUint(f[1], 10, 64)
	return id
}

type schedAnn struct {
	role int // 0 writer, 1 reader
	op   vos.Op
	mark string // writer progress marker ("begin"/"end") — no file-system effect
	done bool
}

type schedCtl struct {
	writerGID atomic.Uint64
	ann       chan schedAnn
	resume    [2]chan struct{}
	free      atomic.Bool // free-running (execution cut or finished): nobody blocks any more
	obs       [2]uint64
	tmp       atomic.Int64
	root      string
}

func (c *schedCtl) role() int {
	if goid() == c.writerGID.Load() {
		return 0
	}
	return 1
}

func (c *schedCtl) Step(op vos.Op) vos.Action {
	if c.free.Load() {
		return vos.Action{}
	}
	r := c.role()
	c.ann <- schedAnn{role: r, op: op}
	<-c.resume[r]
	return vos.Action{}
}

func (c *schedCtl) Observe(op vos.Op, h uint64) {
	if c.free.Load() {
		return
	}
	r := c.role()
	c.obs[r] = (c.obs[r] ^ h) * 1099511628211
}

func (c *schedCtl) TempName() string { return fmt.Sprintf("v%04d", c.tmp.Add(1)) }

func (c *schedCtl) mark(m string) {
	if c.free.Load() {
		return
	}
	c.ann <- schedAnn{role: 0, mark: m}
	<-c.resume[0]
}

type c30Scenario struct {
	name    string
	initial []fixture.Block
	writes  []fixture.Block
	foreign bool // a plain file "README" lies in the month directories of the initial days
}

func c30Scenarios() []c30Scenario {
	b := func(ts int64, k uint64, recs ...fixture.Rec) fixture.Block {
		out := make([]fixture.Rec, len(recs))
		for i, r := range recs {
			out[i] = scale(r, k)
		}
		return fixture.Block{Iface: "eth0", TS: ts, Recs: out, Drops: k}
	}
	return []c30Scenario{
		{"append-to-day+first-block-of-next-day", []fixture.Block{b(tA1, 1, r4a, r6a)}, []fixture.Block{b(tA2, 2, r4b, r6b, r4a), b(tB1, 3, r4c, r6c)}, true},
		{"first-block-ever+append", nil, []fixture.Block{b(tA1, 1, r4a, r6a), b(tA2, 2, r4b)}, false},
		{"two-appends", []fixture.Block{b(tA1, 1, r4a, r6a), b(tA2, 2, r4d, r6d)}, []fixture.Block{b(dayA+900, 3, r4b, r6b), b(dayA+1200, 4, r4c)}, false},
		{"new-day-in-new-month", []fixture.Block{b(tA1, 1, r4a, r6a), b(tB1, 2, r6b)}, []fixture.Block{b(tD1, 3, r4b, r6c)}, false},
		// the day starts with an idle interval (a block without flows: its attribute columns are never opened
		// by a reader), so a reader meets the renamed directory with columns in different states
		{"idle-block-first+append", []fixture.Block{b(tA1, 1), b(tA2, 2, r4d, r6d)}, []fixture.Block{b(dayA+900, 3, r4b)}, true},
	}
}

const (
	c30Query = iota
	c30QueryLowMem
	c30Listing
)

var c30ReaderNames = []string{"raw+time query", "raw+time query (low-mem)", "interface listing"}

type c30ReaderResult struct {
	rows   map[fixture.RowKey]types.Counters
	stats  gpfile.Stats
	err    error
	nodata bool
}

func c30Run(x *explore.Ctx) {
	gpfile.VerifResetPools()
	scs := c30Scenarios()
	sc := scs[x.Case%len(scs)]
	reader := (x.Case / len(scs)) % 3
	dbPath := fixture.NewDir()
	defer os.RemoveAll(dbPath)
	for _, bl := range sc.initial {
		if err := fixture.WriteBlock(dbPath, bl, encoders.EncoderTypeLZ4); err != nil {
			explore.HarnessErrorf("initial write: %v", err)
		}
	}
	// interface directory exists in every scenario (an interface that was never written is C16's subject)
	os.MkdirAll(dbPath+"/eth0", 0o755)
	// two scenarios carry a foreign plain file next to the day directories (it sorts after them): the
	// reader's and the writer's searches for a (renamed) day directory run over a listing that holds it
	if sc.foreign {
		for _, bl := range sc.initial {
			month := filepath.Dir(gpfile.NewDirReader(dbPath+"/eth0", bl.TS, "").Path())
			if err := os.WriteFile(month+"/README", []byte("not a day directory\n"), 0o644); err != nil {
				explore.HarnessErrorf("foreign file: %v", err)
			}
		}
	}

	c := &schedCtl{ann: make(chan schedAnn), root: dbPath}
	c.resume[0], c.resume[1] = make(chan struct{}), make(chan struct{})
	vos.SetController(c)
	defer vos.SetController(nil)

	var rres c30ReaderResult
	var werr error
	go func() { // writer
		c.writerGID.Store(goid())
		for i, bl := range sc.writes {
			c.mark(fmt.Sprintf("begin %d", i))
			if err := fixture.WriteBlock(dbPath, bl, encoders.EncoderTypeLZ4); err != nil && werr == nil {
				werr = fmt.Errorf("write-out %d: %w", i, err)
			}
			c.mark(fmt.Sprintf("end %d", i))
		}
		c.ann <- schedAnn{role: 0, done: true}
	}()
	go func() { // reader
		switch reader {
		case c30Query, c30QueryLowMem:
			res, err := fixture.RunQuery(dbPath, woQueryType, "eth0", "", 0, 1<<40, reader == c30QueryLowMem)
			rres.err = err
			if err == nil {
				rres.rows, _ = fixture.RowsOf(res)
			}
		case c30Listing:
			wm, err := goDB.NewDBWorkManager(goDB.NewMetadataQuery(), dbPath, "eth0", 1)
			if err == nil {
				var im *goDB.InterfaceMetadata
				im, err = wm.ReadMetadata(0, 1<<40)
				if err == nil {
					rres.stats = im.Stats
				}
			}
			rres.err = err
		}
		c.ann <- schedAnn{role: 1, done: true}
	}()

	var (
		pending   [2]*schedAnn
		done      [2]bool
		pc        [2]int
		begun     = 0 // write-outs begun
		ended     = 0 // write-outs completed
		rStarted  = false
		endedAtRS = 0 // write-outs completed when the reader performed its first step
		begunAtRE = 0 // write-outs begun when the reader finished
		running   = 2
		cut       = false
		last      = x.Choose(2, "first thread (0 writer, 1 reader)")
	)
	finish := func() { // let everything run to completion unscheduled
		c.free.Store(true)
		for r := 0; r < 2; r++ {
			if pending[r] != nil {
				pending[r] = nil
				c.resume[r] <- struct{}{}
				running++
			}
		}
		for running > 0 {
			a := <-c.ann
			if a.done {
				running--
			} else {
				// a goroutine that announced just before the switch to free-running
				c.resume[a.role] <- struct{}{}
			}
		}
	}
	for {
		for running > 0 {
			a := <-c.ann
			running--
			if a.done {
				done[a.role] = true
				if a.role == 1 {
					begunAtRE = begun
				}
				continue
			}
			aa := a
			pending[a.role] = &aa
		}
		// writer progress markers are not file-system steps: acknowledge them at once
		if p := pending[0]; p != nil && p.mark != "" {
			if strings.HasPrefix(p.mark, "begin") {
				begun++
			} else {
				ended++
			}
			pending[0] = nil
			running++
			c.resume[0] <- struct{}{}
			continue
		}
		if pending[0] == nil && pending[1] == nil {
			break
		}
		who := 0
		if pending[0] != nil && pending[1] != nil {
			key := fmt.Sprintf("%d|%d|%x|%v|%d|%d", pc[0], pc[1], c.obs[1], rStarted, endedAtRS, last)
			if x.Seen([]byte(key)) {
				cut = true
				break
			}
			// default: the thread that ran last continues; switching away from it is a preemption (one deviation)
			who = last
			if x.Deviate(2, fmt.Sprintf("preempt %s: w%d:%s / r%d:%s", []string{"writer", "reader"}[last], pc[0], stepClass(pending[0].op), pc[1], stepClass(pending[1].op))) == 1 {
				who = 1 - last
			}
		} else if pending[1] != nil {
			who = 1
		}
		if who == 1 && !rStarted {
			rStarted, endedAtRS = true, ended
		}
		if x.Logging() {
			x.Logf("%s step %d: %s", []string{"writer", "reader"}[who], pc[who], (&fsCtl{root: dbPath}).describe(pending[who].op))
		}
		pc[who]++
		last = who
		x.Transition()
		pending[who] = nil
		running++
		c.resume[who] <- struct{}{}
	}
	if cut {
		finish()
		return
	}
	c.free.Store(true)
	if !rStarted { // reader performed no file-system step at all
		endedAtRS = ended
	}
	if werr != nil {
		x.Fail("writer-failed", "%s, reader %s: the writer failed because of the concurrent reader: %v", sc.name, c30ReaderNames[reader], werr)
		return
	}
	where := fmt.Sprintf("%s, reader = %s, reader ran while write-outs [%d completed at its first step .. %d begun at its end]", sc.name, c30ReaderNames[reader], endedAtRS, begunAtRE)
	if rres.err != nil {
		x.Fail("reader-error:"+c30ErrClass(rres.err), "%s: the reader failed: %v", where, rres.err)
		return
	}
	// per day: content after k of that day's write-outs, for some admissible k
	days := map[int64]bool{}
	all := append(append([]fixture.Block{}, sc.initial...), sc.writes...)
	for _, bl := range all {
		days[gpfile.DirTimestamp(bl.TS)] = true
	}
	type opt struct {
		rows  map[fixture.RowKey]types.Counters
		stats gpfile.Stats
	}
	perDay := map[int64][]opt{}
	for day := range days {
		for k := endedAtRS; k <= begunAtRE; k++ {
			vis := append([]fixture.Block{}, sc.initial...)
			vis = append(vis, sc.writes[:k]...)
			var dayBlocks []fixture.Block
			for _, bl := range vis {
				if gpfile.DirTimestamp(bl.TS) == day {
					dayBlocks = append(dayBlocks, bl)
				}
			}
			db := fixture.DB{Blocks: dayBlocks}
			o := opt{rows: db.Aggregate(fixture.QuerySpec{Attrs: c08Attrs, Time: true, Iface: true, Ifaces: []string{"eth0"}, First: 0, Last: 1 << 40})}
			for _, bl := range dayBlocks {
				o.stats.Traffic.NumDrops += bl.Drops
				for _, r := range bl.Recs {
					if r.IsV4() {
						o.stats.Traffic.NumV4Entries++
					} else {
						o.stats.Traffic.NumV6Entries++
					}
					o.stats.Counts.Add(r.C)
				}
			}
			perDay[day] = append(perDay[day], o)
		}
	}
	if reader == c30Listing {
		// totals = sum over days of one admissible option per day
		sums := []gpfile.Stats{{}}
		for day := range days {
			var next []gpfile.Stats
			for _, s := range sums {
				for _, o := range perDay[day] {
					next = append(next, s.Add(o.stats))
				}
			}
			sums = next
		}
		ok := false
		for _, s := range sums {
			if s == rres.stats {
				ok = true
			}
		}
		if !ok {
			x.Fail("listing-no-snapshot", "%s: the listing returned %+v, which is not the sum of any per-day snapshot", where, rres.stats)
			return
		}
	} else {
		for day := range days {
			got := map[fixture.RowKey]types.Counters{}
			for k, v := range rres.rows {
				if gpfile.DirTimestamp(k.TS) == day {
					got[k] = v
				}
			}
			ok := false
			for _, o := range perDay[day] {
				if fixture.DiffRows(got, o.rows) == "" {
					ok = true
				}
			}
			if !ok {
				x.Fail("query-no-snapshot", "%s: rows of day %d are not the content after any admissible write-out: got %d rows; vs last option: %s", where, day, len(got), fixture.DiffRows(got, perDay[day][len(perDay[day])-1].rows))
				return
			}
		}
	}
	x.Obs("%x %d %d", c.obs[1], endedAtRS, begunAtRE)
	if endedAtRS != begunAtRE {
		x.Nontrivial("%d %x %d %d", x.Case, c.obs[1], endedAtRS, begunAtRE)
	}
}

func c30ErrClass(err error) string {
	s := err.Error()
	switch {
	case strings.Contains(s, "error reading metadata file"):
		return "metadata-missing"
	case strings.Contains(s, "no such file"):
		return "enoent"
	case strings.Contains(s, "internal error"):
		return "internal"
	}
	return "other"
}

func init() {
	register("C30", &explore.Scenario{
		ID: "C30", Name: "all interleavings of reader and writer file-system steps", Level: "model_checking",
		Rule:  "cases = 5 writer scenarios (append with suffix rename + first block of a new day; first block ever; two appends; new day in a new month; append to a day whose first block has no flows; the first and the last scenario with a foreign plain file next to the day directories) x 3 readers (raw+time query, same in low-memory mode, interface listing); the real writer (1-2 write-outs through DBWriter.Write) and the real reader run as goroutines that block in the vos controller before every file-system step; wherever both have a step pending the explorer branches on who goes first; all interleavings with at most 2 (thorough 3) preemptions (a switch away from a thread that could continue), either thread first, memoised on (writer pc, reader pc, hash of all results the reader has observed, writer progress at reader start). state = that key; non-trivial = interleavings where the reader overlaps at least one write-out, distinct by (reader observation history, overlap window)",
		Cases: func(t string) int { return 3 * len(c30Scenarios()) },
		Bound: func(t string) int {
			if t == "thorough" {
				return 3
			}
			return 2
		},
		Run:      c30Run,
		CrashSig: "reader-crash",
		Setup:    func(string) { engine.VerifSetNumProcessingUnits(1) },
		Assumptions: []string{"one file-system step = one system call of the vos shim; steps are atomic and sequentially consistent (Linux VFS semantics on one host)",
			"the disk is a function of the writer's program counter; threads are deterministic given their observations (replay divergence would abort the run)",
			"query engine with one worker goroutine: reader-side goroutines perform file-system steps one at a time"},
	})
}

package scen

import (
	"context"
	"fmt"
	"log/slog"
	"sort"
	"strings"
	"testing/synctest"
	"time"

	"github.com/els0r/goProbe/v4/cmd/goProbe/config"
	"github.com/els0r/goProbe/v4/pkg/capture"
	"github.com/els0r/goProbe/v4/pkg/capture/capturetypes"
	"github.com/els0r/goProbe/v4/pkg/types/hashmap"
	"github.com/els0r/telemetry/logging"

	"verifmc/explore"
)

// C21: packets seen while the capture is paused are counted once and unaltered.
//
// Threads: the real Capture.process goroutine (started by the real Manager.Update)
// and one or two requester goroutines running the real Manager methods
// (performWriteout, Status, GetFlowMaps). Seams: the fake source of
// fake_source.go. After every event the bubble runs to quiescence
// (synctest.Wait), then the explorer picks the next event among the enabled ones:
//
//	pkt        the next packet of the case's sequence arrives in the ring
//	see        the parked poll of process() returns ErrCaptureUnblocked
//	rel:<seam> a requester parked in Unblock / Stats is released; a live query is
//	           additionally parked right after it obtained the lock (logger seam),
//	           because GetFlowMaps has no source call between Lock and Unlock and
//	           would otherwise race with process() entering the pause
//	start:<k>  the next request begins
//
// All orders, no bound. Quiescence with unfinished requests and no enabled event
// is a deadlock; the lock's 30 s timeouts are then allowed to fire in virtual time
// only to unwind the bubble.

const c21Iface = "eth0"

var (
	c21Kinds = []string{"writeout", "status", "live"}
	// packet sequences (quick uses the first three packets of each)
	c21Seqs = []string{
		"a4 b6 c4 d6", // v4 in, v6 out, v4 out (same conversation as a4), v6 in
		"b6 a4 d6 e4", // starts with v6
		"e4 f4 g6 b6", // with a fragment (no flow, not processed) and ICMP
	}
	// local buffer size limits: production default; 48 bytes = the second or third
	// buffered packet does not fit any more (v4 items take 21, v6 items 45 bytes);
	// thorough also 24 bytes = the first (v6) or second buffered packet does not fit;
	// negative = initial buffer of that many bytes that may GROW up to the production
	// limit: the second / third (first / second) buffered packet makes the buffer grow
	// while it holds packets
	c21Limits = []int{0, 48, -48, 24, -24}
)

func c21NLimits(tier string) int {
	if tier == "thorough" {
		return 5
	}
	return 3
}

type c21Req struct {
	id       int
	kind     string
	derived  int // per-interface logger derivations seen from this request
	started  bool
	finished bool
	panicked any
	status   capturetypes.InterfaceStats
	live     []hashmap.AggFlowMapWithMetadata
}

// Overlapping requests (thorough tier): with two local buffers (a supported
// setting, "maximum concurrency of Status() calls") a second request can place
// its lock request while the first pause is still on. Only pairs in which the
// newcomer does not wait for a sync.Mutex held across the first pause are run (such
// a wait is not a durable block, the bubble could not reach quiescence): a live
// query takes no manager lock; Status holds the captures lock while paused.
var c21OverlapPairs = [][2]string{{"live", "writeout"}, {"live", "status"}, {"live", "live"}, {"writeout", "live"}}

func c21BaseCases(tier string) int {
	return len(c21Kinds) * len(c21Kinds) * len(c21Seqs) * c21NLimits(tier)
}

// The overlapping pairs have by far the largest schedule spaces; each of them is
// split by its first event choice (taken from the case index instead of the
// explorer, radix 3) so that the top-level cases are of similar size. A sub-case
// whose digit exceeds the number of enabled events is void (it ends at once and
// claims nothing).
const (
	c21SplitBase = 1
	c21SplitOv   = 3
)

func c21Cases(tier string) int {
	n := c21BaseCases(tier) * c21SplitBase
	if tier == "thorough" {
		n += len(c21OverlapPairs) * len(c21Seqs) * c21NLimits(tier) * c21SplitOv
	}
	return n
}

func c21Run(x *explore.Ctx) {
	ci := x.Case
	var k1, k2 string
	var pre []int
	overlap := ci >= c21BaseCases(x.Tier)*c21SplitBase
	if overlap {
		ci -= c21BaseCases(x.Tier) * c21SplitBase
		sub := ci % c21SplitOv
		ci /= c21SplitOv
		pre = []int{sub}
		k1, k2 = c21OverlapPairs[ci%len(c21OverlapPairs)][0], c21OverlapPairs[ci%len(c21OverlapPairs)][1]
		ci /= len(c21OverlapPairs)
	} else {
		ci /= c21SplitBase
		k1 = c21Kinds[ci%3]
		ci /= 3
		k2 = c21Kinds[ci%3]
		ci /= 3
	}
	seq := c21Seqs[ci%len(c21Seqs)]
	ci /= len(c21Seqs)
	limit := c21Limits[ci]
	pkts := mcPkts(seq)
	if !x.Thorough() || overlap {
		pkts = pkts[:3]
	}
	mcLog.Reset()
	leak := mcBubble(func() { c21Body(x, []string{k1, k2}, pkts, limit, overlap, pre) })
	if leak != "" && !x.Failed() {
		x.Fail("goroutines-left-blocked", "after the schedule and a complete tear-down (Manager.Close) goroutines of the bubble remain blocked: %s", leak)
	}
}

func c21Body(x *explore.Ctx, kinds []string, pkts []mcPkt, limit int, overlap bool, pre []int) {
	ctx := context.Background()
	src := &fakeSource{}
	wo := &mcWriteouts{}
	opts := []capture.ManagerOption{capture.WithSourceInitFn(func(*capture.Capture) (capture.Source, error) { return src, nil })}
	nbuf, sizeLimit := 1, config.DefaultLocalBufferSizeLimit
	if overlap {
		nbuf = 2
	}
	if limit > 0 {
		defer capture.VerifSetInitialBufferSize(capture.VerifSetInitialBufferSize(limit))
		sizeLimit = limit
	} else if limit < 0 {
		defer capture.VerifSetInitialBufferSize(capture.VerifSetInitialBufferSize(-limit))
	}
	opts = append(opts, capture.WithLocalBuffers(nbuf, sizeLimit))
	mgr := capture.NewManager(wo, opts...)
	if err := capture.VerifSetLocalBuffers(mgr); err != nil { // as InitManager does
		explore.HarnessErrorf("setLocalBuffers: %v", err)
	}
	if _, _, _, err := mgr.Update(ctx, &config.Config{Interfaces: config.Ifaces{c21Iface: config.DefaultCaptureConfig()}}); err != nil {
		explore.HarnessErrorf("Manager.Update: %v", err)
	}
	synctest.Wait()
	cpt := capture.VerifCapture(mgr, c21Iface)
	if cpt == nil || !src.PollParked() {
		explore.HarnessErrorf("capture did not start (capture %v, poll parked %v)", cpt != nil, src.PollParked())
	}
	x.Logf("manager with one capture on %s, %d local buffer(s), size limit %d, packets %v, requests %v (may overlap: %v)", c21Iface, nbuf, sizeLimit, pktNames(pkts), kinds, overlap)

	reqs := make([]*c21Req, len(kinds))
	for i, k := range kinds {
		reqs[i] = &c21Req{id: i, kind: k}
	}
	// logger seam: the first logger derivation of a live query happens in
	// Capture.flowMap, i.e. after Lock returned and before Unlock
	mcLogHook = func(attrs []slog.Attr) {
		var r *c21Req
		perIface := false
		for _, a := range attrs {
			switch a.Key {
			case mcReqField:
				r = reqs[int(a.Value.Int64())]
			case "iface":
				perIface = true
			}
		}
		if r != nil && r.kind == "live" && perIface {
			if r.derived++; r.derived == 1 {
				src.Park("locked", r.id+1)
			}
		}
	}
	defer func() { mcLogHook = nil }()
	start := func(r *c21Req) {
		r.started = true
		ctx := logging.WithFields(ctx, slog.Int(mcReqField, r.id))
		go func() {
			defer func() {
				if e := recover(); e != nil {
					r.panicked = e
				}
				r.finished = true
			}()
			switch r.kind {
			case "writeout":
				capture.VerifPerformWriteout(mgr, ctx, time.Now())
			case "status":
				r.status = mgr.Status(ctx)
			case "live":
				ch := make(chan hashmap.AggFlowMapWithMetadata, 8)
				mgr.GetFlowMaps(ctx, nil, ch)
				close(ch)
				for m := range ch {
					r.live = append(r.live, m)
				}
			}
		}()
	}

	var (
		delivered    []mcPkt
		whilePaused  []bool // per delivered packet: arrived while a pause was requested or not yet left
		nextPkt      int
		nextReq      int
		maxBuffered  int
		sawStaleSeen bool
		void         bool // the case index names an event that does not exist: nothing to explore
		srcFailed    bool // the one transient poll error of the schedule has been delivered
	)
	inflight := func() (n int, kind string) {
		for _, r := range reqs {
			if r.started && !r.finished {
				n++
				kind = r.kind
			}
		}
		return
	}
	// flow log content without copying it (keys are the capture's own flow hashes)
	flowLog := func() (packets int, hash uint64) {
		for fam, m := range []map[string]*capture.Flow{cpt.VerifFlowLog().FlowsV4(), cpt.VerifFlowLog().FlowsV6()} {
			for k, v := range m {
				packets += int(v.PacketsRcvd + v.PacketsSent)
				e := uint64(14695981039346656037) + uint64(fam)
				for i := 0; i < len(k); i++ {
					e = (e ^ uint64(k[i])) * 1099511628211
				}
				e ^= v.BytesRcvd*3 + v.BytesSent*5 + v.PacketsRcvd*7 + v.PacketsSent*11
				hash += e * 0x9e3779b97f4a7c15
			}
		}
		return
	}
	// held back = packets with flow information fetched from the source but not (yet)
	// counted as processed: they sit in the local buffer (or were dropped by an overflow)
	heldBack := func() int {
		st := cpt.VerifStats()
		return src.poppedFlow - int(st.ProcessedTotal+st.Processed)
	}

	for step := 0; ; step++ {
		if step > 400 {
			explore.HarnessErrorf("schedule does not end")
		}
		synctest.Wait()
		nfl, curKind := inflight()
		lockReq, unlockReq := cpt.VerifLockChannels()

		// canonical state: delivered set, flow-log content, packets held back (ring + local buffer), lock phase
		_, flHash := flowLog()
		held := heldBack()
		if held > maxBuffered {
			maxBuffered = held
		}
		var ph strings.Builder
		for _, r := range reqs {
			fmt.Fprintf(&ph, "%v%v,", r.started, r.finished)
		}
		sort.Slice(src.seams, func(i, j int) bool {
			return src.seams[i].kind < src.seams[j].kind || (src.seams[i].kind == src.seams[j].kind && src.seams[i].n < src.seams[j].n)
		})
		for _, s := range src.seams {
			ph.WriteString(s.kind)
		}
		x.State([]byte(fmt.Sprintf("%d|%d|%d|%v|%v|%v|%v|%x|%s|%d", nextPkt, len(src.ring), held, src.pending, src.PollParked(), lockReq, unlockReq, flHash, ph.String(), len(wo.maps))))

		type ev struct {
			name string
			do   func()
		}
		var evs []ev
		if nextPkt < len(pkts) {
			p := pkts[nextPkt]
			evs = append(evs, ev{"pkt:" + p.name, func() {
				delivered = append(delivered, p)
				whilePaused = append(whilePaused, nfl > 0 || lockReq || unlockReq)
				nextPkt++
				src.Arrive(p)
			}})
		}
		if src.CanSeeUnblock() {
			evs = append(evs, ev{"see-unblock", func() {
				if nfl == 0 && !lockReq && !unlockReq {
					sawStaleSeen = true // an unblock left over from a finished pause
				}
				src.SeeUnblock()
			}})
		}
		for i, s := range src.seams {
			i := i
			evs = append(evs, ev{fmt.Sprintf("rel:%s#%d", s.kind, s.n), func() { src.Release(i) }})
		}
		_ = curKind
		// once per schedule the poll may fail with a transient error while the capture is buffering (in
		// bufferPackets; outside a pause such an error ends the capture by design). Only with the production
		// buffer and one request at a time, to keep the cases small.
		if !srcFailed && limit == 0 && !overlap && nfl > 0 && !src.pending && src.Buffering() {
			evs = append(evs, ev{"source-error", func() { srcFailed = true; src.FailOnce() }})
		}
		if nextReq < len(reqs) && (nfl == 0 || (overlap && nfl == 1)) {
			r := reqs[nextReq]
			evs = append(evs, ev{"start:" + r.kind, func() { nextReq++; start(r) }})
		}
		if len(evs) == 0 {
			break
		}
		names := make([]string, len(evs))
		for i, e := range evs {
			names[i] = e.name
		}
		var c int
		if step < len(pre) {
			// dictated by the case index
			if c = pre[step]; c >= len(evs) {
				void = true
				break
			}
			x.Logf("  [case] %s = %d/%d", strings.Join(names, " | "), c, len(evs))
		} else {
			c = x.Choose(len(evs), strings.Join(names, " | "))
		}
		x.Transition()
		x.Logf("step %d: %s   (ring %d, held back %d, unblock pending %v, poll parked %v, lock requested %v, unlock requested %v)", step, evs[c].name, len(src.ring), held, src.pending, src.PollParked(), lockReq, unlockReq)
		evs[c].do()
	}

	// ---- end of the schedule: everything delivered, nothing enabled ----
	if void {
		x.Obs("void sub-case")
		src.SetAuto()
		synctest.Wait()
		closed := false
		go func() { mgr.Close(ctx); closed = true }()
		synctest.Wait()
		if !closed {
			explore.HarnessErrorf("void sub-case: Manager.Close does not return")
		}
		return
	}
	nfl, _ := inflight()
	overflows := mcLog.Count(capture.ErrLocalBufferOverflow.Error())
	for i, r := range reqs {
		if r.panicked != nil {
			x.Fail("request-panic:"+r.kind, "request %d (%s) panicked: %v", i, r.kind, r.panicked)
		}
	}
	lockReq, unlockReq := cpt.VerifLockChannels()
	switch {
	case nfl > 0 || nextReq < len(reqs):
		x.Fail("deadlock", "quiescent with %d request(s) unfinished and no enabled event: poll parked %v, unblock pending %v, lock requested %v, unlock requested %v, seams %d", nfl, src.PollParked(), src.pending, lockReq, unlockReq, len(src.seams))
	case capture.VerifCapture(mgr, c21Iface) != cpt:
		x.Fail("capture-torn-down", "the capture was closed during the schedule (lock failure); log: %s", mcLog.String())
	case lockReq || unlockReq || !src.PollParked():
		x.Fail("pause-not-left", "all requests returned and no unblock is pending, but process() did not resume: lock requested %v, unlock requested %v, poll parked %v", lockReq, unlockReq, src.PollParked())
	case mcLog.Count("three-point lock") > 0:
		x.Fail("lock-error", "a lock or unlock failed: %s", mcLog.String())
	}

	if !x.Failed() {
		c21Oracle(x, cpt, wo, reqs, delivered, whilePaused, overflows)
	}
	if maxBuffered > 0 {
		x.Nontrivial("%v %d held back, overflows %d, stale unblock %v", kinds, maxBuffered, overflows, sawStaleSeen)
	}

	// ---- tear-down: the source runs by itself, timeouts may fire, the manager closes ----
	src.SetAuto()
	synctest.Wait()
	if n, _ := inflight(); n > 0 {
		time.Sleep(3 * 31 * time.Second) // virtual: lets the lock's timeouts unwind a deadlock
		synctest.Wait()
	}
	closed := false
	go func() { mgr.Close(ctx); closed = true }()
	synctest.Wait()
	if !closed {
		time.Sleep(3 * 31 * time.Second)
		synctest.Wait()
	}
	if !closed && !x.Failed() {
		x.Fail("close-hangs", "Manager.Close does not return after the schedule")
	}
}

func pktNames(p []mcPkt) []string {
	out := make([]string, len(p))
	for i := range p {
		out[i] = p[i].name
	}
	return out
}

// c21Oracle: the rotated maps plus the flow log hold exactly the delivered
// packets; a missing packet needs a reported overflow; the processed counters
// agree with what was recorded.
func c21Oracle(x *explore.Ctx, cpt *capture.Capture, wo *mcWriteouts, reqs []*c21Req, delivered []mcPkt, whilePaused []bool, overflows int) {
	observed := mcFlows{}
	var processed uint64
	var fragErrs int
	for _, m := range wo.maps {
		observed.addAgg(m.Map)
		processed += m.Stats.Processed
		fragErrs += m.Stats.ParsingErrors[capturetypes.ErrnoPacketFragmentIgnore]
	}
	for _, r := range reqs {
		for _, s := range r.status {
			processed += s.Processed
			fragErrs += s.ParsingErrors[capturetypes.ErrnoPacketFragmentIgnore]
		}
	}
	observed.addAgg(cpt.VerifFlowLog().Aggregate())
	st := cpt.VerifStats()
	processed += st.Processed
	fragErrs += st.ParsingErrors[capturetypes.ErrnoPacketFragmentIgnore]

	want := mcFlows{}
	nFrag := 0
	for _, p := range delivered {
		want.addPkt(p)
		if !p.flow {
			nFrag++
		}
	}
	x.Obs("%x %d %d %d", observed.hash(), processed, fragErrs, overflows)
	x.Logf("delivered %v; recorded: %s; processed %d, fragments %d, overflow reports %d", pktNames(delivered), observed, processed, fragErrs, overflows)

	if processed != observed.packets() {
		x.Fail("processed-mismatch", "the capture reports %d processed packets (status + write-out stats + running counter) but recorded %d packets in flows; delivered %v; recorded %s", processed, observed.packets(), pktNames(delivered), observed)
		return
	}
	// fragments carry no flow; a fragment that is not counted was dropped, which (like
	// any other packet) only a reported overflow during a pause may do
	lostFrags := nFrag - fragErrs
	fragsPaused := true
	for i, p := range delivered {
		if !p.flow && !whilePaused[i] {
			fragsPaused = false
		}
	}
	if lostFrags < 0 || (lostFrags > 0 && !fragsPaused) {
		x.Fail("fragment-count", "%d non-first fragments delivered, %d counted (fragments arrived during a pause: %v)", nFrag, fragErrs, fragsPaused)
		return
	}
	if observed.equal(want) {
		if lostFrags > overflows {
			x.Fail("fragment-lost-unreported", "%d non-first fragments delivered, %d counted, %d local buffer overflow(s) reported", nFrag, fragErrs, overflows)
		} else if lostFrags > 0 {
			x.Obs("fragment lost to a reported overflow")
			x.Nontrivial("overflow loses a fragment")
		}
		return
	}

	// Which delivered packets are not where they belong? Try every subset M of
	// the delivered packets as "not recorded as expected".
	n := len(delivered)
	best, bestMask := -1, 0
	for mask := 1; mask < 1<<n; mask++ {
		w := mcFlows{}
		for i, p := range delivered {
			if mask&(1<<i) == 0 {
				w.addPkt(p)
			}
		}
		// observed must contain w entirely
		ok := true
		for id, c := range w {
			o := observed[id]
			if o.BytesRcvd < c.BytesRcvd || o.BytesSent < c.BytesSent || o.PacketsRcvd < c.PacketsRcvd || o.PacketsSent < c.PacketsSent {
				ok = false
				break
			}
		}
		if !ok {
			continue
		}
		if cnt := popcount(mask); best < 0 || cnt < best {
			best, bestMask = cnt, mask
		}
	}
	if best < 0 {
		x.Fail("recorded-more-than-delivered", "no subset of the delivered packets explains the recorded flows: delivered %v, expected %s, recorded %s", pktNames(delivered), want, observed)
		return
	}
	// rest = what is recorded beyond the correctly recorded packets
	rest := mcFlows{}
	for id, c := range observed {
		rest[id] = c
	}
	var wrong []mcPkt
	allPaused := true
	for i, p := range delivered {
		if bestMask&(1<<i) != 0 {
			wrong = append(wrong, p)
			if p.flow && !whilePaused[i] {
				allPaused = false
			}
			continue
		}
		if p.flow {
			id := mcFlowID(p.v4, p.key)
			c := rest[id]
			if p.out {
				c.BytesSent -= uint64(p.size)
				c.PacketsSent--
			} else {
				c.BytesRcvd -= uint64(p.size)
				c.PacketsRcvd--
			}
			if c == (c21NoCounters) {
				delete(rest, id)
			} else {
				rest[id] = c
			}
		}
	}
	var wrongFlow []mcPkt
	for _, p := range wrong {
		if p.flow {
			wrongFlow = append(wrongFlow, p)
		}
	}
	if len(rest) == 0 {
		// packets are simply missing
		if len(wrongFlow)+lostFrags <= overflows && allPaused {
			x.Obs("loss explained by overflow")
			x.Nontrivial("overflow loses %v", pktNames(wrongFlow))
			return
		}
		if !allPaused {
			x.Fail("packet-lost-outside-pause", "packets %v are missing from flow log and write-outs although they did not arrive during a pause; %d overflow report(s); recorded %s", pktNames(wrongFlow), overflows, observed)
			return
		}
		x.Fail("packet-lost-unreported", "packets %v are missing from flow log and write-outs, but only %d local buffer overflow(s) were reported; delivered %v, recorded %s", pktNames(wrongFlow), overflows, pktNames(delivered), observed)
		return
	}
	// something else was recorded instead: classify by family / counters
	var v6wrong, v4wrong bool
	for _, p := range wrongFlow {
		if p.v4 {
			v4wrong = true
		} else {
			v6wrong = true
		}
	}
	var v4rest, v6rest bool
	var restPk uint64
	for id, c := range rest {
		if id[0] == '4' {
			v4rest = true
		} else {
			v6rest = true
		}
		restPk += c.PacketsRcvd + c.PacketsSent
	}
	sig := "recorded-altered"
	switch {
	case restPk > uint64(len(wrongFlow)):
		sig = "packet-counted-twice"
	case v6wrong && !v4wrong && v4rest && !v6rest:
		sig = "ipv6-packet-recorded-as-ipv4"
	case v4wrong && !v6wrong && v6rest && !v4rest:
		sig = "ipv4-packet-recorded-as-ipv6"
	case v4wrong == v4rest && v6wrong == v6rest:
		sig = "recorded-with-other-key-direction-or-size"
	}
	x.Fail(sig, "packets %v (arrived during a pause: %v) are not recorded as delivered; instead the flow log / write-outs contain %s; delivered %v; expected %s; recorded %s",
		pktNames(wrongFlow), allPaused, rest, pktNames(delivered), want, observed)
}

var c21NoCounters = hashmap.Val{}

func popcount(m int) (n int) {
	for ; m != 0; m &= m - 1 {
		n++
	}
	return
}

func init() {
	register("C21", &explore.Scenario{
		ID: "C21", Name: "three-point lock: packet arrival x write-out / status / live-query pauses, all orders", Level: "model_checking",
		Rule:  "cases = request pair (writeout|status|live)^2, run one after the other, x 3 packet sequences (mixed IPv4/IPv6, both directions, distinct sizes, one with a non-first fragment; 3 packets quick, 4 thorough) x local buffer {production size and limit; limit 48 bytes = overflow at the 2nd/3rd buffered packet; initial size 48 bytes growing up to the production limit = growth at the 2nd/3rd buffered packet while the buffer holds packets; thorough also 24 bytes (limit / initial size) = at the 1st/2nd}; thorough adds the pairs (live,writeout) (live,status) (live,live) (writeout,live) with TWO local buffers where the second request may start while the first pause is on (3 packets); each overlapping pair is split by its first event choice, encoded in the case index to keep cases of similar size (digits that name no enabled event give void cases). Per case ALL orders of the events {next packet arrives, parked poll sees the pending unblock, (production buffer, one request at a time: once per schedule) the parked poll fails with a transient error while the capture is buffering, release a requester from Unblock / Stats / just-locked (live), start next request} with the bubble run to quiescence after each; state = (packets delivered, ring, packets held back in the local buffer, unblock pending, poll parked, lock/unlock requested, flow-log hash, request phases, parked seams, write-outs); non-trivial = schedules in which packets were held back in the local buffer, distinct by (requests, maximum held back, overflows, stale unblock seen) and by the set of packets lost to a reported overflow",
		Cases: c21Cases,
		Bound: func(string) int { return 0 },
		Run:   c21Run, Setup: mcSetup, PanicSig: "panic",
		Assumptions: []string{
			"source model = slimcap afring as observable through capture.SourceZeroCopy: ring packets first, unblocks coalesce, zero-copy slices invalidated by the next call",
			"goroutine interleavings inside one seam-to-seam segment are not enumerated (GOMAXPROCS=1, run to quiescence)",
			"a second request starts while the first is in flight only with two local buffers and only where the newcomer does not wait for a sync.Mutex (live query first, or live query during a write-out)",
			"a live query is parked once more right after Lock returned (seam in the logger derivation of Capture.flowMap): process() enters the pause before the requester sends its unlock request; the opposite order of that one race is reached only through its equivalent 'unlock seen after a packet'",
		},
	})
}

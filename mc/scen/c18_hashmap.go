package scen

import (
	"bytes"
	"encoding/binary"
	"fmt"
	"sort"

	"github.com/els0r/goProbe/v4/pkg/types"
	"github.com/els0r/goProbe/v4/pkg/types/hashmap"

	"verifmc/explore"
)

// C18: the flow hash map behaves as a map with additive updates.
//
// Case = (seed 1..8) x (key width 11, 35, 19, 43). Default history: n inserts
// of distinct keys through SetOrUpdate. At every step one deviation may
// replace the insert by another operation. After EVERY step the full
// observable state (Len, Get of every present key and of absent probes, one
// complete iteration) is compared with a plain Go map.

var c18Widths = []int{types.KeyWidthIPv4, types.KeyWidthIPv6, types.KeyWidthIPv4 + types.TimestampWidth, types.KeyWidthIPv6 + types.TimestampWidth}

func c18Key(width, i int) []byte {
	k := make([]byte, width)
	binary.BigEndian.PutUint32(k, uint32(i)*2654435761)
	for j := 4; j < width; j++ {
		k[j] = byte(i*31 + j*7)
	}
	binary.BigEndian.PutUint16(k[width-3:], uint16(i)) // guarantees distinctness
	return k
}

func c18Val(i int) types.Counters {
	return types.Counters{BytesRcvd: uint64(i)*3 + 1, BytesSent: uint64(i) * 5, PacketsRcvd: uint64(i) + 1, PacketsSent: uint64(i) % 3}
}

func addC(a, b types.Counters) types.Counters {
	return types.Counters{BytesRcvd: a.BytesRcvd + b.BytesRcvd, BytesSent: a.BytesSent + b.BytesSent,
		PacketsRcvd: a.PacketsRcvd + b.PacketsRcvd, PacketsSent: a.PacketsSent + b.PacketsSent}
}

type c18Model struct {
	m     *hashmap.Map
	ref   map[string]types.Counters
	width int
	next  int // next fresh key index
	seen  map[string]struct{}
}

func (s *c18Model) fresh() []byte { k := c18Key(s.width, s.next); s.next++; return k }

func (s *c18Model) existing(sel int) []byte {
	if len(s.ref) == 0 {
		return nil
	}
	keys := make([]string, 0, len(s.ref))
	for k := range s.ref {
		keys = append(keys, k)
	}
	sort.Strings(keys)
	return []byte(keys[sel%len(keys)])
}

// check compares every observable with the reference map.
func (s *c18Model) check(x *explore.Ctx, after string, opIdx int) bool {
	m := s.m
	nb, growing, same, nev, nov := hashmap.VerifShape(m)
	if m.Len() != len(s.ref) {
		x.Fail("len", "after %s: Len()=%d, reference %d (buckets=%d growing=%v)", after, m.Len(), len(s.ref), nb, growing)
		return false
	}
	for k, want := range s.ref {
		got, ok := m.Get([]byte(k))
		if !ok {
			x.Fail("get-missing", "after %s: Get(%x) not found (buckets=%d growing=%v sameSize=%v nEvacuate=%d)", after, k, nb, growing, same, nev)
			return false
		}
		if got != want {
			x.Fail("get-value", "after %s: Get(%x)=%+v, reference %+v", after, k, got, want)
			return false
		}
	}
	for p := 0; p < 3; p++ {
		probe := c18Key(s.width, 100000+p+s.next)
		if _, ok := m.Get(probe); ok {
			x.Fail("get-phantom", "after %s: Get of absent key %x succeeded", after, probe)
			return false
		}
	}
	if s.seen == nil {
		s.seen = make(map[string]struct{}, 256)
	}
	clear(s.seen)
	seen := s.seen
	cnt := 0
	for it := m.Iter(); it.Next(); {
		cnt++
		if cnt > len(s.ref)+8 {
			x.Fail("iter-runaway", "after %s: iteration yields more than %d entries (reference %d)", after, cnt, len(s.ref))
			return false
		}
		k := string(it.Key())
		if _, dup := seen[k]; dup {
			x.Fail("iter-duplicate", "after %s: iteration yields key %x twice (buckets=%d growing=%v sameSize=%v nEvacuate=%d overflow=%d)", after, k, nb, growing, same, nev, nov)
			return false
		}
		seen[k] = struct{}{}
		want, ok := s.ref[k]
		if !ok {
			x.Fail("iter-phantom", "after %s: iteration yields key %x which was never inserted", after, k)
			return false
		}
		if it.Val() != want {
			x.Fail("iter-value", "after %s: iteration yields %x=%+v, reference %+v", after, k, it.Val(), want)
			return false
		}
	}
	if len(seen) != len(s.ref) {
		x.Fail("iter-missing", "after %s: iteration yields %d of %d entries (buckets=%d growing=%v sameSize=%v nEvacuate=%d overflow=%d)", after, len(seen), len(s.ref), nb, growing, same, nev, nov)
		return false
	}
	shape := uint64(nb)<<40 ^ uint64(nev)<<24 ^ uint64(nov)<<12 ^ uint64(len(s.ref))<<2
	if growing {
		shape ^= 1
	}
	if same {
		shape ^= 2
	}
	x.StateKey(shape*0x9e3779b97f4a7c15 ^ c18ContentHash(s.ref))
	if growing || nov > 0 {
		x.NontrivialKey(shape*31 + uint64(opIdx))
	}
	return true
}

func c18ContentHash(ref map[string]types.Counters) uint64 {
	var h uint64
	for k, v := range ref {
		e := uint64(14695981039346656037)
		for i := 0; i < len(k); i++ {
			e = (e ^ uint64(k[i])) * 1099511628211
		}
		e ^= v.BytesRcvd*3 + v.BytesSent*5 + v.PacketsRcvd*7 + v.PacketsSent*11
		h += e * 0x9e3779b97f4a7c15
	}
	return h
}

var c18Ops = []string{"insert", "update-existing", "set-existing", "merge", "insert+scribble", "set-new", "filtered-iter"}
var c18Labels = func() []string {
	l := make([]string, 512)
	for i := range l {
		l[i] = fmt.Sprintf("op@%d", i)
	}
	return l
}()

// merge source sizes: 27, 54 and 107 leave the source MID-GROWTH (old buckets not yet evacuated:
// growth starts at the 27th / 53rd / 105th insert and needs several more inserts to complete)
var c18MergeSizes = []int{0, 1, 9, 27, 54, 70, 107}

func c18Run(x *explore.Ctx) {
	seed := uint64(x.Case/4) + 1
	width := c18Widths[x.Case%4]
	n := 30
	if x.Thorough() {
		n = 72
	}
	hint := []int{0, 20}[x.Choose(2, "hint(0,20)")]
	s := &c18Model{m: hashmap.New(hint), ref: map[string]types.Counters{}, width: width}
	hashmap.VerifSetSeed(s.m, seed*0x9e3779b97f4a7c15)
	x.Logf("seed=%d width=%d hint=%d n=%d", seed, width, hint, n)
	for step := 0; step < n; step++ {
		op := x.Deviate(len(c18Ops), c18Labels[step])
		name := c18Ops[op]
		switch op {
		case 0, 4:
			k := s.fresh()
			v := c18Val(s.next)
			s.m.SetOrUpdate(k, v.BytesRcvd, v.BytesSent, v.PacketsRcvd, v.PacketsSent)
			s.ref[string(k)] = v
			if op == 4 {
				saved := string(k)
				for i := range k {
					k[i] ^= 0xa5
				}
				if _, ok := s.m.Get([]byte(saved)); !ok {
					x.Fail("key-aliased", "step %d: map lost key %x after the caller modified its own buffer", step, saved)
					return
				}
			}
		case 1:
			k := s.existing(step * 7)
			if k == nil {
				k = s.fresh()
			}
			v := c18Val(step + 1000)
			s.m.SetOrUpdate(k, v.BytesRcvd, v.BytesSent, v.PacketsRcvd, v.PacketsSent)
			s.ref[string(k)] = addC(s.ref[string(k)], v)
		case 2:
			k := s.existing(step * 5)
			if k == nil {
				k = s.fresh()
			}
			v := c18Val(step + 2000)
			s.m.Set(k, v)
			s.ref[string(k)] = v
		case 5:
			k := s.fresh()
			v := c18Val(s.next + 3000)
			s.m.Set(k, v)
			s.ref[string(k)] = v
		case 3:
			sz := c18MergeSizes[x.Choose(len(c18MergeSizes), "merge-size")]
			src := hashmap.New()
			hashmap.VerifSetSeed(src, (seed+100)*0x9e3779b97f4a7c15)
			srcRef := map[string]types.Counters{}
			for j := 0; j < sz; j++ {
				var k []byte
				if j%2 == 0 {
					k = s.existing(j * 3)
				}
				if k == nil || func() bool { _, dup := srcRef[string(k)]; return dup }() {
					k = s.fresh()
				}
				v := c18Val(j + 4000)
				src.SetOrUpdate(k, v.BytesRcvd, v.BytesSent, v.PacketsRcvd, v.PacketsSent)
				srcRef[string(k)] = v
			}
			_, sg, _, _, _ := hashmap.VerifShape(src)
			name = fmt.Sprintf("merge(%d,srcGrowing=%v)", sz, sg)
			s.m.Merge(src)
			for k, v := range srcRef {
				s.ref[k] = addC(s.ref[k], v)
			}
			// the source must be unchanged by the merge
			if src.Len() != len(srcRef) {
				x.Fail("merge-src-changed", "step %d: merge changed the source length", step)
				return
			}
		case 6:
			// filtered iteration through the two-map wrapper
			agg := hashmap.AggFlowMap{PrimaryMap: s.m, SecondaryMap: hashmap.New()}
			thr := uint64(step)
			got := 0
			for it := agg.Iter(hashmap.WithFilter(func(v hashmap.Val) bool { return v.PacketsRcvd > thr })); it.Next(); {
				if it.Val().PacketsRcvd <= thr {
					x.Fail("filter-leak", "step %d: filtered iteration yields an entry the filter rejects", step)
					return
				}
				got++
			}
			want := 0
			for _, v := range s.ref {
				if v.PacketsRcvd > thr {
					want++
				}
			}
			if got != want {
				x.Fail("filter-count", "step %d: filtered iteration yields %d entries, reference %d", step, got, want)
				return
			}
		}
		x.Transition()
		x.Logf("step %d: %s -> len %d", step, name, len(s.ref))
		if x.Inherited() {
			continue // identical to the parent execution up to here: already checked there
		}
		if !s.check(x, name, op) {
			return
		}
	}
	// Flatten through the aggregate wrapper: every entry exactly once.
	agg := &hashmap.AggFlowMap{PrimaryMap: s.m, SecondaryMap: hashmap.New()}
	if width == types.KeyWidthIPv4 || width == types.KeyWidthIPv6 {
		p, sec := agg.Flatten()
		if len(p) != len(s.ref) || len(sec) != 0 {
			x.Fail("flatten-count", "Flatten yields %d+%d entries, reference %d", len(p), len(sec), len(s.ref))
			return
		}
		seen := map[string]bool{}
		for _, it := range p {
			if seen[string(it.Key)] || s.ref[string(it.Key)] != it.Val {
				x.Fail("flatten-entry", "Flatten yields wrong or repeated entry %x", []byte(it.Key))
				return
			}
			seen[string(it.Key)] = true
		}
	}
	x.Obs("%d %x", len(s.ref), c18ContentHash(s.ref))
	_ = bytes.Equal
}

func init() {
	register("C18", &explore.Scenario{
		ID: "C18", Name: "hash map vs reference map, every growth stage", Level: "model_checking",
		Rule: "cases = 4 (quick) / 8 (thorough) fixed hash seeds x 4 key widths x 2 size hints; per case a default history of n inserts (n=30 quick, 72 thorough) where at every step a deviation replaces the insert by update-existing / Set-overwrite / merge of a second map (sizes 0,1,9,27,54,70,107 - three of them mid-growth -, half overlapping keys, own seed) / insert+scribble over caller buffer / Set of a new key / filtered iteration; all histories with <= bound deviations; full Len/Get/absent-probe/Iter comparison after every step. state = (bucket count, growing, same-size, evacuation mark, overflow count, content hash); non-trivial = checks performed while the table is mid-growth or has overflow buckets, distinct by (shape, size, op)",
		Cases: func(t string) int {
			if t == "thorough" {
				return 32
			}
			return 16
		},
		Bound: func(t string) int {
			return 2
		},
		Run:      c18Run,
		PanicSig: "panic",
		Assumptions: []string{"hash seed fixed through an overlay export file (owns runtime.fastrand64)",
			"keys are synthetic byte strings of the four real key widths"},
	})
}

// C18.arena: the key arena. Keys are copied into one byte slice that starts at 64 KiB and doubles when
// the next key does not fit; key widths do not divide that size, so the key that crosses a boundary
// is the one whose copy has to trigger the growth. The scenario fills a map across the first (and
// second) boundary and compares everything with the reference map before, at and after the crossing.
const c18ArenaSize = 65536

var c18ArenaOps = []string{"SetOrUpdate", "Set", "alternating, every 5th an update of an existing key"}

func c18ArenaRun(x *explore.Ctx) {
	width := c18Widths[x.Case%4]
	op := (x.Case / 4) % 3
	boundary := c18ArenaSize << ((x.Case / 12) % 2)
	seed := uint64(x.Case) + 7
	hint := []int{0, 6000}[x.Choose(2, "hint(0,6000)")]
	s := &c18Model{m: hashmap.New(hint), ref: map[string]types.Counters{}, width: width}
	hashmap.VerifSetSeed(s.m, seed*0x9e3779b97f4a7c15)
	nCross := boundary / width // number of keys that fit below the boundary
	total := nCross + 4
	x.Logf("width=%d ops=%s boundary=%d: key #%d crosses it, %d inserts", width, c18ArenaOps[op], boundary, nCross+1, total)
	for i := 0; s.next < total; i++ {
		x.Transition()
		name := "insert"
		switch {
		case op == 2 && i%5 == 4 && len(s.ref) > 0:
			// update of an existing key: must not consume arena space nor create a second entry
			k := c18Key(width, (i*7)%s.next)
			v := c18Val(i + 500000)
			s.m.SetOrUpdate(k, v.BytesRcvd, v.BytesSent, v.PacketsRcvd, v.PacketsSent)
			s.ref[string(k)] = addC(s.ref[string(k)], v)
			name = "update"
		case op == 1 || (op == 2 && i%2 == 1):
			k := s.fresh()
			v := c18Val(s.next)
			s.m.Set(k, v)
			s.ref[string(k)] = v
			name = "Set"
		default:
			k := s.fresh()
			v := c18Val(s.next)
			s.m.SetOrUpdate(k, v.BytesRcvd, v.BytesSent, v.PacketsRcvd, v.PacketsSent)
			s.ref[string(k)] = v
		}
		// full comparison around every arena boundary passed so far, and at the end
		near := false
		for b := c18ArenaSize; b <= boundary; b <<= 1 {
			if d := s.next - b/width; d >= -2 && d <= 3 {
				near = true
			}
		}
		if near || s.next == total {
			if !s.check(x, fmt.Sprintf("%s #%d (%d keys, %d key bytes)", name, i, s.next, s.next*width), 0) {
				return
			}
			x.Nontrivial("%d %d %d %d", width, op, boundary, s.next)
		}
	}
	// merged into a fresh map (Merge copies keys into the destination's arena as well)
	dst := &c18Model{m: hashmap.New(0), ref: map[string]types.Counters{}, width: width}
	hashmap.VerifSetSeed(dst.m, seed*31+1)
	k0 := c18Key(width, 900000)
	dst.m.Set(k0, c18Val(1))
	dst.ref[string(k0)] = c18Val(1)
	dst.m.Merge(s.m)
	for k, v := range s.ref {
		dst.ref[k] = addC(dst.ref[k], v)
	}
	dst.next = s.next
	if !dst.check(x, "merge into a fresh map", 0) {
		return
	}
	x.Obs("%d %d %d", width, op, boundary)
}

func init() {
	register("C18.arena", &explore.Scenario{
		ID: "C18", Name: "key arena boundaries (64 KiB, 128 KiB)", Level: "model_checking",
		Rule:  "cases = 4 key widths (11, 35, 19, 43 bytes: none divides the arena size) x insert operation {SetOrUpdate, Set, alternating with an update of an existing key every 5th step} x arena boundary {64 KiB, 128 KiB}; free choice: size hint {0, 6000}. Keys are inserted until 4 keys beyond the boundary; around every boundary passed (2 keys before .. 3 after) and at the end Len / Get of every key / absent probes / full iteration are compared with the reference map; finally the map is merged into a fresh one and compared again. non-trivial = comparisons next to a boundary",
		Cases: func(string) int { return 4 * 3 * 2 },
		Bound: func(string) int { return 0 },
		Run:   c18ArenaRun, PanicSig: "panic",
	})
}

// mcworker runs cases of one scenario. Protocol: one case index per stdin
// line; one JSON result per stdout line. Everything else goes to stderr.
package main

import (
	"bufio"
	"encoding/json"
	"flag"
	"fmt"
	"os"
	"runtime/pprof"
	"strconv"
	"strings"
	"time"

	"verifmc/explore"
	"verifmc/fixture"
	"verifmc/scen"
)

func main() {
	key := flag.String("scen", "", "scenario key")
	prop := flag.String("prop", "", "list scenario keys of a property")
	tier := flag.String("tier", "quick", "quick|thorough")
	info := flag.Bool("info", false, "print scenario info as JSON and exit")
	deadline := flag.Int64("deadline", 0, "unix seconds after which exploration stops (exhaustive:false)")
	replay := flag.String("replay", "", "replay file (JSON violation)")
	flag.Parse()

	if *prop != "" {
		type inf struct {
			Key, ID, Name, Level, Rule, CrashSig, PanicSig string
			Cases, Bound                         int
			Assumptions                          []string
		}
		var out []inf
		for _, k := range scen.ForProperty(*prop) {
			s := scen.All[k]
			b := 0
			if s.Bound != nil {
				b = s.Bound(*tier)
			}
			out = append(out, inf{k, s.ID, s.Name, s.Level, s.Rule, s.CrashSig, s.PanicSig, s.Cases(*tier), b, s.Assumptions})
		}
		json.NewEncoder(os.Stdout).Encode(out)
		return
	}
	sc, ok := scen.All[*key]
	if !ok {
		fmt.Fprintf(os.Stderr, "unknown scenario %q\n", *key)
		os.Exit(2)
	}
	_ = info
	if sc.Setup != nil {
		sc.Setup(*tier)
	}
	if *replay != "" {
		b, err := os.ReadFile(*replay)
		if err != nil {
			fmt.Fprintln(os.Stderr, err)
			os.Exit(2)
		}
		var v struct {
			Scenario string
			Tier     string
			Bound    int
			explore.Violation
		}
		if err := json.Unmarshal(b, &v); err != nil {
			fmt.Fprintln(os.Stderr, err)
			os.Exit(2)
		}
		log, viol, err := explore.Replay(sc, *tier, v.Case, v.Choices, v.Labels, v.Bound)
		for _, l := range log {
			fmt.Println(l)
		}
		if err != nil {
			fmt.Println("REPLAY-ERROR:", err)
			os.Exit(2)
		}
		if viol != nil {
			fmt.Printf("REPRODUCED signature=%s\n%s\n", viol.Signature, viol.Message)
			os.Exit(1)
		}
		fmt.Println("NOT-REPRODUCED")
		return
	}
	if pf := os.Getenv("VERIF_CPUPROFILE"); pf != "" {
		f, _ := os.Create(pf)
		pprof.StartCPUProfile(f)
		defer pprof.StopCPUProfile()
	}
	var dl time.Time
	if *deadline > 0 {
		dl = time.Unix(*deadline, 0)
	}
	defer fixture.Cleanup()
	in := bufio.NewScanner(os.Stdin)
	for in.Scan() {
		line := strings.TrimSpace(in.Text())
		if line == "" {
			continue
		}
		f := strings.Fields(line)
		c, err := strconv.Atoi(f[0])
		if err != nil {
			fmt.Fprintln(os.Stderr, "bad case:", line)
			os.Exit(2)
		}
		cdl := dl
		if len(f) > 1 { // per-case deadline (unix seconds) dealt by the driver
			if d, err := strconv.ParseInt(f[1], 10, 64); err == nil && d > 0 {
				cdl = time.Unix(d, 0)
			}
		}
		res := explore.RunCase(sc, *tier, c, cdl)
		explore.WriteJSON(os.Stdout, res)
	}
}

// Package fixture holds reference models and generators shared by several
// scenarios. This file: the flow alphabet of DESIGN.md §3.4, a condition AST
// that is GENERATED (never parsed), its rendering to condition text in every
// documented spelling, and the reference semantics of a condition on a flow.
//
// The semantics are written from the property statements and the goQuery help
// text (cmd/goQuery/cmd/help.go, "Condition"), not from the implementation.
// Nothing in this package imports the explorer.
package fixture

import (
	"encoding/binary"
	"fmt"
	"net/netip"
	"strings"

	"github.com/els0r/goProbe/v4/pkg/types"
)

// ---------------------------------------------------------------------------
// Flow alphabet
// ---------------------------------------------------------------------------

// Flow is one flow identity (the four condition-visible attributes).
type Flow struct {
	SIP, DIP netip.Addr
	Dport    uint16
	Proto    uint8
}

// IsV4 reports the IP family of the flow (SIP and DIP always share it).
func (f Flow) IsV4() bool { return f.SIP.Is4() }

func (f Flow) String() string {
	return fmt.Sprintf("%s>%s:%d/%d", f.SIP, f.DIP, f.Dport, f.Proto)
}

// DportBytes is the big-endian wire form of the port.
func (f Flow) DportBytes() []byte {
	var b [2]byte
	binary.BigEndian.PutUint16(b[:], f.Dport)
	return b[:]
}

// Key builds a fresh database key with the repository's own constructor.
func (f Flow) Key() types.Key {
	if f.SIP.Is4() != f.DIP.Is4() {
		panic("fixture: flow with mixed IP families")
	}
	return types.NewKey(f.SIP.AsSlice(), f.DIP.AsSlice(), f.DportBytes(), f.Proto)
}

// ExtendedKey builds a fresh extended key (ts > 0 appends the timestamp).
func (f Flow) ExtendedKey(ts int64) types.ExtendedKey { return f.Key().Extend(ts) }

// FlowFromKey reads a flow back from a (plain) key.
func FlowFromKey(k types.Key) Flow {
	sip, _ := netip.AddrFromSlice(k.GetSIP())
	dip, _ := netip.AddrFromSlice(k.GetDIP())
	return Flow{SIP: sip, DIP: dip, Dport: binary.BigEndian.Uint16(k.GetDport()), Proto: k.GetProto()}
}

func mustAddrs(s ...string) []netip.Addr {
	out := make([]netip.Addr, len(s))
	for i := range s {
		out[i] = netip.MustParseAddr(s[i])
	}
	return out
}

// AliasV6 is the IPv6 address whose four leading bytes equal 10.0.0.1.
var AliasV6 = netip.MustParseAddr("a00:1::5")

var (
	// AddrsV4 / AddrsV6: the address alphabet (DESIGN.md §3.4).
	AddrsV4 = mustAddrs("10.0.0.1", "10.0.0.2", "10.128.0.1", "192.168.1.1")
	AddrsV6 = mustAddrs("2001:db8::1", "2001:db8::2", "fe80::1", "ff02::1", "a00:1::5")
	// Ports / Protos: the numeric alphabets.
	Ports  = []uint16{0, 53, 80, 255, 256, 443, 32767, 32768, 65535}
	Protos = []uint8{1, 6, 17, 50, 58, 255}
)

// Addrs returns the whole address alphabet, IPv4 first.
func Addrs() []netip.Addr {
	return append(append([]netip.Addr{}, AddrsV4...), AddrsV6...)
}

// AddrPairs returns every same-family (sip, dip) pair of the alphabet (16 + 25).
func AddrPairs() [][2]netip.Addr {
	var out [][2]netip.Addr
	for _, fam := range [][]netip.Addr{AddrsV4, AddrsV6} {
		for _, s := range fam {
			for _, d := range fam {
				out = append(out, [2]netip.Addr{s, d})
			}
		}
	}
	return out
}

// AllFlows is the full product: address pairs x ports x protocols (2214 flows).
func AllFlows() []Flow {
	var out []Flow
	for _, p := range AddrPairs() {
		for _, port := range Ports {
			for _, proto := range Protos {
				out = append(out, Flow{p[0], p[1], port, proto})
			}
		}
	}
	return out
}

// CompactFlows is a covering subset (149 flows): every address pair with
// (80,6), and for one pair per family (sip = first address, dip = second)
// every port x protocol.
func CompactFlows() []Flow {
	var out []Flow
	for _, p := range AddrPairs() {
		out = append(out, Flow{p[0], p[1], 80, 6})
	}
	for _, fam := range [][]netip.Addr{AddrsV4, AddrsV6} {
		for _, port := range Ports {
			for _, proto := range Protos {
				if port == 80 && proto == 6 {
					continue
				}
				out = append(out, Flow{fam[0], fam[1], port, proto})
			}
		}
	}
	return out
}

// ---------------------------------------------------------------------------
// Condition AST
// ---------------------------------------------------------------------------

// Op is the node kind.
type Op uint8

// Node kinds.
const (
	OpLeaf Op = iota
	OpAnd
	OpOr
	OpNot
)

// Attr is a condition attribute (base attributes first, then the sugar).
type Attr uint8

// Attributes. Direction ("dir") is a result filter, not a per-flow comparison, and is not modelled.
const (
	SIP Attr = iota
	DIP
	SNet
	DNet
	Dport
	Proto
	Src      // = sip
	Dst      // = dip
	Host     // sip or dip
	Net      // snet or dnet
	Port     // = dport
	Protocol // = proto
	IPProto  // = proto
	NumAttrs
)

var attrNames = [...]string{"sip", "dip", "snet", "dnet", "dport", "proto", "src", "dst", "host", "net", "port", "protocol", "ipproto"}

// Name is the attribute's spelling in condition text.
func (a Attr) Name() string { return attrNames[a] }

// Kind of value an attribute is compared with.
type Kind uint8

// Value kinds.
const (
	KindAddr Kind = iota
	KindNet
	KindPort
	KindProto
)

// Kind returns the kind of value the attribute takes.
func (a Attr) Kind() Kind {
	switch a {
	case SIP, DIP, Src, Dst, Host:
		return KindAddr
	case SNet, DNet, Net:
		return KindNet
	case Dport, Port:
		return KindPort
	}
	return KindProto
}

// IsSugar reports whether the attribute is one of the documented aliases.
func (a Attr) IsSugar() bool { return a >= Src }

// Cmp is a comparator.
type Cmp uint8

// Comparators.
const (
	EQ Cmp = iota
	NE
	LT
	GT
	LE
	GE
	NumCmps
)

var cmpSymbols = [...]string{"=", "!=", "<", ">", "<=", ">="}

// Symbol is the base spelling of the comparator.
func (c Cmp) Symbol() string { return cmpSymbols[c] }

// Allowed tells whether the grammar/documentation allows the comparator for
// the attribute: addresses and networks only know "=" and "!=".
func Allowed(a Attr, c Cmp) bool {
	switch a.Kind() {
	case KindAddr, KindNet:
		return c == EQ || c == NE
	}
	return true
}

// Cond is a condition tree.
type Cond struct {
	Op   Op
	L, R *Cond // OpNot uses L only

	// leaf
	Attr Attr
	Cmp  Cmp
	Addr netip.Addr // KindAddr: the address; KindNet: the network address as written (host bits may be set)
	Bits int        // KindNet: prefix length
	Num  uint16     // KindPort / KindProto
}

// AddrLeaf builds "attr cmp addr".
func AddrLeaf(a Attr, c Cmp, addr netip.Addr) *Cond {
	return &Cond{Op: OpLeaf, Attr: a, Cmp: c, Addr: addr}
}

// NetLeaf builds "attr cmp addr/bits".
func NetLeaf(a Attr, c Cmp, addr netip.Addr, bits int) *Cond {
	return &Cond{Op: OpLeaf, Attr: a, Cmp: c, Addr: addr, Bits: bits}
}

// NumLeaf builds "attr cmp n" for ports and protocols.
func NumLeaf(a Attr, c Cmp, n uint16) *Cond { return &Cond{Op: OpLeaf, Attr: a, Cmp: c, Num: n} }

// And / Or / Not build inner nodes.
func And(l, r *Cond) *Cond { return &Cond{Op: OpAnd, L: l, R: r} }
func Or(l, r *Cond) *Cond  { return &Cond{Op: OpOr, L: l, R: r} }
func Not(c *Cond) *Cond    { return &Cond{Op: OpNot, L: c} }

// Leaves lists the leaves left to right.
func (c *Cond) Leaves() []*Cond {
	switch c.Op {
	case OpLeaf:
		return []*Cond{c}
	case OpNot:
		return c.L.Leaves()
	}
	return append(c.L.Leaves(), c.R.Leaves()...)
}

// IsV4Value tells the IP family of an address/network leaf value.
func (c *Cond) IsV4Value() bool { return c.Addr.Is4() }

// Shape renders the Boolean skeleton with leaves replaced by "attr cmp" (for signatures).
func (c *Cond) Shape() string {
	switch c.Op {
	case OpLeaf:
		return c.Attr.Name() + c.Cmp.Symbol()
	case OpNot:
		return "!(" + c.L.Shape() + ")"
	case OpAnd:
		return "(" + c.L.Shape() + "&" + c.R.Shape() + ")"
	}
	return "(" + c.L.Shape() + "|" + c.R.Shape() + ")"
}

// String is the fully bracketed symbol rendering.
func (c *Cond) String() string { return Render(c, Symbols) }

// ---------------------------------------------------------------------------
// Reference semantics
// ---------------------------------------------------------------------------

// Expand rewrites the documented aliases into base attributes exactly as the
// help text spells them out:
//
//	src/dst/port/protocol/ipproto  -> sip/dip/dport/proto/proto
//	host = v   -> (sip = v | dip = v)      host != v -> (sip != v & dip != v)
//	net  = n   -> (snet = n | dnet = n)    net  != n -> (snet != n & dnet != n)
func Expand(c *Cond) *Cond {
	switch c.Op {
	case OpNot:
		return Not(Expand(c.L))
	case OpAnd:
		return And(Expand(c.L), Expand(c.R))
	case OpOr:
		return Or(Expand(c.L), Expand(c.R))
	}
	base := func(a Attr) *Cond { cp := *c; cp.Attr = a; return &cp }
	switch c.Attr {
	case Src:
		return base(SIP)
	case Dst:
		return base(DIP)
	case Port:
		return base(Dport)
	case Protocol, IPProto:
		return base(Proto)
	case Host, Net:
		s, d := SIP, DIP
		if c.Attr == Net {
			s, d = SNet, DNet
		}
		if c.Cmp == NE {
			return And(base(s), base(d))
		}
		return Or(base(s), base(d))
	}
	return c
}

func firstBitsEqual(a, b []byte, n int) bool {
	for i := 0; i < n; i++ {
		if (a[i/8]>>(7-uint(i%8)))&1 != (b[i/8]>>(7-uint(i%8)))&1 {
			return false
		}
	}
	return true
}

func addrEq(flow, v netip.Addr) bool {
	// an address comparison can only be true within one IP family
	return flow.Is4() == v.Is4() && flow == v
}

func netEq(flow, v netip.Addr, bits int) bool {
	if flow.Is4() != v.Is4() {
		return false
	}
	return firstBitsEqual(flow.AsSlice(), v.AsSlice(), bits)
}

func numCmp(c Cmp, x, v uint16) bool {
	switch c {
	case EQ:
		return x == v
	case NE:
		return x != v
	case LT:
		return x < v
	case GT:
		return x > v
	case LE:
		return x <= v
	}
	return x >= v
}

// Eval is the reference truth value of the condition on the flow.
// Comparators the grammar does not allow for an attribute must not be passed.
func Eval(c *Cond, f Flow) bool {
	switch c.Op {
	case OpNot:
		return !Eval(c.L, f)
	case OpAnd:
		l, r := Eval(c.L, f), Eval(c.R, f)
		return l && r
	case OpOr:
		l, r := Eval(c.L, f), Eval(c.R, f)
		return l || r
	}
	if !Allowed(c.Attr, c.Cmp) {
		panic("fixture.Eval: comparator " + c.Cmp.Symbol() + " not defined for " + c.Attr.Name())
	}
	var eq bool
	switch c.Attr {
	case SIP, Src:
		eq = addrEq(f.SIP, c.Addr)
	case DIP, Dst:
		eq = addrEq(f.DIP, c.Addr)
	case Host:
		eq = addrEq(f.SIP, c.Addr) || addrEq(f.DIP, c.Addr)
	case SNet:
		eq = netEq(f.SIP, c.Addr, c.Bits)
	case DNet:
		eq = netEq(f.DIP, c.Addr, c.Bits)
	case Net:
		eq = netEq(f.SIP, c.Addr, c.Bits) || netEq(f.DIP, c.Addr, c.Bits)
	case Dport, Port:
		return numCmp(c.Cmp, f.Dport, c.Num)
	default: // Proto, Protocol, IPProto
		return numCmp(c.Cmp, uint16(f.Proto), c.Num)
	}
	// "a != v" selects exactly the flows "a = v" does not
	if c.Cmp == NE {
		return !eq
	}
	return eq
}

// ---------------------------------------------------------------------------
// Rendering
// ---------------------------------------------------------------------------

// Documented spellings (help text, "COMPARATIVE OPERATORS" / "LOGICAL
// OPERATORS" / "The braces [] and {} can also be used"). Index 0 is the base symbol.
var (
	CmpSpellings = [NumCmps][]string{
		EQ: {"=", "eq", "-eq", "equals", "==", "==="},
		NE: {"!=", "neq", "-neq", "ne", "-ne"},
		LT: {"<", "less", "l", "-l", "lt", "-lt"},
		GT: {">", "greater", "g", "-g", "gt", "-gt"},
		LE: {"<=", "le", "-le", "leq", "-leq"},
		GE: {">=", "ge", "-ge", "geq", "-geq"},
	}
	AndSpellings = []string{"&", "and", "&&", "*"}
	OrSpellings  = []string{"|", "or", "||", "+"}
	// NotSpellings: "!" , "not" followed by whitespace, and "not" directly attached to an opening brace ("not{dport = 80}").
	NotSpellings = []NotSpelling{{"!", false}, {"not", false}, {"not", true}}
	Brackets     = [][2]string{{"(", ")"}, {"[", "]"}, {"{", "}"}}
	// SymbolSpaces may separate symbol tokens; WordSpaces may enclose word tokens (the help text's own example uses line breaks).
	SymbolSpaces = []string{" ", "", "  ", "\t"}
	WordSpaces   = []string{" ", "  ", "\t", "\n"}
)

// NotSpelling is one way of writing negation.
type NotSpelling struct {
	Text   string
	Attach bool // directly followed by the opening brace of its (then always braced) operand
}

// IsWord tells whether an operator spelling is one that "must be enclosed by whitespace".
func IsWord(s string) bool {
	if s == "" {
		return false
	}
	c := s[0]
	return c == '-' || (c >= 'a' && c <= 'z') || (c >= 'A' && c <= 'Z')
}

// ParenMode selects how much bracketing Render emits.
type ParenMode uint8

const (
	// ParenFull brackets every inner node that is an operand of another node.
	ParenFull ParenMode = iota
	// ParenMinimal relies on the documented precedence NOT > AND > OR.
	ParenMinimal
)

// Style decides the spelling of every operator occurrence. Nil funcs mean the
// base symbol. occ counts occurrences of that token class left to right.
type Style struct {
	Cmp     func(occ int, c Cmp) string
	And, Or func(occ int) string
	Not     func(occ int) NotSpelling
	Bracket func(occ int) [2]string
	// Space separates two symbol tokens (may be empty); WordSpace encloses word
	// spellings (must be non-empty white space). Empty WordSpace means " ".
	Space     string
	WordSpace string
	Paren     ParenMode
	// ProtoNames renders protocols 1, 6, 17 by name; Upper upper-cases the
	// whole text (only meaningful where input is sanitised first).
	ProtoNames bool
	Upper      bool
	// Abstract writes every comparison whose comparator keeps its base symbol as the
	// single token "C" (template form used for failure signatures).
	Abstract bool
}

// Symbols is the canonical style: base symbols, single spaces, full bracketing.
var Symbols = &Style{Space: " "}

// SymbolsMinimal is Symbols with precedence-based bracketing.
var SymbolsMinimal = &Style{Space: " ", Paren: ParenMinimal}

// Uniform returns a style using the same spelling index for every occurrence
// (indices into CmpSpellings[c] clipped, AndSpellings, OrSpellings, NotSpellings, Brackets).
func Uniform(cmpIdx, andIdx, orIdx, notIdx, brIdx int, space, wordSpace string, paren ParenMode) *Style {
	return &Style{
		Cmp: func(_ int, c Cmp) string {
			s := CmpSpellings[c]
			return s[cmpIdx%len(s)]
		},
		And:     func(int) string { return AndSpellings[andIdx] },
		Or:      func(int) string { return OrSpellings[orIdx] },
		Not:     func(int) NotSpelling { return NotSpellings[notIdx] },
		Bracket: func(int) [2]string { return Brackets[brIdx] },
		Space:   space, WordSpace: wordSpace, Paren: paren,
	}
}

var protoNames = map[uint16]string{1: "icmp", 6: "tcp", 17: "udp"}

// ValueText renders the value of a leaf.
func ValueText(c *Cond, protoNamesOn bool) string {
	switch c.Attr.Kind() {
	case KindAddr:
		return c.Addr.String()
	case KindNet:
		return fmt.Sprintf("%s/%d", c.Addr, c.Bits)
	case KindProto:
		if n, ok := protoNames[c.Num]; ok && protoNamesOn {
			return n
		}
	}
	return fmt.Sprintf("%d", c.Num)
}

type emitter struct {
	sb       strings.Builder
	st       *Style
	prevWord bool
	glue     bool // next token attaches without separator
	n        int
	occ      struct{ cmp, and, or, not, br int }
}

func (e *emitter) put(tok string, word bool) {
	if e.n > 0 && !e.glue {
		if word || e.prevWord {
			ws := e.st.WordSpace
			if ws == "" {
				ws = " "
			}
			e.sb.WriteString(ws)
		} else {
			e.sb.WriteString(e.st.Space)
		}
	}
	e.glue = false
	e.sb.WriteString(tok)
	e.prevWord = word
	e.n++
}

func (e *emitter) bracketed(c *Cond) {
	br := Brackets[0]
	if e.st.Bracket != nil {
		br = e.st.Bracket(e.occ.br)
	}
	e.occ.br++
	e.put(br[0], false)
	e.node(c)
	e.put(br[1], false)
}

// node emits c without enclosing braces (the caller decides about those).
func (e *emitter) node(c *Cond) {
	switch c.Op {
	case OpLeaf:
		sp := c.Cmp.Symbol()
		if e.st.Cmp != nil {
			sp = e.st.Cmp(e.occ.cmp, c.Cmp)
		}
		e.occ.cmp++
		if e.st.Abstract && sp == c.Cmp.Symbol() {
			e.put("C", false)
			return
		}
		e.put(c.Attr.Name(), false)
		e.put(sp, IsWord(sp))
		e.put(ValueText(c, e.st.ProtoNames), false)
	case OpNot:
		ns := NotSpellings[0]
		if e.st.Not != nil {
			ns = e.st.Not(e.occ.not)
		}
		e.occ.not++
		e.put(ns.Text, IsWord(ns.Text))
		switch {
		case ns.Attach:
			e.glue = true
			e.bracketed(c.L)
		case c.L.Op != OpLeaf:
			// grammar: negation -> '!' primitive ; a primitive is a single comparison or a braced chain
			e.bracketed(c.L)
		default:
			e.node(c.L)
		}
	default:
		for i, ch := range []*Cond{c.L, c.R} {
			if i == 1 {
				var sp string
				if c.Op == OpAnd {
					sp = AndSpellings[0]
					if e.st.And != nil {
						sp = e.st.And(e.occ.and)
					}
					e.occ.and++
				} else {
					sp = OrSpellings[0]
					if e.st.Or != nil {
						sp = e.st.Or(e.occ.or)
					}
					e.occ.or++
				}
				e.put(sp, IsWord(sp))
			}
			need := false
			if ch.Op == OpAnd || ch.Op == OpOr {
				if e.st.Paren == ParenFull {
					need = true
				} else {
					// minimal: only OR below AND needs braces. Chains of one operator are
					// written flat (the parser builds right-hanging chains: the same formula).
					need = (c.Op == OpAnd && ch.Op == OpOr)
				}
			}
			if need {
				e.bracketed(ch)
			} else {
				e.node(ch)
			}
		}
	}
}

// Render turns the tree into condition text in the given style (nil = Symbols).
func Render(c *Cond, st *Style) string {
	if st == nil {
		st = Symbols
	}
	e := &emitter{st: st}
	e.node(c)
	s := e.sb.String()
	if st.Upper {
		s = strings.ToUpper(s)
	}
	return s
}

// ---------------------------------------------------------------------------
// Generators
// ---------------------------------------------------------------------------

// LeafSet selects a leaf alphabet.
type LeafSet uint8

const (
	// LeavesQuick: reduced prefix lengths {0,1,7,8,9,31,32} / {0,1,63,64,65,127,128}.
	LeavesQuick LeafSet = iota
	// LeavesFull: every prefix length 0..32 and 0..128.
	LeavesFull
	// LeavesSmall: a dozen leaves chosen so that clauses inspect the same field (for deeper trees).
	LeavesSmall
	// LeavesBase: like LeavesQuick without the sugared attributes (for consumers that only need base attributes).
	LeavesBase
	// LeavesCore: like LeavesQuick without the pure renames (src, dst, port, protocol, ipproto); host and net stay.
	LeavesCore
)

// NetBases are the network base addresses (two per family; host bits set on
// purpose, the documentation's own example does the same). a00:1::5 aliases 10.0.0.1.
var (
	NetBasesV4 = mustAddrs("10.0.0.1", "10.128.0.1")
	NetBasesV6 = mustAddrs("2001:db8::1", "a00:1::5")
)

var (
	quickBitsV4 = []int{0, 1, 7, 8, 9, 31, 32}
	quickBitsV6 = []int{0, 1, 63, 64, 65, 127, 128}
)

func seq(n int) []int {
	out := make([]int, n+1)
	for i := range out {
		out[i] = i
	}
	return out
}

// Leaves enumerates a leaf alphabet: attributes (incl. sugar) x the
// comparators the grammar allows x alphabet values.
func Leaves(set LeafSet) []*Cond {
	if set == LeavesSmall {
		a := netip.MustParseAddr
		return []*Cond{
			NetLeaf(SNet, EQ, a("10.0.0.1"), 9),
			NetLeaf(SNet, NE, a("10.0.0.1"), 31),
			NetLeaf(SNet, EQ, a("2001:db8::1"), 127),
			NetLeaf(SNet, EQ, a("10.0.0.1"), 8),
			AddrLeaf(SIP, EQ, a("10.128.0.1")),
			AddrLeaf(SIP, NE, a("10.0.0.2")),
			AddrLeaf(SIP, EQ, a("2001:db8::2")),
			NetLeaf(DNet, EQ, a("10.128.0.1"), 9),
			AddrLeaf(DIP, EQ, a("10.0.0.2")),
			NetLeaf(Net, EQ, a("10.0.0.1"), 31),
			AddrLeaf(Host, NE, a("10.0.0.1")),
			NumLeaf(Dport, LT, 256),
		}
	}
	var out []*Cond
	addrAttrs := []Attr{SIP, DIP, Src, Dst, Host}
	netAttrs := []Attr{SNet, DNet, Net}
	portAttrs := []Attr{Dport, Port}
	protoAttrs := []Attr{Proto, Protocol, IPProto}
	switch set {
	case LeavesBase:
		addrAttrs, netAttrs, portAttrs, protoAttrs = []Attr{SIP, DIP}, []Attr{SNet, DNet}, []Attr{Dport}, []Attr{Proto}
	case LeavesCore:
		addrAttrs, portAttrs, protoAttrs = []Attr{SIP, DIP, Host}, []Attr{Dport}, []Attr{Proto}
	}
	for _, at := range addrAttrs {
		for _, c := range []Cmp{EQ, NE} {
			for _, v := range Addrs() {
				out = append(out, AddrLeaf(at, c, v))
			}
		}
	}
	b4, b6 := quickBitsV4, quickBitsV6
	if set == LeavesFull {
		b4, b6 = seq(32), seq(128)
	}
	for _, at := range netAttrs {
		for _, c := range []Cmp{EQ, NE} {
			for _, base := range NetBasesV4 {
				for _, b := range b4 {
					out = append(out, NetLeaf(at, c, base, b))
				}
			}
			for _, base := range NetBasesV6 {
				for _, b := range b6 {
					out = append(out, NetLeaf(at, c, base, b))
				}
			}
		}
	}
	for _, at := range portAttrs {
		for c := EQ; c < NumCmps; c++ {
			for _, v := range Ports {
				out = append(out, NumLeaf(at, c, v))
			}
		}
	}
	for _, at := range protoAttrs {
		for c := EQ; c < NumCmps; c++ {
			for _, v := range Protos {
				out = append(out, NumLeaf(at, c, uint16(v)))
			}
		}
	}
	return out
}

// NumTree2 is the number of two-leaf trees per ordered leaf pair: {&,|} x negation {none,left,right,whole}.
const NumTree2 = 8

// Tree2 builds the i-th (0..NumTree2-1) two-leaf tree over (a, b).
func Tree2(a, b *Cond, i int) *Cond {
	l, r := a, b
	switch i / 2 {
	case 1:
		l = Not(a)
	case 2:
		r = Not(b)
	}
	var t *Cond
	if i%2 == 0 {
		t = And(l, r)
	} else {
		t = Or(l, r)
	}
	if i/2 == 3 {
		t = Not(t)
	}
	return t
}

// NumTree3 is the number of three-leaf trees per ordered leaf triple:
// 2 groupings x {&,|}^2 x negation of each leaf (8) x negation of the inner node x of the whole.
const NumTree3 = 2 * 4 * 8 * 2 * 2

// Tree3 builds the i-th (0..NumTree3-1) three-leaf tree over (a, b, c).
func Tree3(a, b, c *Cond, i int) *Cond {
	group := i % 2
	i /= 2
	op1, op2 := i%2, (i/2)%2
	i /= 4
	neg := i % 8
	i /= 8
	negInner, negWhole := i%2 == 1, (i/2)%2 == 1
	lv := []*Cond{a, b, c}
	for k := range lv {
		if neg&(1<<k) != 0 {
			lv[k] = Not(lv[k])
		}
	}
	mk := func(op int, l, r *Cond) *Cond {
		if op == 0 {
			return And(l, r)
		}
		return Or(l, r)
	}
	var t *Cond
	if group == 0 { // (a op1 b) op2 c
		in := mk(op1, lv[0], lv[1])
		if negInner {
			in = Not(in)
		}
		t = mk(op2, in, lv[2])
	} else { // a op1 (b op2 c)
		in := mk(op2, lv[1], lv[2])
		if negInner {
			in = Not(in)
		}
		t = mk(op1, lv[0], in)
	}
	if negWhole {
		t = Not(t)
	}
	return t
}

// Trees enumerates all trees with up to two leaves over the alphabet (single
// leaves, negated leaves, and every Tree2) — convenient for consumers that
// want a flat list over a small alphabet.
func Trees(leaves []*Cond) []*Cond {
	var out []*Cond
	for _, l := range leaves {
		out = append(out, l, Not(l))
	}
	for _, a := range leaves {
		for _, b := range leaves {
			for i := 0; i < NumTree2; i++ {
				out = append(out, Tree2(a, b, i))
			}
		}
	}
	return out
}

package fixture

import (
	"context"
	"fmt"
	"net/netip"
	"sort"
	"strings"

	"github.com/els0r/goProbe/v4/pkg/capture/capturetypes"
	"github.com/els0r/goProbe/v4/pkg/goDB"
	"github.com/els0r/goProbe/v4/pkg/goDB/encoder/encoders"
	"github.com/els0r/goProbe/v4/pkg/goDB/engine"
	"github.com/els0r/goProbe/v4/pkg/query"
	"github.com/els0r/goProbe/v4/pkg/results"
	"github.com/els0r/goProbe/v4/pkg/types"
	"github.com/els0r/goProbe/v4/pkg/types/hashmap"
)

// Rec is one stored flow record of the reference database.
type Rec struct {
	SIP, DIP netip.Addr
	Dport    uint16
	Proto    uint8
	C        types.Counters
}

// IsV4 reports the IP family of the record.
func (r Rec) IsV4() bool { return r.SIP.Is4() }

// Key builds the real flow key of the record with the repository's own constructors.
func (r Rec) Key() types.Key {
	dp := []byte{byte(r.Dport >> 8), byte(r.Dport)}
	if r.IsV4() {
		s, d := r.SIP.As4(), r.DIP.As4()
		return types.NewV4KeyStatic(s, d, dp, r.Proto)
	}
	s, d := r.SIP.As16(), r.DIP.As16()
	return types.NewV6KeyStatic(s, d, dp, r.Proto)
}

func (r Rec) String() string {
	return fmt.Sprintf("%s>%s:%d/%d %d/%d/%d/%d", r.SIP, r.DIP, r.Dport, r.Proto, r.C.BytesRcvd, r.C.BytesSent, r.C.PacketsRcvd, r.C.PacketsSent)
}

// Block is one write-out: the flows of one interface for one 5-minute interval.
type Block struct {
	Iface string
	TS    int64
	Recs  []Rec
	Drops uint64
}

// DB is the reference database: the ordered list of write-outs.
type DB struct {
	Blocks []Block
}

// FlowMap builds the aggregated flow map handed to the real DBWriter.
func FlowMap(recs []Rec) *hashmap.AggFlowMap {
	m := hashmap.NewAggFlowMap()
	for _, r := range recs {
		m.SetOrUpdate(r.Key(), r.IsV4(), r.C.BytesRcvd, r.C.BytesSent, r.C.PacketsRcvd, r.C.PacketsSent)
	}
	return m
}

// WriteBlock writes one block through the real DBWriter.
func WriteBlock(dbPath string, b Block, enc encoders.Type) error {
	w := goDB.NewDBWriter(dbPath, b.Iface, enc)
	return w.Write(FlowMap(b.Recs), capturetypes.CaptureStats{Dropped: b.Drops}, b.TS)
}

// WriteTo writes the whole reference database in order.
func (db *DB) WriteTo(dbPath string, enc encoders.Type) error {
	for _, b := range db.Blocks {
		if err := WriteBlock(dbPath, b, enc); err != nil {
			return fmt.Errorf("write %s@%d: %w", b.Iface, b.TS, err)
		}
	}
	return nil
}

// Ifaces lists the interfaces of the reference database (sorted).
func (db *DB) Ifaces() []string {
	m := map[string]bool{}
	for _, b := range db.Blocks {
		m[b.Iface] = true
	}
	var out []string
	for i := range m {
		out = append(out, i)
	}
	sort.Strings(out)
	return out
}

// ---- reference aggregation ---------------------------------------------------

// QuerySpec is a query in reference-model terms.
type QuerySpec struct {
	Attrs       []string // subset of sip,dip,dport,proto in any order
	Time, Iface bool     // label selectors
	Ifaces      []string // interfaces queried
	First, Last int64    // inclusive block-time range
	Cond        func(Rec) bool
	// Dir filters groups on their summed counters: "", "in", "out", "uni", "bi".
	Dir string
}

// RowKey identifies one result group.
type RowKey struct {
	TS       int64
	Iface    string
	SIP, DIP netip.Addr
	Dport    uint16
	Proto    uint8
}

func (k RowKey) String() string {
	return fmt.Sprintf("[%d %s] %s>%s:%d/%d", k.TS, k.Iface, k.SIP, k.DIP, k.Dport, k.Proto)
}

func has(attrs []string, a string) bool {
	for _, x := range attrs {
		if x == a {
			return true
		}
	}
	return false
}

// Aggregate is the boring reference: filter, group in a Go map, sum.
func (db *DB) Aggregate(q QuerySpec) map[RowKey]types.Counters {
	out := map[RowKey]types.Counters{}
	for _, b := range db.Blocks {
		if b.TS < q.First || b.TS > q.Last || !has(q.Ifaces, b.Iface) {
			continue
		}
		for _, r := range b.Recs {
			if q.Cond != nil && !q.Cond(r) {
				continue
			}
			var k RowKey
			if q.Time {
				k.TS = b.TS
			}
			if q.Iface {
				k.Iface = b.Iface
			}
			if has(q.Attrs, "sip") {
				k.SIP = r.SIP
			}
			if has(q.Attrs, "dip") {
				k.DIP = r.DIP
			}
			if has(q.Attrs, "dport") {
				k.Dport = r.Dport
			}
			if has(q.Attrs, "proto") {
				k.Proto = r.Proto
			}
			c := out[k]
			c.Add(r.C)
			out[k] = c
		}
	}
	if q.Dir != "" {
		for k, c := range out {
			if !DirMatches(q.Dir, c) {
				delete(out, k)
			}
		}
	}
	return out
}

// DirMatches is the documented meaning of the direction filter on summed counters.
func DirMatches(dir string, c types.Counters) bool {
	// help text: "incoming but no outgoing packets", "outgoing but no incoming packets", …
	in := c.PacketsRcvd > 0
	outb := c.PacketsSent > 0
	switch dir {
	case "in":
		return in && !outb
	case "out":
		return outb && !in
	case "uni":
		return in != outb
	case "bi":
		return in && outb
	}
	return true
}

// ---- running the real engine --------------------------------------------------

// RunQuery runs the real query engine. attrs is the query type string ("sip,dip,time", "talk_conv", …).
func RunQuery(dbPath, queryType, ifaces, cond string, first, last int64, lowMem bool, opts ...func(*query.Args)) (*results.Result, error) {
	a := query.NewArgs(queryType, ifaces)
	a.Condition = cond
	a.First = fmt.Sprint(first)
	a.Last = fmt.Sprint(last)
	a.Format = "json"
	a.NumResults = 1 << 40
	a.LowMem = lowMem
	a.MaxMemPct = 100
	for _, o := range opts {
		o(a)
	}
	return engine.NewQueryRunner(dbPath).Run(context.Background(), a)
}

// RowsOf converts engine rows to the reference key space. dup reports a
// repeated group (the engine must never return the same group twice).
func RowsOf(res *results.Result) (rows map[RowKey]types.Counters, dup *RowKey) {
	rows = map[RowKey]types.Counters{}
	for _, r := range res.Rows {
		k := RowKey{Iface: r.Labels.Iface, SIP: r.Attributes.SrcIP, DIP: r.Attributes.DstIP, Dport: r.Attributes.DstPort, Proto: r.Attributes.IPProto}
		if !r.Labels.Timestamp.IsZero() {
			k.TS = r.Labels.Timestamp.Unix()
		}
		if _, ok := rows[k]; ok && dup == nil {
			kk := k
			dup = &kk
		}
		c := rows[k]
		c.Add(r.Counters)
		rows[k] = c
	}
	return rows, dup
}

// DiffRows describes the difference between engine rows and the reference ("" = equal).
func DiffRows(got, want map[RowKey]types.Counters) string {
	var msgs []string
	keys := make([]RowKey, 0, len(want))
	for k := range want {
		keys = append(keys, k)
	}
	for k := range got {
		if _, ok := want[k]; !ok {
			keys = append(keys, k)
		}
	}
	sort.Slice(keys, func(i, j int) bool { return keys[i].String() < keys[j].String() })
	for _, k := range keys {
		w, wok := want[k]
		g, gok := got[k]
		switch {
		case wok && !gok:
			msgs = append(msgs, fmt.Sprintf("missing %s %+v", k, w))
		case !wok && gok:
			msgs = append(msgs, fmt.Sprintf("unexpected %s %+v", k, g))
		case w != g:
			msgs = append(msgs, fmt.Sprintf("counters of %s: got %+v want %+v", k, g, w))
		}
		if len(msgs) >= 6 {
			msgs = append(msgs, "…")
			break
		}
	}
	return strings.Join(msgs, "; ")
}

// MustAddr parses an address literal.
func MustAddr(s string) netip.Addr { return netip.MustParseAddr(s) }

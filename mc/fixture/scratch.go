// Package fixture holds shared test data builders and reference models.
package fixture

import (
	"fmt"
	"os"
	"path/filepath"
	"sync/atomic"
)

var scratchRoot string
var scratchCtr atomic.Int64

// ScratchRoot is this process's private scratch directory (tmpfs when available).
func ScratchRoot() string {
	if scratchRoot == "" {
		base := os.Getenv("VERIF_SCRATCH")
		if base == "" {
			base = os.TempDir()
		}
		scratchRoot = filepath.Join(base, fmt.Sprintf("verifmc-%d", os.Getpid()))
		if err := os.MkdirAll(scratchRoot, 0o755); err != nil {
			panic(err)
		}
	}
	return scratchRoot
}

// NewDir creates a fresh empty directory; the caller removes it with os.RemoveAll.
func NewDir() string {
	d := filepath.Join(ScratchRoot(), fmt.Sprintf("d%d", scratchCtr.Add(1)))
	if err := os.MkdirAll(d, 0o755); err != nil {
		panic(err)
	}
	return d
}

// Cleanup removes the whole scratch root of this process.
func Cleanup() {
	if scratchRoot != "" {
		os.RemoveAll(scratchRoot)
	}
}

// LCG is the constant pseudo-random byte source used for "incompressible" payload
// classes. It is a fixed function of (seed, index): nothing is drawn at run time.
func LCG(seed uint64, n int) []byte {
	out := make([]byte, n)
	s := seed*6364136223846793005 + 1442695040888963407
	for i := range out {
		s = s*6364136223846793005 + 1442695040888963407
		out[i] = byte(s >> 56)
	}
	return out
}

// Compressible returns n bytes of a short repeating pattern.
func Compressible(seed uint64, n int) []byte {
	out := make([]byte, n)
	for i := range out {
		out[i] = byte(uint64(i%7) + seed)
	}
	return out
}

// TreeOf lists a directory tree canonically (relative paths, files with sizes).
func TreeOf(root string) []string {
	var out []string
	filepath.Walk(root, func(p string, fi os.FileInfo, err error) error {
		if err != nil {
			return nil
		}
		rel, _ := filepath.Rel(root, p)
		if fi.IsDir() {
			out = append(out, rel+"/")
		} else {
			out = append(out, fmt.Sprintf("%s:%d", rel, fi.Size()))
		}
		return nil
	})
	return out
}

#!/usr/bin/env python3
"""Seeded-change bookkeeping.

  seed.py verify <id> <worktree> <property> [--full]
      <worktree> holds SEED_patch.diff, SEED_demo_test.go, SEED_meta.json (written by a fresh sub-agent that
      saw only the property text). In a NEW scratch worktree of /repo at the same commit:
        1. patch applies, `go build ./...` succeeds
        2. the demonstration FAILS with the patch and PASSES without it
        3. the repository's own tests pass with the patch (packages touched + their importers; --full: whole baseline)
      On success the seed is stored under /verif/seeded/<id>/ (patch.diff, demo file, meta.json).
  seed.py check <id> [--tier thorough] [check-id ...]
      materialise the patch against the CURRENT /repo files and run ./check <property> --mutant on it
      (equivalent to `git -C /repo apply` + check + `git checkout`, but does not disturb other users of /repo);
      records result / caught_by in meta.json.
"""
import glob, json, os, re, shutil, subprocess, sys, tempfile
VERIF = os.path.dirname(os.path.dirname(os.path.abspath(__file__)))
sys.path.insert(0, os.path.join(VERIF, "driver"))
import mutants

ENV = dict(os.environ)
for k in ("GOFLAGS", "GOSUMDB", "GOTOOLCHAIN"):
    ENV.pop(k, None)
ENV["GOPROXY"] = "off"


def sh(cmd, cwd, timeout=3600):
    p = subprocess.run(cmd, cwd=cwd, shell=True, stdout=subprocess.PIPE, stderr=subprocess.STDOUT, text=True, errors="replace", env=ENV, timeout=timeout)
    return p.returncode, p.stdout


def demo_location(demo_path):
    head = open(demo_path).read(2000)
    pkg = re.search(r"^package\s+(\w+)", head, re.M).group(1)
    return head.splitlines()[0], pkg


def verify(sid, wt, prop, full):
    patch = os.path.join(wt, "SEED_patch.diff")
    demo = os.path.join(wt, "SEED_demo_test.go")
    meta = json.load(open(os.path.join(wt, "SEED_meta.json")))
    commit = subprocess.check_output(["git", "-C", wt, "rev-parse", "HEAD"], text=True).strip()
    scratch = tempfile.mkdtemp(prefix="seedverify-%s-" % sid, dir="/tmp")
    os.rmdir(scratch)
    subprocess.check_call(["git", "-C", "/repo", "worktree", "add", "-q", "--detach", scratch, commit])
    log = []
    ok = False
    try:
        rc, out = sh("git apply --check %s && git apply %s && go build ./..." % (patch, patch), scratch)
        log.append("apply+build rc=%d %s" % (rc, out[-400:]))
        if rc != 0:
            return False, log
        files = re.findall(r"^\+\+\+ b/(\S+)", open(patch).read(), re.M)
        # where does the demo go? first comment line says; default: the directory named in demo_cmd or package of first touched file
        first, pkg = demo_location(demo)
        demo_cmd = meta.get("demo_cmd", "")
        m = re.search(r"(\./[\w/.-]+|\s\.\s*$|\s\.$)", demo_cmd)
        target = None
        cands = re.findall(r"(?:^|\s)(\./[\w/.-]*|pkg/[\w/.-]+|cmd/[\w/.-]+)", first + " " + demo_cmd)
        dirs = []
        for cand in cands:
            d = cand
            if d.endswith(".go"):
                d = os.path.dirname(d)
            d = d.rstrip("/.").lstrip("./") or "."
            if os.path.isdir(os.path.join(scratch, d)):
                dirs.append(d)
        # a package directory named anywhere wins over the module root
        for d in dirs:
            if d != ".":
                target = d
                break
        if target is None and dirs:
            target = dirs[0]
        if target is None:
            target = "." if "module root" in first or "repository root" in first else os.path.dirname(files[0])
        dst = os.path.join(scratch, target, "seeded_demo_test.go")
        shutil.copy(demo, dst)
        run = re.search(r"-run\s+(\S+)", demo_cmd + " " + first)
        runarg = "-run '%s'" % run.group(1).strip("'\"") if run else ""
        tg = re.search(r"-tags[ =](?:'([^']+)'|\"([^\"]+)\"|(\S+))", demo_cmd + " " + first)
        if tg:
            runarg = "-tags '%s' %s" % ((tg.group(1) or tg.group(2) or tg.group(3)).strip("'\""), runarg)
        cmd = "go test -vet=off -count=1 %s ./%s" % (runarg, target if target != "." else "")
        cmd = cmd.replace(".//", "./").rstrip("/") if target != "." else "go test -vet=off -count=1 %s ." % runarg
        rc1, out1 = sh(cmd, scratch)
        log.append("demo WITH patch: rc=%d (%s) %s" % (rc1, cmd, out1[-300:].replace("\n", " | ")))
        sh("git apply -R %s" % patch, scratch)
        rc2, out2 = sh(cmd, scratch)
        log.append("demo WITHOUT patch: rc=%d %s" % (rc2, out2[-200:].replace("\n", " | ")))
        os.remove(dst)
        if not (rc1 != 0 and rc2 == 0):
            return False, log
        sh("git apply %s" % patch, scratch)
        if full:
            tests = "go test -vet=off -count=1 -timeout 25m ./... 2>&1 | grep -E '^(FAIL[[:space:]]+[a-z]|--- FAIL)' | grep -v 'TestResolveInConditional\\|TestTimeout\\|conditions/node\\|query/dns' | head -20"
        else:
            pkgs = sorted(set("./" + os.path.dirname(f) + "/..." for f in files))
            extra = ["./pkg/goDB/...", "./pkg/query/...", "./pkg/results/...", "./cmd/..."]
            tests = "go test -vet=off -count=1 -timeout 25m %s 2>&1 | grep -E '^(FAIL[[:space:]]+[a-z]|--- FAIL)' | grep -v 'TestResolveInConditional\\|TestTimeout\\|conditions/node\\|query/dns' | head -20" % " ".join(sorted(set(pkgs + extra)))
        rc3, out3 = sh("nice -n 5 " + tests, scratch, timeout=3000)
        if out3.strip():
            # timing-sensitive tests fail under load: re-run only the failing packages, one at a time
            fp = sorted(set(re.findall(r"^FAIL\s+github.com/els0r/goProbe/v4/(\S+)", out3, re.M)))
            log.append("first run failures (re-running these packages alone): %s" % out3.strip().replace("\n", " | "))
            if fp:
                rerun = "go test -vet=off -count=1 -p 1 -timeout 25m %s 2>&1 | grep -E '^(FAIL[[:space:]]+[a-z]|--- FAIL)' | grep -v 'TestResolveInConditional\\|TestTimeout\\|conditions/node\\|query/dns' | head -20" % " ".join("./" + x for x in fp)
                rc3, out3 = sh(rerun, scratch, timeout=3000)
        log.append("repo tests with patch: failures=[%s]" % out3.strip().replace("\n", " | "))
        if out3.strip():
            return False, log
        ok = True
        d = os.path.join(VERIF, "seeded", sid)
        os.makedirs(d, exist_ok=True)
        shutil.copy(patch, os.path.join(d, "patch.diff"))
        shutil.copy(demo, os.path.join(d, os.path.basename(target.rstrip("/")) + "_seeded_demo_test.go" if target != "." else "root_seeded_demo_test.go"))
        meta.update({"property": prop, "base_commit": commit, "demo_dir": target, "demo_run": cmd,
                     "confirmed": ["patch applies and builds", "demonstration fails with the change (rc=%d) and passes without it" % rc1,
                                   "repository tests pass with the change (%s)" % ("full suite" if full else "touched packages + goDB, query, results, cmd")]})
        json.dump(meta, open(os.path.join(d, "meta.json"), "w"), indent=1)
        return True, log
    finally:
        subprocess.call(["git", "-C", "/repo", "worktree", "remove", "--force", scratch])


def check(sid, tier, checks):
    d = os.path.join(VERIF, "seeded", sid)
    meta = json.load(open(os.path.join(d, "meta.json")))
    props = checks or [meta["property"]]
    out = tempfile.mkdtemp(prefix="seed-%s-" % sid, dir="/tmp")
    caught, notes = [], []
    try:
        if mutants.materialize(os.path.join(d, "patch.diff"), out) != 0:
            meta["result"] = "patch no longer applies to the current tree"
            json.dump(meta, open(os.path.join(d, "meta.json"), "w"), indent=1)
            return 3
        for p in props:
            r = subprocess.run([os.path.join(VERIF, "check"), p, "--mutant", out, "--tier", tier, "--procs", os.environ.get("MUT_PROCS", "8")],
                               cwd=VERIF, stdout=subprocess.PIPE, stderr=subprocess.STDOUT, text=True)
            sigs = sorted(set(re.findall(r"signature=(\S+)", r.stdout)))
            notes.append("%s %s: rc=%d %s" % (p, tier, r.returncode, ", ".join(sigs)[:200]))
            if r.returncode == 1:
                caught.append("%s (%s): %s" % (p, tier, ", ".join(sigs)[:160]))
            print(notes[-1], flush=True)
    finally:
        shutil.rmtree(out, ignore_errors=True)
        shutil.rmtree(os.path.join(VERIF, ".build", "mut-" + os.path.basename(out)), ignore_errors=True)
    meta.setdefault("runs", []).extend(notes)
    if caught:
        meta["caught_by"] = "; ".join(sorted(set(caught + ([meta["caught_by"]] if meta.get("caught_by") else []))))
        meta["result"] = "DETECTED"
    elif not meta.get("caught_by"):
        meta["result"] = "MISSED"
    json.dump(meta, open(os.path.join(d, "meta.json"), "w"), indent=1)
    return 0


def applyrun(sids):
    """The literal procedure: git -C /repo apply, ./check, git -C /repo checkout -- . (needs /repo to itself)."""
    rc_all = 0
    for sid in sids:
        d = os.path.join(VERIF, "seeded", sid)
        meta = json.load(open(os.path.join(d, "meta.json")))
        st = subprocess.check_output(["git", "-C", "/repo", "status", "--porcelain"], text=True).strip()
        if st:
            print("refusing: /repo is not clean:", st)
            return 2
        try:
            if subprocess.call(["git", "-C", "/repo", "apply", os.path.join(d, "patch.diff")]) != 0:
                # fall back to a 3-way / fuzzy application (the tree moved on since the seed was written)
                if subprocess.call("cd /repo && patch -p1 -F3 -s < %s" % os.path.join(d, "patch.diff"), shell=True) != 0:
                    print(sid, "patch does not apply")
                    rc_all = 3
                    continue
            checks = sorted(set(re.findall(r"(C\d\d) \(", meta.get("caught_by", "")))) or [meta["property"]]
            res = []
            for p_ in checks:
                r = subprocess.run([os.path.join(VERIF, "check"), p_, "--no-evidence"], cwd=VERIF, stdout=subprocess.PIPE, stderr=subprocess.STDOUT, text=True)
                res.append("%s rc=%d" % (p_, r.returncode))
                if r.returncode == 1:
                    break
            det = any(x.endswith("rc=1") for x in res)
            print(sid, "DETECTED" if det else "MISSED", res, flush=True)
            meta["git_apply_run"] = "git -C /repo apply; " + "; ".join(res) + "; git -C /repo checkout -- ."
            json.dump(meta, open(os.path.join(d, "meta.json"), "w"), indent=1)
            if not det:
                rc_all = 1
        finally:
            subprocess.call(["git", "-C", "/repo", "checkout", "--", "."])
            subprocess.call(["git", "-C", "/repo", "clean", "-fdq"])
    return rc_all


if __name__ == "__main__":
    a = sys.argv[1:]
    if a and a[0] == "applyrun":
        sys.exit(applyrun(a[1:] or sorted(x for x in os.listdir(os.path.join(VERIF, "seeded")) if os.path.isdir(os.path.join(VERIF, "seeded", x)))))
    if a and a[0] == "verify":
        ok, log = verify(a[1], a[2], a[3], "--full" in a)
        print("\n".join(log))
        print("SEED", a[1], "CONFIRMED" if ok else "REJECTED")
        sys.exit(0 if ok else 1)
    if a and a[0] == "check":
        tier = "quick"
        if "--tier" in a:
            i = a.index("--tier")
            tier = a[i + 1]
            del a[i:i + 2]
        sys.exit(check(a[1], tier, a[2:]))
    print(__doc__)
    sys.exit(2)

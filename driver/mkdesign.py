#!/usr/bin/env python3
"""Assembles /verif/DESIGN.md = design_head.md + generated §4-§6 + design_tail.md."""
import glob, json, os, re, sys
sys.path.insert(0, os.path.dirname(os.path.abspath(__file__)))
import props
VERIF = os.path.dirname(os.path.dirname(os.path.abspath(__file__)))
D = os.path.join(VERIF, "driver")
P = [json.loads(l) for l in open(os.path.join(VERIF, "properties.jsonl")) if l.strip()]
out = [open(os.path.join(D, "design_head.md")).read().rstrip(), "",
       "---------------------------------------------------------------------------------------------------", "",
       "## 4. Per property: what is enumerated, against what, within which bounds", "",
       "(generated from `driver/props.py`; the precise enumeration rule of every scenario is also in its `Rule` string, copied into `evidence/<id>.json`)", ""]
for p in P:
    i = p["id"]
    c = props.PROPS.get(i)
    out.append("### %s %s" % (i, p["title"]))
    if not c or c.get("unclaimed"):
        out.append("*Not claimed:* " + (c or {}).get("reason", "check not built yet") + "\n")
        continue
    out.append("*Level:* `%s`. *Technique:* %s." % (c["level"], c["technique"]))
    out.append("")
    out.append(c["text"])
    out.append("")
    out.append("*Assumed / trusted:* %s." % c["note"].rstrip("."))
    extra = []
    if c.get("configs"):
        extra.append("build configurations: " + ", ".join(c["configs"]))
    if c.get("env"):
        extra.append("worker environment: " + ", ".join("%s=%s" % kv for kv in c["env"].items()))
    if extra:
        out.append("*Driver:* " + "; ".join(extra) + ".")
    out.append("")
kf = json.load(open(os.path.join(VERIF, "known_findings.json")))["findings"]
out += ["---------------------------------------------------------------------------------------------------", "",
        "## 5. Genuine defects found on the unchanged tree", "",
        "Every entry was reproduced against the real code (failing input, schedule or history) before it was classified. "
        "`fixed` = repaired by a minimal unguarded `fix:` commit in `/repo` (the 931 baseline tests still pass; the check passes on the repaired tree and "
        "reports the violation again if it returns); `known` = recorded, not repaired (reason given), printed as `KNOWN-FINDING` and matched by signature.", "",
        "| property | status | commit | signature | what fails |", "|---|---|---|---|---|"]
for f in kf:
    what = re.sub(r"^fixed: property=\S+ \S+ ", "", f["what"]).replace("|", "\\|")
    out.append("| %s | %s | %s | `%s` | %s |" % (f["property"], f["status"], f.get("commit", "—"), f["signature"].replace("|", "\\|"), what))
out += ["", "---------------------------------------------------------------------------------------------------", "",
        "## 6. Demonstrated detection", "",
        "### 6.1 Own breaking changes (`mc/mutants/<Cxx>/*.patch`, run by `driver/mutants.py run`)", "",
        "Each patch is a small semantic change (off-by-one, dropped copy, swapped operands, skipped branch …) applied to the current tree through the overlay; "
        "`DETECTED` = `./check <Cxx> --mutant …` exits 1 with the listed signatures.", ""]
res = os.path.join(VERIF, "mc", "mutants", "RESULTS.txt")
if os.path.exists(res):
    out += ["| property | change | result | signatures |", "|---|---|---|---|"]
    for l in open(res):
        m = re.match(r"(\S+)\s+(\S+)\s+(DETECTED|MISSED|TOOLING-ERROR|N/A[^\s]*(?: \([^)]*\))?)\s*(.*)", l.rstrip("\n"))
        if m:
            out.append("| %s | %s | %s | %s |" % (m.group(1), m.group(2), m.group(3), m.group(4).replace("|", "\\|")))
else:
    out.append("(not run yet)")
out += ["", "### 6.2 Independently written breaking changes (`seeded/<id>/`)", "",
        "Written by fresh sub-agents that saw only the property text and a scratch worktree of `/repo` (nothing from `/verif`); each compiles, passes the repository's own tests, "
        "and comes with a demonstration that fails with the change and passes without it. `caught by` = the check that reports a VIOLATION when the patch is applied to `/repo`.", ""]
seeded = sorted(glob.glob(os.path.join(VERIF, "seeded", "*", "meta.json")))
if seeded:
    metas = [(os.path.basename(os.path.dirname(m)), json.load(open(m))) for m in seeded]
    n_hist = sum(1 for _, d in metas if "MISSED" in d.get("history", "").split("second run")[0] and d.get("history"))
    n_det = sum(1 for _, d in metas if d.get("result") == "DETECTED")
    n_apply = sum(1 for _, d in metas if "rc=1" in d.get("git_apply_run", ""))
    out += ["%d changes (rounds `seed-`, `seed2-`, `seed3-`, and a partial fourth `seed4-`), %d detected by the current checks; %d of them were missed by the check as it stood when the change arrived and "
            "are detected since the check was strengthened (column *history*; never by special-casing the change). "
            "%d were additionally run the literal way (`git -C /repo apply`, `./check`, `git -C /repo checkout -- .`: `driver/seed.py applyrun`), all with the same verdict." % (len(metas), n_det, n_hist, n_apply), ""]
    out += ["| id | property | what it needs to manifest | caught by | result | history |", "|---|---|---|---|---|---|"]
    for name, d in metas:
        out.append("| %s | %s | %s | %s | %s | %s |" % (name, d.get("property", ""), d.get("needs", "").replace("|", "\\|")[:600],
                                                    d.get("caught_by", "")[:300].replace("|", "\\|"), d.get("result", ""), d.get("history", "caught at the first run").replace("|", "\\|")))
else:
    out.append("(none recorded yet)")
tail = os.path.join(D, "design_tail.md")
if os.path.exists(tail):
    out += ["", "---------------------------------------------------------------------------------------------------", "", open(tail).read().rstrip()]
open(os.path.join(VERIF, "DESIGN.md"), "w").write("\n".join(out) + "\n")
print("DESIGN.md written:", len(out), "lines")

"""Per-property driver configuration and MANIFEST source of truth.

PROPS[id] = {
  configs:   build configurations the check needs (default ("cgo",)),
  budget:    {"quick": s, "thorough": s} wall-clock cap per scenario,
  gomaxprocs: GOMAXPROCS of each worker process (default 1),
  level, text, note, technique, design_ref: MANIFEST fields,
}
"""
PROPS = {
    "C18": {
        "level": "model_checking",
        "technique": "explicit-state exploration of the real hash map: all operation histories with <=2 deviations from an insert-only history, per fixed hash seed and key width, compared with a Go map after every step",
        "text": "Every history of n operations on the real hashmap.Map that differs from n plain inserts in at most two places (update, overwrite, merge of a second possibly mid-growth map, caller-buffer scribble, filtered iteration) is executed for each of 4-8 fixed hash seeds, 4 key widths and 2 size hints, and after every single step Len, Get (present and absent keys) and a complete iteration are compared with a built-in map; growth stages (bucket count, evacuation mark, same-size growth, overflow buckets) are registered as states. Bounded exhaustive: covers every growth stage up to 64 buckets, not all key populations.",
        "note": "hash seed pinned via overlay export file; xxh3 and the Go runtime are trusted; keys are synthetic",
        "design_ref": "§4 C18",
    },
    "C01": {
        "level": "exploration",
        "technique": "exhaustive enumeration of write histories (sessions x payload classes x encoders x levels, <=2 deviations) on the real GPDir/GPFile code, read back by fresh readers after every Close",
        "text": "All histories of 1-3 (thorough: 4) block writes to one or two days, in every split into open/write/close sessions, for every encoder and level, where up to two blocks deviate from the default payload into one of 12 payload classes chosen around the code's thresholds (empty, 1 B, compressible/incompressible below, at and above the 4 KiB write buffer, 70 kB) and extreme traffic/counter summaries, are written through the real GPDir and read back after every Close by three fresh readers (plain name, name+suffix, read-all pool): block count, timestamps, all eight columns byte-for-byte, per-block and per-day summaries, and the summaries decoded from the directory suffix. Payloads are classes, not all byte strings.",
        "note": "payload alphabet of fixed byte strings; tmpfs; native/cgo difference is C02/C07's subject",
        "design_ref": "§4 C01",
    },
    "C08": {
        "level": "exploration",
        "env": {"GOGC": "off"},  # the engine calls runtime.GC() itself several times per query; avoids scavenger churn
        "technique": "exhaustive enumeration of (database shape x query type x condition x direction filter x time range x interface argument x labels x low-mem) with <=2 (thorough 3) deviating dimensions, each executed on the real query engine over a database written by the real DBWriter, compared with a Go-map reference aggregation",
        "text": "For 4 database shapes (IPv4-only, IPv6-only, mixed including an IPv6 address whose leading bytes alias an IPv4 one, and an IPv6 address with 12 trailing zero bytes; two interfaces, three days across a month boundary) and 20 query types, every combination of at most two (thorough: three) non-default choices among time label, 4 interface arguments, 22 conditions (leaves, !=, networks, and/or/not, v4|v6 and ip|non-ip disjunctions), 5 direction filters, 40/120 (first,last) pairs over 15 boundary instants, and low-memory mode is run through engine.QueryRunner.Run; rows (as a multiset per interface), Summary.Totals and Hits.Total must equal a reference that filters, groups in a Go map and sums. The condition grammar itself is explored exhaustively by C09/C10; here conditions are a fixed list.",
        "note": "worker count pinned to 2 (C11 varies it); conditions are a hand-written list of (text, predicate) pairs; engine labels rows per interface always and so does the reference",
        "design_ref": "§4 C08",
    },
    "C03": {
        "level": "model_checking",
        "technique": "explicit-state exploration of write histories on the real GPDir / DBWriter (state = committed block list) against a list model, plus exhaustive single-mutation enumeration of metadata files through the real decoder",
        "text": "Every history of 2-4 block writes (quick: 2-3), in every split into sessions, with up to 2 (thorough 3) deviations per history drawn from timestamps relative to the previous accepted write (regression, duplicate, +1, the maximal delta 2^32-1, delta overflow, first timestamp again), per-block counts at and beyond the 32-bit limit and large counters, is run on the real GPDir (sessions abandoned on a failed write, as DBWriter does) and through DBWriter.Write / WriteBulk; after every session a fresh reader must show exactly the blocks of completely accepted sessions with unaltered timestamps, counts and day totals, and plainly valid histories must be accepted. Decoder: for valid .blockmeta files of 0-3 blocks every truncation length, every byte x 5 values, every 8-byte header field x 8 boundary values and appended garbage must give an error or a self-consistent value, never a panic.",
        "note": "counter values <= 2^61 (uint64 wrap of day totals outside the alphabet); one mutation per metadata file",
        "design_ref": "§4 C03",
    },
    "C15": {
        "level": "model_checking",
        "technique": "explicit enumeration of every arrival order of the per-host results on the one channel the real distributed aggregator reads (fake Querier seam), for every assignment of result kinds to 2-5 hosts; reference merge + identity-order comparison + streaming/non-streaming comparison",
        "text": "For every assignment of {overlapping rows, disjoint rows, empty, error, wrapped error} to 2-3 (quick) / 2-5 (thorough) hosts with distinct time ranges, interfaces and statistics, every one of the N! arrival orders is fed to the real distributed.QueryRunner (Run, and RunStreaming with a recording SSE sender) under 6/10 query modes (limits, sort keys, time query unbinned / 15m / 1h bins). The final result is compared component-wise (everything except timings) with the identity-order run, with the non-streaming run, and with a reference merge (rows = union with summed counters, totals and statistics = sums, Hits.Total = host hits - merged rows, every failed host reported with its error). Exhaustive over the arrival orders; since the aggregator consumes a single channel sequentially, arrival order is the only effect goroutine interleavings can have on it.",
        "note": "the fan-in goroutines of plugins/querier/apiclient are not executed (error results are built exactly as they build them); keepalive channel closed; which rows survive a limit is left to C14; with time binning Hits.Total is only checked for order/streaming equality",
        "design_ref": "§4 C15",
    },
    "C19": {
        "level": "exploration",
        "technique": "exhaustive input enumeration of the real ParsePacketV4/V6 against an RFC-offset reference parser: every IP-layer length 1..60 x all 256 protocols x fragment fields x address pairs x port alphabet^2 x all flag/type bytes, plus all 2^32 port pairs (thorough)",
        "text": "IPv4/IPv6 packets are built from RFC field offsets, cut to every length the capture source can hand over, and parsed by the real parser together with their mirror image; classification (non-first fragment unless ESP, truncated), addresses, protocol and the documented port fields are compared with a reference written from the RFCs and the documented common-port table, and parse(mirror) must equal Reverse(parse). The sweep scenario runs every source/destination port pair for TCP and UDP in both families (quick: pairs touching a 40-port boundary alphabet; thorough: all 2^32). Panics are violations.",
        "note": "IHL=5 / no IPv6 extension headers (documented fixed-offset design); 3 address pairs per family; inner loops are counted as transitions (parser calls), evaluations = choice sequences",
        "design_ref": "§4 C19",
    },
    "C22": {
        "level": "exploration",
        "technique": "exhaustive enumeration of conversations through the real parser and the real addToFlowLog on an empty flow log, first packet client->server vs server->client: port alphabet^2 x all 256 TCP flag bytes, all 256x256 ICMP/ICMPv6 type pairs, all 2^32 client/server port pairs for TCP mid-stream and UDP (thorough)",
        "text": "For each conversation the key stored in the FlowLog after the first packet is observed twice (client's packet first, server's packet first). SYN vs SYN+ACK and ICMP echo/timestamp/ICMPv6 echo exchanges must be stored requester->responder with identical keys; mid-stream TCP and UDP must store identical keys whenever the documented port rule is decisive (ports differ); handshake and mid-stream stages must agree for the canonical ephemeral-client/service-port case. The decisive predicate is written from the documentation, not from the code.",
        "note": "unicast address pairs only (multicast/broadcast have no reverse direction); conflicting heuristics (client on a service port) are not treated as decisive; the all-pairs sweep reuses one Capture per execution and empties its two maps with clear()",
        "budget": {"thorough": 2400},
        "design_ref": "§4 C22",
    },
    "C07": {
        "configs": ("cgo", "nocgo", "noliblz4", "nolibzstd"),
        "level": "exploration",
        "technique": "exhaustive enumeration of encoder x level x input length x content class x caller scratch buffer (len,cap) x encoder history on the real encoders, run inside each of the four compression builds (cgo, CGO_ENABLED=0, goprobe_noliblz4, goprobe_nolibzstd); every execution isolated in a child process so a fault inside liblz4/libzstd is a finding",
        "text": "For each build configuration (self-checked against build info and the linked implementations), every encoder and level (null, lz4 0-12, zstd 0-19; quick: 4-5 levels each), 8 payload classes, 16-28 lengths from 0 to 300000 bytes, 7-11 scratch buffers (nil, empty, too small, exactly the worst-case bound, gpfile's pre-sized non-empty 8192-byte buffer, longer than the output) and a fresh or previously used encoder object, Compress is run against a recording writer and Decompress against a file-like reader sized from the reported count: the reported count must equal the bytes emitted and the restored bytes must equal the input. Bounded exhaustive over these alphabets, not over all byte strings.",
        "note": "payload classes and a fixed length list instead of all inputs; compressor and decompressor come from the same build (cross-build reading is C02); liblz4 / libzstd as installed",
        "design_ref": "§4 C07",
    },
    "C13": {
        "level": "exploration",
        "technique": "exhaustive input enumeration on the real Statement.PostProcess / TimeBinner (statement built by the real Args.Prepare): all row multisets up to a size bound over a boundary-value row alphabet per bin size, compared with a group-by-bin-end reference; automatic bin size over all whole-second durations of a grid",
        "text": "For 6 (quick) / 27 (thorough) bin sizes that are multiples of 5 min, every multiset of <=3..5 rows from up to 68 rows (timestamps on, one second before and after 5-minute, bin and day boundaries, same instants in other zones, zero time; 2 label sets x 2 attribute sets; counters up to 2^40) is binned by the real code: per-counter sums are conserved, there is at most one row per (bin, labels, attributes), every row carries the smallest bin multiple >= its timestamp with the reference sums, and binning twice equals binning once. CalcTimeBinSize and Args.Prepare(time_resolution=auto) are checked for every whole-second duration 0..2 h (thorough 2 days), every multiple of 5 min +-1 s up to 40 (400) days and 1 y/10 y: bin > 0, multiple of 5 min, ceil(duration/bin) <= 288.",
        "note": "bounded: multisets of at most 5 rows; timestamps are whole seconds >= epoch; rows without time label judged for conservation/uniqueness only; 5 min bin (not coarser) judged for conservation and idempotence only; 'a day's worth of bins' read as ceil(d/bin) <= 288",
        "design_ref": "§4 C13",
    },
    "C14": {
        "level": "exploration",
        "technique": "exhaustive input enumeration: all row multisets up to a size bound from a tie-forcing alphabet x all input permutations x all 24 sort orders through the real results.By(...).Sort, Statement.PostProcess (limit) and global-query finalizeResult, compared with a reference total order",
        "text": "For each of 24 orders (packets|bytes|time x sum|in|out|both x asc|desc, statement built by the real Args.Prepare) every multiset of <=4 (thorough <=5) rows from a 16 (22) row alphabet built for ties (equal counters, one instant in UTC/+02:00/two +05:30 Locations/local time, IPv4/4-in-6/IPv6/unset addresses, same attributes on other iface/host, rows without time label) is sorted in ALL n! input orders: every input order must give the same sequence, equal to the reference order (primary key, then sip, dip, proto, dport, instant, hostname, iface; reversed when descending); limits {1,n-1,n,n+1,default} through PostProcess and finalizeResult (with upper bounds) must keep exactly the first rows.",
        "note": "HostID tied to hostname (documented in Labels.Less); rows differing only in zone representation or only in counters are not in the alphabet; sets of <=5 rows use sort.Sort's insertion-sort path; Go map iteration order in RowsMap is not enumerated: finalizeResult is run only where the real comparator orders every pair",
        "design_ref": "§4 C14",
    },
    "C17": {
        "level": "exploration",
        "technique": "exhaustive bounded enumeration of JSON round trips on the real types: every enumeration member through name and JSON mappings; Args/Statement/Result with <=2 (quick) / <=4,4,3 (thorough) deviating fields from an all-zero and a fully populated base, x {encoding/json, jsoniter} encoder x decoder x {Marshal(&v), Marshal(v)}",
        "text": "Every declared member of types.Direction and results.SortOrder is mapped value->name->value and value->JSON->value (bare and as a struct field, pointer and by value, both libraries in all four encoder/decoder pairings). query.Args, query.Statement and results.Result values are generated from per-field alphabets (escapes, HTML, non-ASCII strings, 0/1/-1/max numbers, durations, instants with ns and offsets, v4/v6/4in6/zoned/invalid addresses, counters up to 2^64-1, nil/empty/short slices and maps, every enumeration member) with every combination of at most `bound` fields deviating from two base values; each is encoded and decoded again and compared field by field (exported JSON-visible fields, instants by time.Equal, nil==empty). Bounded exhaustive: interactions of more than `bound` fields are not covered.",
        "note": "failure signatures are normalised over the 8 (encoder, decoder, mode) combinations; documents are canonicalised (sorted keys) before counting because jsoniter does not sort map keys; strings are valid UTF-8; ExtendedRow (flow log) is out of scope",
        "design_ref": "§4 C17",
    },
    "C28": {
        "level": "exploration",
        "technique": "exhaustive grid enumeration of ParseTimeArgument/ParseTimeRange on the real code: instants x all 50 supported layouts x UTC offsets x process time zones (time.Local set per execution) plus every DST transition +-1h; relative forms and ranges against the virtual clock of a testing/synctest bubble",
        "text": "For each of 4 (quick) / 5 (thorough) process time zones and every 7th (quick) / every (thorough) year 1970-2068, every instant of a month/day/time grid is formatted in each of the repository's 50 layouts (layouts with an offset: zone's own offset, +0000, +0430, thorough also -0700 and +1000, RFC3339 also +00:00) and parsed back; the result must be the instant at the layout's precision, except where the text is also valid under another supported layout with a different meaning (the stated exception) or lies in a DST fold (either instant). Every offset transition of each zone is probed at +-1h, +-30min, +-1s. Relative times -XdYhZm and -Xd:Yh:Zm (each part optional, zero-padded or not, values up to 100000) must equal floor(now)-duration for four virtual now values; ParseTimeRange and ParseTimeRangeCollectErrors over 21x21 bound texts must reject start>end and otherwise return both instants.",
        "note": "layout lists are read from the code at run time (a changed layout changes the specification); zone rules from host zoneinfo or Go's embedded tzdata; synctest is reached from the non-test worker through a parked testing.Main test; no wall-clock reads",
        "design_ref": "§4 C28",
    },
    "C16": {
        "level": "exploration",
        "technique": "exhaustive enumeration of interface arguments against all sets of existing interfaces, through the real selection functions and end to end through QueryRunner.Run on tiny real databases, compared with a set model",
        "text": "Every comma list of length <=4 (quick) / <=6 (thorough) over {eth0,eth1,eth9(absent),any,ANY,!eth0,!eth1,!eth9[,wlan0,!wlan0]} with repetitions is passed to the real list-selection function for every subset of existing interfaces; every list of length <=3 is additionally run as a real query against a database containing exactly that subset and Result.Summary.Interfaces is compared; 16 regular-expression arguments (incl. invalid and degenerate) go through both paths; names outside the syntax ('', '!', '!!eth0', 16 chars, ...) must not crash. Expected set = (listed and existing, or all if any) minus negated; regex = names matched. Bounded exhaustive over a 3-4 interface universe.",
        "note": "only the selected set is judged (duplicates are not); an empty selection may surface as a query error; '!any' is outside the judged alphabet",
        "design_ref": "§4 C16",
    },
    "C23": {
        "level": "model_checking",
        "technique": "explicit-state exploration of the real LocalBuffer: all fill/drain/reset histories with <=1 (thorough <=2) deviations from a fill-until-refused history per size limit and fill pattern, plus the full product of field values on adjacent items, compared with a queue model after every take",
        "text": "For every size limit in the tables (every value page-1..page+46, around 2x/4x page, 1..100000) and four v4/v6 fill patterns the real buffer is filled until the first refusal with cycling field values; at any step a deviation inserts the other IP version, takes 1/all items, or takes all and Resets (optionally recycling the pool slice); all histories with <=1 deviation (thorough: <=2 near page and 2x page) are executed; every item taken is compared field by field with a model queue, refusals must be justified by accepted bytes + item bytes >= limit and must not change Usage() or later output, and no call may panic. A second scenario enumerates all combinations of type/aux/parse-status/size/key pattern on two adjacent items (+optional third).",
        "note": "keys have the length matching the IP version flag; item bytes = len(key) + the buffer's own per-item overhead constant (read through the export file); bytes counted since the last Reset; explorer bound = deviations-1 (first deviation enumerated by case)",
        "design_ref": "§4 C23",
    },
    "C12": {
        "level": "exploration",
        "technique": "exhaustive enumeration of all (first,last) pairs over a boundary-instant grid on the real DBWorkManager.ReadMetadata for databases written by the real DBWriter, against a sum over the reference blocks and against the totals of a real query",
        "text": "For three databases (6 write-outs over 3 days across a month boundary with per-block drop counts; a single block; 3 blocks in one day) every pair first<=last over 20 boundary instants (before all data, one second before / on / after each block, between blocks, day boundaries, after all data: 210 ranges each) is passed to ReadMetadata; flows per IP version, drops and the four counters must equal the sum over the reference blocks with first<=ts<=last, and the counters must equal Summary.Totals of a real query over the same interface and range.",
        "note": "one interface per listing; databases are small but cover first/last day partial, same-day first and last, and empty ranges",
        "design_ref": "§4 C12",
    },
}

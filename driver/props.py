"""Per-property driver configuration and MANIFEST source of truth.

PROPS[id] = {
  configs:   build configurations the check needs (default ("cgo",)),
  budget:    {"quick": s, "thorough": s} wall-clock cap per scenario,
  gomaxprocs: GOMAXPROCS of each worker process (default 1),
  level, text, note, technique, design_ref: MANIFEST fields,
}
"""
PROPS = {
    "C18": {
        "level": "model_checking",
        "technique": "explicit-state exploration of the real hash map: all operation histories with <=2 deviations from an insert-only history, per fixed hash seed and key width, compared with a Go map after every step",
        "text": "Every history of n operations on the real hashmap.Map that differs from n plain inserts in at most two places (update, overwrite, merge of a second possibly mid-growth map, caller-buffer scribble, filtered iteration) is executed for each of 4-8 fixed hash seeds, 4 key widths and 2 size hints, and after every single step Len, Get (present and absent keys) and a complete iteration are compared with a built-in map; growth stages (bucket count, evacuation mark, same-size growth, overflow buckets) are registered as states. Bounded exhaustive: covers every growth stage up to 64 buckets, not all key populations.",
        "note": "hash seed pinned via overlay export file; xxh3 and the Go runtime are trusted; keys are synthetic",
        "design_ref": "§4 C18",
    },
    "C01": {
        "level": "exploration",
        "technique": "exhaustive enumeration of write histories (sessions x payload classes x encoders x levels, <=2 deviations) on the real GPDir/GPFile code, read back by fresh readers after every Close",
        "text": "All histories of 1-3 (thorough: 4) block writes to one or two days, in every split into open/write/close sessions, for every encoder and level, where up to two blocks deviate from the default payload into one of 12 payload classes chosen around the code's thresholds (empty, 1 B, compressible/incompressible below, at and above the 4 KiB write buffer, 70 kB) and extreme traffic/counter summaries, are written through the real GPDir and read back after every Close by three fresh readers (plain name, name+suffix, read-all pool): block count, timestamps, all eight columns byte-for-byte, per-block and per-day summaries, and the summaries decoded from the directory suffix. Payloads are classes, not all byte strings.",
        "note": "payload alphabet of fixed byte strings; tmpfs; native/cgo difference is C02/C07's subject",
        "design_ref": "§4 C01",
    },
}

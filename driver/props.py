"""Per-property driver configuration and MANIFEST source of truth.

PROPS[id] = {
  configs:   build configurations the check needs (default ("cgo",)),
  budget:    {"quick": s, "thorough": s} wall-clock cap per scenario,
  gomaxprocs: GOMAXPROCS of each worker process (default 1),
  level, text, note, technique, design_ref: MANIFEST fields,
}
"""
PROPS = {
    "C18": {
        "level": "model_checking",
        "technique": "explicit-state exploration of the real hash map: all operation histories with <=2 deviations from an insert-only history, per fixed hash seed and key width, compared with a Go map after every step",
        "text": "Every history of n operations on the real hashmap.Map that differs from n plain inserts in at most two places (update, overwrite, merge of a second possibly mid-growth map, caller-buffer scribble, filtered iteration) is executed for each of 4-8 fixed hash seeds, 4 key widths and 2 size hints, and after every single step Len, Get (present and absent keys) and a complete iteration are compared with a built-in map; growth stages (bucket count, evacuation mark, same-size growth, overflow buckets) are registered as states. Bounded exhaustive: covers every growth stage up to 64 buckets, not all key populations.",
        "note": "hash seed pinned via overlay export file; xxh3 and the Go runtime are trusted; keys are synthetic",
        "design_ref": "§4 C18",
    },
    "C01": {
        "level": "exploration",
        "technique": "exhaustive enumeration of write histories (sessions x payload classes x encoders x levels, <=2 deviations) on the real GPDir/GPFile code, read back by fresh readers after every Close",
        "text": "All histories of 1-3 (thorough: 4) block writes to one or two days, in every split into open/write/close sessions, for every encoder and level, where up to two blocks deviate from the default payload into one of 12 payload classes chosen around the code's thresholds (empty, 1 B, compressible/incompressible below, at and above the 4 KiB write buffer, 70 kB) and extreme traffic/counter summaries, are written through the real GPDir and read back after every Close by three fresh readers (plain name, name+suffix, read-all pool): block count, timestamps, all eight columns byte-for-byte, per-block and per-day summaries, and the summaries decoded from the directory suffix. Payloads are classes, not all byte strings.",
        "note": "payload alphabet of fixed byte strings; tmpfs; native/cgo difference is C02/C07's subject",
        "design_ref": "§4 C01",
    },
    "C08": {
        "level": "exploration",
        "env": {"GOGC": "off"},  # the engine calls runtime.GC() itself several times per query; avoids scavenger churn
        "technique": "exhaustive enumeration of (database shape x query type x condition x direction filter x time range x interface argument x labels x low-mem) with <=2 (thorough 3) deviating dimensions, each executed on the real query engine over a database written by the real DBWriter, compared with a Go-map reference aggregation",
        "text": "For 4 database shapes (IPv4-only, IPv6-only, mixed including an IPv6 address whose leading bytes alias an IPv4 one, and an IPv6 address with 12 trailing zero bytes; two interfaces, three days across a month boundary) and 20 query types, every combination of at most two (thorough: three) non-default choices among time label, 4 interface arguments, 22 conditions (leaves, !=, networks, and/or/not, v4|v6 and ip|non-ip disjunctions), 5 direction filters, 40/120 (first,last) pairs over 15 boundary instants, and low-memory mode is run through engine.QueryRunner.Run; rows (as a multiset per interface), Summary.Totals and Hits.Total must equal a reference that filters, groups in a Go map and sums. The condition grammar itself is explored exhaustively by C09/C10; here conditions are a fixed list.",
        "note": "worker count pinned to 2 (C11 varies it); conditions are a hand-written list of (text, predicate) pairs; engine labels rows per interface always and so does the reference",
        "design_ref": "§4 C08",
    },
    "C03": {
        "level": "model_checking",
        "technique": "explicit-state exploration of write histories on the real GPDir / DBWriter (state = committed block list) against a list model, plus exhaustive single-mutation enumeration of metadata files through the real decoder",
        "text": "Every history of 2-4 block writes (quick: 2-3), in every split into sessions, with up to 2 (thorough 3) deviations per history drawn from timestamps relative to the previous accepted write (regression, duplicate, +1, the maximal delta 2^32-1, delta overflow, first timestamp again), per-block counts at and beyond the 32-bit limit and large counters, is run on the real GPDir (sessions abandoned on a failed write, as DBWriter does) and through DBWriter.Write / WriteBulk; after every session a fresh reader must show exactly the blocks of completely accepted sessions with unaltered timestamps, counts and day totals, and plainly valid histories must be accepted. Decoder: for valid .blockmeta files of 0-3 blocks every truncation length, every byte x 5 values, every 8-byte header field x 8 boundary values and appended garbage must give an error or a self-consistent value, never a panic.",
        "note": "counter values <= 2^61 (uint64 wrap of day totals outside the alphabet); one mutation per metadata file",
        "design_ref": "§4 C03",
    },
}

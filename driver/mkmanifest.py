#!/usr/bin/env python3
"""Regenerates /verif/MANIFEST.json from props.py (claimed checks) and NOT_APPLICABLE."""
import json, os, sys
sys.path.insert(0, os.path.dirname(os.path.abspath(__file__)))
import props
VERIF = os.path.dirname(os.path.dirname(os.path.abspath(__file__)))
ids = [json.loads(l)["id"] for l in open(os.path.join(VERIF, "properties.jsonl")) if l.strip()]
checks, na = [], []
for i in ids:
    p = props.PROPS.get(i)
    if p is None or p.get("unclaimed"):
        na.append({"property_id": i, "reason": (p or {}).get("reason", "check not built yet (work in progress; planned in DESIGN.md §4)")})
        continue
    checks.append({
        "property_id": i,
        "quick_cmd": "./check %s --tier quick" % i,
        "thorough_cmd": "./check %s --tier thorough" % i,
        "evidence_file": "/verif/evidence/%s.json" % i,
        "replay_cmd_template": "./check %s --replay {path}" % i,
        "engine": "mc-explorer",
        "level_claimed": {"category": p["level"], "text": p["text"], "design_ref": p.get("design_ref", "DESIGN.md §4 " + i)},
        "level_note": p["note"],
        "technique": p["technique"],
    })
m = {
    "version": 1,
    "setup_cmd": "./setup.sh",
    "hooks": {
        "guard": "verif",
        "enable": "go build -tags verif -overlay /verif/.build/base/overlay.json (overlay generated from /repo's current tree by ./check; no file in /repo is modified)",
        "baseline_off_cmd": "(cd /repo && go test -json -vet=off -count=1 -timeout 25m ./...); (cd /repo/plugins/contrib && go test -json -vet=off -count=1 -timeout 25m ./...)",
        "source_commits": [],
        "add_only": True,
    },
    "engines": [{
        "name": "mc-explorer", "path": "/verif/mc",
        "serves_properties": [c["property_id"] for c in checks],
        "kind_free_text": "hand-written stateless deviation-bounded DFS over choice sequences (inputs, operation sequences, crash points, errno injection, schedules) executing the real goProbe code; process-sharded; Go overlay (build tag verif) binds it to /repo without editing it",
    }],
    "checks": checks,
    "not_applicable": na,
    "notes": "All checks: ./check <id> --tier quick|thorough. Exit 0 held / 1 violation / 2 tooling error. See DESIGN.md.",
}
json.dump(m, open(os.path.join(VERIF, "MANIFEST.json"), "w"), indent=1)
print("claimed", len(checks), "not applicable", len(na))

#!/usr/bin/env python3
"""Regenerates /verif/known_findings.json. FIXED entries name the subject prefix of the
'fix:' commit in /repo (hash looked up at generation time); KNOWN entries are genuine
defects that are recorded rather than repaired. Run by hand after adding an entry."""
import json, subprocess, os
VERIF = os.path.dirname(os.path.dirname(os.path.abspath(__file__)))
log = subprocess.check_output(['git', '-C', '/repo', 'log', '--format=%h %s']).decode().splitlines()

def commit(prefix):
    for l in log:
        h, s = l.split(' ', 1)
        if s.startswith('fix: ' + prefix):
            return h
    raise SystemExit('no commit for ' + prefix)

FIXED = [
 ("C01","read-mismatch","rewind column file","a block whose compressed form is larger than the raw data and larger than the 4 KiB file write buffer (e.g. 4096 incompressible bytes, lz4 or zstd) read back as garbage and shifted every later block of the column: GPFile.writeBlock fell back to the null encoder without rewinding the column file"),
 ("C08","rows:or-ip-nonip","derive the query's IP version","conditions mixing an address match with OR / != / NOT ('sip = 10.0.0.1 | dport = 80', 'sip != 10.0.0.1', '!(dnet = 2001:db8::/32)') silently dropped all flows of the other IP family: Query.ipVersion merged attribute IP versions ignoring the condition structure"),
 ("C08","v6-trailing-zeros-rendered-as-v4","RawIPToAddr no longer","an IPv6 address whose bytes 4..15 are zero (2001:db8::, ::) was returned in result rows as an IPv4 address (32.1.13.184, 0.0.0.0): zero-counting heuristic in types.RawIPToAddr"),
 ("C03","timestamp-regression-stored-altered","reject block timestamps","a block whose timestamp is earlier than its predecessor (writes 1700009700 then 1700009400 via GPDir, DBWriter.Write or WriteBulk) was accepted and read back as 5994976696: negative uint32 delta wrapped in GPDir.Marshal"),
 ("C12","counters:*","interface summaries subtract","ReadMetadata over a range ending between / before blocks kept the first block after 'last' (BlocksAfter off by one), never subtracted drop counts of out-of-range blocks, and indexed block -1 when every block of the last day lay after 'last'"),
 ("C15","ref:stats.bytes_loaded","workload statistics add","workload.Stats.Add added BlocksProcessed twice and never BytesLoaded: merged statistics of 2 hosts with BytesLoaded=100, BlocksProcessed=3 were 0 and 12"),
 ("C15","order-dependent:time_range","distributed time range","Summary.First/Last of a distributed result were those of the host that happened to arrive last (hosts [2000,5000] and [1000,4000] gave 1000..4000 or 2000..5000 depending on order)"),
 ("C15","streaming-final-differs:status*","streaming result is not left","RunStreaming with arrival order [empty host, host with rows] ended with status 'missing data' although rows were present (Result.End never resets the empty status), differing from Run and from the other arrival order"),
 ("C19","panic-short-header-v4","classify packets shorter","ParsePacketV4([]byte{0x45}) / ParsePacketV6 with 39 bytes panicked with index out of range: no length check before the bounds-check hint"),
 ("C19","dport-dropped-both-ports-common","keep both ports","UDP 10.0.0.1:53 -> 192.168.1.1:53 was stored with destination port 0 (both ports dropped when both are common service ports)"),
 ("C22","midstream-orientation-depends-on-first-packet-both-ports-common","keep both ports","TCP A:53 <-> B:80 was stored A->B or B->A depending on which packet was seen first: both ports were erased before the lower-port rule could apply"),
 ("C07","zstd-native:scratch-content-emitted","native zstd Compress","native zstd Compress with a scratch buffer of non-zero length (gpfile passes len 8192) emitted the scratch content before the frame, reported n inflated by len(scratch) and produced undecodable blocks (CGO_ENABLED=0 / goprobe_nolibzstd builds)"),
 ("C07","lz4-cgo:crash:SIGSEGV-in-LZ4_compress_HC","cgo lz4 Compress of an empty","cgo lz4 Compress of an empty input at level 10-12 crashed with SIGSEGV inside liblz4 (NULL source pointer)"),
 ("C14","tie-unbroken:equal-instant-different-zone","Labels.Less compares instants","two rows with the same instant in different time.Time representations (UTC vs +02:00) and different hosts were unordered: Labels.Less false in both directions, output order followed input / map order"),
 ("C14","ascending-flag-not-applied","Args.Prepare carries","Args{SortAscending:true}.Prepare() returned a Statement with SortAscending=false: the flag was never copied, results always sorted descending"),
 ("C17","enum:Direction:name:bi-directional","DirectionFromString maps","DirectionFromString(\"bi-directional\") returned DirectionOut: a Statement with DirectionBoth decoded as DirectionOut after a JSON round trip"),
 ("C17","enum:SortOrder:*:unmarshal-error@*value*","SortOrder marshals","json.Marshal of a SortOrder (or a Statement) by value emitted the bare integer, which UnmarshalJSON rejects (pointer-receiver MarshalJSON)"),
 ("C17","enum:Direction:*:unmarshal-error@*value*","Direction marshals","json.Marshal of a Direction by value emitted the bare integer, which UnmarshalJSON rejects (pointer-receiver MarshalJSON)"),
 ("C16","panic:engine.parseIfaceListWithCommaSeparatedString","interface negation removes","interface argument 'eth0,eth0,!eth0' panicked (slice bounds out of range [2:1]); 'eth0,eth0,eth1,!eth0' still selected eth0"),
 ("C23","field-size-top-byte:followed-by-v6","local buffer elements reserve","Add(v4,size=1500); Add(v6); Next returned size 16778716: the next element's IP version flag overwrote the top byte of the previous size (element overhead counted as 7 instead of 8 bytes)"),
 ("C23","panic:capture.(*LocalBuffer).Add","local buffer re-checks","with size limit 4097 the 128th alternating element panicked in Add (slice bounds out of range [:4114] with capacity 4097): no re-check after growth capped by the limit"),
 ("C09","key-modified:snet","snet / dnet comparisons","'snet = 10.0.0.1/31' rewrote the evaluated key's source address to the network address; a later clause saw the masked address ('snet != 10.0.0.1/31 | sip = 10.0.0.1' false for 10.0.0.1); 'snet = 10.0.0.1/8' matched the IPv6 flow a00:1::5; 'snet = 2001:db8::1/36' on an IPv4 key panicked"),
 ("C10","panic:node.conditionBytesAndNetmask","reject negative netmasks","Prepare(\"snet = 10.0.0.0/-8\") and \"dnet = ::ffff:10.0.0.1/24\" panicked with index out of range instead of being rejected / handled"),
 ("C10","rejected:and,not","accept 'and not'","'dport = 80 and not proto = 6' (also 'or not', 'not(', 'not{') was rejected although every word form is documented; for inputs like 'dport -ne = 80' acceptance depended on Go map iteration order of the conversion table"),
 ("C04","inconsistent:*:query-failed","queries skip a day directory","a kill during the first write-out of a new day left a day directory without .blockmeta; every later query or listing covering that day failed ('error reading metadata file')"),
 ("C05","nil-but-wrong:readdir:monthdir:*","report a failure to list","a failing readdir of the month directory while locating the day to append to (EIO / EACCES) was swallowed: the writer started a second, suffix-less directory for the same day, Write returned nil and the day's earlier blocks were hidden from queries"),
 ("C21","ipv6-packet-recorded-as-ipv4","IPv6 packets buffered","an IPv6 packet arriving while the capture is paused (write-out / status / live query) was buffered with isIPv4=true and recorded as an IPv4 flow with a garbage key (2001:db8::1>2001:db8::2:443/6 became v4 key 20010db8...)"),
 ("C30","reader-crash:gpfile.(*GPDir).Close*","GPDir.Close can be called twice","a query whose directory recovery failed half-way during a concurrent write-out called GPDir.Close twice and crashed the process (nil pointer dereference in a worker goroutine)"),
 ("C30","reader-error:metadata-missing","opening a day directory retries","a query failed with 'error reading metadata file' when the day directory was renamed a second time between locating the new name and opening the metadata"),
 ("C30","query-no-snapshot","reading a block after a directory rename","a query overlapping a write-out returned rows with wrong column content (e.g. sip = the dip value): ReadBlockAtIndex's close+reopen recovery returned the buffers of already-read columns to the pool"),
 ("C24","partial-day-with-gap-before-last-block-treated-as-complete","a day with a gap before","merge classified a source day {00:00,00:05,00:10,13:00} as complete (block duration inferred from the last two blocks); with --overwrite it replaced a partial destination day and lost its blocks"),
 ("C24","dryrun-creates-destination-root","a merge dry run does not create","MergeDatabases with DryRun created a missing destination directory and a stage directory inside it"),
 ("C25","leftover-listed-as-interface:*","hidden directories in the database root","after a kill during a merge the staging directory '.gpdb-merge-stage-*' was listed (and queried) as an interface"),
 ("C25","neither-before-nor-after:unlink@backup","the leftover backup of an interrupted","after a kill while the backup of a replaced day was being removed, queries returned the day's old and new rows together (the backup directory name parses as the same day) and every later merge failed with 'duplicate day timestamp'"),
 ("C29","live-rows-not-grouped:reduced-key:*","live query results are grouped","a live query of any type other than sip,dip,dport,proto returned the same group several times: in-memory flows kept their full key while stored flows are keyed by the query attributes"),
 ("C26","shared-key-rows-overwritten-not-summed","CSV rows sharing interface","two CSV rows with the same interface, timestamp and key were both reported as imported but only the last one was stored (Set instead of SetOrUpdate)"),
 ("C12","counters:*:last-between-blocks","interface summaries also subtract","a listing whose 'last' lies in the final five minutes of a day (e.g. 23:57:29) still counted that day's later block (23:57:30): only the directory of the NEXT day, visited because of the write-interval margin, was treated as the last one"),
 ("C27","disabled-interface-captured","interfaces configured with 'disable: true'","configuration {eth0, eth1:{disable:true}} started a capture on eth1; reconfiguring {eth0,eth1} -> {eth0, eth1:disable} panicked in RingBufferConfig.Equals (nil) with the manager lock held"),
 ("C27","stale-configuration:ignore_vlans","CaptureConfig.Equals compares all","changing only ignore_vlans / extra_bpf_filters of an interface did not restart its capture: the source kept the old setting while Config() reported the new one"),
 ("C27","overlapping-regexps-by-map-order","overlapping interface regexps resolve","with matchers {/eth.*/, /.*0/:promisc} the configuration applied to eth0 depended on Go map iteration order (41 of 200 runs promisc)"),
 ("C27","selected-interface-not-captured:reconfigured","the error routine of a replaced capture","after Update(eth0 default -> eth0 promisc) returned, no capture ran on eth0: the old capture's logErrors routine looked the capture up by name and closed the newly registered one (300 of 300 runs at GOMAXPROCS=1)"),
 ("C11","never-ends:work-queue-filled-before-workers-start","queries over more day directories","a query over 2049 day directories with one worker (runtime.NumCPU()==1) never returned: CreateWorkerJobs blocked on the 65th send into a channel of capacity workers*64 that nobody reads yet"),
 ("C06","col.*:delete:*","a column file that failed to open","deleting one column file of a day made queries fail ('worker gave up') and the interface listing fail with 'failed to close ... invalid argument': GPFile.open left a nil *os.File inside the non-nil g.file interface"),
 ("C06","blockmeta.*:bitflip:crash:panic:gpfile.(*GPFile).ReadBlockAtIndex","implausible block sizes","a .blockmeta block length with bit 31 set (or Len=0 with RawLen!=0 on an lz4 block) killed the process: 2*RawLen wrapped in uint32 and the re-slice panicked in a worker goroutine / the decompressor indexed an empty slice"),
 ("C06","blockmeta.len:bitflip:crash:panic:lz4.(*Encoder).Decompress","cgo lz4 Decompress rejects","cgo lz4 Decompress indexed in[0] of an empty input"),
 ("C06","dirname:suffix-nonalnum:*","a metadata suffix with characters","a day directory whose name suffix contains a byte above 'z' ('~', '{', 0xff) made every query and listing over the interface panic in bitpack.DecodeUint64FromString (index out of range [126] with length 123)"),
 ("C06","dirname:prefix-*:*","entries that are not part of the database layout","a foreign directory ('lost+found') or a day directory with a non-numeric / unaligned timestamp next to the day directories made every query and listing over that interface fail ('failed to parse timestamp / suffix from directory')"),
 ("C06","blockmeta*:query-fails:*","a day directory with unreadable or implausible metadata","an undecodable .blockmeta in one day failed the whole query / listing ('failed to open first GPDir', 'internal error during query processing'), a zero-block .blockmeta panicked in GPDir.TimeRange, and a flipped bit in one day's first timestamp made queries return zero rows for all other days with nothing counted as corrupted"),
]

KNOWN = [
 ("C10","canon-rejected:host-word","a condition whose VALUE is a resolvable host name spelled like an operator word (e.g. 'sip = eq and dport = 80' with a host named 'eq') is accepted, but its canonical string 'sip = eq & dport = 80' is rejected when prepared again, because the sanitiser rewrites ' eq ' in free text. Needs a token-aware sanitiser; not repaired."),
 ("C04","inconsistent:rename:daydir->daydir:listing-disagrees","a kill between the two commit steps of a write-out (rename of .blockmeta, then rename of the day directory to its new metadata suffix) leaves the directory suffix with the totals of the previous state: queries show the new block, the interface listing (which trusts the suffix) does not count it, until the next write-out to that day. The two renames cannot be made atomic without changing the on-disk layout; not repaired."),
 ("C29","live-query-error:memory-only","a live query for an interface that is being captured but has no directory in the database yet (until its first write-out) fails with 'no interfaces provided' instead of returning the in-memory flows: the interface argument is resolved against the database only. Needs the lister to be unioned with the capture manager's interfaces and the work manager to tolerate a missing directory; not repaired."),
 ("C05","error-but-damaged:rename:daydir->daydir:*","if the final rename of the day directory (metadata suffix update) fails, DBWriter.Write returns the error although the block was already committed by the preceding .blockmeta rename: the database then holds one block more than 'the previously committed data' (seen in the query rows, or for a write-out without flows only in the listing's drop counter). Same two-step commit as the C04 finding; not repaired."),
]

out = {"_comment": "Genuine defects of els0r/goProbe found by the checks. status=known: listed finding, reported as KNOWN-FINDING (exit 0) — matched by signature (fnmatch), so a different violation of the same property is still reported; status=fixed: repaired by the named 'fix:' commit in /repo, suppresses nothing (the check passes on the repaired tree and reports the violation again if it returns). Generated by driver/mkfindings.py, never written at run time.", "findings": []}
for prop, sig, pref, what in FIXED:
    c = commit(pref)
    out["findings"].append({"property": prop, "status": "fixed", "commit": c, "signature": sig, "what": "fixed: property=%s %s %s" % (prop, c, what)})
for prop, sig, what in KNOWN:
    out["findings"].append({"property": prop, "status": "known", "signature": sig, "what": what})
json.dump(out, open(os.path.join(VERIF, 'known_findings.json'), 'w'), indent=1)
print(len(FIXED), "fixed,", len(KNOWN), "known")

#!/usr/bin/env python3
"""Mutant management.

  mutants.py convert            turn whole-file mutant copies under mc/mutants/<id>/<name>/<relpath>
                                into patches mc/mutants/<id>/<name>.patch (diff against the closest
                                version of the file in /repo's history), then delete the copies
  mutants.py materialize <patch> <outdir>
                                apply a patch to the CURRENT /repo files (copied into outdir) so that
                                ./check --mutant <outdir> can use it; exit 3 if it does not apply
  mutants.py run [id ...]       run ./check <id> --mutant for every patch (of the given properties),
                                print one line per mutant: DETECTED / MISSED / N/A (patch no longer applies)
"""
import difflib, glob, os, re, shutil, subprocess, sys, tempfile

VERIF = os.path.dirname(os.path.dirname(os.path.abspath(__file__)))
MUT = os.path.join(VERIF, "mc", "mutants")
REPO = "/repo"


def git(*a):
    return subprocess.run(["git", "-C", REPO] + list(a), stdout=subprocess.PIPE, stderr=subprocess.DEVNULL, text=True).stdout


def versions(rel):
    out, seen = [], set()
    for h in git("log", "--format=%h", "--", rel).split():
        txt = git("show", "%s:%s" % (h, rel))
        if txt and txt not in seen:
            seen.add(txt)
            out.append(txt)
    return out


def convert(ids=()):
    for d in sorted(glob.glob(os.path.join(MUT, "*", "*"))):
        if not os.path.isdir(d):
            continue
        if ids and os.path.basename(os.path.dirname(d)) not in ids:
            continue
        chunks = []
        for root, _, files in os.walk(d):
            for f in files:
                p = os.path.join(root, f)
                rel = os.path.relpath(p, d)
                mut = open(p).read()
                best, bestn = None, None
                for base in versions(rel):
                    n = sum(1 for l in difflib.unified_diff(base.splitlines(), mut.splitlines(), lineterm="", n=0) if l[:1] in "+-" and l[:3] not in ("+++", "---"))
                    if bestn is None or n < bestn:
                        best, bestn = base, n
                if best is None:
                    print("no history for", rel, "in", d)
                    continue
                diff = "".join(difflib.unified_diff(best.splitlines(True), mut.splitlines(True), "a/" + rel, "b/" + rel, n=3))
                chunks.append(diff)
                print("%-60s %-50s %d changed lines" % (os.path.relpath(d, MUT), rel, bestn))
        if chunks:
            with open(d + ".patch", "w") as fh:
                fh.write("".join(chunks))
            shutil.rmtree(d)


def materialize(patch, outdir):
    files = re.findall(r"^\+\+\+ b/(\S+)", open(patch).read(), re.M)
    if os.path.exists(outdir):
        shutil.rmtree(outdir)
    for rel in files:
        os.makedirs(os.path.dirname(os.path.join(outdir, rel)), exist_ok=True)
        shutil.copy(os.path.join(REPO, rel), os.path.join(outdir, rel))
    p = subprocess.run(["patch", "-p1", "-s", "--no-backup-if-mismatch", "-F", "3", "-d", outdir, "-i", os.path.abspath(patch)],
                       stdout=subprocess.PIPE, stderr=subprocess.STDOUT, text=True)
    if p.returncode != 0:
        print("patch does not apply:", patch, p.stdout[-500:])
        return 3
    for rej in glob.glob(os.path.join(outdir, "**", "*.rej"), recursive=True) + glob.glob(os.path.join(outdir, "**", "*.orig"), recursive=True):
        os.remove(rej)
    return 0


def run(ids):
    rows = []
    for patch in sorted(glob.glob(os.path.join(MUT, "*", "*.patch"))):
        prop = os.path.basename(os.path.dirname(patch))
        if ids and prop not in ids:
            continue
        name = os.path.basename(patch)[:-6]
        out = tempfile.mkdtemp(prefix="mut-%s-%s-" % (prop, name))
        try:
            if materialize(patch, out) != 0:
                rows.append((prop, name, "N/A (patch no longer applies)", ""))
                continue
            tag = os.path.join(os.path.dirname(out), "mut-%s-%s" % (prop, name))
            if os.path.exists(tag):
                shutil.rmtree(tag)
            os.rename(out, tag)
            out = tag
            p = subprocess.run([os.path.join(VERIF, "check"), prop, "--mutant", out, "--procs", os.environ.get("MUT_PROCS", "8")],
                               cwd=VERIF, stdout=subprocess.PIPE, stderr=subprocess.STDOUT, text=True)
            sigs = sorted(set(re.findall(r"signature=(\S+)", p.stdout)))
            if p.returncode == 1:
                rows.append((prop, name, "DETECTED", ", ".join(sigs)[:160]))
            elif p.returncode == 0:
                rows.append((prop, name, "MISSED", ""))
            else:
                rows.append((prop, name, "TOOLING-ERROR", p.stdout[-300:].replace("\n", " ")))
        finally:
            shutil.rmtree(out, ignore_errors=True)
            shutil.rmtree(os.path.join(VERIF, ".build", "mut-" + os.path.basename(out)), ignore_errors=True)
        print("%-5s %-42s %-14s %s" % rows[-1], flush=True)
    return 0


if __name__ == "__main__":
    cmd = sys.argv[1] if len(sys.argv) > 1 else ""
    if cmd == "convert":
        convert(sys.argv[2:])
    elif cmd == "materialize":
        sys.exit(materialize(sys.argv[2], sys.argv[3]))
    elif cmd == "run":
        sys.exit(run(sys.argv[2:]))
    else:
        print(__doc__)
        sys.exit(2)

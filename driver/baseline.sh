#!/bin/sh
# Runs the repository's own test suite (guard off, no overlay) and reports every
# BASELINE stable_pass test that did not pass. Usage: driver/baseline.sh [outfile]
OUT=${1:-/tmp/baseline_run.json}
: > "$OUT"
(cd /repo && go test -json -vet=off -count=1 -timeout 25m ./... >> "$OUT" 2>/dev/null)
(cd /repo/plugins/contrib && go test -json -vet=off -count=1 -timeout 25m ./... >> "$OUT" 2>/dev/null)
python3 - "$OUT" <<'PY'
import json, sys
base = json.load(open('/root/.vp/BASELINE.json'))
want = set(base['stable_pass'])
res = {}
for line in open(sys.argv[1]):
    try:
        e = json.loads(line)
    except ValueError:
        continue
    if e.get('Test') and e.get('Action') in ('pass', 'fail', 'skip'):
        res[e['Package'] + '::' + e['Test']] = e['Action']
bad = sorted(t for t in want if res.get(t) != 'pass')
print("stable_pass tests:", len(want), "passed now:", len(want) - len(bad))
for t in bad[:40]:
    print("NOT PASSING:", t, res.get(t))
PY

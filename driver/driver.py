"""Driver for the model-checking harness: overlay generation, build, worker pool, evidence."""
import argparse, signal, fcntl, fnmatch, glob, hashlib, json, os, queue, re, shutil, subprocess, sys, threading, time

VERIF = os.path.dirname(os.path.dirname(os.path.abspath(__file__)))
REPO = os.environ.get("VERIF_REPO", "/repo")
MC = os.path.join(VERIF, "mc")
BUILD = os.path.join(VERIF, ".build")
MODULE = "github.com/els0r/goProbe/v4"
VOS = MODULE + "/pkg/verifshim/vos"
NCPU = min(16, os.cpu_count() or 1)

GOENV = dict(os.environ)
for k in ("GOSUMDB", "GOTOOLCHAIN", "GONOSUMDB", "GONOSUMCHECK"):
    GOENV.pop(k, None)
GOENV.update({"GOPROXY": "off", "GOFLAGS": "-mod=mod", "GOWORK": "off"})

# Files whose `import "os"` is redirected to the vos shim (persistence paths).
OS_REWRITE_GLOBS = [
    "pkg/goDB/storage/gpfile/*.go",
    "pkg/goDB/*.go",
    "pkg/goDB/info/*.go",
    "pkg/goDB/engine/*.go",
    "cmd/gpdb/pkg/csvimport/*.go",
]

# (file, regex, replacement, extra import) — range-expression wraps for map-order enumeration
# and the DNS seam. Applied when the pattern is present; reported when it is not.
HOOK_REWRITES = [
    ("pkg/goDB/conditions/tokenize.go", r"range regexGrammarConversionMap \{",
     "range verifhook.Ordered(\"tokenize\", regexGrammarConversionMap) {", MODULE + "/pkg/verifshim/verifhook"),
    ("cmd/goProbe/config/config.go", r"range m\.regexpMatchers \{",
     "range verifhook.Ordered(\"matchers\", m.regexpMatchers) {", MODULE + "/pkg/verifshim/verifhook"),
    ("pkg/goDB/conditions/node/resolve.go", r"\bnet\.LookupHost\(",
     "verifhook.LookupHost(", MODULE + "/pkg/verifshim/verifhook"),
    # scheduling points of the query workers (C11.sched): after a block's columns were decoded, between
    # filling the comparison key and evaluating the condition, before the entry is added to the result map
    ("pkg/goDB/DBWorkManager.go", r"(?m)^(\s*)(for wl := range workloadChan \{)",
     r'\1verifhook.Yield("start")\n\1\2', MODULE + "/pkg/verifshim/verifhook"),
    ("pkg/goDB/DBWorkManager.go", r"(?m)^(\s*)(bytesRcvdValues = bitpack\.UnpackInto\()",
     r'\1verifhook.Yield("block")\n\1\2', MODULE + "/pkg/verifshim/verifhook"),
    ("pkg/goDB/DBWorkManager.go", r"(?m)^(\s*)(conditionalSatisfied = w\.query\.Conditional\.Evaluate\()",
     r'\1verifhook.Yield("eval")\n\1\2', MODULE + "/pkg/verifshim/verifhook"),
    ("pkg/goDB/DBWorkManager.go", r"(?m)^(\s*)(resultMap\.SetOrUpdate\(key,)",
     r'\1verifhook.Yield("update")\n\1\2', MODULE + "/pkg/verifshim/verifhook"),
]


class ToolingError(Exception):
    pass


def log(*a):
    print(*a, file=sys.stderr, flush=True)


def rewrite_os_import(src):
    """Redirect the "os" import to the shim. Returns (new_src, changed)."""
    new, n = re.subn(r'(?m)^(\s*)(?:os\s+)?"os"\s*$', r'\1os "%s"' % VOS, src)
    if n == 0:
        new, n = re.subn(r'(?m)^import\s+(?:os\s+)?"os"\s*$', 'import os "%s"' % VOS, src)
    return new, n > 0


def add_import(src, path, name=None):
    line = ('%s "%s"' % (name, path)) if name else '"%s"' % path
    if re.search(r'(?m)^\s*(?:import\s+)?' + re.escape(line) + r'\s*$', src):
        return src
    if ('"%s"' % path) in src:
        return src
    m = re.search(r'(?m)^import \(\s*$', src)
    if m:
        return src[:m.end()] + "\n\t" + line + src[m.end():]
    m = re.search(r'(?m)^package \w+\s*$', src)
    return src[:m.end()] + "\n\nimport " + line + "\n" + src[m.end():]


def gen_overlay(outdir, mutant=None):
    """Generate overlay.json from the current /repo tree (and an optional mutant dir)."""
    ovdir = os.path.join(outdir, "ov")
    shutil.rmtree(ovdir, ignore_errors=True)
    os.makedirs(ovdir, exist_ok=True)
    replace = {}
    base = os.path.join(MC, "_overlay")
    for root, _, files in os.walk(base):
        for f in files:
            if f.endswith(".go"):
                rel = os.path.relpath(os.path.join(root, f), base)
                replace[os.path.join(REPO, rel)] = os.path.join(root, f)
    srcs = {}  # repo-relative path -> source text (current tree, or mutant copy)

    def load(rel):
        if rel not in srcs:
            p = os.path.join(REPO, rel)
            if mutant and os.path.exists(os.path.join(mutant, rel)):
                p = os.path.join(mutant, rel)
            with open(p) as fh:
                srcs[rel] = fh.read()
        return srcs[rel]

    changed = set()
    if mutant:
        for root, _, files in os.walk(mutant):
            for f in files:
                if f.endswith(".go"):
                    rel = os.path.relpath(os.path.join(root, f), mutant)
                    load(rel)
                    changed.add(rel)
    for g in OS_REWRITE_GLOBS:
        for p in sorted(glob.glob(os.path.join(REPO, g))):
            rel = os.path.relpath(p, REPO)
            if rel.endswith("_test.go") or rel.endswith("export_verif.go"):
                continue
            s = load(rel)
            if re.search(r'(?m)^\s*(?:import\s+)?(?:os\s+)?"os"\s*$', s):
                new, ok = rewrite_os_import(s)
                if not ok:
                    raise ToolingError("cannot rewrite os import in " + rel)
                srcs[rel] = new
                changed.add(rel)
    missing_hooks = []
    for rel, pat, repl, imp in HOOK_REWRITES:
        if not os.path.exists(os.path.join(REPO, rel)):
            missing_hooks.append(rel)
            continue
        s = load(rel)
        new, n = re.subn(pat, repl, s)
        if n == 0:
            missing_hooks.append(rel + ":" + pat)
            continue
        srcs[rel] = add_import(new, imp)
        changed.add(rel)
    for rel in sorted(changed):
        dst = os.path.join(ovdir, rel)
        os.makedirs(os.path.dirname(dst), exist_ok=True)
        with open(dst, "w") as fh:
            fh.write(srcs[rel])
        replace[os.path.join(REPO, rel)] = dst
    ovjson = os.path.join(outdir, "overlay.json")
    with open(ovjson, "w") as fh:
        json.dump({"Replace": replace}, fh, indent=1, sort_keys=True)
    return ovjson, missing_hooks


BUILD_CONFIGS = {
    "cgo": {"tags": "verif", "cgo": "1"},
    "nocgo": {"tags": "verif", "cgo": "0"},
    "noliblz4": {"tags": "verif,goprobe_noliblz4", "cgo": "1"},
    "nolibzstd": {"tags": "verif,goprobe_nolibzstd", "cgo": "1"},
}


def build(outdir, ovjson, config="cgo", pkg="./cmd/mcworker", name="mcworker", race=False):
    cfg = BUILD_CONFIGS[config]
    out = os.path.join(outdir, "%s-%s%s" % (name, config, "-race" if race else ""))
    env = dict(GOENV)
    env["CGO_ENABLED"] = cfg["cgo"]
    cmd = ["go", "build", "-tags", cfg["tags"], "-overlay", ovjson, "-o", out]
    if race:
        cmd.insert(2, "-race")
    cmd.append(pkg)
    t0 = time.time()
    p = subprocess.run(cmd, cwd=MC, env=env, stdout=subprocess.PIPE, stderr=subprocess.STDOUT, text=True)
    if p.returncode != 0:
        raise ToolingError("build failed (%s):\n%s" % (" ".join(cmd), p.stdout[-6000:]))
    log("  built %s in %.1fs" % (os.path.basename(out), time.time() - t0))
    return out


def worker_for(bins, key):
    """A scenario key may pin its build config with a dot-component: "C07.nocgo" runs in bins["nocgo"]."""
    for part in key.split(".")[1:]:
        if part in BUILD_CONFIGS:
            if part not in bins:
                raise ToolingError("scenario %s needs build config %r: list it in props.PROPS[...]['configs']" % (key, part))
            return bins[part]
    return bins["cgo"] if "cgo" in bins else list(bins.values())[0]


def scenario_info(worker, prop, tier):
    p = subprocess.run([worker, "-prop", prop, "-tier", tier], stdout=subprocess.PIPE, stderr=subprocess.PIPE, text=True)
    if p.returncode != 0:
        raise ToolingError("worker -prop failed: " + p.stderr[-2000:])
    return json.loads(p.stdout) or []


# seconds a worker may stay silent beyond the end of its case's time slice before it is dumped and killed
WORKER_HANG_GRACE = int(os.environ.get("VERIF_HANG_GRACE", "600"))


class Pool:
    """Deals cases of one scenario to worker processes; one JSON result per case."""

    def __init__(self, worker, key, tier, ncases, deadline, nproc, env, logdir, crash_sig=""):
        self.worker, self.key, self.tier = worker, key, tier
        self.q = queue.Queue()
        for c in range(ncases):
            self.q.put(c)
        self.results, self.errors, self.crashes = [], [], []
        self.lock = threading.Lock()
        self.deadline, self.env, self.logdir, self.crash_sig = deadline, env, logdir, crash_sig
        self.nproc = max(1, min(nproc, ncases))
        self.min_slice = 60.0 if tier == "thorough" else 20.0

    def run(self):
        ths = [threading.Thread(target=self._one, args=(i,)) for i in range(self.nproc)]
        for t in ths:
            t.start()
        for t in ths:
            t.join()

    def _spawn(self, i):
        errf = open(os.path.join(self.logdir, "%s.%d.err" % (self.key, i)), "ab")
        return subprocess.Popen([self.worker, "-scen", self.key, "-tier", self.tier, "-deadline", str(int(self.deadline))],
                                stdin=subprocess.PIPE, stdout=subprocess.PIPE, stderr=errf, env=self.env, text=True, bufsize=1), errf

    def _one(self, i):
        proc, errf = None, None
        while True:
            try:
                c = self.q.get_nowait()
            except queue.Empty:
                break
            if proc is None or proc.poll() is not None:
                proc, errf = self._spawn(i)
            # time slice of this case: the remaining budget is shared among the cases still queued
            now = time.time()
            waves = self.q.qsize() // self.nproc + 1
            slice_end = now + max(self.min_slice, 3.0 * (self.deadline - now) / waves)
            case_end = min(max(slice_end, now + 5), max(self.deadline, now + 5))
            hung = {"v": False}

            def _watchdog(p=proc, h=hung):
                # the worker checks its deadline between executions; one that is stuck inside an execution
                # (e.g. a goroutine of the code under test blocked on a mutex forever) never answers
                h["v"] = True
                try:
                    p.send_signal(signal.SIGQUIT)  # goroutine dump into the worker's stderr log
                    time.sleep(2)
                    p.kill()
                except OSError:
                    pass
            wd = threading.Timer(max(case_end - now, 0) + WORKER_HANG_GRACE, _watchdog)
            wd.daemon = True
            wd.start()
            try:
                proc.stdin.write("%d %d\n" % (c, int(case_end)))
                proc.stdin.flush()
                line = proc.stdout.readline()
            except (BrokenPipeError, OSError):
                line = ""
            wd.cancel()
            if not line:
                rc = proc.wait()
                if hung["v"]:
                    rc = "hung"
                errf.flush()
                tail = ""
                try:
                    with open(errf.name, "rb") as fh:
                        tail = fh.read()[-3000:].decode("utf-8", "replace")
                except OSError:
                    pass
                with self.lock:
                    self.crashes.append({"case": c, "rc": rc, "stderr": tail})
                proc = None
                continue
            try:
                r = json.loads(line)
            except ValueError:
                with self.lock:
                    self.errors.append("case %d: unparsable worker output: %r" % (c, line[:300]))
                continue
            with self.lock:
                self.results.append(r)
        if proc is not None and proc.poll() is None:
            try:
                proc.stdin.close()
                proc.wait(timeout=30)
            except Exception:
                proc.kill()


def crash_site(stderr):
    """First repository frame after the panic / fatal error line of a Go crash dump."""
    lines = stderr.splitlines()
    start = 0
    for i, l in enumerate(lines):
        if l.startswith("panic:") or l.startswith("fatal error:"):
            start = i
    for l in lines[start:]:
        l = l.strip()
        if ("els0r/goProbe" in l or "fako1024" in l) and "(" in l and not l.startswith("/"):
            fn = l[:l.rfind("(")]
            return fn[fn.rfind("/") + 1:]
    return "unknown"


def background_panic_site(stderr):
    """A worker that died of a Go panic raised in repository code (not in the runtime's own checks of
    the harness, not in harness code, not an out-of-memory / signal death): returns the first
    repository frame of the panicking goroutine, else None."""
    lines = stderr.splitlines()
    start = None
    for i, l in enumerate(lines):
        if l.startswith("panic:"):
            start = i
        if l.startswith("fatal error:"):
            return None
    if start is None:
        return None
    # the panicking goroutine's stack follows the first "goroutine N [running]:" after the panic line
    j = start
    while j < len(lines) and not (lines[j].startswith("goroutine ") and "[running" in lines[j]):
        j += 1
    for l in lines[j + 1:]:
        l = l.strip()
        if not l:
            break
        if l.startswith("/") or l.startswith("created by") or "(" not in l:
            continue
        fn = l[:l.rfind("(")]
        if fn.startswith("runtime.") or fn.startswith("panic") or fn.startswith("runtime/") or fn.startswith("internal/") or fn.startswith("sync.") or fn.startswith("sync/"):
            continue
        leaf = fn[fn.rfind("/") + 1:]          # e.g. capture.(*LocalBuffer).Next
        name = leaf.split(".")[-1]
        if "els0r/goProbe/v4/" in fn and "/verifshim/" not in fn and not name.startswith("Verif"):
            return leaf
        return None  # the first frame that is not the runtime's belongs to the harness or a library
    return None


def load_known():
    p = os.path.join(VERIF, "known_findings.json")
    if not os.path.exists(p):
        return []
    with open(p) as fh:
        return json.load(fh).get("findings", [])


def match_known(known, prop, sig):
    for k in known:
        if k.get("property") == prop and k.get("status") == "known" and fnmatch.fnmatchcase(sig, k.get("signature", "")):
            return k
    return None


def write_replay(prop, key, tier, bound, v):
    d = os.path.join(VERIF, "replays")
    os.makedirs(d, exist_ok=True)
    h = hashlib.sha1((key + "|" + v["signature"]).encode()).hexdigest()[:10]
    path = os.path.join(d, "%s-%s.json" % (prop, h))
    doc = dict(v)
    doc.update({"property": prop, "scenario": key, "tier": tier, "bound": bound,
                "replay_cmd": "./check %s --replay %s" % (prop, os.path.relpath(path, VERIF))})
    with open(path, "w") as fh:
        json.dump(doc, fh, indent=1)
    return path


def ensure_built(args, configs=("cgo",), race=False):
    os.makedirs(BUILD, exist_ok=True)
    tag = args.mutant_name or "base"
    outdir = os.path.join(BUILD, tag)
    os.makedirs(outdir, exist_ok=True)
    lock = open(os.path.join(BUILD, ".lock"), "w")
    fcntl.flock(lock, fcntl.LOCK_EX)
    try:
        ovjson, missing = gen_overlay(outdir, args.mutant_dir)
        bins = {}
        for c in configs:
            bins[c] = build(outdir, ovjson, c, race=race)
        # private copy so a concurrent check rebuilding the binary cannot disturb this run
        priv = {}
        for c, b in bins.items():
            pb = "%s.%d" % (b, os.getpid())
            shutil.copy2(b, pb)
            priv[c] = pb
        return priv, missing, ovjson
    finally:
        fcntl.flock(lock, fcntl.LOCK_UN)
        lock.close()


def main(argv):
    ap = argparse.ArgumentParser()
    ap.add_argument("prop")
    ap.add_argument("--tier", default=os.environ.get("VERIF_TIER", "quick"), choices=["quick", "thorough"])
    ap.add_argument("--replay")
    ap.add_argument("--mutant", help="directory with replacement files (repo-relative layout) applied through the overlay")
    ap.add_argument("--budget", type=float, help="wall-clock budget in seconds per scenario (exploration stops, exhaustive:false)")
    ap.add_argument("--only", help="run only this scenario key")
    ap.add_argument("--procs", type=int, default=NCPU)
    ap.add_argument("--no-evidence", action="store_true")
    args = ap.parse_args(argv)
    args.mutant_dir = os.path.abspath(args.mutant) if args.mutant else None
    args.mutant_name = ("mut-" + os.path.basename(args.mutant_dir.rstrip("/"))) if args.mutant else None
    try:
        seed = int(os.environ.get("VERIF_SEED", "0") or 0)
    except ValueError:
        seed = 0
    try:
        return run(args, seed)
    except ToolingError as e:
        print("TOOLING-ERROR property=%s: %s" % (args.prop, e))
        return 2


def sweep_scratch():
    """Remove scratch directories of worker processes that no longer exist (killed / crashed workers)."""
    for base in ("/dev/shm", "/tmp"):
        for d in glob.glob(os.path.join(base, "verifmc-*")):
            try:
                pid = int(d.rsplit("-", 1)[1])
            except ValueError:
                continue
            if not os.path.exists("/proc/%d" % pid):
                shutil.rmtree(d, ignore_errors=True)


def run(args, seed):
    prop, tier = args.prop, args.tier
    t0 = time.time()
    sweep_scratch()
    import props
    pcfg = props.PROPS.get(prop, {})
    configs = pcfg.get("configs", ("cgo",))
    bins, missing_hooks, ovjson = ensure_built(args, configs)
    try:
        return run_built(args, seed, bins, missing_hooks, ovjson, pcfg, t0)
    finally:
        for b in bins.values():
            try:
                os.remove(b)
            except OSError:
                pass


def run_built(args, seed, bins, missing_hooks, ovjson, pcfg, t0):
    prop, tier = args.prop, args.tier
    worker = bins["cgo"] if "cgo" in bins else list(bins.values())[0]
    infos = scenario_info(worker, prop, tier)
    if args.only:
        infos = [i for i in infos if i["Key"] == args.only]
    if not infos:
        raise ToolingError("no scenario registered for " + prop)

    if args.replay:
        with open(args.replay) as fh:
            doc = json.load(fh)
        key = doc["scenario"]
        p = subprocess.run([worker_for(bins, key), "-scen", key, "-tier", doc.get("tier", tier), "-replay", args.replay], env=worker_env(bins, 4))
        return p.returncode

    logdir = os.path.join(BUILD, "logs")
    os.makedirs(logdir, exist_ok=True)
    known = load_known()
    default_budget = {"quick": 75.0, "thorough": 1500.0}[tier]
    all_results, per_scen, tool_errors = [], [], []
    violations, known_hits = [], {}
    for inf in infos:
        key = inf["Key"]
        budget = args.budget or pcfg.get("budget", {}).get(tier) or default_budget
        deadline = time.time() + budget
        gmp = pcfg.get("gomaxprocs", 1)
        env = worker_env(bins, gmp)
        env.update(pcfg.get("env", {}))
        for f in glob.glob(os.path.join(logdir, key + ".*.err")):
            os.remove(f)
        ncases = inf["Cases"]
        pool = Pool(worker_for(bins, key), key, tier, ncases, deadline, args.procs, env, logdir)
        ts = time.time()
        pool.run()
        res = sorted(pool.results, key=lambda r: r["case"])
        agg = {"scenario": key, "name": inf["Name"], "cases": ncases, "cases_done": len(res), "wall_s": round(time.time() - ts, 2)}
        for f in ("executions", "reexecutions", "points", "transitions", "states", "outcomes", "nontrivial", "pruned", "replayed"):
            agg[f] = sum(r.get(f, 0) for r in res)
        agg["max_depth"] = max([r.get("max_depth", 0) for r in res] or [0])
        agg["bound_target"] = inf["Bound"]
        agg["bound_completed"] = min([r.get("bound_completed", -1) for r in res] or [-1])
        agg["capped_cases"] = sum(1 for r in res if r.get("capped"))
        agg["exhaustive"] = agg["capped_cases"] == 0 and len(res) == ncases and not pool.crashes
        for r in res:
            if r.get("harness_error"):
                tool_errors.append("%s case %d: %s" % (key, r["case"], r["harness_error"][:3000]))
            for v in r.get("violations") or []:
                k = match_known(known, prop, v["signature"])
                if k is not None:
                    e = known_hits.setdefault(k["signature"], {"k": k, "count": 0})
                    e["count"] += v.get("count", 1)
                else:
                    violations.append((key, r.get("bound_target", 0), v))
        for c in pool.crashes:
            if c["rc"] == "hung":
                tool_errors.append("%s: worker did not answer for %d s beyond the time slice of case %d and was killed (goroutine dump in its stderr log): %s" % (key, WORKER_HANG_GRACE, c["case"], c["stderr"][-1200:]))
                continue
            if inf.get("CrashSig"):
                site = crash_site(c["stderr"])
                v = {"case": c["case"], "signature": inf["CrashSig"] + ":" + site, "count": 1, "choices": [], "labels": [],
                     "message": "the worker process died while exploring case %d (rc=%s): %s" % (c["case"], c["rc"], c["stderr"][-2500:]),
                     "log": c["stderr"][-6000:].splitlines()}
                k = match_known(known, prop, v["signature"])
                if k is not None:
                    e = known_hits.setdefault(k["signature"], {"k": k, "count": 0})
                    e["count"] += 1
                else:
                    violations.append((key, inf["Bound"], v))
                continue
            site = background_panic_site(c["stderr"]) if inf.get("PanicSig") else None
            if site:
                # "never panics" is part of this scenario's property: a panic inside repository code in a
                # goroutine the scenario does not own kills the worker instead of reaching its recover()
                v = {"case": c["case"], "signature": inf["PanicSig"] + ":background:" + site, "count": 1, "choices": [], "labels": [],
                     "message": "the worker process died of a panic in a goroutine of the code under test while exploring case %d: %s" % (c["case"], c["stderr"][-2500:]),
                     "log": c["stderr"][-6000:].splitlines()}
                k = match_known(known, prop, v["signature"])
                if k is not None:
                    e = known_hits.setdefault(k["signature"], {"k": k, "count": 0})
                    e["count"] += 1
                else:
                    violations.append((key, inf["Bound"], v))
                continue
            tool_errors.append("%s: worker died on case %d (rc=%s): %s" % (key, c["case"], c["rc"], c["stderr"][-1500:]))
        tool_errors.extend(pool.errors)
        samples = []
        for r in res:
            for s in r.get("samples") or []:
                if len(samples) < 4:
                    samples.append({"scenario": key, "case": s["case"], "choices": s["choices"], "steps": (s.get("steps") or [])[:60]})
        agg["samples"] = samples
        per_scen.append((inf, agg))
        log("  %-14s cases=%d exec=%d states=%d outcomes=%d nontrivial=%d bound=%d/%d capped=%d viol=%d  %.1fs" % (
            key, ncases, agg["executions"], agg["states"], agg["outcomes"], agg["nontrivial"],
            agg["bound_completed"], agg["bound_target"], agg["capped_cases"],
            sum(len(r.get("violations") or []) for r in res), agg["wall_s"]))

    if tool_errors:
        for e in tool_errors[:5]:
            print("TOOLING-ERROR property=%s: %s" % (prop, e))
        return 2

    # ---- evidence
    level = pcfg.get("level") or per_scen[0][0]["Level"] or "exploration"  # the level claimed in MANIFEST (driver/props.py)
    tot = lambda f: sum(a[f] for _, a in per_scen)
    evaluations = tot("executions")
    nontriv = sum((a["nontrivial"] if a["nontrivial"] else a["outcomes"]) for _, a in per_scen)
    cov = {
        "evaluations": evaluations,
        "distinct_nontrivial": nontriv,
        "rule": " || ".join("%s: %s" % (i["Key"], i["Rule"]) for i, _ in per_scen),
        "samples": [s for _, a in per_scen for s in a["samples"]][:8],
        "exhaustive": all(a["exhaustive"] for _, a in per_scen),
        "choice_points": tot("points"),
        "transitions": tot("transitions"),
        "distinct_outcomes": tot("outcomes"),
        "reexecutions_for_bound_iteration": tot("reexecutions"),
        "deviation_bound_completed": min(a["bound_completed"] for _, a in per_scen),
        "deviation_bound_target": max(a["bound_target"] for _, a in per_scen),
        "scenarios": [{k: v for k, v in a.items() if k != "samples"} for _, a in per_scen],
        "violating_executions_replayed_twice": tot("replayed"),
        "known_findings_hit": [{"signature": s, "executions": e["count"]} for s, e in sorted(known_hits.items())],
        "hooks_not_applied": missing_hooks,
    }
    if level == "model_checking":
        cov["states"] = max(1, tot("states"))
        cov["traces_validated_against_impl"] = evaluations
        cov["explanation"] = "the explored object is the implementation itself: every execution is a trace run on the real code"
    assumptions = []
    for i, _ in per_scen:
        for a in i.get("Assumptions") or []:
            if a not in assumptions:
                assumptions.append(a)
    ev = {"property_id": prop, "tier": tier, "seed": seed, "level": level, "coverage": cov,
          "assumptions": assumptions, "wall_s": round(time.time() - t0, 2), "violations": len(violations)}
    if not args.no_evidence and not args.mutant_dir:
        os.makedirs(os.path.join(VERIF, "evidence"), exist_ok=True)
        tmp = os.path.join(VERIF, "evidence", ".%s.json.%d" % (prop, os.getpid()))
        with open(tmp, "w") as fh:
            json.dump(ev, fh, indent=1)
        os.replace(tmp, os.path.join(VERIF, "evidence", prop + ".json"))
    if evaluations == 0:
        print("TOOLING-ERROR property=%s: nothing was explored" % prop)
        return 2

    for s, e in sorted(known_hits.items()):
        print("KNOWN-FINDING: property=%s %s [signature %s, %d executions]" % (prop, e["k"].get("what", ""), s, e["count"]))
    rc = 0
    seen = set()
    for key, bound, v in violations:
        if (key, v["signature"]) in seen:
            continue
        seen.add((key, v["signature"]))
        path = write_replay(prop, key, tier, bound, v)
        print("VIOLATION property=%s replay=%s" % (prop, path))
        print("  scenario=%s signature=%s executions=%d\n  %s" % (key, v["signature"], v.get("count", 1), v["message"][:1200].replace("\n", "\n  ")))
        rc = 1
    bounds = "all deviation bounds completed" if all(a["bound_completed"] >= a["bound_target"] for _, a in per_scen) else \
        "bounds completed: " + ", ".join("%s %d/%d" % (a["scenario"], a["bound_completed"], a["bound_target"]) for _, a in per_scen)
    print("%s %s: %d executions, %d non-trivial distinct, exhaustive=%s, %s, %d violations, %d known findings, %.1fs" % (
        prop, tier, evaluations, nontriv, cov["exhaustive"], bounds, len(seen), len(known_hits), time.time() - t0))
    return rc


def worker_env(bins, gomaxprocs):
    env = dict(os.environ)
    env["GOMAXPROCS"] = str(gomaxprocs)
    env["VERIF_DIR"] = VERIF
    env["VERIF_REPO"] = REPO
    for c, b in bins.items():
        env["VERIF_BIN_" + c.upper()] = b
    scratch = "/dev/shm" if os.path.isdir("/dev/shm") and os.access("/dev/shm", os.W_OK) else "/tmp"
    env["VERIF_SCRATCH"] = scratch
    env.pop("GOFLAGS", None)
    return env
